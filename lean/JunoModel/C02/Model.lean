/-
C02 — model, part 1: hash terms and the preimages of every hash that block acceptance recomputes
(`core/block.go`, `core/transaction.go`, `core/receipt.go`, `core/state_update.go`).
Core Lean only: this file is linked into the driver executable `c02drv`.

Hashes are NOT computed. `Term` is the free term algebra over the primitives juno uses:
  * `felt n`      a literal field element (a natural number; `felt.SetBytes`/`SetUint64` results)
  * `ped a b`     `crypto.Pedersen(a, b)`
  * `pedN xs`     `crypto.PedersenArray(xs)` = `PedersenElems(xs...)` = a `PedersenDigest` fed `xs`
                  (chain `H(..H(H(0,x1),x2)..,xn)` closed with the element count)
  * `posN xs`     `crypto.PoseidonArray(xs)` = `PoseidonElems(xs...)` = a `PoseidonDigest` fed the
                  flat concatenation `xs` (the sponge has no framing between `Update` calls)
  * `keccak bs`   `crypto.StarknetKeccak(bs)`
  * `comm k ls`   root of the height-64 commitment trie (hash family `k`) whose leaf `i` is `ls[i]`
                  (`calculateCommitment`; kept abstract: an injective function of the ordered leaf list)
Every `*felt.Felt` field of the Go structs is a `Term` here (the symbolic / ideal-hash reading: a
field that holds a hash holds the term of that hash). Fields the code does arithmetic on
(`uint64`s, transaction version, resource-bound price, map keys that are sorted) are numbers.
The Go harness evaluates terms with the real primitives and compares with what juno computed.
-/
namespace Juno.C02

inductive HK | ped | pos
deriving DecidableEq, Repr, Inhabited

inductive Term where
  | felt (n : Nat)
  | ped (a b : Term)
  | pedN (xs : List Term)
  | posN (xs : List Term)
  | keccak (bs : List UInt8)
  | comm (k : HK) (leaves : List Term)
deriving Inhabited, Repr

mutual
def Term.decEq : (a b : Term) → Decidable (a = b)
  | .felt n1, .felt n2 =>
    match (inferInstance : Decidable (n1 = n2)) with
    | isFalse h => isFalse (by intro e; cases e; exact h rfl)
    | isTrue h0 =>
      isTrue (by subst_vars; rfl)
  | .felt _, .ped _ _ => isFalse (by intro e; cases e)
  | .felt _, .pedN _ => isFalse (by intro e; cases e)
  | .felt _, .posN _ => isFalse (by intro e; cases e)
  | .felt _, .keccak _ => isFalse (by intro e; cases e)
  | .felt _, .comm _ _ => isFalse (by intro e; cases e)
  | .ped _ _, .felt _ => isFalse (by intro e; cases e)
  | .ped a1 b1, .ped a2 b2 =>
    match Term.decEq a1 a2 with
    | isFalse h => isFalse (by intro e; cases e; exact h rfl)
    | isTrue h0 =>
      match Term.decEq b1 b2 with
      | isFalse h => isFalse (by intro e; cases e; exact h rfl)
      | isTrue h1 =>
        isTrue (by subst_vars; rfl)
  | .ped _ _, .pedN _ => isFalse (by intro e; cases e)
  | .ped _ _, .posN _ => isFalse (by intro e; cases e)
  | .ped _ _, .keccak _ => isFalse (by intro e; cases e)
  | .ped _ _, .comm _ _ => isFalse (by intro e; cases e)
  | .pedN _, .felt _ => isFalse (by intro e; cases e)
  | .pedN _, .ped _ _ => isFalse (by intro e; cases e)
  | .pedN xs1, .pedN xs2 =>
    match Term.decEqList xs1 xs2 with
    | isFalse h => isFalse (by intro e; cases e; exact h rfl)
    | isTrue h0 =>
      isTrue (by subst_vars; rfl)
  | .pedN _, .posN _ => isFalse (by intro e; cases e)
  | .pedN _, .keccak _ => isFalse (by intro e; cases e)
  | .pedN _, .comm _ _ => isFalse (by intro e; cases e)
  | .posN _, .felt _ => isFalse (by intro e; cases e)
  | .posN _, .ped _ _ => isFalse (by intro e; cases e)
  | .posN _, .pedN _ => isFalse (by intro e; cases e)
  | .posN xs1, .posN xs2 =>
    match Term.decEqList xs1 xs2 with
    | isFalse h => isFalse (by intro e; cases e; exact h rfl)
    | isTrue h0 =>
      isTrue (by subst_vars; rfl)
  | .posN _, .keccak _ => isFalse (by intro e; cases e)
  | .posN _, .comm _ _ => isFalse (by intro e; cases e)
  | .keccak _, .felt _ => isFalse (by intro e; cases e)
  | .keccak _, .ped _ _ => isFalse (by intro e; cases e)
  | .keccak _, .pedN _ => isFalse (by intro e; cases e)
  | .keccak _, .posN _ => isFalse (by intro e; cases e)
  | .keccak bs1, .keccak bs2 =>
    match (inferInstance : Decidable (bs1 = bs2)) with
    | isFalse h => isFalse (by intro e; cases e; exact h rfl)
    | isTrue h0 =>
      isTrue (by subst_vars; rfl)
  | .keccak _, .comm _ _ => isFalse (by intro e; cases e)
  | .comm _ _, .felt _ => isFalse (by intro e; cases e)
  | .comm _ _, .ped _ _ => isFalse (by intro e; cases e)
  | .comm _ _, .pedN _ => isFalse (by intro e; cases e)
  | .comm _ _, .posN _ => isFalse (by intro e; cases e)
  | .comm _ _, .keccak _ => isFalse (by intro e; cases e)
  | .comm k1 ls1, .comm k2 ls2 =>
    match (inferInstance : Decidable (k1 = k2)) with
    | isFalse h => isFalse (by intro e; cases e; exact h rfl)
    | isTrue h0 =>
      match Term.decEqList ls1 ls2 with
      | isFalse h => isFalse (by intro e; cases e; exact h rfl)
      | isTrue h1 =>
        isTrue (by subst_vars; rfl)
def Term.decEqList : (a b : List Term) → Decidable (a = b)
  | [], [] => isTrue rfl
  | [], _ :: _ => isFalse (by intro e; cases e)
  | _ :: _, [] => isFalse (by intro e; cases e)
  | x :: xs, y :: ys =>
    match Term.decEq x y with
    | isFalse h => isFalse (by intro e; cases e; exact h rfl)
    | isTrue h1 =>
      match Term.decEqList xs ys with
      | isFalse h => isFalse (by intro e; cases e; exact h rfl)
      | isTrue h2 => isTrue (by subst_vars; rfl)
end
instance : DecidableEq Term := Term.decEq

/-! ## Byte strings and literals -/

abbrev Bytes := List UInt8

/-- `felt.SetBytes`: big-endian number (the reduction mod P only matters for ≥ 32-byte strings). -/
def bytesToNat (bs : Bytes) : Nat := bs.foldl (fun acc b => acc * 256 + b.toNat) 0

def asciiBytes (s : String) : Bytes := s.toList.map (fun c => UInt8.ofNat c.toNat)

/-- `new(felt.Felt).SetBytes([]byte(s))` for an ASCII constant. -/
def strFelt (s : String) : Term := .felt (bytesToNat (asciiBytes s))

/-- the Stark field prime `P = 2^251 + 17·2^192 + 1`: `felt.SetBytes` reduces modulo it. -/
def starkPrime : Nat := 2 ^ 251 + 17 * 2 ^ 192 + 1

/-- `new(felt.Felt).SetBytes(bs)`: the big-endian value REDUCED modulo `P` (a byte string of 32 bytes
or more — or a 32-byte one with a large first byte — wraps around). -/
def setBytes (bs : Bytes) : Term := .felt (bytesToNat bs % starkPrime)

def u64 (x : UInt64) : Term := .felt x.toNat
def len (xs : List α) : Term := .felt xs.length

/-! ## Protocol version (`core/version.go`) -/

/-- `strings.Split(s, ".")` on bytes: always at least one part. -/
def splitDots : Bytes → List Bytes
  | [] => [[]]
  | b :: rest =>
    match splitDots rest with
    | [] => [[b]]            -- unreachable
    | p :: ps => if b = 46 then [] :: p :: ps else (b :: p) :: ps

/-- one step of `strconv.ParseUint`: a non-digit byte makes the parse fail for good -/
def digitStep (acc : Option Nat) (b : UInt8) : Option Nat :=
  match acc with
  | none => none
  | some a => if 48 ≤ b ∧ b ≤ 57 then some (a * 10 + (b.toNat - 48)) else none

/-- `strconv.ParseUint(s, 10, 64)`: non-empty, decimal digits only, value < 2^64. -/
def parseUint (bs : Bytes) : Option Nat :=
  if bs.isEmpty then none else
  match bs.foldl digitStep (some 0) with
  | some v => if v < 2 ^ 64 then some v else none
  | none => none

structure Ver where
  major : Nat
  minor : Nat
  patch : Nat
deriving DecidableEq, Repr

/-- SWITCH (the model follows the code). `true`: /repo since fix 2e0402b — `ParseBlockVersion` rejects
version strings longer than 31 bytes (they would not fit a field element unreduced). `false`: the code
before that commit (any length accepted). Tied by the `dispatch` / `bh` lines with 40-byte strings. -/
def versionLengthLimited : Bool := true

/-- `ParseBlockVersion`: empty string is 0.0.0; (since 2e0402b: at most 31 bytes;) only the first three
dot-separated parts are parsed, anything after them is ignored; missing parts are 0. -/
def parseVersionWith (lengthLimited : Bool) (v : Bytes) : Option Ver :=
  if v.isEmpty then some ⟨0, 0, 0⟩ else
  if lengthLimited && v.length > 31 then none else
  let parts := splitDots v
  let get (i : Nat) : Option Nat :=
    match parts[i]? with
    | none => some 0
    | some p => parseUint p
  match get 0, get 1, get 2 with
  | some a, some b, some c => some ⟨a, b, c⟩
  | _, _, _ => none

/-- `ParseBlockVersion` of the code as it is -/
def parseVersion (v : Bytes) : Option Ver := parseVersionWith versionLengthLimited v

/-- semver `GreaterThanEqual` without pre-release parts. -/
def Ver.ge (a b : Ver) : Bool :=
  a.major > b.major || (a.major == b.major && (a.minor > b.minor || (a.minor == b.minor && a.patch ≥ b.patch)))

def Ver.lt (a b : Ver) : Bool := !(a.ge b)

/-- `CheckBlockVersion`: supported iff major < 0 ∨ (major = 0 ∧ minor ≤ 14) (LatestVer = 0.14.1). -/
def versionSupported (v : Bytes) : Bool :=
  match parseVersion v with
  | none => false
  | some x => x.major < 0 || (x.major == 0 && x.minor ≤ 14)

/-! ## Records (one per Go struct; every field of the Go struct that any hash reads is present,
plus a few that no hash reads so that the exceptions can be stated) -/

structure GasPrice where
  wei : Option Term
  fri : Option Term
deriving DecidableEq, Repr, Inhabited

/-- `core.Header` without `EventsBloom` and `Signatures` (read by no hash). -/
structure Header where
  hash : Term
  parentHash : Term
  number : UInt64
  stateRoot : Term
  sequencer : Option Term
  txCount : UInt64
  eventCount : UInt64
  timestamp : UInt64
  version : Bytes
  l1GasPriceETH : Term
  l1GasPriceSTRK : Option Term
  l1DAMode : Nat
  l1DataGasPrice : Option GasPrice
  l2GasPrice : Option GasPrice
deriving DecidableEq, Repr, Inhabited

/-- `core.ResourceBounds`; `maxPrice = none` is a nil `MaxPricePerUnit`. -/
structure RB where
  maxAmount : UInt64
  maxPrice : Option Nat
deriving DecidableEq, Repr, Inhabited

/-- the three entries of `map[Resource]ResourceBounds` any hash looks up (keys 1, 2, 3). -/
structure Bounds where
  l1Gas : Option RB
  l2Gas : Option RB
  l1DataGas : Option RB
deriving DecidableEq, Repr, Inhabited

structure InvokeTx where
  hash : Term
  callData : List Term
  signature : List Term
  maxFee : Term
  contractAddress : Term
  version : Nat
  entryPointSelector : Term
  nonce : Term
  senderAddress : Term
  bounds : Bounds
  tip : UInt64
  paymasterData : List Term
  accountDeploymentData : List Term
  nonceDAMode : UInt32
  feeDAMode : UInt32
  proofFacts : List Term
deriving DecidableEq, Repr, Inhabited

structure DeclareTx where
  hash : Option Term
  classHash : Term
  senderAddress : Term
  maxFee : Term
  signature : List Term
  nonce : Term
  version : Nat
  compiledClassHash : Term
  bounds : Bounds
  tip : UInt64
  paymasterData : List Term
  accountDeploymentData : List Term
  nonceDAMode : UInt32
  feeDAMode : UInt32
deriving DecidableEq, Repr, Inhabited

structure DeployTx where
  hash : Option Term
  salt : Term
  contractAddress : Term
  classHash : Term
  ctorCallData : List Term
  version : Nat
deriving DecidableEq, Repr, Inhabited

structure DeployAccountTx where
  hash : Term
  salt : Term
  contractAddress : Term
  classHash : Term
  ctorCallData : List Term
  version : Nat
  maxFee : Term
  signature : List Term
  nonce : Term
  bounds : Bounds
  tip : UInt64
  paymasterData : List Term
  nonceDAMode : UInt32
  feeDAMode : UInt32
deriving DecidableEq, Repr, Inhabited

structure L1HandlerTx where
  hash : Term
  contractAddress : Term
  entryPointSelector : Term
  nonce : Option Term
  callData : List Term
  version : Nat
deriving DecidableEq, Repr, Inhabited

inductive Tx where
  | invoke (t : InvokeTx)
  | declare (t : DeclareTx)
  | deploy (t : DeployTx)
  | deployAccount (t : DeployAccountTx)
  | l1Handler (t : L1HandlerTx)
deriving DecidableEq, Repr, Inhabited

/-- `Transaction.Hash()`; `none` is a nil pointer. -/
def Tx.hash : Tx → Option Term
  | .invoke t => some t.hash
  | .declare t => t.hash
  | .deploy t => t.hash
  | .deployAccount t => some t.hash
  | .l1Handler t => some t.hash

/-- `Transaction.Signature()`: deploy and L1-handler transactions have the empty signature. -/
def Tx.signature : Tx → List Term
  | .invoke t => t.signature
  | .declare t => t.signature
  | .deploy _ => []
  | .deployAccount t => t.signature
  | .l1Handler _ => []

structure Event where
  «from» : Term
  keys : List Term
  data : List Term
deriving DecidableEq, Repr, Inhabited

/-- `core.L2ToL1Message`; `to` is the 20-byte Ethereum address read as a number. -/
structure Msg where
  «from» : Term
  payload : List Term
  to : Nat
deriving DecidableEq, Repr, Inhabited

/-- `core.GasConsumed`. -/
structure Gas where
  l1Gas : UInt64
  l1DataGas : UInt64
  l2Gas : UInt64
deriving DecidableEq, Repr, Inhabited

/-- `core.TransactionReceipt`. `totalGas = none`: `ExecutionResources` or its `TotalGasConsumed`
is nil. `feeUnit`, `steps` (standing for every other execution resource) and `l1ToL2` (standing
for the `L1ToL2Message`) are read by no hash. -/
structure Receipt where
  fee : Term
  feeUnit : Nat
  events : List Event
  totalGas : Option Gas
  steps : UInt64
  l1ToL2 : Option Term
  msgs : List Msg
  txHash : Term
  reverted : Bool
  revertReason : Bytes
deriving DecidableEq, Repr, Inhabited

/-- A Go map with felt keys is represented by its entries in increasing key order (the order in
which every digest below walks it, `sortedFeltKeys`). -/
abbrev FMap := List (Nat × Term)

/-- `core.StateDiff`. -/
structure StateDiff where
  storage : List (Nat × FMap)
  nonces : FMap
  deployed : FMap
  declaredV0 : List Nat
  declaredV1 : FMap
  replaced : FMap
  migrated : FMap
deriving DecidableEq, Repr, Inhabited

structure Block where
  header : Header
  txs : List Tx
  receipts : List Receipt
deriving DecidableEq, Repr, Inhabited

/-- `networks.Network`: what block and transaction hashes depend on. -/
structure Net where
  chainId : Term
  first07Block : UInt64
  unverifiable : Option (UInt64 × UInt64)
  fallbackSeq : Option Term
deriving DecidableEq, Repr, Inhabited

/-! ## Transaction hashes (`core/transaction.go`) -/

def queryBit : Nat := 2 ^ 128

/-- `TransactionVersion.Is(n)`: equality after dropping the query bit (2^128). -/
def verIs (v n : Nat) : Bool := (if v ≥ queryBit then v - queryBit else v) == n

/-- `ResourceBounds.Bytes(resource)` read back with `felt.FromBytes`:
`0x00 ‖ name ‖ amount (8 bytes) ‖ low 16 bytes of the price`. A nil price panics (`none`). -/
def rbFelt (name : String) (rb : Option RB) : Option Term :=
  match rb with
  | none => none
  | some r =>
    match r.maxPrice with
    | none => none
    | some p => some (.felt (bytesToNat (asciiBytes name) * 2 ^ 192 + r.maxAmount.toNat * 2 ^ 128 + p % 2 ^ 128))

/-- `tipAndResourcesHash`. The L1-data-gas bound is appended only when the map has the key and its
price is non-nil. -/
def tipAndResources (tip : UInt64) (b : Bounds) : Option Term :=
  match rbFelt "L1_GAS" b.l1Gas, rbFelt "L2_GAS" b.l2Gas with
  | some l1, some l2 =>
    let extra : List Term :=
      match b.l1DataGas with
      | some r => (match r.maxPrice with
                   | some _ => (match rbFelt "L1_DATA" (some r) with | some t => [t] | none => [])
                   | none => [])
      | none => []
    some (.posN ([u64 tip, l1, l2] ++ extra))
  | _, _ => none

/-- `dataAvailabilityMode(fee, nonce)`. -/
def daMode (fee nonce : UInt32) : Nat := fee.toNat + nonce.toNat * 2 ^ 32

def invokeFelt := strFelt "invoke"
def declareFelt := strFelt "declare"
def l1HandlerFelt := strFelt "l1_handler"
def deployAccountFelt := strFelt "deploy_account"

/-- `invokeTransactionHash`; `none` = invalid version error (or nil-pointer panic). -/
def invokeHash (chain : Term) (i : InvokeTx) : Option Term :=
  if verIs i.version 0 then
    some (.pedN [invokeFelt, .felt i.version, i.contractAddress, i.entryPointSelector,
                 .pedN i.callData, i.maxFee, chain])
  else if verIs i.version 1 then
    some (.pedN [invokeFelt, .felt i.version, i.senderAddress, .felt 0, .pedN i.callData, i.maxFee,
                 chain, i.nonce])
  else if verIs i.version 3 then
    match tipAndResources i.tip i.bounds with
    | none => none
    | some trb =>
      let base := [invokeFelt, .felt i.version, i.senderAddress, trb, .posN i.paymasterData, chain,
                   i.nonce, .felt (daMode i.feeDAMode i.nonceDAMode),
                   .posN i.accountDeploymentData, .posN i.callData]
      some (.posN (base ++ (if i.proofFacts.isEmpty then [] else [.posN i.proofFacts])))
  else none

/-- `declareTransactionHash`. Version 0: the declared hash is returned unverified (computed only
when it is nil). -/
def declareHash (chain : Term) (d : DeclareTx) : Option Term :=
  if verIs d.version 0 then
    match d.hash with
    | some h => some h
    | none => some (.pedN [declareFelt, .felt d.version, d.senderAddress, .felt 0, .pedN [], d.maxFee,
                           chain, d.classHash])
  else if verIs d.version 1 then
    some (.pedN [declareFelt, .felt d.version, d.senderAddress, .felt 0, .pedN [d.classHash], d.maxFee,
                 chain, d.nonce])
  else if verIs d.version 2 then
    some (.pedN [declareFelt, .felt d.version, d.senderAddress, .felt 0, .pedN [d.classHash], d.maxFee,
                 chain, d.nonce, d.compiledClassHash])
  else if verIs d.version 3 then
    match tipAndResources d.tip d.bounds with
    | none => none
    | some trb =>
      some (.posN [declareFelt, .felt d.version, d.senderAddress, trb, .posN d.paymasterData, chain,
                   d.nonce, .felt (daMode d.feeDAMode d.nonceDAMode), .posN d.accountDeploymentData,
                   d.classHash, d.compiledClassHash])
  else none

/-- `l1HandlerTransactionHash`: only version 0; with a nil nonce the declared hash is returned. -/
def l1HandlerHash (chain : Term) (l : L1HandlerTx) : Option Term :=
  if verIs l.version 0 then
    match l.nonce with
    | none => some l.hash
    | some n => some (.pedN [l1HandlerFelt, .felt l.version, l.contractAddress, l.entryPointSelector,
                             .pedN l.callData, .felt 0, chain, n])
  else none

/-- `deployAccountTransactionHash`: versions 1 and 3. -/
def deployAccountHash (chain : Term) (d : DeployAccountTx) : Option Term :=
  if verIs d.version 1 then
    some (.pedN [deployAccountFelt, .felt d.version, d.contractAddress, .felt 0,
                 .pedN ([d.classHash, d.salt] ++ d.ctorCallData), d.maxFee, chain, d.nonce])
  else if verIs d.version 3 then
    match tipAndResources d.tip d.bounds with
    | none => none
    | some trb =>
      some (.posN [deployAccountFelt, .felt d.version, d.contractAddress, trb, .posN d.paymasterData,
                   chain, d.nonce, .felt (daMode d.feeDAMode d.nonceDAMode), .posN d.ctorCallData,
                   d.classHash, d.salt])
  else none

/-- `core.TransactionHash`. Legacy deploy transactions: the declared hash (zero when nil). -/
def txHash (chain : Term) : Tx → Option Term
  | .invoke t => invokeHash chain t
  | .declare t => declareHash chain t
  | .deploy t => some (t.hash.getD (.felt 0))
  | .deployAccount t => deployAccountHash chain t
  | .l1Handler t => l1HandlerHash chain t

def v0_11_0 : Ver := ⟨0, 11, 0⟩
def v0_11_1 : Ver := ⟨0, 11, 1⟩
def v0_13_2 : Ver := ⟨0, 13, 2⟩
def v0_13_4 : Ver := ⟨0, 13, 4⟩

/-- SWITCH (the model follows the code). `false`: `/repo` as it is — `VerifyTransactions` accepts
declare-v0 and nonce-less L1-handler transactions (whose hash is not recomputed) in blocks of every
version. `true`: `/repo` with `proposed-fixes/C02-unverifiable-tx-kinds-in-new-blocks.diff` applied —
from 0.13.2 on they are rejected (`requireRecomputableHash`). The harness compares
`verifyTransactions` on exactly these transactions with the real function (op `vtx`), so a wrong
setting shows up as a correspondence mismatch. -/
def strictTxKinds : Bool := false

/-- `requireRecomputableHash` of the proposed fix. -/
def recomputable : Tx → Bool
  | .declare d => !verIs d.version 0
  | .l1Handler l => l.nonce.isSome
  | _ => true

/-- `VerifyTransactions`: from 0.11.0 on every transaction hash must recompute. -/
def verifyTransactions (chain : Term) (txs : List Tx) (version : Bytes) : Bool :=
  match parseVersion version with
  | none => false
  | some v =>
    if v.lt v0_11_0 then true
    else txs.all (fun t =>
      (!(strictTxKinds && v.ge v0_13_2) || recomputable t) &&
      (match txHash chain t, t.hash with
       | some c, some h => c == h
       | _, _ => false))

/-! ## Commitments -/

/-- leaf of `transactionCommitmentPoseidon0134`: `[hash] ++ signature`. -/
def txLeaf0134 (t : Tx) : Term := .posN (t.hash.getD (.felt 0) :: t.signature)

/-- leaf of `transactionCommitmentPoseidon0132`: an empty signature is hashed as `[0]`. -/
def txLeaf0132 (t : Tx) : Term :=
  .posN (t.hash.getD (.felt 0) :: (if t.signature.isEmpty then [.felt 0] else t.signature))

/-- leaf of `transactionCommitmentPedersen` (≥ 0.11.1: every signature; before: invoke only). -/
def txLeafPedersen (allSigs : Bool) (t : Tx) : Term :=
  let sig : List Term := if allSigs then t.signature else (match t with | .invoke i => i.signature | _ => [])
  .ped (t.hash.getD (.felt 0)) (.pedN sig)

/-- leaf of `eventCommitmentPoseidon`; `txHash` is the hash recorded in the receipt. -/
def eventLeaf (txHash : Term) (e : Event) : Term :=
  .posN ([e.from, txHash, len e.keys] ++ e.keys ++ [len e.data] ++ e.data)

def eventLeafPedersen (e : Event) : Term := .pedN [e.from, .pedN e.keys, .pedN e.data]

def eventLeaves (rs : List Receipt) : List Term :=
  rs.flatMap (fun r => r.events.map (eventLeaf r.txHash))

def eventLeavesPedersen (rs : List Receipt) : List Term :=
  rs.flatMap (fun r => r.events.map eventLeafPedersen)

def msgFlat (m : Msg) : List Term := [m.from, .felt m.to, len m.payload] ++ m.payload

/-- `messagesSentHash`. -/
def msgsHash (ms : List Msg) : Term := .posN (len ms :: ms.flatMap msgFlat)

/-- `TransactionReceipt.hash`. L2 gas is hard-wired to zero. -/
def receiptHash (r : Receipt) : Term :=
  let g : Gas := r.totalGas.getD ⟨0, 0, 0⟩
  .posN [r.txHash, r.fee, msgsHash r.msgs,
         (if r.reverted then .keccak r.revertReason else .felt 0),
         .felt 0, u64 g.l1Gas, u64 g.l1DataGas]

/-! ## State diff (`core/state_update.go`) -/

def flatPairs (m : FMap) : List Term := m.flatMap (fun kv => [.felt kv.1, kv.2])

/-- insert with override into a key-sorted list (`maps.Copy` into the merged map). -/
def insertKV (k : Nat) (v : Term) : FMap → FMap
  | [] => [(k, v)]
  | (k', v') :: rest =>
    if k < k' then (k, v) :: (k', v') :: rest
    else if k = k' then (k, v) :: rest
    else (k', v') :: insertKV k v rest

/-- `updatedContracts`: deployed entries overridden by replaced entries, in key order. -/
def updatedContracts (d : StateDiff) : FMap := d.replaced.foldl (fun acc kv => insertKV kv.1 kv.2 acc) d.deployed

def insertNat (k : Nat) : List Nat → List Nat
  | [] => [k]
  | k' :: rest => if k ≤ k' then k :: k' :: rest else k' :: insertNat k rest

/-- `slices.SortFunc` by felt order. -/
def sortNat (xs : List Nat) : List Nat := xs.foldr insertNat []

def lookup (k : Nat) : FMap → Option Term
  | [] => none
  | (k', v) :: rest => if k = k' then some v else lookup k rest

/-- `declaredClassesDigest`: keys of both maps sorted together (a key present in both appears
twice); each key emits the declared compiled hash if it is a declared class, else the migrated one. -/
def declaredPairs (d : StateDiff) : FMap :=
  (sortNat (d.declaredV1.map (·.1) ++ d.migrated.map (·.1))).map (fun k =>
    match lookup k d.declaredV1 with
    | some h => (k, h)
    | none => (k, (lookup k d.migrated).getD (.felt 0)))

def storageFlat (s : List (Nat × FMap)) : List Term :=
  s.flatMap (fun e => [.felt e.1, len e.2] ++ flatPairs e.2)

/-- the flat list a `StateDiff.Hash()` digest absorbs. -/
def stateDiffFlat (d : StateDiff) : List Term :=
  [strFelt "STARKNET_STATE_DIFF0"]
  ++ [.felt (d.deployed.length + d.replaced.length)] ++ flatPairs (updatedContracts d)
  ++ [.felt (d.declaredV1.length + d.migrated.length)] ++ flatPairs (declaredPairs d)
  ++ [len d.declaredV0] ++ (sortNat d.declaredV0).map .felt
  ++ [.felt 1, .felt 0]
  ++ [len d.storage] ++ storageFlat d.storage
  ++ [len d.nonces] ++ flatPairs d.nonces

def stateDiffHash (d : StateDiff) : Term := .posN (stateDiffFlat d)

/-- `StateDiff.Length()`. -/
def stateDiffLength (d : StateDiff) : Nat :=
  (d.storage.map (fun e => e.2.length)).sum + d.nonces.length + d.deployed.length + d.declaredV0.length
  + d.declaredV1.length + d.replaced.length + d.migrated.length

/-! ## Block hash (`core/block.go`) -/

/-- `ConcatCounts` as the 256-bit big-endian number of
`txCount(8) ‖ eventCount(8) ‖ stateDiffLen(8) ‖ daByte ‖ 0^7`; the DA bit is set iff mode = Blob (1). -/
def concatCounts (tx ev sd : UInt64) (da : Nat) : Nat :=
  tx.toNat * 2 ^ 192 + ev.toNat * 2 ^ 128 + sd.toNat * 2 ^ 64 + (if da = 1 then 2 ^ 63 else 0)

def sdLen64 (d : StateDiff) : UInt64 := UInt64.ofNat (stateDiffLength d)

inductive Format | pre07 | post07 | v0132 | v0134
deriving DecidableEq, Repr, Inhabited

/-- the dispatch of `core.BlockHash`. -/
def dispatch (net : Net) (number : UInt64) (version : Bytes) : Option Format :=
  match parseVersion version with
  | none => none
  | some v =>
    if v.ge v0_13_4 then some .v0134
    else if v.ge v0_13_2 then some .v0132
    else if number < net.first07Block then some .pre07
    else some .post07

def commonPrefix (tag : String) (h : Header) (seq : Term) (sd : StateDiff) (txLeaf : Tx → Term)
    (b : Block) : List Term :=
  [strFelt tag, u64 h.number, h.stateRoot, seq, u64 h.timestamp,
   .felt (concatCounts h.txCount h.eventCount (sdLen64 sd) h.l1DAMode % starkPrime),
   stateDiffHash sd, .comm .pos (b.txs.map txLeaf), .comm .pos (eventLeaves b.receipts),
   .comm .pos (b.receipts.map receiptHash)]

/-- `post0134Hash`; nil sequencer / STRK price / data-gas / L2-gas prices panic (`none`). -/
def post0134 (b : Block) (sd : StateDiff) : Option Term :=
  let h := b.header
  match h.sequencer, h.l1GasPriceSTRK, h.l1DataGasPrice, h.l2GasPrice with
  | some seq, some strk, some dg, some l2 =>
    match dg.wei, dg.fri, l2.wei, l2.fri with
    | some dw, some df, some lw, some lf =>
      let prices : Term := .posN [strFelt "STARKNET_GAS_PRICES0", h.l1GasPriceETH, strk, dw, df, lw, lf]
      some (.posN (commonPrefix "STARKNET_BLOCK_HASH1" h seq sd txLeaf0134 b
                   ++ [prices, setBytes h.version, .felt 0, h.parentHash]))
    | _, _, _, _ => none
  | _, _, _, _ => none

/-- `Post0132Hash`; nil sequencer / STRK price / data-gas prices are hashed as zero; the L2 gas
price is not part of this format. -/
def post0132 (b : Block) (sd : StateDiff) : Option Term :=
  let h := b.header
  let z : Term := .felt 0
  let dw := (h.l1DataGasPrice.bind (·.wei)).getD z
  let df := (h.l1DataGasPrice.bind (·.fri)).getD z
  some (.posN (commonPrefix "STARKNET_BLOCK_HASH0" h (h.sequencer.getD z) sd txLeaf0132 b
               ++ [h.l1GasPriceETH, h.l1GasPriceSTRK.getD z, dw, df, setBytes h.version, .felt 0,
                   h.parentHash]))

def pedTxComm (b : Block) : Option Term :=
  match parseVersion b.header.version with
  | none => none
  | some v => some (.comm .ped (b.txs.map (txLeafPedersen (v.ge v0_11_1))))

/-- `post07Hash` with the sequencer-address override of `VerifyBlockHash`. -/
def post07 (b : Block) (overrideSeq : Option Term) : Option Term :=
  let h := b.header
  match pedTxComm b, (match overrideSeq with | some s => some s | none => h.sequencer) with
  | some txc, some seq =>
    some (.pedN [u64 h.number, h.stateRoot, seq, u64 h.timestamp, u64 h.txCount, txc, u64 h.eventCount,
                 .comm .ped (eventLeavesPedersen b.receipts), .felt 0, .felt 0, h.parentHash])
  | _, _ => none

/-- `pre07Hash`. -/
def pre07 (b : Block) (chain : Term) : Option Term :=
  let h := b.header
  match pedTxComm b with
  | some txc =>
    some (.pedN [u64 h.number, h.stateRoot, .felt 0, .felt 0, u64 h.txCount, txc, .felt 0, .felt 0, .felt 0,
                 .felt 0, chain, h.parentHash])
  | none => none

/-- `core.BlockHash`. -/
def blockHash (net : Net) (b : Block) (sd : StateDiff) (overrideSeq : Option Term) : Option Term :=
  match dispatch net b.header.number b.header.version with
  | none => none
  | some .v0134 => post0134 b sd
  | some .v0132 => post0132 b sd
  | some .pre07 => pre07 b net.chainId
  | some .post07 => post07 b overrideSeq

end Juno.C02
