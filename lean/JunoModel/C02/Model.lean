/-
C02 — model, part 1: hash terms and the preimages of every hash that block acceptance recomputes
(`core/block.go`, `core/transaction.go`, `core/receipt.go`, `core/state_update.go`).
Core Lean only: this file is linked into the driver executable `c02drv`.

Hashes are NOT computed. `Term` is the free term algebra over the primitives juno uses:
  * `felt n`      a literal field element (a natural number; `felt.SetBytes`/`SetUint64` results)
  * `ped a b`     `crypto.Pedersen(a, b)`
  * `pedN xs`     `crypto.PedersenArray(xs)` = `PedersenElems(xs...)` = a `PedersenDigest` fed `xs`
                  (chain `H(..H(H(0,x1),x2)..,xn)` closed with the element count)
  * `posN xs`     `crypto.PoseidonArray(xs)` = `PoseidonElems(xs...)` = a `PoseidonDigest` fed the
                  flat concatenation `xs` (the sponge has no framing between `Update` calls)
  * `keccak bs`   `crypto.StarknetKeccak(bs)`
  * `comm k ls`   root of the height-64 commitment trie (hash family `k`) whose leaf `i` is `ls[i]`
                  (`calculateCommitment`; kept abstract: an injective function of the ordered leaf list)
Every `*felt.Felt` field of the Go structs is a `Term` here (the symbolic / ideal-hash reading: a
field that holds a hash holds the term of that hash). Fields the code does arithmetic on
(`uint64`s, transaction version, resource-bound price, map keys that are sorted) are numbers.
The Go harness evaluates terms with the real primitives and compares with what juno computed.
-/
namespace Juno.C02

inductive HK | ped | pos
deriving DecidableEq, Repr, Inhabited

inductive Term where
  | felt (n : Nat)
  | ped (a b : Term)
  | pedN (xs : List Term)
  | posN (xs : List Term)
  | keccak (bs : List UInt8)
  | comm (k : HK) (leaves : List Term)
deriving Inhabited, Repr

mutual
def Term.decEq : (a b : Term) → Decidable (a = b)
  | .felt n1, .felt n2 =>
    match (inferInstance : Decidable (n1 = n2)) with
    | isFalse h => isFalse (by intro e; cases e; exact h rfl)
    | isTrue h0 =>
      isTrue (by subst_vars; rfl)
  | .felt _, .ped _ _ => isFalse (by intro e; cases e)
  | .felt _, .pedN _ => isFalse (by intro e; cases e)
  | .felt _, .posN _ => isFalse (by intro e; cases e)
  | .felt _, .keccak _ => isFalse (by intro e; cases e)
  | .felt _, .comm _ _ => isFalse (by intro e; cases e)
  | .ped _ _, .felt _ => isFalse (by intro e; cases e)
  | .ped a1 b1, .ped a2 b2 =>
    match Term.decEq a1 a2 with
    | isFalse h => isFalse (by intro e; cases e; exact h rfl)
    | isTrue h0 =>
      match Term.decEq b1 b2 with
      | isFalse h => isFalse (by intro e; cases e; exact h rfl)
      | isTrue h1 =>
        isTrue (by subst_vars; rfl)
  | .ped _ _, .pedN _ => isFalse (by intro e; cases e)
  | .ped _ _, .posN _ => isFalse (by intro e; cases e)
  | .ped _ _, .keccak _ => isFalse (by intro e; cases e)
  | .ped _ _, .comm _ _ => isFalse (by intro e; cases e)
  | .pedN _, .felt _ => isFalse (by intro e; cases e)
  | .pedN _, .ped _ _ => isFalse (by intro e; cases e)
  | .pedN xs1, .pedN xs2 =>
    match Term.decEqList xs1 xs2 with
    | isFalse h => isFalse (by intro e; cases e; exact h rfl)
    | isTrue h0 =>
      isTrue (by subst_vars; rfl)
  | .pedN _, .posN _ => isFalse (by intro e; cases e)
  | .pedN _, .keccak _ => isFalse (by intro e; cases e)
  | .pedN _, .comm _ _ => isFalse (by intro e; cases e)
  | .posN _, .felt _ => isFalse (by intro e; cases e)
  | .posN _, .ped _ _ => isFalse (by intro e; cases e)
  | .posN _, .pedN _ => isFalse (by intro e; cases e)
  | .posN xs1, .posN xs2 =>
    match Term.decEqList xs1 xs2 with
    | isFalse h => isFalse (by intro e; cases e; exact h rfl)
    | isTrue h0 =>
      isTrue (by subst_vars; rfl)
  | .posN _, .keccak _ => isFalse (by intro e; cases e)
  | .posN _, .comm _ _ => isFalse (by intro e; cases e)
  | .keccak _, .felt _ => isFalse (by intro e; cases e)
  | .keccak _, .ped _ _ => isFalse (by intro e; cases e)
  | .keccak _, .pedN _ => isFalse (by intro e; cases e)
  | .keccak _, .posN _ => isFalse (by intro e; cases e)
  | .keccak bs1, .keccak bs2 =>
    match (inferInstance : Decidable (bs1 = bs2)) with
    | isFalse h => isFalse (by intro e; cases e; exact h rfl)
    | isTrue h0 =>
      isTrue (by subst_vars; rfl)
  | .keccak _, .comm _ _ => isFalse (by intro e; cases e)
  | .comm _ _, .felt _ => isFalse (by intro e; cases e)
  | .comm _ _, .ped _ _ => isFalse (by intro e; cases e)
  | .comm _ _, .pedN _ => isFalse (by intro e; cases e)
  | .comm _ _, .posN _ => isFalse (by intro e; cases e)
  | .comm _ _, .keccak _ => isFalse (by intro e; cases e)
  | .comm k1 ls1, .comm k2 ls2 =>
    match (inferInstance : Decidable (k1 = k2)) with
    | isFalse h => isFalse (by intro e; cases e; exact h rfl)
    | isTrue h0 =>
      match Term.decEqList ls1 ls2 with
      | isFalse h => isFalse (by intro e; cases e; exact h rfl)
      | isTrue h1 =>
        isTrue (by subst_vars; rfl)
def Term.decEqList : (a b : List Term) → Decidable (a = b)
  | [], [] => isTrue rfl
  | [], _ :: _ => isFalse (by intro e; cases e)
  | _ :: _, [] => isFalse (by intro e; cases e)
  | x :: xs, y :: ys =>
    match Term.decEq x y with
    | isFalse h => isFalse (by intro e; cases e; exact h rfl)
    | isTrue h1 =>
      match Term.decEqList xs ys with
      | isFalse h => isFalse (by intro e; cases e; exact h rfl)
      | isTrue h2 => isTrue (by subst_vars; rfl)
end
instance : DecidableEq Term := Term.decEq
