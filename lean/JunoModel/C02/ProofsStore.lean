import JunoModel.C02.Proofs
import JunoModel.C02.ModelStore
/-
C02 — proofs about the store-level model (`ModelStore.lean`): the key/value lemmas, the invariant
that ties the index store to the abstract chain (`DBInv`), the refinement `storeDB ⊑ storeTxn`, the
exact success condition of `Store`, what a stored block leaves in the indexes, the frame, the casm
metadata invariant, and the lift to all histories.
-/
namespace Juno.C02

/-! ### the key/value store -/

theorem IDB.get_erase (db : IDB) (k k' : IKey) : (db.erase k).get k' = if k' = k then none else db.get k' := by
  induction db with
  | nil => simp [IDB.erase, IDB.get]
  | cons e rest ih =>
    obtain ⟨ke, ve⟩ := e
    unfold IDB.erase at ih ⊢
    by_cases h : ke = k
    · subst h
      simp only [List.filter, decide_true, Bool.not_true]
      rw [ih]
      by_cases h2 : k' = ke
      · simp [h2]
      · have : ¬ ke = k' := fun e => h2 e.symm
        simp [h2, IDB.get, this]
    · simp only [List.filter, h, decide_false, Bool.not_false]
      by_cases h2 : ke = k'
      · subst h2
        simp [IDB.get, h]
      · simp only [IDB.get, h2, if_false]
        exact ih

theorem IDB.get_put (db : IDB) (k k' : IKey) (v : IVal) : (db.put k v).get k' = if k' = k then some v else db.get k' := by
  unfold IDB.put
  by_cases h : k = k'
  · subst h; simp [IDB.get]
  · have h' : ¬ k' = k := fun e => h e.symm
    simp only [IDB.get, h, if_false, h']
    rw [IDB.get_erase]
    simp [h']

theorem IDB.get_write (db : IDB) (op : IKey × Option IVal) (k' : IKey) :
    (db.write op).get k' = if k' = op.1 then op.2 else db.get k' := by
  unfold IDB.write
  cases h : op.2 with
  | none => simp [IDB.get_erase]
  | some v => simp [IDB.get_put]

theorem IDB.applyBatch_append (db : IDB) (a b : IBatch) : db.applyBatch (a ++ b) = (db.applyBatch a).applyBatch b := by
  simp [IDB.applyBatch, List.foldl_append]

theorem IDB.applyBatch_cons (db : IDB) (op : IKey × Option IVal) (b : IBatch) :
    db.applyBatch (op :: b) = (db.write op).applyBatch b := rfl

/-- frame: a key no operation of the batch names keeps its value -/
theorem IDB.get_applyBatch_frame : ∀ (b : IBatch) (db : IDB) (k : IKey), (∀ op ∈ b, op.1 ≠ k) →
    (db.applyBatch b).get k = db.get k
  | [], _, _, _ => rfl
  | op :: rest, db, k, h => by
    rw [IDB.applyBatch_cons, IDB.get_applyBatch_frame rest _ k (fun o ho => h o (by simp [ho])), IDB.get_write]
    have : ¬ k = op.1 := fun e => h op (by simp) e.symm
    simp [this]

/-- the last write to a key wins -/
theorem IDB.get_applyBatch_last (db : IDB) (b1 b2 : IBatch) (k : IKey) (v : Option IVal) (h : ∀ op ∈ b2, op.1 ≠ k) :
    (db.applyBatch (b1 ++ (k, v) :: b2)).get k = v := by
  rw [IDB.applyBatch_append, IDB.applyBatch_cons, IDB.get_applyBatch_frame b2 _ k h, IDB.get_write]
  simp

/-! ### which keys each part of `writeBlockContent` names -/

/-- the bucket of a key -/
def IKey.tag : IKey → Nat
  | .chainHeight => 0 | .headerByNumber _ => 1 | .numberByHash _ => 2 | .txIndexByHash _ => 3 | .blockTxs _ => 4
  | .stateUpdate _ => 5 | .commitments _ => 6 | .l1MsgHash _ => 7 | .casmMeta _ => 8

theorem ne_of_tag_ne {a b : IKey} (h : a.tag ≠ b.tag) : a ≠ b := fun e => h (by rw [e])

theorem txIndexWritesFrom_tag (n : UInt64) : ∀ (txs : List Tx) (i : UInt64), ∀ op ∈ txIndexWritesFrom n txs i, op.1.tag = 3
  | [], _, op, h => by simp [txIndexWritesFrom] at h
  | t :: ts, i, op, h => by
    simp only [txIndexWritesFrom, List.mem_cons] at h
    rcases h with rfl | h
    · rfl
    · exact txIndexWritesFrom_tag n ts (i + 1) op h

theorem l1Writes_tag : ∀ (txs : List Tx) (ws : IBatch), l1Writes txs = some ws → ∀ op ∈ ws, op.1.tag = 7
  | [], ws, h, op, hop => by
    simp [l1Writes] at h; subst h; simp at hop
  | t :: ts, ws, h, op, hop => by
    cases t with
    | l1Handler l =>
      simp only [l1Writes] at h
      cases hp : l1MsgPreimage l with
      | none => simp [hp] at h
      | some pre =>
        cases hr : l1Writes ts with
        | none => simp [hp, hr] at h
        | some rest =>
          simp only [hp, hr, Option.some.injEq] at h
          subst h
          rcases List.mem_cons.mp hop with rfl | hop
          · rfl
          · exact l1Writes_tag ts rest hr op hop
    | invoke _ => exact l1Writes_tag ts ws (by simpa [l1Writes] using h) op hop
    | declare _ => exact l1Writes_tag ts ws (by simpa [l1Writes] using h) op hop
    | deploy _ => exact l1Writes_tag ts ws (by simpa [l1Writes] using h) op hop
    | deployAccount _ => exact l1Writes_tag ts ws (by simpa [l1Writes] using h) op hop

theorem casmV1_tag (n : UInt64) (v2of : Nat → Nat) (cs : Classes) : ∀ (m : FMap) (ws : IBatch),
    casmV1 n v2of cs m = .ok ws → ∀ op ∈ ws, op.1.tag = 8
  | [], ws, h, op, hop => by
    simp [casmV1] at h; subst h; simp at hop
  | (c, casm) :: rest, ws, h, op, hop => by
    simp only [casmV1] at h
    split at h
    · simp at h
    · split at h
      · simp at h
      · split at h
        · simp at h
        · split at h
          · simp at h
          · rename_i ws' hr
            simp only [Except.ok.injEq] at h
            subst h
            rcases List.mem_cons.mp hop with rfl | hop
            · rfl
            · exact casmV1_tag n v2of cs rest ws' hr op hop

theorem casmV2Migrated_tag (db : IDB) (n : UInt64) : ∀ (m : FMap) (ws : IBatch),
    casmV2Migrated db n m = .ok ws → ∀ op ∈ ws, op.1.tag = 8
  | [], ws, h, op, hop => by
    simp [casmV2Migrated] at h; subst h; simp at hop
  | (c, x) :: rest, ws, h, op, hop => by
    simp only [casmV2Migrated] at h
    split at h
    · split at h
      · simp at h
      · split at h
        · simp at h
        · rename_i ws' hr
          simp only [Except.ok.injEq] at h
          subst h
          rcases List.mem_cons.mp hop with rfl | hop
          · rfl
          · exact casmV2Migrated_tag db n rest ws' hr op hop
    · simp at h

theorem casmV2DeclaredChecked_spec (n : UInt64) (cs : Classes) : ∀ (m : FMap) (ws : IBatch),
    casmV2DeclaredChecked n cs m = .ok ws → ∀ op ∈ ws, ∃ c ∈ m.map (·.1), ∃ v2, op = (.casmMeta c, some (.casm (CasmMeta.newV2 n v2)))
  | [], ws, h, op, hop => by
    simp [casmV2DeclaredChecked] at h; subst h; simp at hop
  | (c, casm) :: rest, ws, h, op, hop => by
    simp only [casmV2DeclaredChecked] at h
    split at h
    · simp at h
    · split at h
      · simp at h
      · split at h
        · simp at h
        · rename_i ws' hr
          simp only [Except.ok.injEq] at h
          subst h
          rcases List.mem_cons.mp hop with rfl | hop
          · exact ⟨c, by simp, _, rfl⟩
          · obtain ⟨c', hc', v2, e⟩ := casmV2DeclaredChecked_spec n cs rest ws' hr op hop
            exact ⟨c', by simp at hc' ⊢; exact Or.inr hc', v2, e⟩

theorem casmV1_spec (n : UInt64) (v2of : Nat → Nat) (cs : Classes) : ∀ (m : FMap) (ws : IBatch),
    casmV1 n v2of cs m = .ok ws → ∀ op ∈ ws, ∃ c ∈ m.map (·.1), ∃ v1 v2, op = (.casmMeta c, some (.casm (CasmMeta.newV1 n v1 v2)))
  | [], ws, h, op, hop => by
    simp [casmV1] at h; subst h; simp at hop
  | (c, casm) :: rest, ws, h, op, hop => by
    simp only [casmV1] at h
    split at h
    · simp at h
    · split at h
      · simp at h
      · split at h
        · simp at h
        · split at h
          · simp at h
          · rename_i ws' hr
            simp only [Except.ok.injEq] at h
            subst h
            rcases List.mem_cons.mp hop with rfl | hop
            · exact ⟨c, by simp, _, _, rfl⟩
            · obtain ⟨c', hc', v1, v2, e⟩ := casmV1_spec n v2of cs rest ws' hr op hop
              exact ⟨c', by simp at hc' ⊢; exact Or.inr hc', v1, v2, e⟩

theorem casmV2Migrated_spec (db : IDB) (n : UInt64) : ∀ (m : FMap) (ws : IBatch),
    casmV2Migrated db n m = .ok ws → ∀ op ∈ ws, ∃ c ∈ m.map (·.1), ∃ m0 m', db.get (.casmMeta c) = some (.casm m0) ∧
      m0.migrate n = .ok m' ∧ op = (.casmMeta c, some (.casm m'))
  | [], ws, h, op, hop => by
    simp [casmV2Migrated] at h; subst h; simp at hop
  | (c, x) :: rest, ws, h, op, hop => by
    simp only [casmV2Migrated] at h
    split at h
    · rename_i m0 hg
      split at h
      · simp at h
      · rename_i m' hm
        split at h
        · simp at h
        · rename_i ws' hr
          simp only [Except.ok.injEq] at h
          subst h
          rcases List.mem_cons.mp hop with rfl | hop
          · exact ⟨c, by simp, m0, m', hg, hm, rfl⟩
          · obtain ⟨c', hc', r⟩ := casmV2Migrated_spec db n rest ws' hr op hop
            exact ⟨c', by simp at hc' ⊢; exact Or.inr hc', r⟩
    · simp at h

/-- what the operations of a successful casm step are, for either variant of the V2 declared loop:
a fresh V1 / V2 entry (declared at this block) for a class of `declaredV1`, or the stored entry of a class
of `migrated` with `migratedAt` set to this block -/
def CasmOpSpec (db : IDB) (n : UInt64) (d : StateDiff) (op : IKey × Option IVal) : Prop :=
  (∃ c ∈ d.declaredV1.map (·.1), (∃ v1 v2, op = (.casmMeta c, some (.casm (CasmMeta.newV1 n v1 v2)))) ∨
      (∃ v2, op = (.casmMeta c, some (.casm (CasmMeta.newV2 n v2))))) ∨
  (∃ c ∈ d.migrated.map (·.1), ∃ m0 m', db.get (.casmMeta c) = some (.casm m0) ∧ m0.migrate n = .ok m' ∧
      op = (.casmMeta c, some (.casm m')))

theorem casmStepWith_spec (chk : Bool) (db : IDB) (h : Header) (d : StateDiff) (cs : Classes) (v2of : Nat → Nat) (ws : IBatch)
    (hc : casmStepWith chk db h d cs v2of = .ok ws) : ∀ op ∈ ws, CasmOpSpec db h.number d op := by
  unfold casmStepWith at hc
  split at hc
  · simp at hc; subst hc; simp
  · split at hc
    · split at hc
      · simp at hc
      · rename_i dw hdw
        split at hc
        · simp at hc
        · rename_i ws' hr
          simp only [Except.ok.injEq] at hc
          subst hc
          intro op hop
          rcases List.mem_append.mp hop with hop | hop
          · left
            cases chk with
            | true =>
              simp only [if_true] at hdw
              obtain ⟨c, hcm, v2, e⟩ := casmV2DeclaredChecked_spec _ _ _ _ hdw op hop
              exact ⟨c, hcm, Or.inr ⟨v2, e⟩⟩
            | false =>
              simp only [Bool.false_eq_true, if_false, Except.ok.injEq] at hdw
              subst hdw
              simp only [casmV2Declared, List.mem_map] at hop
              obtain ⟨kc, hkc, rfl⟩ := hop
              exact ⟨kc.1, List.mem_map.mpr ⟨kc, hkc, rfl⟩, Or.inr ⟨_, rfl⟩⟩
          · right
            exact casmV2Migrated_spec db h.number d.migrated ws' hr op hop
    · intro op hop
      left
      obtain ⟨c, hcm, v1, v2, e⟩ := casmV1_spec _ _ _ _ _ hc op hop
      exact ⟨c, hcm, Or.inl ⟨v1, v2, e⟩⟩

theorem casmOpSpec_tag {db : IDB} {n : UInt64} {d : StateDiff} {op : IKey × Option IVal} (h : CasmOpSpec db n d op) :
    op.1.tag = 8 := by
  rcases h with ⟨c, _, (⟨_, _, rfl⟩ | ⟨_, rfl⟩)⟩ | ⟨c, _, _, _, _, _, rfl⟩ <;> rfl

theorem casmStep_tag (db : IDB) (h : Header) (d : StateDiff) (cs : Classes) (v2of : Nat → Nat) (ws : IBatch)
    (hc : casmStep db h d cs v2of = .ok ws) : ∀ op ∈ ws, op.1.tag = 8 :=
  fun op hop => casmOpSpec_tag (casmStepWith_spec _ db h d cs v2of ws hc op hop)

/-- the shape of the batch of a successful `writeBlockContent` -/
theorem blockContentWrites_shape (db : IDB) (B : Bundle) (cid : Nat) (v2of : Nat → Nat) (ws : IBatch)
    (h : blockContentWrites db B cid v2of = .ok ws) :
    ∃ l1 cw, l1Writes B.block.txs = some l1 ∧ casmStep db B.block.header B.su.diff B.classes v2of = .ok cw ∧
      ws = headerWrites B.block.header ++ txWrites B.block.header.number B.block.txs B.block.receipts ++
        [(.stateUpdate B.block.header.number, some (.su B.su)), (.commitments B.block.header.number, some (.comms cid))] ++
        l1 ++ cw ++ [(.chainHeight, some (.num B.block.header.number))] := by
  unfold blockContentWrites blockContentWritesWith at h
  dsimp only at h
  split at h
  · simp at h
  · rename_i l1 hl1
    split at h
    · simp at h
    · rename_i cw hcw
      simp only [Except.ok.injEq] at h
      exact ⟨l1, cw, hl1, hcw, h.symm⟩

/-! ### the invariant tying the index store to the abstract chain -/

/-- the head the code derives from `ChainHeight` + `BlockHeadersByNumber` is the abstract head, and the
stored header of the head block is the head bundle's header -/
structure DBInv {σ : Type} (db : IDB) (c : Chain σ) : Prop where
  empty : c.head = none → db.get .chainHeight = none
  head : ∀ hd, c.head = some hd → db.get .chainHeight = some (.num hd.number) ∧
    ∃ B rest, c.stored = B :: rest ∧ B.block.header.number = hd.number ∧ B.block.header.hash = hd.hash ∧
      db.get (.headerByNumber hd.number) = some (.header B.block.header)

theorem DBInv.emptyNode {σ : Type} (st0 : σ) : DBInv (emptyNode st0).db (emptyNode st0).chain :=
  ⟨fun _ => rfl, fun hd h => by simp [Juno.C02.emptyNode] at h⟩

/-- reading the head from the store gives the abstract head -/
theorem headNumberAndHash_of_inv {σ : Type} (db : IDB) (c : Chain σ) (hi : DBInv db c) :
    headNumberAndHash db = (match c.head with | some hd => .ok hd | none => .error .notFound) := by
  cases hh : c.head with
  | none =>
    have := hi.empty hh
    simp [headNumberAndHash, getChainHeight, this]
  | some hd =>
    obtain ⟨h1, B, rest, _, hn, hhash, hg⟩ := hi.head hd hh
    simp only [headNumberAndHash, getChainHeight, h1, getHeaderByNumber, hg]
    rw [hhash]

/-- `verifyBlockSuccession` over the store decides exactly what the abstract one decides -/
theorem verifySuccessionDB_of_inv {σ : Type} (db : IDB) (c : Chain σ) (hi : DBInv db c) (h : Header) :
    verifySuccessionDB db h =
      (match verifySuccession c.head h with
       | .ok () => .ok ()
       | .error .version => .error .version
       | .error .number => .error .number
       | .error _ => .error .parent) := by
  unfold verifySuccessionDB verifySuccession
  rw [headNumberAndHash_of_inv db c hi]
  by_cases hv : versionSupported h.version = true
  · simp only [hv, Bool.not_true, Bool.false_eq_true, if_false]
    cases hh : c.head with
    | none =>
      simp only
      by_cases h1 : expectedNumber none = h.number
      · by_cases h2 : h.parentHash = expectedParent none <;> simp [h1, h2]
      · simp [h1]
    | some hd =>
      simp only
      by_cases h1 : expectedNumber (some hd) = h.number
      · by_cases h2 : h.parentHash = expectedParent (some hd) <;> simp [h1, h2]
      · simp [h1]
  · simp [hv]

theorem verifySuccessionDB_ok_iff {σ : Type} (db : IDB) (c : Chain σ) (hi : DBInv db c) (h : Header) :
    verifySuccessionDB db h = .ok () ↔ verifySuccession c.head h = .ok () := by
  rw [verifySuccessionDB_of_inv db c hi h]
  cases hv : verifySuccession c.head h with
  | ok u => simp
  | error e => cases e <;> simp

/-- on a node satisfying the invariant the new backend's read of the head's state root cannot fail
once the succession check has passed -/
theorem headStateRootDB_ok {σ : Type} (db : IDB) (c : Chain σ) (hi : DBInv db c) (h : Header)
    (hs : verifySuccession c.head h = .ok ()) : ∃ r, headStateRootDB db h = .ok r := by
  obtain ⟨_, hn, _⟩ := verifySuccession_ok c.head h hs
  unfold headStateRootDB
  by_cases h0 : h.number = 0
  · exact ⟨.felt 0, by simp [h0]⟩
  · cases hh : c.head with
    | none => rw [hh] at hn; simp [expectedNumber] at hn; exact absurd hn h0
    | some hd =>
      obtain ⟨_, B, rest, _, _, _, hg⟩ := hi.head hd hh
      rw [hh] at hn
      simp only [expectedNumber] at hn
      have : h.number - 1 = hd.number := by rw [hn]; exact UInt64.add_sub_cancel hd.number 1
      exact ⟨B.block.header.stateRoot, by simp [h0, this, getHeaderByNumber, hg]⟩

/-! ### refinement: the store-level `Store` against the abstract `storeTxn` -/

/-- what the store holds after a successful `Store` -/
theorem applied_gets (db : IDB) (B : Bundle) (cid : Nat) (v2of : Nat → Nat) (ws : IBatch)
    (h : blockContentWrites db B cid v2of = .ok ws) :
    (db.applyBatch ws).get .chainHeight = some (.num B.block.header.number) ∧
    (db.applyBatch ws).get (.headerByNumber B.block.header.number) = some (.header B.block.header) ∧
    (db.applyBatch ws).get (.numberByHash B.block.header.hash) = some (.num B.block.header.number) ∧
    (db.applyBatch ws).get (.blockTxs B.block.header.number) = some (.body B.block.txs B.block.receipts) ∧
    (db.applyBatch ws).get (.stateUpdate B.block.header.number) = some (.su B.su) ∧
    (db.applyBatch ws).get (.commitments B.block.header.number) = some (.comms cid) := by
  obtain ⟨l1, cw, hl1, hcw, rfl⟩ := blockContentWrites_shape db B cid v2of ws h
  have t1 := l1Writes_tag _ _ hl1
  have tc := casmStep_tag _ _ _ _ _ _ hcw
  have ti := txIndexWritesFrom_tag B.block.header.number B.block.txs 0
  refine ⟨?_, ?_, ?_, ?_, ?_, ?_⟩
  · have := IDB.get_applyBatch_last db
      (headerWrites B.block.header ++ txWrites B.block.header.number B.block.txs B.block.receipts ++
        [(.stateUpdate B.block.header.number, some (.su B.su)), (.commitments B.block.header.number, some (.comms cid))] ++ l1 ++ cw)
      [] .chainHeight (some (.num B.block.header.number)) (by simp)
    simpa [List.append_assoc] using this
  · have := IDB.get_applyBatch_last db [(.numberByHash B.block.header.hash, some (.num B.block.header.number))]
      (txWrites B.block.header.number B.block.txs B.block.receipts ++
        [(.stateUpdate B.block.header.number, some (.su B.su)), (.commitments B.block.header.number, some (.comms cid))] ++ l1 ++ cw ++
        [(.chainHeight, some (.num B.block.header.number))])
      (.headerByNumber B.block.header.number) (some (.header B.block.header)) (by
        intro op hop
        apply ne_of_tag_ne
        simp only [txWrites, List.mem_append, List.mem_cons, List.mem_nil_iff, or_false] at hop
        rcases hop with (((((hop | rfl) | (rfl | rfl)) | hop) | hop) | rfl)
        · rw [ti op hop]; simp [IKey.tag]
        · simp [IKey.tag]
        · simp [IKey.tag]
        · simp [IKey.tag]
        · rw [t1 op hop]; simp [IKey.tag]
        · rw [tc op hop]; simp [IKey.tag]
        · simp [IKey.tag])
    simpa [headerWrites, List.append_assoc] using this
  · have := IDB.get_applyBatch_last db []
      ((.headerByNumber B.block.header.number, some (.header B.block.header)) ::
        (txWrites B.block.header.number B.block.txs B.block.receipts ++
        [(.stateUpdate B.block.header.number, some (.su B.su)), (.commitments B.block.header.number, some (.comms cid))] ++ l1 ++ cw ++
        [(.chainHeight, some (.num B.block.header.number))]))
      (.numberByHash B.block.header.hash) (some (.num B.block.header.number)) (by
        intro op hop
        apply ne_of_tag_ne
        simp only [txWrites, List.mem_append, List.mem_cons, List.mem_nil_iff, or_false] at hop
        rcases hop with rfl | (((((hop | rfl) | (rfl | rfl)) | hop) | hop) | rfl)
        · simp [IKey.tag]
        · rw [ti op hop]; simp [IKey.tag]
        · simp [IKey.tag]
        · simp [IKey.tag]
        · simp [IKey.tag]
        · rw [t1 op hop]; simp [IKey.tag]
        · rw [tc op hop]; simp [IKey.tag]
        · simp [IKey.tag])
    simpa [headerWrites, List.append_assoc] using this
  · have := IDB.get_applyBatch_last db
      (headerWrites B.block.header ++ txIndexWritesFrom B.block.header.number B.block.txs 0)
      ([(.stateUpdate B.block.header.number, some (.su B.su)), (.commitments B.block.header.number, some (.comms cid))] ++ l1 ++ cw ++
        [(.chainHeight, some (.num B.block.header.number))])
      (.blockTxs B.block.header.number) (some (.body B.block.txs B.block.receipts)) (by
        intro op hop
        apply ne_of_tag_ne
        simp only [List.mem_append, List.mem_cons, List.mem_nil_iff, or_false] at hop
        rcases hop with ((((rfl | rfl)) | hop) | hop) | rfl
        · simp [IKey.tag]
        · simp [IKey.tag]
        · rw [t1 op hop]; simp [IKey.tag]
        · rw [tc op hop]; simp [IKey.tag]
        · simp [IKey.tag])
    simpa [txWrites, List.append_assoc] using this
  · have := IDB.get_applyBatch_last db
      (headerWrites B.block.header ++ txWrites B.block.header.number B.block.txs B.block.receipts)
      ([(.commitments B.block.header.number, some (.comms cid))] ++ l1 ++ cw ++ [(.chainHeight, some (.num B.block.header.number))])
      (.stateUpdate B.block.header.number) (some (.su B.su)) (by
        intro op hop
        apply ne_of_tag_ne
        simp only [List.mem_append, List.mem_cons, List.mem_nil_iff, or_false] at hop
        rcases hop with ((rfl | hop) | hop) | rfl
        · simp [IKey.tag]
        · rw [t1 op hop]; simp [IKey.tag]
        · rw [tc op hop]; simp [IKey.tag]
        · simp [IKey.tag])
    simpa [List.append_assoc] using this
  · have := IDB.get_applyBatch_last db
      (headerWrites B.block.header ++ txWrites B.block.header.number B.block.txs B.block.receipts ++
        [(.stateUpdate B.block.header.number, some (.su B.su))])
      (l1 ++ cw ++ [(.chainHeight, some (.num B.block.header.number))])
      (.commitments B.block.header.number) (some (.comms cid)) (by
        intro op hop
        apply ne_of_tag_ne
        simp only [List.mem_append, List.mem_cons, List.mem_nil_iff, or_false] at hop
        rcases hop with (hop | hop) | rfl
        · rw [t1 op hop]; simp [IKey.tag]
        · rw [tc op hop]; simp [IKey.tag]
        · simp [IKey.tag])
    simpa [List.append_assoc] using this

/-- unfolding of a successful callback -/
theorem storeCallback_ok {σ : Type} (nb : Bool) (sem : StateSem σ) (n : NodeS σ) (B : Bundle) (cid : Nat)
    (v2of : Nat → Nat) (ws : IBatch) (st' : σ) (h : storeCallback nb sem n B cid v2of = .ok (ws, st')) :
    verifySuccessionDB n.db B.block.header = .ok () ∧
    sem.root n.chain.st B.block.header.version = B.su.oldRoot ∧
    sem.apply n.chain.st B.block.header.number B.su.diff B.classes = some st' ∧
    sem.root st' B.block.header.version = B.su.newRoot ∧
    blockContentWrites n.db B cid v2of = .ok ws := by
  unfold storeCallback storeCallbackWith at h
  dsimp only at h
  split at h
  · simp at h
  · rename_i hs
    split at h
    · simp at h
    · split at h
      · simp at h
      · rename_i ho
        split at h
        · simp at h
        · rename_i st'' ha
          split at h
          · simp at h
          · rename_i hn
            split at h
            · simp at h
            · rename_i ws' hw
              simp only [Except.ok.injEq, Prod.mk.injEq] at h
              obtain ⟨rfl, rfl⟩ := h
              exact ⟨hs, by simpa using ho, ha, by simpa using hn, hw⟩

/-- REFINEMENT. On a node whose index store agrees with its abstract chain, a block the concrete
`Store` (either backend) stores is stored by the abstract `storeTxn` with the same resulting chain,
and the agreement is preserved. -/
theorem storeDB_refines {σ : Type} (nb : Bool) (sem : StateSem σ) (n n' : NodeS σ) (B : Bundle) (cid : Nat)
    (v2of : Nat → Nat) (hi : DBInv n.db n.chain) (h : storeDB nb sem n B cid v2of = .ok n') :
    storeTxn sem n.chain B = .ok n'.chain ∧ DBInv n'.db n'.chain := by
  unfold storeDB at h
  split at h
  · simp at h
  · rename_i ws st' hcb
    simp only [Except.ok.injEq] at h
    subst h
    obtain ⟨hs, ho, ha, hn, hw⟩ := storeCallback_ok nb sem n B cid v2of ws st' hcb
    have hs' := (verifySuccessionDB_ok_iff n.db n.chain hi B.block.header).mp hs
    refine ⟨?_, ?_⟩
    · unfold storeTxn
      simp [hs', ho, ha, hn]
    · obtain ⟨g0, g1, _⟩ := applied_gets n.db B cid v2of ws hw
      refine ⟨fun hnone => by simp at hnone, ?_⟩
      intro hd hhd
      simp only [Option.some.injEq] at hhd
      subst hhd
      exact ⟨g0, B, n.chain.stored, rfl, rfl, rfl, g1⟩

/-- COMPLETENESS of the refinement: what the concrete `Store` rejects although the abstract one accepts
is exactly a panic in `MessageHash` or a failing casm-metadata step (never an I/O class). -/
theorem storeDB_ok_iff {σ : Type} (nb : Bool) (sem : StateSem σ) (n : NodeS σ) (B : Bundle) (cid : Nat)
    (v2of : Nat → Nat) (hi : DBInv n.db n.chain) :
    (∃ n', storeDB nb sem n B cid v2of = .ok n') ↔
      ((∃ c', storeTxn sem n.chain B = .ok c') ∧ (l1Writes B.block.txs).isSome = true ∧
       ∃ cw, casmStep n.db B.block.header B.su.diff B.classes v2of = .ok cw) := by
  constructor
  · rintro ⟨n', h⟩
    have hr := (storeDB_refines nb sem n n' B cid v2of hi h).1
    unfold storeDB at h
    split at h
    · simp at h
    · rename_i ws st' hcb
      obtain ⟨_, _, _, _, hw⟩ := storeCallback_ok nb sem n B cid v2of ws st' hcb
      obtain ⟨l1, cw, hl1, hcw, _⟩ := blockContentWrites_shape n.db B cid v2of ws hw
      exact ⟨⟨_, hr⟩, by simp [hl1], cw, hcw⟩
  · rintro ⟨⟨c', hst⟩, hl1, cw, hcw⟩
    have hs := storeTxn_ok sem n.chain c' B hst
    have hsucc : verifySuccession n.chain.head B.block.header = .ok () := by
      unfold storeTxn at hst
      split at hst
      · simp at hst
      · rename_i hv; exact hv
    have hsdb := (verifySuccessionDB_ok_iff n.db n.chain hi B.block.header).mpr hsucc
    obtain ⟨r, hr⟩ := headStateRootDB_ok n.db n.chain hi B.block.header hsucc
    obtain ⟨l1, hl1'⟩ := Option.isSome_iff_exists.mp hl1
    have hcw' : casmStepWith casmV2RequiresDefinition n.db B.block.header B.su.diff B.classes v2of = .ok cw := hcw
    have hw : ∃ ws, blockContentWritesWith casmV2RequiresDefinition n.db B cid v2of = .ok ws := by
      unfold blockContentWritesWith
      simp [hl1', hcw']
    obtain ⟨ws, hw⟩ := hw
    have ho : sem.root n.chain.st B.block.header.version = B.su.oldRoot := hs.oldRoot
    have hn : sem.root c'.st B.block.header.version = B.su.newRoot := hs.newRoot
    refine ⟨⟨n.db.applyBatch ws, ⟨some ⟨B.block.header.number, B.block.header.hash⟩, c'.st, B :: n.chain.stored⟩⟩, ?_⟩
    unfold storeDB storeCallback storeCallbackWith
    cases nb <;> simp [hsdb, hr, ho, hs.applied, hn, hw]

/-- a rejected `Store` leaves the index store and the chain untouched (the batch is dropped) -/
theorem offerDB_reject {σ : Type} (nb : Bool) (sem : StateSem σ) (net : Net) (v2of : Nat → Nat) (n : NodeS σ)
    (Bc : Bundle × Nat) (e : RejectA) (h : acceptDB nb sem net n Bc.1 Bc.2 v2of = .error e) :
    offerDB nb sem net v2of n Bc = n := by
  unfold offerDB; rw [h]

/-! ### frame and indexes -/

/-- the keys a successful `Store` of `B` can write -/
def storeKeys (B : Bundle) (k : IKey) : Prop :=
  k = .chainHeight ∨ k = .headerByNumber B.block.header.number ∨ k = .numberByHash B.block.header.hash ∨
  k = .blockTxs B.block.header.number ∨ k = .stateUpdate B.block.header.number ∨ k = .commitments B.block.header.number ∨
  (∃ t ∈ B.block.txs, k = .txIndexByHash (t.hash.getD (.felt 0))) ∨
  (∃ l pre, Tx.l1Handler l ∈ B.block.txs ∧ l1MsgPreimage l = some pre ∧ k = .l1MsgHash pre) ∨
  (∃ c, (c ∈ B.su.diff.declaredV1.map (·.1) ∨ c ∈ B.su.diff.migrated.map (·.1)) ∧ k = .casmMeta c)

theorem txIndexWritesFrom_keys (n : UInt64) : ∀ (txs : List Tx) (i : UInt64), ∀ op ∈ txIndexWritesFrom n txs i,
    ∃ t ∈ txs, op.1 = .txIndexByHash (t.hash.getD (.felt 0))
  | [], _, op, h => by simp [txIndexWritesFrom] at h
  | t :: ts, i, op, h => by
    simp only [txIndexWritesFrom, List.mem_cons] at h
    rcases h with rfl | h
    · exact ⟨t, by simp, rfl⟩
    · obtain ⟨t', ht', e⟩ := txIndexWritesFrom_keys n ts (i + 1) op h
      exact ⟨t', by simp [ht'], e⟩

theorem l1Writes_keys : ∀ (txs : List Tx) (ws : IBatch), l1Writes txs = some ws → ∀ op ∈ ws,
    ∃ l pre, Tx.l1Handler l ∈ txs ∧ l1MsgPreimage l = some pre ∧ op.1 = .l1MsgHash pre
  | [], ws, h, op, hop => by
    simp [l1Writes] at h; subst h; simp at hop
  | t :: ts, ws, h, op, hop => by
    have lift : (∃ l pre, Tx.l1Handler l ∈ ts ∧ l1MsgPreimage l = some pre ∧ op.1 = .l1MsgHash pre) →
        ∃ l pre, Tx.l1Handler l ∈ t :: ts ∧ l1MsgPreimage l = some pre ∧ op.1 = .l1MsgHash pre := by
      rintro ⟨l, pre, hm, hp, e⟩; exact ⟨l, pre, by simp [hm], hp, e⟩
    cases t with
    | l1Handler l =>
      simp only [l1Writes] at h
      cases hp : l1MsgPreimage l with
      | none => simp [hp] at h
      | some pre =>
        cases hr : l1Writes ts with
        | none => simp [hp, hr] at h
        | some rest =>
          simp only [hp, hr, Option.some.injEq] at h
          subst h
          rcases List.mem_cons.mp hop with rfl | hop
          · exact ⟨l, pre, by simp, hp, rfl⟩
          · exact lift (l1Writes_keys ts rest hr op hop)
    | invoke _ => exact lift (l1Writes_keys ts ws (by simpa [l1Writes] using h) op hop)
    | declare _ => exact lift (l1Writes_keys ts ws (by simpa [l1Writes] using h) op hop)
    | deploy _ => exact lift (l1Writes_keys ts ws (by simpa [l1Writes] using h) op hop)
    | deployAccount _ => exact lift (l1Writes_keys ts ws (by simpa [l1Writes] using h) op hop)

theorem casmV1_keys (n : UInt64) (v2of : Nat → Nat) (cs : Classes) : ∀ (m : FMap) (ws : IBatch),
    casmV1 n v2of cs m = .ok ws → ∀ op ∈ ws, ∃ c ∈ m.map (·.1), op.1 = .casmMeta c
  | [], ws, h, op, hop => by
    simp [casmV1] at h; subst h; simp at hop
  | (c, casm) :: rest, ws, h, op, hop => by
    simp only [casmV1] at h
    split at h
    · simp at h
    · split at h
      · simp at h
      · split at h
        · simp at h
        · split at h
          · simp at h
          · rename_i ws' hr
            simp only [Except.ok.injEq] at h
            subst h
            rcases List.mem_cons.mp hop with rfl | hop
            · exact ⟨c, by simp, rfl⟩
            · obtain ⟨c', hc', e⟩ := casmV1_keys n v2of cs rest ws' hr op hop
              exact ⟨c', by simp at hc' ⊢; exact Or.inr hc', e⟩

theorem casmV2Migrated_keys (db : IDB) (n : UInt64) : ∀ (m : FMap) (ws : IBatch),
    casmV2Migrated db n m = .ok ws → ∀ op ∈ ws, ∃ c ∈ m.map (·.1), op.1 = .casmMeta c
  | [], ws, h, op, hop => by
    simp [casmV2Migrated] at h; subst h; simp at hop
  | (c, x) :: rest, ws, h, op, hop => by
    simp only [casmV2Migrated] at h
    split at h
    · split at h
      · simp at h
      · split at h
        · simp at h
        · rename_i ws' hr
          simp only [Except.ok.injEq] at h
          subst h
          rcases List.mem_cons.mp hop with rfl | hop
          · exact ⟨c, by simp, rfl⟩
          · obtain ⟨c', hc', e⟩ := casmV2Migrated_keys db n rest ws' hr op hop
            exact ⟨c', by simp at hc' ⊢; exact Or.inr hc', e⟩
    · simp at h

/-- FRAME: a successful `Store` changes no index key outside `storeKeys B` — in particular nothing
that belongs to another block number, another block / transaction hash, another class. -/
theorem storeDB_frame {σ : Type} (nb : Bool) (sem : StateSem σ) (n n' : NodeS σ) (B : Bundle) (cid : Nat)
    (v2of : Nat → Nat) (h : storeDB nb sem n B cid v2of = .ok n') (k : IKey) (hk : ¬ storeKeys B k) :
    n'.db.get k = n.db.get k := by
  unfold storeDB at h
  split at h
  · simp at h
  · rename_i ws st' hcb
    simp only [Except.ok.injEq] at h
    subst h
    obtain ⟨_, _, _, _, hw⟩ := storeCallback_ok nb sem n B cid v2of ws st' hcb
    obtain ⟨l1, cw, hl1, hcw, rfl⟩ := blockContentWrites_shape n.db B cid v2of ws hw
    apply IDB.get_applyBatch_frame
    intro op hop heq
    apply hk
    subst heq
    simp only [headerWrites, txWrites, List.mem_append, List.mem_cons, List.mem_nil_iff, or_false] at hop
    rcases hop with ((((((rfl | rfl) | (hop | rfl)) | (rfl | rfl)) | hop) | hop) | rfl)
    · exact Or.inr (Or.inr (Or.inl rfl))
    · exact Or.inr (Or.inl rfl)
    · exact Or.inr (Or.inr (Or.inr (Or.inr (Or.inr (Or.inr (Or.inl (txIndexWritesFrom_keys _ _ _ _ hop)))))))
    · exact Or.inr (Or.inr (Or.inr (Or.inl rfl)))
    · exact Or.inr (Or.inr (Or.inr (Or.inr (Or.inl rfl))))
    · exact Or.inr (Or.inr (Or.inr (Or.inr (Or.inr (Or.inl rfl)))))
    · exact Or.inr (Or.inr (Or.inr (Or.inr (Or.inr (Or.inr (Or.inr (Or.inl (l1Writes_keys _ _ hl1 _ hop))))))))
    · refine Or.inr (Or.inr (Or.inr (Or.inr (Or.inr (Or.inr (Or.inr (Or.inr ?_)))))))
      rcases casmStepWith_spec _ _ _ _ _ _ _ hcw op hop with ⟨c, hc, (⟨_, _, e⟩ | ⟨_, e⟩)⟩ | ⟨c, hc, _, _, _, _, e⟩
      · exact ⟨c, Or.inl hc, by rw [e]⟩
      · exact ⟨c, Or.inl hc, by rw [e]⟩
      · exact ⟨c, Or.inr hc, by rw [e]⟩
    · exact Or.inl rfl

/-- the transaction index after the loop of `WriteTransactionsAndReceipts`: position `i` is what the
index holds for the hash of `txs[i]` unless the same hash occurs again later in the block -/
theorem txIndex_get (n : UInt64) : ∀ (txs : List Tx) (start : UInt64) (db : IDB) (i : Nat) (t : Tx),
    txs[i]? = some t → (∀ j t', i < j → txs[j]? = some t' → t'.hash.getD (.felt 0) ≠ t.hash.getD (.felt 0)) →
    (db.applyBatch (txIndexWritesFrom n txs start)).get (.txIndexByHash (t.hash.getD (.felt 0)))
      = some (.txIdx n (start + UInt64.ofNat i))
  | [], _, _, i, t, hi, _ => by simp at hi
  | t0 :: ts, start, db, 0, t, hi, hlast => by
    simp only [List.getElem?_cons_zero, Option.some.injEq] at hi
    subst hi
    have := IDB.get_applyBatch_last db [] (txIndexWritesFrom n ts (start + 1)) (.txIndexByHash (t0.hash.getD (.felt 0)))
      (some (.txIdx n start)) (by
        intro op hop heq
        obtain ⟨t', ht', e⟩ := txIndexWritesFrom_keys n ts (start + 1) op hop
        obtain ⟨j, hj⟩ := List.getElem?_of_mem ht'
        rw [e] at heq
        injection heq with heq
        exact hlast (j + 1) t' (by omega) (by simpa using hj) heq)
    simpa [txIndexWritesFrom] using this
  | t0 :: ts, start, db, i + 1, t, hi, hlast => by
    simp only [List.getElem?_cons_succ] at hi
    have ih := txIndex_get n ts (start + 1) (db.write (.txIndexByHash (t0.hash.getD (.felt 0)), some (.txIdx n start))) i t hi
      (fun j t' hj hjt => hlast (j + 1) t' (by omega) (by simpa using hjt))
    simp only [txIndexWritesFrom, IDB.applyBatch_cons]
    rw [ih]
    congr 2
    have : UInt64.ofNat (i + 1) = 1 + UInt64.ofNat i := by
      rw [Nat.add_comm]; exact UInt64.ofNat_add 1 i
    rw [this, UInt64.add_assoc]

/-- INDEXES. After a successful `Store` every transaction of the block is found under its hash at
(block number, its position) — the LAST position if the hash occurs more than once. -/
theorem storeDB_tx_index {σ : Type} (nb : Bool) (sem : StateSem σ) (n n' : NodeS σ) (B : Bundle) (cid : Nat)
    (v2of : Nat → Nat) (h : storeDB nb sem n B cid v2of = .ok n') (i : Nat) (t : Tx)
    (hi : B.block.txs[i]? = some t)
    (hlast : ∀ j t', i < j → B.block.txs[j]? = some t' → t'.hash.getD (.felt 0) ≠ t.hash.getD (.felt 0)) :
    n'.db.get (.txIndexByHash (t.hash.getD (.felt 0))) = some (.txIdx B.block.header.number (UInt64.ofNat i)) := by
  unfold storeDB at h
  split at h
  · simp at h
  · rename_i ws st' hcb
    simp only [Except.ok.injEq] at h
    subst h
    obtain ⟨_, _, _, _, hw⟩ := storeCallback_ok nb sem n B cid v2of ws st' hcb
    obtain ⟨l1, cw, hl1, hcw, rfl⟩ := blockContentWrites_shape n.db B cid v2of ws hw
    have t1 := l1Writes_tag _ _ hl1
    have tc := casmStep_tag _ _ _ _ _ _ hcw
    -- the writes after the index loop do not touch the transaction index
    have hrest : ∀ op ∈ ([(IKey.blockTxs B.block.header.number, some (IVal.body B.block.txs B.block.receipts))] ++
        [(.stateUpdate B.block.header.number, some (.su B.su)), (.commitments B.block.header.number, some (.comms cid))] ++
        l1 ++ cw ++ [(.chainHeight, some (.num B.block.header.number))] : IBatch),
        op.1 ≠ .txIndexByHash (t.hash.getD (.felt 0)) := by
      intro op hop
      apply ne_of_tag_ne
      simp only [List.mem_append, List.mem_cons, List.mem_nil_iff, or_false] at hop
      rcases hop with (((rfl | (rfl | rfl)) | hop) | hop) | rfl
      · simp [IKey.tag]
      · simp [IKey.tag]
      · simp [IKey.tag]
      · rw [t1 op hop]; simp [IKey.tag]
      · rw [tc op hop]; simp [IKey.tag]
      · simp [IKey.tag]
    have e : headerWrites B.block.header ++ txWrites B.block.header.number B.block.txs B.block.receipts ++
        [(.stateUpdate B.block.header.number, some (.su B.su)), (.commitments B.block.header.number, some (.comms cid))] ++
        l1 ++ cw ++ [(.chainHeight, some (.num B.block.header.number))]
        = headerWrites B.block.header ++ (txIndexWritesFrom B.block.header.number B.block.txs 0 ++
          ([(IKey.blockTxs B.block.header.number, some (IVal.body B.block.txs B.block.receipts))] ++
        [(.stateUpdate B.block.header.number, some (.su B.su)), (.commitments B.block.header.number, some (.comms cid))] ++
        l1 ++ cw ++ [(.chainHeight, some (.num B.block.header.number))])) := by
      simp [txWrites, List.append_assoc]
    rw [e, IDB.applyBatch_append, IDB.applyBatch_append, IDB.get_applyBatch_frame _ _ _ hrest]
    have := txIndex_get B.block.header.number B.block.txs 0 (n.db.applyBatch (headerWrites B.block.header)) i t hi hlast
    simpa using this

/-! ### casm metadata -/

/-- `Migrate` succeeds exactly on a class declared with the V1 hash, strictly before, not yet migrated -/
theorem migrate_ok_iff (m : CasmMeta) (at_ : UInt64) :
    (∃ m', m.migrate at_ = .ok m') ↔ (m.casmHashV1.isSome = true ∧ m.declaredAt < at_ ∧ m.migratedAt = 0) := by
  unfold CasmMeta.migrate CasmMeta.isDeclaredWithV2 CasmMeta.isMigrated
  cases hv : m.casmHashV1 with
  | none => simp
  | some v1 =>
    simp only [Option.isNone_some, Bool.false_eq_true, if_false, Option.isSome_some, true_and]
    by_cases h1 : at_ ≤ m.declaredAt
    · simp only [h1, if_true]
      constructor
      · rintro ⟨_, h⟩; cases h
      · rintro ⟨h, _⟩; exact absurd h1 (UInt64.not_le.mpr h)
    · simp only [h1, if_false]
      by_cases h2 : m.migratedAt > 0
      · simp only [h2, decide_true, if_true]
        constructor
        · rintro ⟨_, h⟩; cases h
        · rintro ⟨_, h⟩; rw [h] at h2; exact absurd h2 (by decide)
      · simp only [h2, decide_false, Bool.false_eq_true, if_false]
        constructor
        · intro _
          refine ⟨UInt64.not_le.mp h1, ?_⟩
          have : m.migratedAt ≤ 0 := UInt64.not_lt.mp h2
          exact UInt64.le_antisymm this (UInt64.zero_le)
        · intro _; exact ⟨_, rfl⟩

/-- the hash a metadata entry answers for a height, after a declaration with the V1 hash at `d` and a
migration at `m > d`: nothing below `d`, the V1 hash in `[d, m)`, the V2 hash from `m` on -/
theorem casmHashAt_after_migrate (d at_ : UInt64) (v1 v2 : Nat) (m' : CasmMeta)
    (hm : (CasmMeta.newV1 d v1 v2).migrate at_ = .ok m') (height : UInt64) :
    m'.casmHashAt height = if height < d then none else if height < at_ then some v1 else some v2 := by
  have hd : d < at_ := ((migrate_ok_iff _ _).mp ⟨m', hm⟩).2.1
  have hpos : at_ > 0 := by
    have : (0 : UInt64) ≤ d := UInt64.zero_le
    exact UInt64.lt_of_le_of_lt this hd
  unfold CasmMeta.migrate CasmMeta.newV1 CasmMeta.isDeclaredWithV2 CasmMeta.isMigrated at hm
  simp only [Option.isNone_some, Bool.false_eq_true, if_false] at hm
  have h1 : ¬ at_ ≤ d := UInt64.not_le.mpr hd
  simp only [h1, if_false] at hm
  have h0 : ¬ ((0 : UInt64) > 0) := by decide
  simp only [h0, decide_false, Bool.false_eq_true, if_false, Except.ok.injEq] at hm
  subst hm
  unfold CasmMeta.casmHashAt CasmMeta.isDeclaredWithV2 CasmMeta.isMigratedAt
  simp only [Option.isNone_some, Bool.false_or, hpos, decide_true, Bool.true_and, Option.getD_some]
  by_cases hh : height < d
  · have : d > height := hh
    simp [this]
  · have : ¬ d > height := hh
    simp only [this, if_false]
    by_cases hh2 : height < at_
    · have : ¬ at_ ≤ height := UInt64.not_le.mpr hh2
      simp [this, hh2]
    · have : at_ ≤ height := UInt64.not_lt.mp hh2
      simp [this, hh2]

theorem casmV1_vals (n : UInt64) (v2of : Nat → Nat) (cs : Classes) : ∀ (m : FMap) (ws : IBatch),
    casmV1 n v2of cs m = .ok ws → ∀ op ∈ ws, ∃ c v1 v2, op = (.casmMeta c, some (.casm (CasmMeta.newV1 n v1 v2)))
  | [], ws, h, op, hop => by
    simp [casmV1] at h; subst h; simp at hop
  | (c, casm) :: rest, ws, h, op, hop => by
    simp only [casmV1] at h
    split at h
    · simp at h
    · split at h
      · simp at h
      · split at h
        · simp at h
        · split at h
          · simp at h
          · rename_i ws' hr
            simp only [Except.ok.injEq] at h
            subst h
            rcases List.mem_cons.mp hop with rfl | hop
            · exact ⟨c, _, _, rfl⟩
            · exact casmV1_vals n v2of cs rest ws' hr op hop

theorem casmV2Migrated_vals (db : IDB) (n : UInt64) : ∀ (m : FMap) (ws : IBatch),
    casmV2Migrated db n m = .ok ws → ∀ op ∈ ws, ∃ c m0 m', db.get (.casmMeta c) = some (.casm m0) ∧
      m0.migrate n = .ok m' ∧ op = (.casmMeta c, some (.casm m'))
  | [], ws, h, op, hop => by
    simp [casmV2Migrated] at h; subst h; simp at hop
  | (c, x) :: rest, ws, h, op, hop => by
    simp only [casmV2Migrated] at h
    split at h
    · rename_i m0 hg
      split at h
      · simp at h
      · rename_i m' hm
        split at h
        · simp at h
        · rename_i ws' hr
          simp only [Except.ok.injEq] at h
          subst h
          rcases List.mem_cons.mp hop with rfl | hop
          · exact ⟨c, m0, m', hg, hm, rfl⟩
          · exact casmV2Migrated_vals db n rest ws' hr op hop
    · simp at h

/-- the value a batch leaves under a key is the old one or the value of one of its operations on that key -/
theorem IDB.get_applyBatch_mem : ∀ (b : IBatch) (db : IDB) (k : IKey),
    (db.applyBatch b).get k = db.get k ∨ ∃ op ∈ b, op.1 = k ∧ (db.applyBatch b).get k = op.2
  | [], _, _ => Or.inl rfl
  | op :: rest, db, k => by
    rw [IDB.applyBatch_cons]
    rcases IDB.get_applyBatch_mem rest (db.write op) k with h | ⟨op', hm, hk, hv⟩
    · by_cases e : k = op.1
      · right; refine ⟨op, by simp, e.symm, ?_⟩; rw [h, IDB.get_write]; simp [e]
      · left; rw [h, IDB.get_write]; simp [e]
    · right; exact ⟨op', by simp [hm], hk, hv⟩

/-- casm entries of the store, relative to the head: there are none on an empty chain; otherwise each
was declared at or below the head and is either not migrated or migrated strictly after its
declaration and at or below the head; entries declared with the V2 hash are never migrated -/
def CasmInv (db : IDB) (head : Option Head) : Prop :=
  ∀ c m, db.get (.casmMeta c) = some (.casm m) →
    ∃ hd, head = some hd ∧ m.declaredAt ≤ hd.number ∧
      (m.migratedAt = 0 ∨ (m.declaredAt < m.migratedAt ∧ m.migratedAt ≤ hd.number)) ∧
      (m.casmHashV1 = none → m.migratedAt = 0)

theorem casmV2Declared_vals (n : UInt64) (d : FMap) : ∀ op ∈ casmV2Declared n d,
    ∃ c v2, op = (.casmMeta c, some (.casm (CasmMeta.newV2 n v2))) := by
  intro op hop
  simp only [casmV2Declared, List.mem_map] at hop
  obtain ⟨kc, _, rfl⟩ := hop
  exact ⟨_, _, rfl⟩

/-- the values the casm step writes: fresh V1 / V2 entries declared at this block, or the stored
entry of a migrated class with `migratedAt` set to this block -/
theorem casmStep_vals (db : IDB) (h : Header) (d : StateDiff) (cs : Classes) (v2of : Nat → Nat) (ws : IBatch)
    (hc : casmStep db h d cs v2of = .ok ws) : ∀ op ∈ ws,
    (∃ c v1 v2, op = (.casmMeta c, some (.casm (CasmMeta.newV1 h.number v1 v2)))) ∨
    (∃ c v2, op = (.casmMeta c, some (.casm (CasmMeta.newV2 h.number v2)))) ∨
    (∃ c m0 m', db.get (.casmMeta c) = some (.casm m0) ∧ m0.migrate h.number = .ok m' ∧ op = (.casmMeta c, some (.casm m'))) := by
  intro op hop
  rcases casmStepWith_spec _ db h d cs v2of ws hc op hop with ⟨c, _, (⟨v1, v2, e⟩ | ⟨v2, e⟩)⟩ | ⟨c, _, m0, m', hg, hm, e⟩
  · exact Or.inl ⟨c, v1, v2, e⟩
  · exact Or.inr (Or.inl ⟨c, v2, e⟩)
  · exact Or.inr (Or.inr ⟨c, m0, m', hg, hm, e⟩)

/-- `CasmInv` is preserved by a successful `Store` of a block whose number is above the head's
(no `uint64` wrap-around of the block number) -/
theorem storeDB_casmInv {σ : Type} (nb : Bool) (sem : StateSem σ) (n n' : NodeS σ) (B : Bundle) (cid : Nat)
    (v2of : Nat → Nat) (hc : CasmInv n.db n.chain.head)
    (habove : ∀ hd, n.chain.head = some hd → hd.number < B.block.header.number)
    (h : storeDB nb sem n B cid v2of = .ok n') : CasmInv n'.db n'.chain.head := by
  unfold storeDB at h
  split at h
  · simp at h
  · rename_i ws st' hcb
    simp only [Except.ok.injEq] at h
    subst h
    obtain ⟨_, _, _, _, hw⟩ := storeCallback_ok nb sem n B cid v2of ws st' hcb
    obtain ⟨l1, cw, hl1, hcw, rfl⟩ := blockContentWrites_shape n.db B cid v2of ws hw
    have t1 := l1Writes_tag _ _ hl1
    have ti := txIndexWritesFrom_tag B.block.header.number B.block.txs 0
    intro c m hg
    refine ⟨⟨B.block.header.number, B.block.header.hash⟩, rfl, ?_⟩
    dsimp only
    rcases IDB.get_applyBatch_mem _ n.db (.casmMeta c) with hold | ⟨op, hop, hk, hv⟩
    · -- untouched entry
      rw [hold] at hg
      obtain ⟨hd, hhd, h1, h2, h3⟩ := hc c m hg
      have hlt := habove hd hhd
      refine ⟨UInt64.le_of_lt (UInt64.lt_of_le_of_lt h1 hlt), ?_, h3⟩
      rcases h2 with h2 | ⟨h2, h2'⟩
      · exact Or.inl h2
      · exact Or.inr ⟨h2, UInt64.le_of_lt (UInt64.lt_of_le_of_lt h2' hlt)⟩
    · -- written by the batch: the operation belongs to the casm step
      rw [hv] at hg
      have hin : op ∈ cw := by
        simp only [headerWrites, txWrites, List.mem_append, List.mem_cons, List.mem_nil_iff, or_false] at hop
        have tg : op.1.tag = 8 := by rw [hk]; rfl
        rcases hop with ((((((rfl | rfl) | (hop | rfl)) | (rfl | rfl)) | hop) | hop) | rfl)
        · simp [IKey.tag] at tg
        · simp [IKey.tag] at tg
        · rw [ti op hop] at tg; simp at tg
        · simp [IKey.tag] at tg
        · simp [IKey.tag] at tg
        · simp [IKey.tag] at tg
        · rw [t1 op hop] at tg; simp at tg
        · exact hop
        · simp [IKey.tag] at tg
      rcases casmStep_vals _ _ _ _ _ _ hcw op hin with ⟨c', v1, v2, rfl⟩ | ⟨c', v2, rfl⟩ | ⟨c', m0, m', hg0, hm, rfl⟩
      · simp only [Option.some.injEq, IVal.casm.injEq] at hg
        subst hg
        exact ⟨UInt64.le_refl _, Or.inl rfl, fun hh => by simp [CasmMeta.newV1] at hh⟩
      · simp only [Option.some.injEq, IVal.casm.injEq] at hg
        subst hg
        exact ⟨UInt64.le_refl _, Or.inl rfl, fun _ => rfl⟩
      · simp only [Option.some.injEq, IVal.casm.injEq] at hg
        subst hg
        obtain ⟨hv1, hlt, hz⟩ := (migrate_ok_iff m0 B.block.header.number).mp ⟨_, hm⟩
        unfold CasmMeta.migrate at hm
        split at hm
        · simp at hm
        · split at hm
          · simp at hm
          · split at hm
            · simp at hm
            · simp only [Except.ok.injEq] at hm
              subst hm
              refine ⟨UInt64.le_of_lt hlt, Or.inr ⟨hlt, UInt64.le_refl _⟩, ?_⟩
              intro hnone
              dsimp only at hnone
              rw [hnone] at hv1
              simp at hv1

/-- on a store satisfying `CasmInv`, the guard `migratedAt <= declaredAt` of `Migrate` can never be the
reason `Store` rejects a block numbered above the head: `ErrCannotMigrateBeforeDeclared` is
unreachable through `Store` -/
theorem casmV2Migrated_never_beforeDeclared (db : IDB) (head : Option Head) (n : UInt64) (hc : CasmInv db head)
    (habove : ∀ hd, head = some hd → hd.number < n) : ∀ (m : FMap) (e : CasmErr),
    casmV2Migrated db n m = .error e → e ≠ .migrate .beforeDeclared
  | [], e, h => by simp [casmV2Migrated] at h
  | (c, x) :: rest, e, h => by
    simp only [casmV2Migrated] at h
    split at h
    · rename_i m0 hg
      obtain ⟨hd, hhd, h1, _, _⟩ := hc c m0 hg
      have hlt : m0.declaredAt < n := UInt64.lt_of_le_of_lt h1 (habove hd hhd)
      split at h
      · rename_i e' hm
        simp only [Except.error.injEq] at h
        subst h
        intro heq
        simp only [CasmErr.migrate.injEq] at heq
        subst heq
        unfold CasmMeta.migrate at hm
        split at hm
        · simp at hm
        · split at hm
          · rename_i hle
            exact absurd hle (UInt64.not_le.mpr hlt)
          · split at hm <;> simp at hm
      · split at h
        · rename_i e' hr
          simp only [Except.error.injEq] at h
          subst h
          exact casmV2Migrated_never_beforeDeclared db head n hc habove rest _ hr
        · simp at h
    · simp only [Except.error.injEq] at h
      subst h
      intro heq; cases heq

/-! ### all histories -/

/-- the store-level node is well formed: its index store agrees with its abstract chain, and the
abstract chain is linked and verified (`ChainOK`) -/
def NodeInv {σ : Type} (sem : StateSem σ) (net : Net) (st0 : σ) (n : NodeS σ) : Prop :=
  DBInv n.db n.chain ∧ ChainOK' sem net st0 n.chain

theorem acceptDB_accept {σ : Type} (nb : Bool) (sem : StateSem σ) (net : Net) (n n' : NodeS σ) (B : Bundle) (cid : Nat)
    (v2of : Nat → Nat) (hi : DBInv n.db n.chain) (h : acceptDB nb sem net n B cid v2of = .ok n') :
    accept sem net n.chain B = .ok n'.chain ∧ DBInv n'.db n'.chain := by
  unfold acceptDB at h
  split at h
  · simp at h
  · rename_i hs
    split at h
    · simp at h
    · rename_i n'' hst
      simp only [Except.ok.injEq] at h
      subst h
      obtain ⟨h1, h2⟩ := storeDB_refines nb sem n n'' B cid v2of hi hst
      exact ⟨by unfold accept; rw [hs]; exact h1, h2⟩

theorem offerDB_preserves {σ : Type} (nb : Bool) (sem : StateSem σ) (net : Net) (st0 : σ) (v2of : Nat → Nat)
    (n : NodeS σ) (Bc : Bundle × Nat) (h : NodeInv sem net st0 n) : NodeInv sem net st0 (offerDB nb sem net v2of n Bc) := by
  unfold offerDB
  cases hacc : acceptDB nb sem net n Bc.1 Bc.2 v2of with
  | error e => exact h
  | ok n' =>
    obtain ⟨h1, h2⟩ := acceptDB_accept nb sem net n n' Bc.1 Bc.2 v2of h.1 hacc
    exact ⟨h2, accept_preserves sem net st0 n.chain n'.chain Bc.1 h.2 h1⟩

theorem runDB_preserves {σ : Type} (nb : Bool) (sem : StateSem σ) (net : Net) (st0 : σ) (v2of : Nat → Nat) :
    ∀ (Bs : List (Bundle × Nat)) (n : NodeS σ), NodeInv sem net st0 n → NodeInv sem net st0 (runDB nb sem net v2of n Bs)
  | [], _, h => h
  | Bc :: rest, n, h => runDB_preserves nb sem net st0 v2of rest _ (offerDB_preserves nb sem net st0 v2of n Bc h)

/-- the abstract chain of the store-level node after a history is the abstract node's chain after the
history of the offers the concrete `Store` did not refuse for its own reasons — in particular every
block the store-level node stores, the abstract node stores -/
theorem offerDB_chain {σ : Type} (nb : Bool) (sem : StateSem σ) (net : Net) (v2of : Nat → Nat) (n : NodeS σ)
    (Bc : Bundle × Nat) (hi : DBInv n.db n.chain) :
    (offerDB nb sem net v2of n Bc).chain = n.chain ∨
    (offerDB nb sem net v2of n Bc).chain = (offer sem net n.chain Bc.1).1 := by
  unfold offerDB
  cases hacc : acceptDB nb sem net n Bc.1 Bc.2 v2of with
  | error e => exact Or.inl rfl
  | ok n' =>
    obtain ⟨h1, _⟩ := acceptDB_accept nb sem net n n' Bc.1 Bc.2 v2of hi hacc
    right
    unfold offer
    rw [h1]

/-- casm invariant along histories in which no offered block carries the number `2^64 - 1` (so the
successor of the head's number never wraps) -/
theorem offerDB_casmInv {σ : Type} (nb : Bool) (sem : StateSem σ) (net : Net) (v2of : Nat → Nat) (n : NodeS σ)
    (Bc : Bundle × Nat) (hi : DBInv n.db n.chain) (hc : CasmInv n.db n.chain.head)
    (hmax : ∀ hd, n.chain.head = some hd → hd.number.toNat + 1 < 2 ^ 64) :
    CasmInv (offerDB nb sem net v2of n Bc).db (offerDB nb sem net v2of n Bc).chain.head := by
  unfold offerDB
  cases hacc : acceptDB nb sem net n Bc.1 Bc.2 v2of with
  | error e => exact hc
  | ok n' =>
    dsimp only
    unfold acceptDB at hacc
    split at hacc
    · simp at hacc
    · split at hacc
      · simp at hacc
      · rename_i n'' hst
        simp only [Except.ok.injEq] at hacc
        subst hacc
        refine storeDB_casmInv nb sem n n'' Bc.1 Bc.2 v2of hc ?_ hst
        intro hd hhd
        have hs := (storeDB_refines nb sem n n'' Bc.1 Bc.2 v2of hi hst).1
        have hnum := (storeTxn_ok sem n.chain n''.chain Bc.1 hs).number
        rw [hhd] at hnum
        simp only [expectedNumber] at hnum
        rw [hnum]
        have := hmax hd hhd
        rw [UInt64.lt_iff_toNat_lt, UInt64.toNat_add]
        simp
        omega

/-- the head of the node after an offer is the old head or the offered block -/
theorem offerDB_head {σ : Type} (nb : Bool) (sem : StateSem σ) (net : Net) (v2of : Nat → Nat) (n : NodeS σ)
    (Bc : Bundle × Nat) :
    (offerDB nb sem net v2of n Bc).chain.head = n.chain.head ∨
    (offerDB nb sem net v2of n Bc).chain.head = some ⟨Bc.1.block.header.number, Bc.1.block.header.hash⟩ := by
  unfold offerDB
  cases hacc : acceptDB nb sem net n Bc.1 Bc.2 v2of with
  | error e => exact Or.inl rfl
  | ok n' =>
    right
    unfold acceptDB at hacc
    split at hacc
    · simp at hacc
    · split at hacc
      · simp at hacc
      · rename_i n'' hst
        simp only [Except.ok.injEq] at hacc
        subst hacc
        unfold storeDB at hst
        split at hst
        · simp at hst
        · simp only [Except.ok.injEq] at hst
          subst hst
          rfl

theorem runDB_casmInv {σ : Type} (nb : Bool) (sem : StateSem σ) (net : Net) (st0 : σ) (v2of : Nat → Nat)
    (Bs : List (Bundle × Nat)) (hmax : ∀ Bc ∈ Bs, Bc.1.block.header.number.toNat + 1 < 2 ^ 64) :
    CasmInv (runDB nb sem net v2of (emptyNode st0) Bs).db (runDB nb sem net v2of (emptyNode st0) Bs).chain.head := by
  suffices H : ∀ (Bs : List (Bundle × Nat)) (n : NodeS σ), (∀ Bc ∈ Bs, Bc.1.block.header.number.toNat + 1 < 2 ^ 64) →
      NodeInv sem net st0 n → CasmInv n.db n.chain.head → (∀ hd, n.chain.head = some hd → hd.number.toNat + 1 < 2 ^ 64) →
      CasmInv (runDB nb sem net v2of n Bs).db (runDB nb sem net v2of n Bs).chain.head by
    refine H Bs (emptyNode st0) hmax ⟨DBInv.emptyNode st0, ChainOK.empty⟩ ?_ ?_
    · intro c m hg; simp [emptyNode, IDB.get] at hg
    · intro hd hhd; simp [emptyNode] at hhd
  intro Bs
  induction Bs with
  | nil => intro n _ _ hc _; exact hc
  | cons Bc rest ih =>
    intro n hmax hinv hc hhead
    simp only [runDB]
    refine ih _ (fun x hx => hmax x (by simp [hx])) (offerDB_preserves nb sem net st0 v2of n Bc hinv)
      (offerDB_casmInv nb sem net v2of n Bc hinv.1 hc hhead) ?_
    intro hd hhd
    rcases offerDB_head nb sem net v2of n Bc with h | h
    · rw [h] at hhd; exact hhead hd hhd
    · rw [h] at hhd
      simp only [Option.some.injEq] at hhd
      subst hhd
      exact hmax Bc (by simp)

/-! ### declared classes without definition -/

theorem casmV1_error_of_missing (n : UInt64) (v2of : Nat → Nat) (cs : Classes) : ∀ (m : FMap),
    (∃ kc ∈ m, cs.find? (fun x => x.1 == kc.1) = none) → ∃ e, casmV1 n v2of cs m = .error e
  | [], h => by obtain ⟨_, hm, _⟩ := h; simp at hm
  | (c, casm) :: rest, h => by
    simp only [casmV1]
    cases hf : cs.find? (fun kc => kc.1 == c) with
    | none => exact ⟨_, rfl⟩
    | some kc =>
      simp only
      by_cases hc : kc.2.cairo0 = true
      · simp [hc]
      · simp only [hc, Bool.false_eq_true, if_false]
        obtain ⟨kc', hm, hn⟩ := h
        rcases List.mem_cons.mp hm with rfl | hm
        · simp only at hn; rw [hf] at hn; cases hn
        · obtain ⟨e, he⟩ := casmV1_error_of_missing n v2of cs rest ⟨kc', hm, hn⟩
          by_cases hb : kc.2.compiledBad = true
          · exact ⟨_, by rw [if_pos hb]⟩
          · exact ⟨e, by rw [if_neg hb, he]⟩

theorem casmV2DeclaredChecked_error_of_missing (n : UInt64) (cs : Classes) : ∀ (m : FMap),
    (∃ kc ∈ m, cs.find? (fun x => x.1 == kc.1) = none) → ∃ e, casmV2DeclaredChecked n cs m = .error e
  | [], h => by obtain ⟨_, hm, _⟩ := h; simp at hm
  | (c, casm) :: rest, h => by
    simp only [casmV2DeclaredChecked]
    cases hf : cs.find? (fun kc => kc.1 == c) with
    | none => exact ⟨_, rfl⟩
    | some kc =>
      simp only
      by_cases hc : kc.2.cairo0 = true
      · simp [hc]
      · simp only [hc, Bool.false_eq_true, if_false]
        obtain ⟨kc', hm, hn⟩ := h
        rcases List.mem_cons.mp hm with rfl | hm
        · simp only at hn; rw [hf] at hn; cases hn
        · obtain ⟨e, he⟩ := casmV2DeclaredChecked_error_of_missing n cs rest ⟨kc', hm, hn⟩
          exact ⟨e, by rw [he]⟩

/-- a declared class without definition makes the casm step fail — below protocol 0.14.1 always, from
0.14.1 on only with the repair (`chk = true`) -/
theorem casmStepWith_rejects_declared_without_definition (chk : Bool) (db : IDB) (h : Header) (d : StateDiff)
    (cs : Classes) (v2of : Nat → Nat) (v : Ver) (hp : parseVersion h.version = some v)
    (hchk : v.ge v0_14_1 = true → chk = true)
    (hm : ∃ kc ∈ d.declaredV1, cs.find? (fun x => x.1 == kc.1) = none) :
    ∃ e, casmStepWith chk db h d cs v2of = .error e := by
  unfold casmStepWith
  simp only [hp]
  by_cases hv : v.ge v0_14_1 = true
  · simp only [hv, if_true, hchk hv]
    obtain ⟨e, he⟩ := casmV2DeclaredChecked_error_of_missing h.number cs d.declaredV1 hm
    exact ⟨e, by rw [he]⟩
  · simp only [hv, Bool.false_eq_true, if_false]
    exact casmV1_error_of_missing h.number v2of cs d.declaredV1 hm

/-- the class trie does not see a declared class without definition -/
theorem classTrieUpdates_ignores_declared_without_definition (d : StateDiff) (cs : Classes) (c : Nat) (x : Term)
    (hc : cs.find? (fun k => k.1 == c) = none) :
    classTrieUpdates { d with declaredV1 := (c, x) :: d.declaredV1 } cs = classTrieUpdates d cs := by
  simp [classTrieUpdates, List.filter, hc]

/-! ### the panic in `MessageHash` -/

/-- `WriteL1HandlerMsgHashes` panics exactly when some L1-handler transaction of the block has no calldata -/
theorem l1Writes_none_iff : ∀ (txs : List Tx), l1Writes txs = none ↔ txs.any l1NoCalldata = true
  | [] => by simp [l1Writes]
  | t :: ts => by
    have ih := l1Writes_none_iff ts
    cases t with
    | l1Handler l =>
      simp only [l1Writes, List.any_cons, l1NoCalldata, Bool.or_eq_true]
      cases hc : l.callData with
      | nil => simp [l1MsgPreimage, hc]
      | cons a rest =>
        have hp : ∃ pre, l1MsgPreimage l = some pre := by
          unfold l1MsgPreimage; rw [hc]; exact ⟨_, rfl⟩
        obtain ⟨pre, hp⟩ := hp
        cases hr : l1Writes ts with
        | none => simp [hp, ← ih, hr]
        | some ws =>
          have : ¬ (ts.any l1NoCalldata = true) := by rw [← ih, hr]; simp
          simp [hp, this]
    | invoke _ => simpa [l1Writes, l1NoCalldata] using ih
    | declare _ => simpa [l1Writes, l1NoCalldata] using ih
    | deploy _ => simpa [l1Writes, l1NoCalldata] using ih
    | deployAccount _ => simpa [l1Writes, l1NoCalldata] using ih

/-- the verdict of an `Except` -/
def verdictS {α : Type} : Except RejectS α → Option RejectS
  | .ok _ => none
  | .error e => some e

/-! ### the head's state root, the L1 message index -/

/-- the root the new backend opens the state at (`headStateRoot`) is the state root the head block declared -/
theorem headStateRootDB_eq {σ : Type} (db : IDB) (c : Chain σ) (hi : DBInv db c) (h : Header)
    (hs : verifySuccession c.head h = .ok ()) (B : Bundle) (rest : List Bundle) (hst : c.stored = B :: rest)
    (hd : Head) (hhd : c.head = some hd) (h0 : h.number ≠ 0) :
    headStateRootDB db h = .ok B.block.header.stateRoot := by
  obtain ⟨_, hn, _⟩ := verifySuccession_ok c.head h hs
  obtain ⟨_, B', rest', hst', _, _, hg⟩ := hi.head hd hhd
  rw [hst] at hst'
  simp only [List.cons.injEq] at hst'
  obtain ⟨rfl, _⟩ := hst'
  rw [hhd] at hn
  simp only [expectedNumber] at hn
  have : h.number - 1 = hd.number := by rw [hn]; exact UInt64.add_sub_cancel hd.number 1
  unfold headStateRootDB
  simp [h0, this, getHeaderByNumber, hg]

theorem l1Writes_ops : ∀ (txs : List Tx) (ws : IBatch), l1Writes txs = some ws → ∀ op ∈ ws,
    ∃ l pre, Tx.l1Handler l ∈ txs ∧ l1MsgPreimage l = some pre ∧ op = (.l1MsgHash pre, some (.txHash l.hash))
  | [], ws, h, op, hop => by
    simp [l1Writes] at h; subst h; simp at hop
  | t :: ts, ws, h, op, hop => by
    have lift : (∃ l pre, Tx.l1Handler l ∈ ts ∧ l1MsgPreimage l = some pre ∧ op = (.l1MsgHash pre, some (.txHash l.hash))) →
        ∃ l pre, Tx.l1Handler l ∈ t :: ts ∧ l1MsgPreimage l = some pre ∧ op = (.l1MsgHash pre, some (.txHash l.hash)) := by
      rintro ⟨l, pre, hm, hp, e⟩; exact ⟨l, pre, by simp [hm], hp, e⟩
    cases t with
    | l1Handler l =>
      simp only [l1Writes] at h
      cases hp : l1MsgPreimage l with
      | none => simp [hp] at h
      | some pre =>
        cases hr : l1Writes ts with
        | none => simp [hp, hr] at h
        | some rest =>
          simp only [hp, hr, Option.some.injEq] at h
          subst h
          rcases List.mem_cons.mp hop with rfl | hop
          · exact ⟨l, pre, by simp, hp, rfl⟩
          · exact lift (l1Writes_ops ts rest hr op hop)
    | invoke _ => exact lift (l1Writes_ops ts ws (by simpa [l1Writes] using h) op hop)
    | declare _ => exact lift (l1Writes_ops ts ws (by simpa [l1Writes] using h) op hop)
    | deploy _ => exact lift (l1Writes_ops ts ws (by simpa [l1Writes] using h) op hop)
    | deployAccount _ => exact lift (l1Writes_ops ts ws (by simpa [l1Writes] using h) op hop)

theorem l1Writes_get : ∀ (txs : List Tx) (ws : IBatch) (db : IDB) (l : L1HandlerTx) (pre : List Term),
    l1Writes txs = some ws → Tx.l1Handler l ∈ txs → l1MsgPreimage l = some pre →
    (∀ l', Tx.l1Handler l' ∈ txs → l1MsgPreimage l' = some pre → l'.hash = l.hash) →
    (db.applyBatch ws).get (.l1MsgHash pre) = some (.txHash l.hash)
  | [], ws, db, l, pre, _, hm, _, _ => by simp at hm
  | t :: ts, ws, db, l, pre, hw, hm, hp, huniq => by
    cases t with
    | l1Handler l0 =>
      simp only [l1Writes] at hw
      cases hp0 : l1MsgPreimage l0 with
      | none => simp [hp0] at hw
      | some pre0 =>
        cases hr : l1Writes ts with
        | none => simp [hp0, hr] at hw
        | some rest =>
          simp only [hp0, hr, Option.some.injEq] at hw
          subst hw
          rw [IDB.applyBatch_cons]
          by_cases hin : Tx.l1Handler l ∈ ts
          · exact l1Writes_get ts rest _ l pre hr hin hp (fun l' hl' hp' => huniq l' (by simp [hl']) hp')
          · -- `l` is the head: no later handler writes another value under this key
            have hl : l = l0 := by
              rcases List.mem_cons.mp hm with h | h
              · injection h
              · exact absurd h hin
            subst hl
            rw [hp] at hp0
            simp only [Option.some.injEq] at hp0
            subst hp0
            rcases IDB.get_applyBatch_mem rest (db.write (.l1MsgHash pre, some (.txHash l.hash))) (.l1MsgHash pre) with h | ⟨op, hop, hk, hv⟩
            · rw [h, IDB.get_write]; simp
            · obtain ⟨l', pre', hl', hp', rfl⟩ := l1Writes_ops ts rest hr op hop
              simp only [IKey.l1MsgHash.injEq] at hk
              subst hk
              rw [hv]
              simp only [Option.some.injEq, IVal.txHash.injEq]
              exact huniq l' (by simp [hl']) hp'
    | invoke _ => exact l1Writes_get ts ws db l pre (by simpa [l1Writes] using hw) (by simpa using hm) hp (fun l' hl' hp' => huniq l' (by simp [hl']) hp')
    | declare _ => exact l1Writes_get ts ws db l pre (by simpa [l1Writes] using hw) (by simpa using hm) hp (fun l' hl' hp' => huniq l' (by simp [hl']) hp')
    | deploy _ => exact l1Writes_get ts ws db l pre (by simpa [l1Writes] using hw) (by simpa using hm) hp (fun l' hl' hp' => huniq l' (by simp [hl']) hp')
    | deployAccount _ => exact l1Writes_get ts ws db l pre (by simpa [l1Writes] using hw) (by simpa using hm) hp (fun l' hl' hp' => huniq l' (by simp [hl']) hp')

/-- INDEXES: after a successful `Store` every L1-handler transaction of the block is found under its message
hash (if several handlers of the block carry the same message they must agree on the transaction hash,
else the last one wins) -/
theorem storeDB_l1_index {σ : Type} (nb : Bool) (sem : StateSem σ) (n n' : NodeS σ) (B : Bundle) (cid : Nat)
    (v2of : Nat → Nat) (h : storeDB nb sem n B cid v2of = .ok n') (l : L1HandlerTx) (pre : List Term)
    (hm : Tx.l1Handler l ∈ B.block.txs) (hp : l1MsgPreimage l = some pre)
    (huniq : ∀ l', Tx.l1Handler l' ∈ B.block.txs → l1MsgPreimage l' = some pre → l'.hash = l.hash) :
    n'.db.get (.l1MsgHash pre) = some (.txHash l.hash) := by
  unfold storeDB at h
  split at h
  · simp at h
  · rename_i ws st' hcb
    simp only [Except.ok.injEq] at h
    subst h
    obtain ⟨_, _, _, _, hw⟩ := storeCallback_ok nb sem n B cid v2of ws st' hcb
    obtain ⟨l1, cw, hl1, hcw, rfl⟩ := blockContentWrites_shape n.db B cid v2of ws hw
    have tc := casmStep_tag _ _ _ _ _ _ hcw
    have hrest : ∀ op ∈ (cw ++ [(IKey.chainHeight, some (IVal.num B.block.header.number))] : IBatch), op.1 ≠ .l1MsgHash pre := by
      intro op hop
      apply ne_of_tag_ne
      simp only [List.mem_append, List.mem_cons, List.mem_nil_iff, or_false] at hop
      rcases hop with hop | rfl
      · rw [tc op hop]; simp [IKey.tag]
      · simp [IKey.tag]
    have e : headerWrites B.block.header ++ txWrites B.block.header.number B.block.txs B.block.receipts ++
        [(.stateUpdate B.block.header.number, some (.su B.su)), (.commitments B.block.header.number, some (.comms cid))] ++
        l1 ++ cw ++ [(.chainHeight, some (.num B.block.header.number))]
        = (headerWrites B.block.header ++ txWrites B.block.header.number B.block.txs B.block.receipts ++
        [(.stateUpdate B.block.header.number, some (.su B.su)), (.commitments B.block.header.number, some (.comms cid))]) ++
        (l1 ++ (cw ++ [(.chainHeight, some (.num B.block.header.number))])) := by
      simp [List.append_assoc]
    rw [e, IDB.applyBatch_append, IDB.applyBatch_append, IDB.get_applyBatch_frame _ _ _ hrest]
    exact l1Writes_get B.block.txs l1 _ l pre hl1 hm hp huniq

/-! ### the pre-0.7 format and the unverifiable range -/

/-- header fields the pre-0.7 block hash commits (sequencer, timestamp, event count and event commitment are
hashed as zero in this format) -/
structure HeaderViewPre07 where
  number : UInt64
  stateRoot : Term
  txCount : UInt64
  chain : Term
  parentHash : Term
deriving DecidableEq, Repr

theorem pre07_inj (b b' : Block) (c c' : Term) (x : Term)
    (h : pre07 b c = some x) (h' : pre07 b' c' = some x) :
    (⟨b.header.number, b.header.stateRoot, b.header.txCount, c, b.header.parentHash⟩ : HeaderViewPre07)
      = ⟨b'.header.number, b'.header.stateRoot, b'.header.txCount, c', b'.header.parentHash⟩ ∧
    b.txs.map (sigViewPedersen (allSigsOf b)) = b'.txs.map (sigViewPedersen (allSigsOf b')) := by
  unfold pre07 at h h'
  dsimp only at h h'
  split at h
  case h_2 => simp at h
  rename_i txc htc
  split at h'
  case h_2 => simp at h'
  rename_i txc' htc'
  unfold pedTxComm at htc htc'
  cases hp : parseVersion b.header.version with
  | none => simp [hp] at htc
  | some v =>
  cases hp' : parseVersion b'.header.version with
  | none => simp [hp'] at htc'
  | some v' =>
  simp only [hp, hp', Option.some.injEq] at htc htc'
  subst htc htc'
  simp only [Option.some.injEq] at h h'
  subst h
  simp only [Term.pedN.injEq, Term.comm.injEq, List.cons.injEq, true_and, and_true] at h'
  obtain ⟨hn, hr, htcnt, htx, hch, hpar⟩ := h'
  refine ⟨?_, ?_⟩
  · simp [u64_inj hn, hr, u64_inj htcnt, hch, hpar]
  · simp only [allSigsOf, hp, hp']
    exact (map2_inj _ _ _ _ (fun a c hh => txLeafPedersen_inj _ _ a c hh) _ _ htx).symm

/-- a pre-0.7 hash is never a post-0.7 hash: the two Pedersen preimages have different lengths -/
theorem pre07_ne_post07 (b b' : Block) (c : Term) (ov : Option Term) (x : Term)
    (h : pre07 b c = some x) (h' : post07 b' ov = some x) : False := by
  unfold pre07 at h
  unfold post07 at h'
  dsimp only at h h'
  split at h
  case h_2 => simp at h
  split at h'
  case h_2 => simp at h'
  simp only [Option.some.injEq] at h h'
  subst h
  simp at h'

theorem blockHash_pre07 (net : Net) (b : Block) (sd : StateDiff) (ov : Option Term)
    (hf : dispatch net b.header.number b.header.version = some .pre07) : blockHash net b sd ov = pre07 b net.chainId := by
  simp [blockHash, hf]

theorem blockHash_pre07_inj (net : Net) (b b' : Block) (sd sd' : StateDiff) (ov ov' : Option Term) (x : Term)
    (hf : dispatch net b.header.number b.header.version = some .pre07)
    (h : blockHash net b sd ov = some x) (h' : blockHash net b' sd' ov' = some x) :
    dispatch net b'.header.number b'.header.version = some .pre07 ∧
    (⟨b.header.number, b.header.stateRoot, b.header.txCount, net.chainId, b.header.parentHash⟩ : HeaderViewPre07)
      = ⟨b'.header.number, b'.header.stateRoot, b'.header.txCount, net.chainId, b'.header.parentHash⟩ ∧
    b.txs.map (sigViewPedersen (allSigsOf b)) = b'.txs.map (sigViewPedersen (allSigsOf b')) := by
  rw [blockHash_pre07 net b sd ov hf] at h
  obtain ⟨xs, hx⟩ := pre07_isPed b net.chainId x h
  cases hd : dispatch net b'.header.number b'.header.version with
  | none => simp [blockHash, hd] at h'
  | some f =>
    cases f with
    | pre07 =>
      rw [blockHash_pre07 net b' sd' ov' hd] at h'
      exact ⟨rfl, pre07_inj b b' net.chainId net.chainId x h h'⟩
    | post07 =>
      simp only [blockHash, hd] at h'
      exact absurd (pre07_ne_post07 b b' net.chainId ov' x h h') id
    | v0132 =>
      rw [blockHash_v0132 net b' sd' ov' hd] at h'
      obtain ⟨ys, hy⟩ := post0132_isPos b' sd' x h'
      rw [hx] at hy; cases hy
    | v0134 =>
      rw [blockHash_v0134 net b' sd' ov' hd] at h'
      obtain ⟨ys, hy⟩ := post0134_isPos b' sd' x h'
      rw [hx] at hy; cases hy

/-- inside a network's unverifiable range `VerifyBlockHash` checks only that transactions and receipts pair
up: whatever the header, the transactions and the declared hash are, it succeeds as soon as the hash
function does not fail -/
theorem verifyBlockHash_unverifiable (net : Net) (b : Block) (sd : StateDiff)
    (hu : inUnverifiable net b.header.number = true)
    (hl : b.txs.length = b.receipts.length)
    (hr : (List.zip b.txs b.receipts).all (fun tr => tr.1.hash == some tr.2.txHash) = true)
    (hc : (l1CalldataChecked && b.txs.any l1NoCalldata) = false)
    (hh : (blockHash net b sd (if b.header.sequencer.isNone then some (.felt 0) else none)).isSome = true) :
    verifyBlockHash net b sd = .ok () := by
  unfold verifyBlockHash
  simp only [hl, ne_eq, not_true_eq_false, if_false, hr, Bool.not_true, Bool.false_eq_true, hc, hu, if_true]
  unfold fallbackAddrs tryFallbacks
  obtain ⟨x, hx⟩ := Option.isSome_iff_exists.mp hh
  simp only [hx]
  split <;> rfl

end Juno.C02
