import JunoModel.C02.ModelAccept
/-!
C02 — helper lemmas and the "committed view" definitions the property theorems are stated with.
Core Lean only (no Mathlib needed).
-/
namespace Juno.C02

/-! ### arithmetic: ConcatCounts -/

theorem concatCounts_inj (t e s t' e' s' : UInt64) (d d' : Nat)
    (h : concatCounts t e s d = concatCounts t' e' s' d') :
    t = t' ∧ e = e' ∧ s = s' ∧ (d = 1 ↔ d' = 1) := by
  unfold concatCounts at h
  have ht := t.toNat_lt; have he := e.toNat_lt; have hs := s.toNat_lt
  have ht' := t'.toNat_lt; have he' := e'.toNat_lt; have hs' := s'.toNat_lt
  have key : t.toNat = t'.toNat ∧ e.toNat = e'.toNat ∧ s.toNat = s'.toNat ∧ (d = 1 ↔ d' = 1) := by
    split at h <;> split at h <;> omega
  exact ⟨UInt64.toNat_inj.mp key.1, UInt64.toNat_inj.mp key.2.1, UInt64.toNat_inj.mp key.2.2.1, key.2.2.2⟩


theorem modP_aux (a a' : Nat) (ha : a < 2 ^ 256) (ha' : a' < 2 ^ 256) (h63 : a % 2 ^ 63 = 0) (h63' : a' % 2 ^ 63 = 0)
    (h : a % starkPrime = a' % starkPrime) : a = a' := by
  unfold starkPrime at h
  have e := Nat.div_add_mod a (2 ^ 251 + 17 * 2 ^ 192 + 1)
  have e' := Nat.div_add_mod a' (2 ^ 251 + 17 * 2 ^ 192 + 1)
  have hr := Nat.mod_lt a (show 2 ^ 251 + 17 * 2 ^ 192 + 1 > 0 by decide)
  generalize a / (2 ^ 251 + 17 * 2 ^ 192 + 1) = q at e
  generalize a' / (2 ^ 251 + 17 * 2 ^ 192 + 1) = q' at e'
  generalize a % (2 ^ 251 + 17 * 2 ^ 192 + 1) = r at *
  generalize a' % (2 ^ 251 + 17 * 2 ^ 192 + 1) = r' at *
  subst h
  omega

theorem concatCounts_bounds (t e s : UInt64) (d : Nat) :
    concatCounts t e s d < 2 ^ 256 ∧ concatCounts t e s d % 2 ^ 63 = 0 := by
  unfold concatCounts
  have ht := t.toNat_lt; have he := e.toNat_lt; have hs := s.toNat_lt
  split <;> omega

theorem concatCounts_modP_inj (t e s t' e' s' : UInt64) (d d' : Nat)
    (h : concatCounts t e s d % starkPrime = concatCounts t' e' s' d' % starkPrime) :
    t = t' ∧ e = e' ∧ s = s' ∧ (d = 1 ↔ d' = 1) := by
  have b := concatCounts_bounds t e s d
  have b' := concatCounts_bounds t' e' s' d'
  exact concatCounts_inj _ _ _ _ _ _ _ _ (modP_aux _ _ b.1 b'.1 b.2 b'.2 h)


theorem daMode_inj (f n f' n' : UInt32) (h : daMode f n = daMode f' n') : f = f' ∧ n = n' := by
  unfold daMode at h
  have := f.toNat_lt; have := n.toNat_lt; have := f'.toNat_lt; have := n'.toNat_lt
  have key : f.toNat = f'.toNat ∧ n.toNat = n'.toNat := by omega
  exact ⟨UInt32.toNat_inj.mp key.1, UInt32.toNat_inj.mp key.2⟩

theorem u64_inj {a b : UInt64} (h : u64 a = u64 b) : a = b := by
  unfold u64 at h
  exact UInt64.toNat_inj.mp (by simpa using h)

/-! ### unique decodability of the flat lists -/

theorem flatPairs_cons (k : Nat) (v : Term) (m : FMap) : flatPairs ((k, v) :: m) = .felt k :: v :: flatPairs m := by
  simp [flatPairs]

theorem flatPairs_nil : flatPairs [] = [] := rfl

/-- a counted list of pairs followed by anything decodes uniquely -/
theorem flatPairs_append_inj : ∀ (a b : FMap) (r s : List Term), a.length = b.length →
    flatPairs a ++ r = flatPairs b ++ s → a = b ∧ r = s
  | [], [], r, s, _, h => by simpa [flatPairs] using h
  | [], _ :: _, _, _, hl, _ => by simp at hl
  | _ :: _, [], _, _, hl, _ => by simp at hl
  | (k, v) :: a, (k', v') :: b, r, s, hl, h => by
    rw [flatPairs_cons, flatPairs_cons] at h
    simp only [List.cons_append, List.cons.injEq, Term.felt.injEq] at h
    obtain ⟨hk, hv, ht⟩ := h
    have := flatPairs_append_inj a b r s (by simpa using hl) ht
    exact ⟨by rw [hk, hv, this.1], this.2⟩

/-- a list of felts with a known length followed by anything decodes uniquely -/
theorem append_inj_of_length {α} : ∀ (a b : List α) (r s : List α), a.length = b.length →
    a ++ r = b ++ s → a = b ∧ r = s := by
  intro a b r s hl h
  exact List.append_inj h hl

theorem storageFlat_cons (a : Nat) (m : FMap) (rest : List (Nat × FMap)) :
    storageFlat ((a, m) :: rest) = .felt a :: .felt m.length :: (flatPairs m ++ storageFlat rest) := by
  simp [storageFlat, len]

theorem storageFlat_append_inj : ∀ (a b : List (Nat × FMap)) (r s : List Term), a.length = b.length →
    storageFlat a ++ r = storageFlat b ++ s → a = b ∧ r = s
  | [], [], r, s, _, h => by simpa [storageFlat] using h
  | [], _ :: _, _, _, hl, _ => by simp at hl
  | _ :: _, [], _, _, hl, _ => by simp at hl
  | (k, m) :: a, (k', m') :: b, r, s, hl, h => by
    rw [storageFlat_cons, storageFlat_cons] at h
    simp only [List.cons_append, List.cons.injEq, Term.felt.injEq, List.append_assoc] at h
    obtain ⟨hk, hlen, ht⟩ := h
    have h1 := flatPairs_append_inj m m' _ _ hlen ht
    have h2 := storageFlat_append_inj a b r s (by simpa using hl) h1.2
    exact ⟨by rw [hk, h1.1, h2.1], h2.2⟩

theorem map_felt_inj : ∀ (a b : List Nat), a.map Term.felt = b.map Term.felt → a = b
  | [], [], _ => rfl
  | [], _ :: _, h => by simp at h
  | _ :: _, [], h => by simp at h
  | x :: a, y :: b, h => by
    simp only [List.map_cons, List.cons.injEq, Term.felt.injEq] at h
    rw [h.1, map_felt_inj a b h.2]


/-! ### state diff -/
theorem insertNat_length (k : Nat) : ∀ xs, (insertNat k xs).length = xs.length + 1
  | [] => rfl
  | x :: xs => by
    unfold insertNat
    split
    · simp
    · simp [insertNat_length k xs]

theorem sortNat_length : ∀ xs, (sortNat xs).length = xs.length
  | [] => rfl
  | x :: xs => by
    show (insertNat x (sortNat xs)).length = _
    rw [insertNat_length, sortNat_length xs]; simp

theorem declaredPairs_length (d : StateDiff) : (declaredPairs d).length = d.declaredV1.length + d.migrated.length := by
  simp [declaredPairs, sortNat_length]

/-- what `StateDiff.Hash()` commits: the merged "updated contracts" map with the count that is
hashed in front of it, the merged declared/migrated list with its count, the sorted Cairo-0 class
list, the storage diffs and the nonces. -/
structure DiffView where
  updCount : Nat
  updated : FMap
  declCount : Nat
  declared : FMap
  v0 : List Nat
  storage : List (Nat × FMap)
  nonces : FMap
deriving DecidableEq, Repr

def diffView (d : StateDiff) : DiffView :=
  ⟨d.deployed.length + d.replaced.length, updatedContracts d, d.declaredV1.length + d.migrated.length,
   declaredPairs d, sortNat d.declaredV0, d.storage, d.nonces⟩

/-- the sequencer's guarantee quoted in `updatedContractsDigest`: no address is both deployed and
replaced (then the merged map has as many entries as the count hashed in front of it). -/
def wfDiff (d : StateDiff) : Prop := (updatedContracts d).length = d.deployed.length + d.replaced.length

theorem stateDiffFlat_inj (d d' : StateDiff) (hw : wfDiff d) (hw' : wfDiff d')
    (h : stateDiffFlat d = stateDiffFlat d') : diffView d = diffView d' := by
  unfold stateDiffFlat at h
  simp only [List.append_assoc, List.cons_append, List.nil_append, List.cons.injEq, Term.felt.injEq, true_and, len] at h
  obtain ⟨hc1, h⟩ := h
  have h1 := flatPairs_append_inj _ _ _ _ (by rw [hw, hw', hc1]) h
  obtain ⟨hU, h⟩ := h1
  simp only [List.cons.injEq, Term.felt.injEq] at h
  obtain ⟨hc2, h⟩ := h
  have h2 := flatPairs_append_inj _ _ _ _ (by rw [declaredPairs_length, declaredPairs_length, hc2]) h
  obtain ⟨hD, h⟩ := h2
  simp only [List.cons.injEq, Term.felt.injEq] at h
  obtain ⟨hc3, h⟩ := h
  have h3 := List.append_inj h (by simp [sortNat_length, hc3])
  obtain ⟨hV, h⟩ := h3
  simp only [List.cons.injEq, Term.felt.injEq, true_and] at h
  obtain ⟨hc4, h⟩ := h
  have h4 := storageFlat_append_inj _ _ _ _ hc4 h
  obtain ⟨hS, h⟩ := h4
  simp only [List.cons.injEq, Term.felt.injEq] at h
  obtain ⟨hc5, h⟩ := h
  have h5 := flatPairs_append_inj _ _ [] [] hc5 (by simpa using h)
  simp [diffView, hc1, hU, hc2, hD, map_felt_inj _ _ hV, hS, h5.1]



def keys (m : FMap) : List Nat := m.map (·.1)

theorem insertKV_keys (k : Nat) (v : Term) : ∀ (m : FMap) (x : Nat), x ∈ keys (insertKV k v m) ↔ x = k ∨ x ∈ keys m
  | [], x => by simp [insertKV, keys]
  | (k', v') :: rest, x => by
    unfold insertKV
    split
    · simp [keys]
    · split
      · rename_i h2; subst h2; simp [keys]
      · have ih := insertKV_keys k v rest x
        simp only [keys, List.map_cons, List.mem_cons] at ih ⊢
        rw [ih]
        constructor
        · rintro (h | h | h) <;> simp [h]
        · rintro (h | h | h) <;> simp [h]

theorem insertKV_length (k : Nat) (v : Term) : ∀ (m : FMap), k ∉ keys m → (insertKV k v m).length = m.length + 1
  | [], _ => rfl
  | (k', v') :: rest, h => by
    simp only [keys, List.map_cons, List.mem_cons, not_or] at h
    unfold insertKV
    split
    · simp
    · split
      · rename_i h2; exact absurd h2 h.1
      · simp [insertKV_length k v rest h.2]

theorem foldl_insert_length : ∀ (rep acc : FMap), (keys rep).Nodup → (∀ k ∈ keys rep, k ∉ keys acc) →
    (rep.foldl (fun acc kv => insertKV kv.1 kv.2 acc) acc).length = acc.length + rep.length
  | [], acc, _, _ => by simp
  | (k, v) :: rest, acc, hn, hd => by
    simp only [keys, List.map_cons, List.nodup_cons] at hn
    simp only [List.foldl_cons]
    rw [foldl_insert_length rest (insertKV k v acc) hn.2]
    · rw [insertKV_length k v acc (hd k (by simp [keys]))]; simp; omega
    · intro k' hk' hmem
      rw [insertKV_keys] at hmem
      rcases hmem with h | h
      · subst h; exact hn.1 hk'
      · exact hd k' (by simp only [keys, List.map_cons, List.mem_cons]; right; exact hk') h

/-- no address both deployed and replaced, and `ReplacedClasses` a map (distinct keys) ⇒ `wfDiff` -/
theorem wfDiff_of_disjoint (d : StateDiff) (hn : (keys d.replaced).Nodup)
    (hd : ∀ k ∈ keys d.replaced, k ∉ keys d.deployed) : wfDiff d := by
  unfold wfDiff updatedContracts
  exact foldl_insert_length d.replaced d.deployed hn hd


/-! ### events -/

theorem eventLeaf_inj (h h' : Term) (e e' : Event) (heq : eventLeaf h e = eventLeaf h' e') : h = h' ∧ e = e' := by
  unfold eventLeaf len at heq
  simp only [Term.posN.injEq, List.cons_append, List.nil_append, List.cons.injEq, Term.felt.injEq, List.append_assoc] at heq
  obtain ⟨hf, hh, hk, rest⟩ := heq
  have h1 := List.append_inj rest hk
  obtain ⟨hkeys, rest⟩ := h1
  simp only [List.cons.injEq, Term.felt.injEq] at rest
  obtain ⟨_, hdata⟩ := rest
  refine ⟨hh, ?_⟩
  cases e; cases e'; simp_all

/-- the flat list of (transaction hash, event) pairs of a block, in order -/
def eventsFlat (rs : List Receipt) : List (Term × Event) := rs.flatMap (fun r => r.events.map (fun e => (r.txHash, e)))

theorem eventLeaves_eq_map (rs : List Receipt) : eventLeaves rs = (eventsFlat rs).map (fun p => eventLeaf p.1 p.2) := by
  induction rs with
  | nil => rfl
  | cons r rs ih =>
    simp only [eventLeaves, eventsFlat, List.flatMap_cons, List.map_append, List.map_map] at ih ⊢
    rw [ih]; rfl

theorem map_eventLeaf_inj : ∀ (a b : List (Term × Event)),
    a.map (fun p => eventLeaf p.1 p.2) = b.map (fun p => eventLeaf p.1 p.2) → a = b
  | [], [], _ => rfl
  | [], _ :: _, h => by simp at h
  | _ :: _, [], h => by simp at h
  | (x, e) :: a, (y, f) :: b, h => by
    simp only [List.map_cons, List.cons.injEq] at h
    have := eventLeaf_inj _ _ _ _ h.1
    rw [this.1, this.2, map_eventLeaf_inj a b h.2]

theorem eventLeaves_inj (rs rs' : List Receipt) (h : eventLeaves rs = eventLeaves rs') : eventsFlat rs = eventsFlat rs' := by
  rw [eventLeaves_eq_map, eventLeaves_eq_map] at h
  exact map_eventLeaf_inj _ _ h

/-! ### messages and receipts -/

theorem msgsFlat_append_inj : ∀ (a b : List Msg) (r s : List Term), a.length = b.length →
    a.flatMap msgFlat ++ r = b.flatMap msgFlat ++ s → a = b ∧ r = s
  | [], [], r, s, _, h => by simpa using h
  | [], _ :: _, _, _, hl, _ => by simp at hl
  | _ :: _, [], _, _, hl, _ => by simp at hl
  | m :: a, m' :: b, r, s, hl, h => by
    simp only [List.flatMap_cons, msgFlat, len, List.cons_append, List.nil_append, List.append_assoc,
      List.cons.injEq, Term.felt.injEq] at h
    obtain ⟨hf, ht, hlen, rest⟩ := h
    have h1 := List.append_inj rest hlen
    have h2 := msgsFlat_append_inj a b r s (by simpa using hl) h1.2
    refine ⟨?_, h2.2⟩
    rw [h2.1]
    cases m; cases m'; simp_all

theorem msgsHash_inj (a b : List Msg) (h : msgsHash a = msgsHash b) : a = b := by
  unfold msgsHash len at h
  simp only [Term.posN.injEq, List.cons.injEq, Term.felt.injEq] at h
  exact (msgsFlat_append_inj a b [] [] h.1 (by simpa using h.2)).1

/-- what the receipt hash commits -/
structure ReceiptView where
  txHash : Term
  fee : Term
  msgs : List Msg
  reverted : Bool
  revertReason : Bytes      -- `[]` when not reverted
  l1Gas : UInt64
  l1DataGas : UInt64
deriving DecidableEq, Repr

def receiptView (r : Receipt) : ReceiptView :=
  let g : Gas := r.totalGas.getD ⟨0, 0, 0⟩
  ⟨r.txHash, r.fee, r.msgs, r.reverted, if r.reverted then r.revertReason else [], g.l1Gas, g.l1DataGas⟩

theorem receiptHash_inj (r r' : Receipt) (h : receiptHash r = receiptHash r') : receiptView r = receiptView r' := by
  unfold receiptHash at h
  simp only [Term.posN.injEq, List.cons.injEq, and_true, true_and] at h
  obtain ⟨h1, h2, h3, h4, h5, h6⟩ := h
  have hm := msgsHash_inj _ _ h3
  have h5' := u64_inj h5
  have h6' := u64_inj h6
  unfold receiptView
  by_cases hr : r.reverted <;> by_cases hr' : r'.reverted <;> simp_all


/-! ### transactions -/


/-- what a resource bound contributes to the hash: amount and the low 128 bits of the price
(`none`: the map has no such key, or the price pointer is nil) -/
def rbView (rb : Option RB) : Option (UInt64 × Nat) :=
  match rb with
  | none => none
  | some r => match r.maxPrice with
    | none => none
    | some p => some (r.maxAmount, p % 2 ^ 128)

structure ResView where
  tip : UInt64
  l1Gas : UInt64 × Nat
  l2Gas : UInt64 × Nat
  l1DataGas : Option (UInt64 × Nat)
deriving DecidableEq, Repr

def resView (tip : UInt64) (b : Bounds) : Option ResView :=
  match rbView b.l1Gas, rbView b.l2Gas with
  | some a, some c => some ⟨tip, a, c, rbView b.l1DataGas⟩
  | _, _ => none

theorem rbFelt_eq (name : String) (rb : Option RB) :
    rbFelt name rb = (rbView rb).map (fun v => .felt (bytesToNat (asciiBytes name) * 2 ^ 192 + v.1.toNat * 2 ^ 128 + v.2)) := by
  unfold rbFelt rbView
  cases rb with
  | none => rfl
  | some r => cases h : r.maxPrice <;> simp [h]

theorem rbEnc_inj (n : Nat) (v w : UInt64 × Nat) (hv : v.2 < 2 ^ 128) (hw : w.2 < 2 ^ 128)
    (h : n * 2 ^ 192 + v.1.toNat * 2 ^ 128 + v.2 = n * 2 ^ 192 + w.1.toNat * 2 ^ 128 + w.2) : v = w := by
  have := v.1.toNat_lt; have := w.1.toNat_lt
  have key : v.1.toNat = w.1.toNat ∧ v.2 = w.2 := by omega
  cases v; cases w; simp only [Prod.mk.injEq]
  exact ⟨UInt64.toNat_inj.mp key.1, key.2⟩

theorem rbView_lt (rb : Option RB) (v : UInt64 × Nat) (h : rbView rb = some v) : v.2 < 2 ^ 128 := by
  unfold rbView at h
  cases rb with
  | none => simp at h
  | some r =>
    cases hp : r.maxPrice with
    | none => simp [hp] at h
    | some p => simp [hp] at h; rw [← h]; exact Nat.mod_lt _ (by decide)

def rbEnc (name : String) (v : UInt64 × Nat) : Term :=
  .felt (bytesToNat (asciiBytes name) * 2 ^ 192 + v.1.toNat * 2 ^ 128 + v.2)

theorem tipAndResources_eq (t : UInt64) (b : Bounds) :
    tipAndResources t b =
      match rbView b.l1Gas, rbView b.l2Gas with
      | some a, some c => some (.posN ([u64 t, rbEnc "L1_GAS" a, rbEnc "L2_GAS" c] ++
          (match rbView b.l1DataGas with | some v => [rbEnc "L1_DATA" v] | none => [])))
      | _, _ => none := by
  unfold tipAndResources rbFelt rbView rbEnc
  cases b.l1Gas with
  | none => simp
  | some r1 =>
    cases h1 : r1.maxPrice with
    | none => simp [h1]
    | some p1 =>
      cases b.l2Gas with
      | none => simp [h1]
      | some r2 =>
        cases h2 : r2.maxPrice with
        | none => simp [h1, h2]
        | some p2 =>
          cases b.l1DataGas with
          | none => simp [h1, h2]
          | some r3 =>
            cases h3 : r3.maxPrice with
            | none => simp [h1, h2, h3]
            | some p3 => simp [h1, h2, h3]

theorem tipAndResources_inj (t t' : UInt64) (b b' : Bounds) (x : Term)
    (h : tipAndResources t b = some x) (h' : tipAndResources t' b' = some x) :
    ∃ v, resView t b = some v ∧ resView t' b' = some v := by
  rw [tipAndResources_eq] at h h'
  unfold resView
  cases h1 : rbView b.l1Gas <;> cases h2 : rbView b.l2Gas <;> simp [h1, h2] at h
  cases h1' : rbView b'.l1Gas <;> cases h2' : rbView b'.l2Gas <;> simp [h1', h2'] at h'
  rename_i a c a' c'
  subst h
  have la := rbView_lt _ _ h1; have lc := rbView_lt _ _ h2
  have la' := rbView_lt _ _ h1'; have lc' := rbView_lt _ _ h2'
  simp only [rbEnc, Term.posN.injEq, List.cons_append, List.nil_append, List.cons.injEq, Term.felt.injEq] at h'
  obtain ⟨ht, h1e, h2e, hrest⟩ := h'
  have e1 := rbEnc_inj _ _ _ la' la h1e
  have e2 := rbEnc_inj _ _ _ lc' lc h2e
  have e3 : rbView b'.l1DataGas = rbView b.l1DataGas := by
    cases hd1 : rbView b.l1DataGas <;> cases hd2 : rbView b'.l1DataGas <;> simp [hd1, hd2] at hrest
    · rfl
    · have := rbEnc_inj _ _ _ (rbView_lt _ _ hd2) (rbView_lt _ _ hd1) hrest
      rw [this]
  have ht' := u64_inj ht
  refine ⟨⟨t, a, c, rbView b.l1DataGas⟩, rfl, ?_⟩
  simp [e1, e2, e3, ht']

/-- The fields of a transaction that its hash commits, per kind and version. `version` is the full
version felt (query bit included). Kinds whose hash juno does not recompute have no view:
legacy deploy, declare v0, L1 handler without nonce. -/
inductive TxView where
  | invokeV0 (version : Nat) (contractAddress entryPointSelector : Term) (callData : List Term) (maxFee : Term)
  | invokeV1 (version : Nat) (senderAddress : Term) (callData : List Term) (maxFee nonce : Term)
  | invokeV3 (version : Nat) (senderAddress : Term) (res : ResView) (paymasterData : List Term) (nonce : Term)
      (feeDAMode nonceDAMode : UInt32) (accountDeploymentData callData proofFacts : List Term)
  | declareV1 (version : Nat) (senderAddress classHash maxFee nonce : Term)
  | declareV2 (version : Nat) (senderAddress classHash maxFee nonce compiledClassHash : Term)
  | declareV3 (version : Nat) (senderAddress : Term) (res : ResView) (paymasterData : List Term) (nonce : Term)
      (feeDAMode nonceDAMode : UInt32) (accountDeploymentData : List Term) (classHash compiledClassHash : Term)
  | deployAccountV1 (version : Nat) (contractAddress classHash salt : Term) (ctorCallData : List Term) (maxFee nonce : Term)
  | deployAccountV3 (version : Nat) (contractAddress : Term) (res : ResView) (paymasterData : List Term) (nonce : Term)
      (feeDAMode nonceDAMode : UInt32) (ctorCallData : List Term) (classHash salt : Term)
  | l1Handler (version : Nat) (contractAddress entryPointSelector : Term) (callData : List Term) (nonce : Term)
deriving DecidableEq, Repr

def txView : Tx → Option TxView
  | .invoke i =>
    if verIs i.version 0 then some (.invokeV0 i.version i.contractAddress i.entryPointSelector i.callData i.maxFee)
    else if verIs i.version 1 then some (.invokeV1 i.version i.senderAddress i.callData i.maxFee i.nonce)
    else if verIs i.version 3 then
      (resView i.tip i.bounds).map (fun r => .invokeV3 i.version i.senderAddress r i.paymasterData i.nonce
        i.feeDAMode i.nonceDAMode i.accountDeploymentData i.callData i.proofFacts)
    else none
  | .declare d =>
    if verIs d.version 0 then none
    else if verIs d.version 1 then some (.declareV1 d.version d.senderAddress d.classHash d.maxFee d.nonce)
    else if verIs d.version 2 then some (.declareV2 d.version d.senderAddress d.classHash d.maxFee d.nonce d.compiledClassHash)
    else if verIs d.version 3 then
      (resView d.tip d.bounds).map (fun r => .declareV3 d.version d.senderAddress r d.paymasterData d.nonce
        d.feeDAMode d.nonceDAMode d.accountDeploymentData d.classHash d.compiledClassHash)
    else none
  | .deploy _ => none
  | .deployAccount d =>
    if verIs d.version 1 then some (.deployAccountV1 d.version d.contractAddress d.classHash d.salt d.ctorCallData d.maxFee d.nonce)
    else if verIs d.version 3 then
      (resView d.tip d.bounds).map (fun r => .deployAccountV3 d.version d.contractAddress r d.paymasterData d.nonce
        d.feeDAMode d.nonceDAMode d.ctorCallData d.classHash d.salt)
    else none
  | .l1Handler l =>
    if verIs l.version 0 then l.nonce.map (fun n => .l1Handler l.version l.contractAddress l.entryPointSelector l.callData n)
    else none

theorem proofFacts_inj (a b : List Term)
    (h : (if a = [] then ([] : List Term) else [Term.posN a]) = (if b = [] then [] else [Term.posN b])) : a = b := by
  cases a <;> cases b <;> simp_all

theorem daFelt_inj {f n f' n' : UInt32} (h : daMode f n = daMode f' n') : f = f' ∧ n = n' := by
  unfold daMode at h
  have := f.toNat_lt; have := n.toNat_lt; have := f'.toNat_lt; have := n'.toNat_lt
  have key : f.toNat = f'.toNat ∧ n.toNat = n'.toNat := by omega
  exact ⟨UInt32.toNat_inj.mp key.1, UInt32.toNat_inj.mp key.2⟩

/-- the hash term rebuilt from the committed view alone -/
def resEnc (r : ResView) : Term :=
  .posN ([u64 r.tip, rbEnc "L1_GAS" r.l1Gas, rbEnc "L2_GAS" r.l2Gas] ++
    (match r.l1DataGas with | some v => [rbEnc "L1_DATA" v] | none => []))

def encodeView (c : Term) : TxView → Term
  | .invokeV0 v ca sel cd fee => .pedN [invokeFelt, .felt v, ca, sel, .pedN cd, fee, c]
  | .invokeV1 v s cd fee n => .pedN [invokeFelt, .felt v, s, .felt 0, .pedN cd, fee, c, n]
  | .invokeV3 v s r pm n f nd add cd pf =>
    .posN ([invokeFelt, .felt v, s, resEnc r, .posN pm, c, n, .felt (daMode f nd), .posN add, .posN cd]
           ++ (if pf.isEmpty then [] else [.posN pf]))
  | .declareV1 v s ch fee n => .pedN [declareFelt, .felt v, s, .felt 0, .pedN [ch], fee, c, n]
  | .declareV2 v s ch fee n cch => .pedN [declareFelt, .felt v, s, .felt 0, .pedN [ch], fee, c, n, cch]
  | .declareV3 v s r pm n f nd add ch cch =>
    .posN [declareFelt, .felt v, s, resEnc r, .posN pm, c, n, .felt (daMode f nd), .posN add, ch, cch]
  | .deployAccountV1 v ca ch salt ctor fee n =>
    .pedN [deployAccountFelt, .felt v, ca, .felt 0, .pedN ([ch, salt] ++ ctor), fee, c, n]
  | .deployAccountV3 v ca r pm n f nd ctor ch salt =>
    .posN [deployAccountFelt, .felt v, ca, resEnc r, .posN pm, c, n, .felt (daMode f nd), .posN ctor, ch, salt]
  | .l1Handler v ca sel cd n => .pedN [l1HandlerFelt, .felt v, ca, sel, .pedN cd, .felt 0, c, n]

theorem tipAndResources_resEnc (t : UInt64) (b : Bounds) (x : Term) (r : ResView)
    (h : tipAndResources t b = some x) (hr : resView t b = some r) : x = resEnc r := by
  rw [tipAndResources_eq] at h
  unfold resView at hr
  cases h1 : rbView b.l1Gas <;> cases h2 : rbView b.l2Gas <;> simp [h1, h2] at h hr
  subst h hr
  simp [resEnc]

theorem resView_of_tip (t : UInt64) (b : Bounds) (x : Term) (h : tipAndResources t b = some x) :
    ∃ r, resView t b = some r := by
  rw [tipAndResources_eq] at h
  unfold resView
  cases h1 : rbView b.l1Gas <;> cases h2 : rbView b.l2Gas <;> simp [h1, h2] at h ⊢

/-- every verified transaction hash is the encoding of the transaction's committed view -/
theorem txHash_eq_encode (c : Term) (t : Tx) (h : Term) (v : TxView)
    (hh : txHash c t = some h) (hv : txView t = some v) : h = encodeView c v := by
  cases t with
  | invoke i =>
    simp only [txHash, invokeHash] at hh
    simp only [txView] at hv
    by_cases i0 : verIs i.version 0
    · simp [i0] at hh hv; subst hh hv; rfl
    · by_cases i1 : verIs i.version 1
      · simp [i0, i1] at hh hv; subst hh hv; rfl
      · by_cases i3 : verIs i.version 3
        · simp [i0, i1, i3] at hh hv
          obtain ⟨r, hr, rfl⟩ := hv
          cases ti : tipAndResources i.tip i.bounds with
          | none => simp [ti] at hh
          | some x =>
            simp [ti] at hh
            have := tipAndResources_resEnc _ _ _ _ ti hr
            subst this hh
            simp [encodeView]
        · simp [i0, i1, i3] at hv
  | declare d =>
    simp only [txHash, declareHash] at hh
    simp only [txView] at hv
    by_cases d0 : verIs d.version 0
    · simp [d0] at hv
    · by_cases d1 : verIs d.version 1
      · simp [d0, d1] at hh hv; subst hh hv; rfl
      · by_cases d2 : verIs d.version 2
        · simp [d0, d1, d2] at hh hv; subst hh hv; rfl
        · by_cases d3 : verIs d.version 3
          · simp [d0, d1, d2, d3] at hh hv
            obtain ⟨r, hr, rfl⟩ := hv
            cases ti : tipAndResources d.tip d.bounds with
            | none => simp [ti] at hh
            | some x =>
              simp [ti] at hh
              have := tipAndResources_resEnc _ _ _ _ ti hr
              subst this hh
              simp [encodeView]
          · simp [d0, d1, d2, d3] at hv
  | deploy d => simp [txView] at hv
  | deployAccount d =>
    simp only [txHash, deployAccountHash] at hh
    simp only [txView] at hv
    by_cases d1 : verIs d.version 1
    · simp [d1] at hh hv; subst hh hv; rfl
    · by_cases d3 : verIs d.version 3
      · simp [d1, d3] at hh hv
        obtain ⟨r, hr, rfl⟩ := hv
        cases ti : tipAndResources d.tip d.bounds with
        | none => simp [ti] at hh
        | some x =>
          simp [ti] at hh
          have := tipAndResources_resEnc _ _ _ _ ti hr
          subst this hh
          simp [encodeView]
      · simp [d1, d3] at hv
  | l1Handler l =>
    simp only [txHash, l1HandlerHash] at hh
    simp only [txView] at hv
    by_cases l0 : verIs l.version 0
    · simp [l0] at hh hv
      obtain ⟨n, hn, rfl⟩ := hv
      simp [hn] at hh
      subst hh; rfl
    · simp [l0] at hv

def ResView.valid (r : ResView) : Prop :=
  r.l1Gas.2 < 2 ^ 128 ∧ r.l2Gas.2 < 2 ^ 128 ∧ ∀ v, r.l1DataGas = some v → v.2 < 2 ^ 128

def TxView.valid : TxView → Prop
  | .invokeV3 _ _ r _ _ _ _ _ _ _ => r.valid
  | .declareV3 _ _ r _ _ _ _ _ _ _ => r.valid
  | .deployAccountV3 _ _ r _ _ _ _ _ _ _ => r.valid
  | _ => True

theorem resView_valid (t : UInt64) (b : Bounds) (r : ResView) (h : resView t b = some r) : r.valid := by
  unfold resView at h
  cases h1 : rbView b.l1Gas <;> cases h2 : rbView b.l2Gas <;> simp [h1, h2] at h
  subst h
  exact ⟨rbView_lt _ _ h1, rbView_lt _ _ h2, fun v hv => rbView_lt _ _ hv⟩

theorem txView_valid (t : Tx) (v : TxView) (h : txView t = some v) : v.valid := by
  cases t with
  | invoke i =>
    simp only [txView] at h
    split at h
    · simp at h; subst h; trivial
    · split at h
      · simp at h; subst h; trivial
      · split at h
        · simp at h; obtain ⟨r, hr, rfl⟩ := h; exact resView_valid _ _ _ hr
        · simp at h
  | declare d =>
    simp only [txView] at h
    split at h
    · simp at h
    · split at h
      · simp at h; subst h; trivial
      · split at h
        · simp at h; subst h; trivial
        · split at h
          · simp at h; obtain ⟨r, hr, rfl⟩ := h; exact resView_valid _ _ _ hr
          · simp at h
  | deploy d => simp [txView] at h
  | deployAccount d =>
    simp only [txView] at h
    split at h
    · simp at h; subst h; trivial
    · split at h
      · simp at h; obtain ⟨r, hr, rfl⟩ := h; exact resView_valid _ _ _ hr
      · simp at h
  | l1Handler l =>
    simp only [txView] at h
    split at h
    · simp at h; obtain ⟨n, _, rfl⟩ := h; trivial
    · simp at h

theorem resEnc_inj (r s : ResView) (hr : r.valid) (hs : s.valid) (h : resEnc r = resEnc s) : r = s := by
  unfold resEnc rbEnc at h
  simp only [Term.posN.injEq, List.cons_append, List.nil_append, List.cons.injEq, Term.felt.injEq] at h
  obtain ⟨ht, h1, h2, h3⟩ := h
  have e0 := u64_inj ht
  have e1 := rbEnc_inj _ _ _ hr.1 hs.1 h1
  have e2 := rbEnc_inj _ _ _ hr.2.1 hs.2.1 h2
  have e3 : r.l1DataGas = s.l1DataGas := by
    cases hd1 : r.l1DataGas <;> cases hd2 : s.l1DataGas <;> simp only [hd1, hd2, List.cons.injEq, Term.felt.injEq, and_true, reduceCtorEq] at h3
    · rfl
    · have := rbEnc_inj _ _ _ (hr.2.2 _ hd1) (hs.2.2 _ hd2) h3
      rw [this]
  cases r; cases s; simp_all

theorem tag_invoke : invokeFelt = .felt 0x696e766f6b65 := by rfl
theorem tag_declare : declareFelt = .felt 0x6465636c617265 := by rfl
theorem tag_l1Handler : l1HandlerFelt = .felt 0x6c315f68616e646c6572 := by rfl
theorem tag_deployAccount : deployAccountFelt = .felt 0x6465706c6f795f6163636f756e74 := by rfl

theorem encodeView_inj (c : Term) (v w : TxView) (hv : v.valid) (hw : w.valid)
    (h : encodeView c v = encodeView c w) : v = w := by
  cases v <;> cases w <;>
    simp only [encodeView, tag_invoke, tag_declare, tag_l1Handler, tag_deployAccount, Term.pedN.injEq, Term.posN.injEq,
      List.cons_append, List.nil_append, List.cons.injEq, Term.felt.injEq, reduceCtorEq, and_true, true_and, and_false,
      false_and, Nat.reduceEqDiff, List.isEmpty_iff] at h
  all_goals first
    | (obtain ⟨rfl, rfl, rfl, rfl, rfl⟩ := h; rfl)
    | (obtain ⟨rfl, rfl, rfl, rfl, rfl, rfl⟩ := h; rfl)
    | (obtain ⟨rfl, rfl, rfl, rfl, rfl, rfl, rfl⟩ := h; rfl)
    | skip
  · obtain ⟨rfl, rfl, hr, rfl, rfl, hd, rfl, rfl, hp⟩ := h
    obtain ⟨rfl, rfl⟩ := daFelt_inj hd
    rw [resEnc_inj _ _ hv hw hr, proofFacts_inj _ _ hp]
  · obtain ⟨rfl, rfl, hr, rfl, rfl, hd, rfl, rfl, rfl⟩ := h
    obtain ⟨rfl, rfl⟩ := daFelt_inj hd
    rw [resEnc_inj _ _ hv hw hr]
  · obtain ⟨rfl, rfl, ⟨rfl, rfl, rfl⟩, rfl, rfl⟩ := h; rfl
  · obtain ⟨rfl, rfl, hr, rfl, rfl, hd, rfl, rfl, rfl⟩ := h
    obtain ⟨rfl, rfl⟩ := daFelt_inj hd
    rw [resEnc_inj _ _ hv hw hr]


/-! ### blocks -/


/-! ### transaction / receipt commitment leaves -/

/-- what the transaction commitment sees of a transaction (0.13.4 on): declared hash and signature -/
def sigView (t : Tx) : Term × List Term := (t.hash.getD (.felt 0), t.signature)

/-- 0.13.2–0.13.3: the empty signature is hashed as `[0]` -/
def sigView0132 (t : Tx) : Term × List Term :=
  (t.hash.getD (.felt 0), if t.signature.isEmpty then [.felt 0] else t.signature)

theorem map_inj_of_inj {α β} (f : α → β) (g : α → γ) (hf : ∀ a b, f a = f b → g a = g b) :
    ∀ (xs ys : List α), xs.map f = ys.map f → xs.map g = ys.map g
  | [], [], _ => rfl
  | [], _ :: _, h => by simp at h
  | _ :: _, [], h => by simp at h
  | x :: xs, y :: ys, h => by
    simp only [List.map_cons, List.cons.injEq] at h ⊢
    exact ⟨hf _ _ h.1, map_inj_of_inj f g hf xs ys h.2⟩

theorem txLeaf0134_inj (a b : Tx) (h : txLeaf0134 a = txLeaf0134 b) : sigView a = sigView b := by
  unfold txLeaf0134 at h
  simp only [Term.posN.injEq, List.cons.injEq] at h
  simp [sigView, h.1, h.2]

theorem txLeaf0132_inj (a b : Tx) (h : txLeaf0132 a = txLeaf0132 b) : sigView0132 a = sigView0132 b := by
  unfold txLeaf0132 at h
  simp only [Term.posN.injEq, List.cons.injEq] at h
  simp only [sigView0132, Prod.mk.injEq]
  exact h

/-! ### header views -/

/-- header fields committed by the 0.13.4+ block hash -/
structure HeaderView0134 where
  number : UInt64
  stateRoot : Term
  sequencer : Term
  timestamp : UInt64
  txCount : UInt64
  eventCount : UInt64
  stateDiffLength : UInt64
  blob : Bool
  l1GasPriceETH : Term
  l1GasPriceSTRK : Term
  l1DataGasPriceWei : Term
  l1DataGasPriceFri : Term
  l2GasPriceWei : Term
  l2GasPriceFri : Term
  versionBytes : Nat
  parentHash : Term
deriving DecidableEq, Repr

def headerView0134 (h : Header) (sd : StateDiff) : Option HeaderView0134 :=
  match h.sequencer, h.l1GasPriceSTRK, h.l1DataGasPrice, h.l2GasPrice with
  | some seq, some strk, some dg, some l2 =>
    match dg.wei, dg.fri, l2.wei, l2.fri with
    | some dw, some df, some lw, some lf =>
      some ⟨h.number, h.stateRoot, seq, h.timestamp, h.txCount, h.eventCount, sdLen64 sd, h.l1DAMode == 1,
            h.l1GasPriceETH, strk, dw, df, lw, lf, bytesToNat h.version % starkPrime, h.parentHash⟩
    | _, _, _, _ => none
  | _, _, _, _ => none

/-- header fields committed by the 0.13.2–0.13.3 block hash: nil sequencer / STRK price / data gas
prices count as zero, the L2 gas price is absent -/
structure HeaderView0132 where
  number : UInt64
  stateRoot : Term
  sequencer : Term
  timestamp : UInt64
  txCount : UInt64
  eventCount : UInt64
  stateDiffLength : UInt64
  blob : Bool
  l1GasPriceETH : Term
  l1GasPriceSTRK : Term
  l1DataGasPriceWei : Term
  l1DataGasPriceFri : Term
  versionBytes : Nat
  parentHash : Term
deriving DecidableEq, Repr

def headerView0132 (h : Header) (sd : StateDiff) : HeaderView0132 :=
  ⟨h.number, h.stateRoot, h.sequencer.getD (.felt 0), h.timestamp, h.txCount, h.eventCount, sdLen64 sd, h.l1DAMode == 1,
   h.l1GasPriceETH, h.l1GasPriceSTRK.getD (.felt 0), (h.l1DataGasPrice.bind (·.wei)).getD (.felt 0),
   (h.l1DataGasPrice.bind (·.fri)).getD (.felt 0), bytesToNat h.version % starkPrime, h.parentHash⟩

theorem blob_eq {d d' : Nat} (h : d = 1 ↔ d' = 1) : (d == 1) = (d' == 1) := by
  rw [Bool.eq_iff_iff]; simp [h]

theorem post0134_inj (b b' : Block) (sd sd' : StateDiff) (x : Term)
    (h : post0134 b sd = some x) (h' : post0134 b' sd' = some x) :
    headerView0134 b.header sd = headerView0134 b'.header sd' ∧ (headerView0134 b.header sd).isSome
    ∧ b.txs.map sigView = b'.txs.map sigView
    ∧ eventsFlat b.receipts = eventsFlat b'.receipts
    ∧ b.receipts.map receiptView = b'.receipts.map receiptView
    ∧ stateDiffFlat sd = stateDiffFlat sd' := by
  unfold post0134 at h h'
  dsimp only at h h'
  unfold headerView0134
  split at h
  case h_2 => simp at h
  rename_i seq strk dg l2 hs hk hd hl
  split at h
  case h_2 => simp at h
  rename_i dw df lw lf h1 h2 h3 h4
  split at h'
  case h_2 => simp at h'
  rename_i seq' strk' dg' l2' hs' hk' hd' hl'
  split at h'
  case h_2 => simp at h'
  rename_i dw' df' lw' lf' h1' h2' h3' h4'
  simp only [hs, hk, hd, hl, h1, h2, h3, h4, hs', hk', hd', hl', h1', h2', h3', h4']
  simp only [Option.some.injEq] at h h'
  subst h
  simp only [commonPrefix, stateDiffHash, Term.posN.injEq, Term.comm.injEq, List.cons_append, List.nil_append, List.cons.injEq,
    Term.felt.injEq, true_and] at h'
  obtain ⟨hn, hr, hsq, hts, hcc, hsd, htx, hev, hrc, ⟨he, hk2, hw, hf, hlw, hlf⟩, hv, hp⟩ := h'
  have cc := concatCounts_modP_inj _ _ _ _ _ _ _ _ hcc
  have hv : bytesToNat b'.header.version % starkPrime = bytesToNat b.header.version % starkPrime := by
    simpa [setBytes] using hv
  refine ⟨?_, by simp, ?_, ?_, ?_, hsd.symm⟩
  · simp [u64_inj hn, hr, hsq, u64_inj hts, cc.1, cc.2.1, cc.2.2.1, blob_eq cc.2.2.2, he, hk2, hw, hf, hlw, hlf, hv, hp]
  · exact (map_inj_of_inj txLeaf0134 sigView txLeaf0134_inj _ _ htx).symm
  · exact (eventLeaves_inj _ _ hev).symm
  · exact (map_inj_of_inj receiptHash receiptView receiptHash_inj _ _ hrc).symm

theorem post0132_inj (b b' : Block) (sd sd' : StateDiff) (x : Term)
    (h : post0132 b sd = some x) (h' : post0132 b' sd' = some x) :
    headerView0132 b.header sd = headerView0132 b'.header sd'
    ∧ b.txs.map sigView0132 = b'.txs.map sigView0132
    ∧ eventsFlat b.receipts = eventsFlat b'.receipts
    ∧ b.receipts.map receiptView = b'.receipts.map receiptView
    ∧ stateDiffFlat sd = stateDiffFlat sd' := by
  unfold post0132 at h h'
  dsimp only at h h'
  simp only [Option.some.injEq] at h h'
  subst h
  simp only [commonPrefix, stateDiffHash, Term.posN.injEq, Term.comm.injEq, List.cons_append, List.nil_append, List.cons.injEq,
    Term.felt.injEq, true_and, and_true] at h'
  obtain ⟨hn, hr, hsq, hts, hcc, hsd, htx, hev, hrc, he, hk2, hw, hf, hv, hp⟩ := h'
  have cc := concatCounts_modP_inj _ _ _ _ _ _ _ _ hcc
  have hv : bytesToNat b'.header.version % starkPrime = bytesToNat b.header.version % starkPrime := by
    simpa [setBytes] using hv
  refine ⟨?_, ?_, ?_, ?_, hsd.symm⟩
  · simp [headerView0132, u64_inj hn, hr, hsq, u64_inj hts, cc.1, cc.2.1, cc.2.2.1, blob_eq cc.2.2.2, he, hk2, hw, hf, hv, hp]
  · exact (map_inj_of_inj txLeaf0132 sigView0132 txLeaf0132_inj _ _ htx).symm
  · exact (eventLeaves_inj _ _ hev).symm
  · exact (map_inj_of_inj receiptHash receiptView receiptHash_inj _ _ hrc).symm

theorem post0132_ne_post0134 (b b' : Block) (sd sd' : StateDiff) (x : Term)
    (h : post0132 b sd = some x) (h' : post0134 b' sd' = some x) : False := by
  unfold post0132 at h
  unfold post0134 at h'
  dsimp only at h h'
  simp only [Option.some.injEq] at h
  subst h
  split at h'
  · split at h'
    · simp only [Option.some.injEq, commonPrefix, Term.posN.injEq, List.cons_append, List.cons.injEq] at h'
      exact absurd h'.1 (by decide)
    · simp at h'
  · simp at h'

/-! ### acceptance -/

theorem tryFallbacks_ok (net : Net) (b : Block) (sd : StateDiff) :
    ∀ (fbs : List Term), tryFallbacks net b sd false fbs = .ok () →
      ∃ ov, ov ∈ (if b.header.sequencer.isNone then fbs.map some else [none]) ∧ blockHash net b sd ov = some b.header.hash
  | [], h => by simp [tryFallbacks] at h
  | fb :: rest, h => by
    unfold tryFallbacks at h
    dsimp only at h
    split at h
    · simp at h
    · rename_i hh heq
      split at h
      · rename_i he
        refine ⟨_, ?_, by rw [heq, he]⟩
        cases hs : b.header.sequencer <;> simp [hs]
      · simp at h
        obtain ⟨ov, hm, hh'⟩ := tryFallbacks_ok net b sd rest h
        refine ⟨ov, ?_, hh'⟩
        cases hs : b.header.sequencer <;> simp [hs] at hm ⊢
        · exact Or.inr hm
        · exact hm

structure Verified (net : Net) (B : Bundle) : Prop where
  suHash : B.block.header.hash = B.su.blockHash
  suRoot : B.block.header.stateRoot = B.su.newRoot
  classes : verifyClassHashes B.classes = true
  lens : B.block.txs.length = B.block.receipts.length
  receiptHashes : (List.zip B.block.txs B.block.receipts).all (fun tr => tr.1.hash == some tr.2.txHash) = true
  txs : inUnverifiable net B.block.header.number = false → verifyTransactions net.chainId B.block.txs B.block.header.version = true
  hash : inUnverifiable net B.block.header.number = false →
    ∃ ov, ov ∈ overridesOf net B.block ∧ blockHash net B.block B.su.diff ov = some B.block.header.hash
  l1Calldata : l1CalldataChecked = true → B.block.txs.any l1NoCalldata = false

theorem sanityCheck_ok (net : Net) (B : Bundle) (h : sanityCheck net B = .ok ()) : Verified net B := by
  unfold sanityCheck at h
  split at h; · simp at h
  rename_i h1
  split at h; · simp at h
  rename_i h2
  split at h; · simp at h
  rename_i h3
  unfold verifyBlockHash at h
  split at h; · simp at h
  rename_i h4
  split at h; · simp at h
  rename_i h5
  split at h; · simp at h
  rename_i h5b
  dsimp only at h
  split at h; · simp at h
  rename_i h6
  refine ⟨by simpa using h1, by simpa using h2, by simpa using h3, by simpa using h4, by simpa using h5, ?_, ?_,
    fun hc => by simpa [hc] using h5b⟩
  · intro hu
    have h6' : verifyTransactionsE net.chainId B.block.txs B.block.header.version = .ok () := by simpa [hu] using h6
    unfold verifyTransactionsE at h6'
    cases hp : parseVersion B.block.header.version with
    | none => simp [hp] at h6'
    | some v =>
      simp only [hp] at h6'
      by_cases hv : verifyTransactions net.chainId B.block.txs B.block.header.version = true
      · exact hv
      · simp [hv] at h6'
  · intro hu
    rw [hu] at h
    exact tryFallbacks_ok net B.block B.su.diff _ h

theorem verifySuccession_ok (head : Option Head) (h : Header) (hv : verifySuccession head h = .ok ()) :
    versionSupported h.version = true ∧ h.number = expectedNumber head ∧ h.parentHash = expectedParent head := by
  unfold verifySuccession at hv
  by_cases h1 : versionSupported h.version = true
  · by_cases h2 : expectedNumber head = h.number
    · by_cases h3 : h.parentHash = expectedParent head
      · exact ⟨h1, h2.symm, h3⟩
      · simp [h1, h2, h3] at hv
    · simp [h1, h2] at hv
  · simp [h1] at hv

structure Stored {σ : Type} (sem : StateSem σ) (c c' : Chain σ) (B : Bundle) : Prop where
  version : versionSupported B.block.header.version = true
  number : B.block.header.number = expectedNumber c.head
  parent : B.block.header.parentHash = expectedParent c.head
  oldRoot : sem.root c.st B.block.header.version = B.su.oldRoot
  applied : sem.apply c.st B.block.header.number B.su.diff B.classes = some c'.st
  newRoot : sem.root c'.st B.block.header.version = B.su.newRoot
  head : c'.head = some ⟨B.block.header.number, B.block.header.hash⟩
  stored : c'.stored = B :: c.stored

theorem storeTxn_ok {σ : Type} (sem : StateSem σ) (c c' : Chain σ) (B : Bundle)
    (h : storeTxn sem c B = .ok c') : Stored sem c c' B := by
  unfold storeTxn at h
  split at h; · simp at h
  rename_i hs
  have hv := verifySuccession_ok _ _ hs
  split at h; · simp at h
  rename_i ho
  split at h; · simp at h
  rename_i st' ha
  split at h; · simp at h
  rename_i hn
  simp only [Except.ok.injEq] at h
  subst h
  exact ⟨hv.1, hv.2.1, hv.2.2, by simpa using ho, ha, by simpa using hn, rfl, rfl⟩

theorem accept_ok {σ : Type} (sem : StateSem σ) (net : Net) (c c' : Chain σ) (B : Bundle)
    (h : accept sem net c B = .ok c') : Verified net B ∧ Stored sem c c' B := by
  unfold accept at h
  split at h; · simp at h
  rename_i hs
  exact ⟨sanityCheck_ok net B hs, storeTxn_ok sem c c' B h⟩

theorem offer_reject {σ : Type} (sem : StateSem σ) (net : Net) (c : Chain σ) (B : Bundle) (e : Reject)
    (h : (offer sem net c B).2 = some e) : (offer sem net c B).1 = c := by
  unfold offer at h ⊢
  split
  · rename_i heq; simp [heq] at h
  · rfl

theorem blockHash_v0134 (net : Net) (b : Block) (sd : StateDiff) (ov : Option Term)
    (hf : dispatch net b.header.number b.header.version = some .v0134) : blockHash net b sd ov = post0134 b sd := by
  simp [blockHash, hf]

theorem blockHash_v0132 (net : Net) (b : Block) (sd : StateDiff) (ov : Option Term)
    (hf : dispatch net b.header.number b.header.version = some .v0132) : blockHash net b sd ov = post0132 b sd := by
  simp [blockHash, hf]

/-- the write batch: a failing step at any position leaves the store untouched -/
theorem dbWrite_fail (store : Bytes → Option Bytes) (steps : List Step) (h : (dbWrite store steps).2 = false) :
    (dbWrite store steps).1 = store := by
  unfold dbWrite at h ⊢
  split
  · rename_i heq; simp [heq] at h
  · rfl

theorem runSteps_fail_at (store : Bytes → Option Bytes) (pre post : List Step) (s : Step) (batch : KV)
    (hs : ∀ b, s store b = none) : runSteps store (pre ++ s :: post) batch = none := by
  induction pre generalizing batch with
  | nil => simp [runSteps, hs]
  | cons p pre ih =>
    simp only [List.cons_append, runSteps]
    split
    · rfl
    · exact ih _


/-! ### block views and tamper rejection -/

structure BlockView0134 where
  header : Option HeaderView0134
  txs : List (Term × List Term)
  events : List (Term × Event)
  receipts : List ReceiptView
  diffFlat : List Term
deriving DecidableEq, Repr

def blockView0134 (b : Block) (sd : StateDiff) : BlockView0134 :=
  ⟨headerView0134 b.header sd, b.txs.map sigView, eventsFlat b.receipts, b.receipts.map receiptView, stateDiffFlat sd⟩

structure BlockView0132 where
  header : HeaderView0132
  txs : List (Term × List Term)
  events : List (Term × Event)
  receipts : List ReceiptView
  diffFlat : List Term
deriving DecidableEq, Repr

def blockView0132 (b : Block) (sd : StateDiff) : BlockView0132 :=
  ⟨headerView0132 b.header sd, b.txs.map sigView0132, eventsFlat b.receipts, b.receipts.map receiptView, stateDiffFlat sd⟩

theorem post0134_view (b b' : Block) (sd sd' : StateDiff) (x : Term)
    (h : post0134 b sd = some x) (h' : post0134 b' sd' = some x) : blockView0134 b sd = blockView0134 b' sd' := by
  obtain ⟨h1, _, h3, h4, h5, h6⟩ := post0134_inj b b' sd sd' x h h'
  simp [blockView0134, h1, h3, h4, h5, h6]

theorem post0132_view (b b' : Block) (sd sd' : StateDiff) (x : Term)
    (h : post0132 b sd = some x) (h' : post0132 b' sd' = some x) : blockView0132 b sd = blockView0132 b' sd' := by
  obtain ⟨h1, h3, h4, h5, h6⟩ := post0132_inj b b' sd sd' x h h'
  simp [blockView0132, h1, h3, h4, h5, h6]

theorem post0134_isPos (b : Block) (sd : StateDiff) (x : Term) (h : post0134 b sd = some x) : ∃ xs, x = .posN xs := by
  unfold post0134 at h; dsimp only at h
  split at h
  · split at h
    · simp at h; exact ⟨_, h.symm⟩
    · simp at h
  · simp at h

theorem post0132_isPos (b : Block) (sd : StateDiff) (x : Term) (h : post0132 b sd = some x) : ∃ xs, x = .posN xs := by
  unfold post0132 at h; dsimp only at h
  simp at h; exact ⟨_, h.symm⟩

theorem post07_isPed (b : Block) (ov : Option Term) (x : Term) (h : post07 b ov = some x) : ∃ xs, x = .pedN xs := by
  unfold post07 at h; dsimp only at h
  split at h
  · simp at h; exact ⟨_, h.symm⟩
  · simp at h

theorem pre07_isPed (b : Block) (c : Term) (x : Term) (h : pre07 b c = some x) : ∃ xs, x = .pedN xs := by
  unfold pre07 at h; dsimp only at h
  split at h
  · simp at h; exact ⟨_, h.symm⟩
  · simp at h

/-- equal block hashes (as terms) force the same hash format and the same committed view, 0.13.4+ -/
theorem blockHash_v0134_inj (net : Net) (b b' : Block) (sd sd' : StateDiff) (ov ov' : Option Term) (x : Term)
    (hf : dispatch net b.header.number b.header.version = some .v0134)
    (h : blockHash net b sd ov = some x) (h' : blockHash net b' sd' ov' = some x) :
    dispatch net b'.header.number b'.header.version = some .v0134 ∧ blockView0134 b sd = blockView0134 b' sd' := by
  rw [blockHash_v0134 net b sd ov hf] at h
  unfold blockHash at h'
  cases hd : dispatch net b'.header.number b'.header.version with
  | none => simp [hd] at h'
  | some f =>
    cases f with
    | v0134 => simp only [hd] at h'; exact ⟨rfl, post0134_view _ _ _ _ _ h h'⟩
    | v0132 => simp only [hd] at h'; exact (post0132_ne_post0134 _ _ _ _ _ h' h).elim
    | pre07 =>
      simp only [hd] at h'
      obtain ⟨xs, rfl⟩ := post0134_isPos _ _ _ h
      obtain ⟨ys, hy⟩ := pre07_isPed _ _ _ h'
      simp at hy
    | post07 =>
      simp only [hd] at h'
      obtain ⟨xs, rfl⟩ := post0134_isPos _ _ _ h
      obtain ⟨ys, hy⟩ := post07_isPed _ _ _ h'
      simp at hy

theorem blockHash_v0132_inj (net : Net) (b b' : Block) (sd sd' : StateDiff) (ov ov' : Option Term) (x : Term)
    (hf : dispatch net b.header.number b.header.version = some .v0132)
    (h : blockHash net b sd ov = some x) (h' : blockHash net b' sd' ov' = some x) :
    dispatch net b'.header.number b'.header.version = some .v0132 ∧ blockView0132 b sd = blockView0132 b' sd' := by
  rw [blockHash_v0132 net b sd ov hf] at h
  unfold blockHash at h'
  cases hd : dispatch net b'.header.number b'.header.version with
  | none => simp [hd] at h'
  | some f =>
    cases f with
    | v0132 => simp only [hd] at h'; exact ⟨rfl, post0132_view _ _ _ _ _ h h'⟩
    | v0134 => simp only [hd] at h'; exact (post0132_ne_post0134 _ _ _ _ _ h h').elim
    | pre07 =>
      simp only [hd] at h'
      obtain ⟨xs, rfl⟩ := post0132_isPos _ _ _ h
      obtain ⟨ys, hy⟩ := pre07_isPed _ _ _ h'
      simp at hy
    | post07 =>
      simp only [hd] at h'
      obtain ⟨xs, rfl⟩ := post0132_isPos _ _ _ h
      obtain ⟨ys, hy⟩ := post07_isPed _ _ _ h'
      simp at hy

theorem verifyTransactions_mem (chain : Term) (txs : List Tx) (ver : Bytes) (v : Ver) (hp : parseVersion ver = some v)
    (hge : v.lt v0_11_0 = false) (h : verifyTransactions chain txs ver = true) (t : Tx) (ht : t ∈ txs) :
    ∃ x, txHash chain t = some x ∧ t.hash = some x := by
  unfold verifyTransactions at h
  simp only [hp, hge, Bool.false_eq_true, if_false, List.all_eq_true] at h
  have := h t ht
  cases h1 : txHash chain t <;> cases h2 : t.hash <;> simp [h1, h2] at this
  exact ⟨_, rfl, by rw [this.2]⟩

/-- every hash-verified transaction of a verified block carries the encoding of its committed view -/
theorem verified_tx_hash (net : Net) (B : Bundle) (hv : Verified net B)
    (hu : inUnverifiable net B.block.header.number = false) (v : Ver)
    (hp : parseVersion B.block.header.version = some v) (hge : v.lt v0_11_0 = false)
    (t : Tx) (ht : t ∈ B.block.txs) (w : TxView) (hw : txView t = some w) :
    t.hash = some (encodeView net.chainId w) := by
  obtain ⟨x, hx, hh⟩ := verifyTransactions_mem _ _ _ v hp hge (hv.txs hu) t ht
  rw [hh, txHash_eq_encode _ _ _ _ hx hw]

/-! ### histories -/

def run {σ : Type} (sem : StateSem σ) (net : Net) : Chain σ → List Bundle → Chain σ
  | c, [] => c
  | c, B :: rest => run sem net (offer sem net c B).1 rest

/-- the stored chain (newest first) is linked and every stored block passed verification; the
state is the fold of the stored diffs over the initial state -/
inductive ChainOK {σ : Type} (sem : StateSem σ) (net : Net) (st0 : σ) : Option Head → σ → List Bundle → Prop
  | empty : ChainOK sem net st0 none st0 []
  | cons (B : Bundle) (rest : List Bundle) (head : Option Head) (st st' : σ) :
      ChainOK sem net st0 head st rest → Verified net B →
      B.block.header.number = expectedNumber head → B.block.header.parentHash = expectedParent head →
      sem.root st B.block.header.version = B.su.oldRoot →
      sem.apply st B.block.header.number B.su.diff B.classes = some st' →
      sem.root st' B.block.header.version = B.block.header.stateRoot →
      ChainOK sem net st0 (some ⟨B.block.header.number, B.block.header.hash⟩) st' (B :: rest)

theorem offer_preserves {σ : Type} (sem : StateSem σ) (net : Net) (st0 : σ) (c : Chain σ) (B : Bundle)
    (h : ChainOK sem net st0 c.head c.st c.stored) :
    ChainOK sem net st0 (offer sem net c B).1.head (offer sem net c B).1.st (offer sem net c B).1.stored := by
  unfold offer
  split
  · rename_i c' hacc
    obtain ⟨hv, hs⟩ := accept_ok sem net c c' B hacc
    dsimp only
    rw [hs.head, hs.stored]
    exact ChainOK.cons B c.stored c.head c.st c'.st h hv hs.number hs.parent hs.oldRoot hs.applied
      (by rw [hs.newRoot, hv.suRoot])
  · exact h

theorem run_preserves {σ : Type} (sem : StateSem σ) (net : Net) (st0 : σ) :
    ∀ (Bs : List Bundle) (c : Chain σ), ChainOK sem net st0 c.head c.st c.stored →
      ChainOK sem net st0 (run sem net c Bs).head (run sem net c Bs).st (run sem net c Bs).stored
  | [], _, h => h
  | B :: rest, c, h => run_preserves sem net st0 rest _ (offer_preserves sem net st0 c B h)



/-! ### the field prime, byte strings, version strings -/


/-! ### byte strings (the protocol version is committed as `felt.SetBytes(string)`) -/

theorem bytesToNat_append (xs : Bytes) (x : UInt8) : bytesToNat (xs ++ [x]) = bytesToNat xs * 256 + x.toNat := by
  simp [bytesToNat, List.foldl_append]

/-- byte strings of the same length with the same big-endian value are equal -/
theorem bytesToNat_inj_of_length : ∀ (n : Nat) (a b : Bytes), a.length = n → b.length = n →
    bytesToNat a = bytesToNat b → a = b := by
  intro n
  induction n with
  | zero =>
    intro a b ha hb _
    rw [List.length_eq_zero_iff.mp ha, List.length_eq_zero_iff.mp hb]
  | succ n ih =>
    intro a b ha hb h
    obtain ⟨as, x, rfl⟩ : ∃ as x, a = as ++ [x] := by
      refine ⟨a.dropLast, a.getLast (by intro e; simp [e] at ha), ?_⟩
      exact (List.dropLast_concat_getLast _).symm
    obtain ⟨bs, y, rfl⟩ : ∃ bs y, b = bs ++ [y] := by
      refine ⟨b.dropLast, b.getLast (by intro e; simp [e] at hb), ?_⟩
      exact (List.dropLast_concat_getLast _).symm
    rw [bytesToNat_append, bytesToNat_append] at h
    have hx := x.toNat_lt; have hy := y.toNat_lt
    have hxy : x.toNat = y.toNat ∧ bytesToNat as = bytesToNat bs := by omega
    have := ih as bs (by simpa using ha) (by simpa using hb) hxy.2
    rw [this, UInt8.toNat_inj.mp hxy.1]

theorem bytesToNat_range_rev : ∀ (r : Bytes), bytesToNat r.reverse < 256 ^ r.length
  | [] => by simp [bytesToNat]
  | x :: rs => by
    rw [List.reverse_cons, bytesToNat_append]
    have ih := bytesToNat_range_rev rs
    have hx := x.toNat_lt
    simp only [List.length_cons, Nat.pow_succ]
    omega

/-- the value of a byte string of length `n` is below `256^n` -/
theorem bytesToNat_range (a : Bytes) : bytesToNat a < 256 ^ a.length := by
  have := bytesToNat_range_rev a.reverse
  simpa using this

theorem bytesToNat_lower_rev (x : UInt8) (hx : x ≠ 0) : ∀ (r : Bytes), 256 ^ r.length ≤ bytesToNat (x :: r.reverse)
  | [] => by
    simp [bytesToNat]
    have : x.toNat ≠ 0 := fun h => hx (UInt8.toNat_inj.mp (by simpa using h))
    omega
  | y :: rs => by
    rw [List.reverse_cons, ← List.cons_append, bytesToNat_append]
    have ih := bytesToNat_lower_rev x hx rs
    simp only [List.length_cons, Nat.pow_succ]
    omega

/-- … and at least `256^(n-1)` when the first byte is not NUL -/
theorem bytesToNat_lower (x : UInt8) (as : Bytes) (hx : x ≠ 0) : 256 ^ as.length ≤ bytesToNat (x :: as) := by
  have := bytesToNat_lower_rev x hx as.reverse
  simpa using this

/-- strings that do not start with a NUL byte (every version string `ParseBlockVersion` accepts
starts with a digit) are determined by their value -/
theorem bytesToNat_inj_of_nonzero_head (x y : UInt8) (as bs : Bytes) (hx : x ≠ 0) (hy : y ≠ 0)
    (h : bytesToNat (x :: as) = bytesToNat (y :: bs)) : x :: as = y :: bs := by
  have hlen : as.length = bs.length := by
    have l1 := bytesToNat_lower x as hx; have u1 := bytesToNat_range (x :: as)
    have l2 := bytesToNat_lower y bs hy; have u2 := bytesToNat_range (y :: bs)
    simp only [List.length_cons] at u1 u2
    rcases Nat.lt_trichotomy as.length bs.length with hlt | heq | hgt
    · have : 256 ^ (as.length + 1) ≤ 256 ^ bs.length := Nat.pow_le_pow_right (by decide) hlt
      omega
    · exact heq
    · have : 256 ^ (bs.length + 1) ≤ 256 ^ as.length := Nat.pow_le_pow_right (by decide) hgt
      omega
  exact bytesToNat_inj_of_length (as.length + 1) _ _ (by simp) (by simp [hlen]) h

theorem parseFold_none (bs : Bytes) : bs.foldl digitStep none = none := by
  induction bs with
  | nil => rfl
  | cons b bs ih => simpa [digitStep] using ih

theorem parseUint_head (x : UInt8) (p : Bytes) (n : Nat) (h : parseUint (x :: p) = some n) : 48 ≤ x ∧ x ≤ 57 := by
  unfold parseUint at h
  simp only [List.isEmpty_cons, Bool.false_eq_true, if_false, List.foldl_cons] at h
  by_cases hd : 48 ≤ x ∧ x ≤ 57
  · exact hd
  · have : digitStep (some 0) x = none := by simp [digitStep, hd]
    rw [this, parseFold_none] at h
    simp at h

theorem splitDots_ne_nil : ∀ (bs : Bytes), splitDots bs ≠ []
  | [] => by simp [splitDots]
  | b :: rest => by
    unfold splitDots
    split
    · simp
    · split <;> simp

theorem parseVersionWith_head (l : Bool) (x : UInt8) (as : Bytes) (v : Ver)
    (h : parseVersionWith l (x :: as) = some v) : x ≠ 0 := by
  unfold parseVersionWith at h
  simp only [List.isEmpty_cons, Bool.false_eq_true, if_false] at h
  split at h
  · simp at h
  -- the first part
  have hs : ∃ p ps, splitDots (x :: as) = (if x = 46 then [] else x :: p) :: ps := by
    unfold splitDots
    cases hr : splitDots as with
    | nil => exact absurd hr (splitDots_ne_nil as)
    | cons p ps =>
      by_cases h46 : x = 46
      · exact ⟨p, p :: ps, by simp [h46]⟩
      · exact ⟨p, ps, by simp [h46]⟩
  obtain ⟨p, ps, hs⟩ := hs
  rw [hs] at h
  simp only [List.getElem?_cons_zero] at h
  by_cases h46 : x = 46
  · simp [h46, parseUint] at h
  · simp only [h46, if_false] at h
    cases hp : parseUint (x :: p) with
    | none => simp [hp] at h
    | some n =>
      have := parseUint_head x p n hp
      intro hx
      rw [hx] at this
      exact absurd this.1 (by decide)

theorem parseVersion_head (x : UInt8) (as : Bytes) (v : Ver) (h : parseVersion (x :: as) = some v) : x ≠ 0 :=
  parseVersionWith_head _ x as v h

/-- since 2e0402b an accepted version string is at most 31 bytes long -/
theorem parseVersion_short (a : Bytes) (v : Ver) (hl : versionLengthLimited = true) (h : parseVersion a = some v) :
    a.length ≤ 31 := by
  unfold parseVersion parseVersionWith at h
  rw [hl] at h
  cases a with
  | nil => simp
  | cons x as =>
    simp only [List.isEmpty_cons, Bool.false_eq_true, if_false, Bool.true_and, decide_eq_true_eq] at h
    split at h
    · simp at h
    · omega

theorem chainOK_mem_verified {σ : Type} (sem : StateSem σ) (net : Net) (st0 : σ) (hd : Option Head) (st : σ)
    (stored : List Bundle) (h : ChainOK sem net st0 hd st stored) : ∀ B ∈ stored, Verified net B := by
  induction h with
  | empty => intro B hB; simp at hB
  | cons B rest head st st' _ hv _ _ _ _ _ ih =>
    intro X hX
    rcases List.mem_cons.mp hX with rfl | hX
    · exact hv
    · exact ih X hX


/-! ### the Pedersen formats (before 0.13.2) -/


/-- what the Pedersen transaction commitment (pre-0.13.2) sees of a transaction -/
def sigViewPedersen (allSigs : Bool) (t : Tx) : Term × List Term :=
  (t.hash.getD (.felt 0), if allSigs then t.signature else (match t with | .invoke i => i.signature | _ => []))

theorem txLeafPedersen_inj (f f' : Bool) (a b : Tx) (h : txLeafPedersen f a = txLeafPedersen f' b) :
    sigViewPedersen f a = sigViewPedersen f' b := by
  unfold txLeafPedersen at h
  simp only [Term.ped.injEq, Term.pedN.injEq] at h
  simp only [sigViewPedersen, Prod.mk.injEq]
  exact h

theorem map2_inj {α β γ : Type} (f f' : α → β) (g g' : α → γ) (hf : ∀ a b, f a = f' b → g a = g' b) :
    ∀ (xs ys : List α), xs.map f = ys.map f' → xs.map g = ys.map g'
  | [], [], _ => rfl
  | [], _ :: _, h => by simp at h
  | _ :: _, [], h => by simp at h
  | x :: xs, y :: ys, h => by
    simp only [List.map_cons, List.cons.injEq] at h ⊢
    exact ⟨hf _ _ h.1, map2_inj f f' g g' hf xs ys h.2⟩

theorem eventLeafPedersen_inj (e e' : Event) (h : eventLeafPedersen e = eventLeafPedersen e') : e = e' := by
  unfold eventLeafPedersen at h
  simp only [Term.pedN.injEq, List.cons.injEq, and_true] at h
  cases e; cases e'; simp_all

def eventsOnly (rs : List Receipt) : List Event := rs.flatMap (·.events)

theorem eventLeavesPedersen_eq (rs : List Receipt) : eventLeavesPedersen rs = (eventsOnly rs).map eventLeafPedersen := by
  induction rs with
  | nil => rfl
  | cons r rs ih =>
    simp only [eventLeavesPedersen, eventsOnly, List.flatMap_cons, List.map_append] at ih ⊢
    rw [ih]

/-- header fields the post-0.7 (pre-0.13.2) Pedersen block hash commits -/
structure HeaderViewPost07 where
  number : UInt64
  stateRoot : Term
  sequencer : Term
  timestamp : UInt64
  txCount : UInt64
  eventCount : UInt64
  parentHash : Term
deriving DecidableEq, Repr

def allSigsOf (b : Block) : Bool := match parseVersion b.header.version with | some v => v.ge v0_11_1 | none => false

theorem post07_inj (b b' : Block) (ov ov' : Option Term) (x : Term)
    (h : post07 b ov = some x) (h' : post07 b' ov' = some x) :
    ∃ seq seq', (match ov with | some s => some s | none => b.header.sequencer) = some seq ∧
      (match ov' with | some s => some s | none => b'.header.sequencer) = some seq' ∧
      (⟨b.header.number, b.header.stateRoot, seq, b.header.timestamp, b.header.txCount, b.header.eventCount, b.header.parentHash⟩ : HeaderViewPost07)
        = ⟨b'.header.number, b'.header.stateRoot, seq', b'.header.timestamp, b'.header.txCount, b'.header.eventCount, b'.header.parentHash⟩ ∧
      b.txs.map (sigViewPedersen (allSigsOf b)) = b'.txs.map (sigViewPedersen (allSigsOf b')) ∧
      eventsOnly b.receipts = eventsOnly b'.receipts := by
  unfold post07 at h h'
  dsimp only at h h'
  split at h
  case h_2 => simp at h
  rename_i txc seq htc hs
  split at h'
  case h_2 => simp at h'
  rename_i txc' seq' htc' hs'
  unfold pedTxComm at htc htc'
  cases hp : parseVersion b.header.version with
  | none => simp [hp] at htc
  | some v =>
  cases hp' : parseVersion b'.header.version with
  | none => simp [hp'] at htc'
  | some v' =>
  simp only [hp, hp', Option.some.injEq] at htc htc'
  subst htc htc'
  simp only [Option.some.injEq] at h h'
  subst h
  simp only [Term.pedN.injEq, Term.comm.injEq, List.cons.injEq, true_and, and_true] at h'
  obtain ⟨hn, hr, hq, ht, htcnt, htx, hec, hev, hpar⟩ := h'
  refine ⟨seq, seq', hs, hs', ?_, ?_, ?_⟩
  · simp [u64_inj hn, hr, hq, u64_inj ht, u64_inj htcnt, u64_inj hec, hpar]
  · simp only [allSigsOf, hp, hp']
    exact (map2_inj _ _ _ _ (fun a c hh => txLeafPedersen_inj _ _ a c hh) _ _ htx).symm
  · rw [eventLeavesPedersen_eq, eventLeavesPedersen_eq] at hev
    have := map_inj_of_inj eventLeafPedersen id (fun a c hh => eventLeafPedersen_inj a c hh) _ _ hev
    simpa using this.symm


/-! ### version strings modulo the prime -/

theorem bytesToNat_lt_prime_of_short (a : Bytes) (h : a.length ≤ 31) : bytesToNat a < starkPrime := by
  have r := bytesToNat_range a
  have p : 256 ^ a.length ≤ 256 ^ 31 := Nat.pow_le_pow_right (by decide) h
  unfold starkPrime
  omega

def wrapWitness : Bytes := [48,46,49,52,46,49,46,0,2,40,142,226,40,128,230,116,0,0,0,0,0,0,0,0,0,0,0,0,0,0,0,6,5,198,86,179,247,89,225,100]


theorem post0134_version_only_modP (b : Block) (sd : StateDiff) (v' : Bytes)
    (h : bytesToNat v' % starkPrime = bytesToNat b.header.version % starkPrime) :
    post0134 { b with header := { b.header with version := v' } } sd = post0134 b sd := by
  simp [post0134, commonPrefix, setBytes, h]

/-! ### the Store write model -/


theorem runSSteps_some_iff : ∀ (steps : List SStep) (b : WBatch),
    (runSSteps steps b).isSome = true ↔ ∀ s ∈ steps, s.1 = true
  | [], b => by simp [runSSteps]
  | (ok, ops) :: rest, b => by
    unfold runSSteps
    by_cases h : ok = true
    · simp [h, runSSteps_some_iff rest (b ++ ops)]
    · simp [h]

theorem runSSteps_eq : ∀ (steps : List SStep) (b : WBatch), (∀ s ∈ steps, s.1 = true) →
    runSSteps steps b = some (b ++ (steps.map (·.2)).flatten)
  | [], b, _ => by simp [runSSteps]
  | (ok, ops) :: rest, b, h => by
    have hok : ok = true := h (ok, ops) (by simp)
    unfold runSSteps
    simp only [hok, if_true]
    rw [runSSteps_eq rest (b ++ ops) (fun s hs => h s (by simp [hs]))]
    simp

theorem dbStore_fail_no_effect (db : DB) (i : StoreInput) (io : Nat → Bool) (h : (dbStore db i io).2 = false) :
    (dbStore db i io).1 = db := by
  unfold dbStore at h ⊢
  split
  · rename_i heq; simp [heq] at h
  · rfl

theorem dbStore_ok_iff (db : DB) (i : StoreInput) (io : Nat → Bool) :
    (dbStore db i io).2 = true ↔ (i.successionOK = true ∧ i.stateOK = true ∧ ∀ k, k < 10 → io k = false) := by
  have key := runSSteps_some_iff (storeSteps i io) []
  have : (dbStore db i io).2 = (runSSteps (storeSteps i io) []).isSome := by
    unfold dbStore; split <;> simp [*]
  rw [this, key]
  simp only [storeSteps, List.mem_cons, List.mem_nil_iff, or_false, forall_eq_or_imp, forall_eq, Bool.and_eq_true,
    Bool.not_eq_true']
  constructor
  · rintro ⟨⟨hs, h0⟩, ⟨hst, h1⟩, h2, h3, h4, h5, h6, h7, h8, h9⟩
    refine ⟨hs, hst, ?_⟩
    intro k hk
    have : k = 0 ∨ k = 1 ∨ k = 2 ∨ k = 3 ∨ k = 4 ∨ k = 5 ∨ k = 6 ∨ k = 7 ∨ k = 8 ∨ k = 9 := by omega
    rcases this with r | r | r | r | r | r | r | r | r | r <;> subst r <;> assumption
  · rintro ⟨hs, hst, hio⟩
    exact ⟨⟨hs, hio 0 (by omega)⟩, ⟨hst, hio 1 (by omega)⟩, hio 2 (by omega), hio 3 (by omega), hio 4 (by omega),
      hio 5 (by omega), hio 6 (by omega), hio 7 (by omega), hio 8 (by omega), hio 9 (by omega)⟩

theorem applyBatch_frame : ∀ (b : WBatch) (db : DB) (k : DKey), (∀ op ∈ b, op.1 ≠ k) → db.applyBatch b k = db k
  | [], db, k, _ => rfl
  | op :: rest, db, k, h => by
    have h1 : op.1 ≠ k := h op (by simp)
    show DB.applyBatch (fun k' => if k' = op.1 then op.2 else db k') rest k = db k
    rw [applyBatch_frame rest _ k (fun o ho => h o (by simp [ho]))]
    simp [Ne.symm h1]

theorem applyBatch_append (db : DB) (a b : WBatch) : db.applyBatch (a ++ b) = (db.applyBatch a).applyBatch b := by
  simp [DB.applyBatch, List.foldl_append]

theorem applyBatch_last_write (db : DB) (b1 b2 : WBatch) (k : DKey) (v : Option Nat) (h : ∀ op ∈ b2, op.1 ≠ k) :
    db.applyBatch (b1 ++ (k, v) :: b2) k = v := by
  rw [applyBatch_append]
  show DB.applyBatch (fun k' => if k' = k then v else (db.applyBatch b1) k') b2 k = v
  rw [applyBatch_frame b2 _ k h]
  simp

/-- after a successful `Store` the chain height is the block's number, its header is indexed by
number and its number by hash — and every key of another bucket family / another block keeps its value -/
theorem dbStore_ok_head (db : DB) (i : StoreInput) (io : Nat → Bool) (h : (dbStore db i io).2 = true) :
    (dbStore db i io).1 (.chainHeight, 0) = some i.number ∧
    (dbStore db i io).1 (.headerByNumber, i.number) = some i.header := by
  have hall := (runSSteps_some_iff (storeSteps i io) []).mp (by
    have : (dbStore db i io).2 = (runSSteps (storeSteps i io) []).isSome := by
      unfold dbStore; split <;> simp [*]
    rw [← this]; exact h)
  have heq := runSSteps_eq (storeSteps i io) [] hall
  unfold dbStore
  rw [heq]
  simp only [storeSteps, List.map_cons, List.map_nil, List.flatten_cons, List.flatten_nil, List.nil_append, List.append_nil]
  constructor
  · have := applyBatch_last_write db
      (List.map (fun w => ((Bucket.state, w.1), w.2)) i.stateWrites ++
        ([((Bucket.headerByNumber, i.number), some i.header), ((Bucket.numberByHash, i.hashId), some i.number)] ++
          ([((Bucket.txsAndReceipts, i.number), some i.body)] ++ ([((Bucket.stateUpdate, i.number), some i.su)] ++
            ([((Bucket.commitments, i.number), some i.commitments)] ++
              (List.map (fun m => ((Bucket.l1HandlerMsgHashes, m.1), some m.2)) i.l1msgs ++
                List.map (fun m => ((Bucket.casmMetadata, m.1), some m.2)) i.casm))))))
      [((Bucket.eventFilter, 0), some i.bloom)] (Bucket.chainHeight, 0) (some i.number) (by simp)
    simpa [List.append_assoc] using this
  · have := applyBatch_last_write db (List.map (fun w => ((Bucket.state, w.1), w.2)) i.stateWrites)
      (((Bucket.numberByHash, i.hashId), some i.number) ::
          ([((Bucket.txsAndReceipts, i.number), some i.body)] ++ ([((Bucket.stateUpdate, i.number), some i.su)] ++
            ([((Bucket.commitments, i.number), some i.commitments)] ++
              (List.map (fun m => ((Bucket.l1HandlerMsgHashes, m.1), some m.2)) i.l1msgs ++
                (List.map (fun m => ((Bucket.casmMetadata, m.1), some m.2)) i.casm ++
                  [((Bucket.chainHeight, 0), some i.number), ((Bucket.eventFilter, 0), some i.bloom)]))))))
      (Bucket.headerByNumber, i.number) (some i.header) (by
        intro op hop
        simp only [List.mem_cons, List.mem_append, List.mem_map, List.mem_nil_iff, or_false] at hop
        rcases hop with r | r | r | r | ⟨m, _, r⟩ | ⟨m, _, r⟩ | r | r <;> (subst r; simp))
    simpa [List.append_assoc] using this

/-! ### histories with reverts -/


def ChainOK' {σ : Type} (sem : StateSem σ) (net : Net) (st0 : σ) (c : Chain σ) : Prop :=
  ChainOK sem net st0 c.head c.st c.stored

/-- every snapshot of the node (the current chain and every chain a revert can return to) is well formed -/
def NodeOK {σ : Type} (sem : StateSem σ) (net : Net) (st0 : σ) (n : NodeSt σ) : Prop :=
  ChainOK' sem net st0 n.cur ∧ ∀ p ∈ n.prev, ChainOK' sem net st0 p

theorem accept_preserves {σ : Type} (sem : StateSem σ) (net : Net) (st0 : σ) (c c' : Chain σ) (B : Bundle)
    (h : ChainOK' sem net st0 c) (hacc : accept sem net c B = .ok c') : ChainOK' sem net st0 c' := by
  have := offer_preserves sem net st0 c B h
  unfold offer at this
  rw [hacc] at this
  exact this

theorem stepOp_preserves {σ : Type} (sem : StateSem σ) (net : Net) (st0 : σ) (n : NodeSt σ) (o : Op)
    (h : NodeOK sem net st0 n) : NodeOK sem net st0 (stepOp sem net n o) := by
  cases o with
  | offer B =>
    simp only [stepOp]
    cases hacc : accept sem net n.cur B with
    | error e => simpa using h
    | ok c' =>
      simp only
      refine ⟨accept_preserves sem net st0 n.cur c' B h.1 hacc, ?_⟩
      intro p hp
      rcases List.mem_cons.mp hp with rfl | hp
      · exact h.1
      · exact h.2 p hp
  | revert =>
    simp only [stepOp]
    cases hp : n.prev with
    | nil => simpa [hp] using h
    | cons p ps =>
      simp only
      refine ⟨h.2 p (by simp [hp]), ?_⟩
      intro q hq
      exact h.2 q (by simp [hp, hq])

theorem runOps_preserves {σ : Type} (sem : StateSem σ) (net : Net) (st0 : σ) :
    ∀ (ops : List Op) (n : NodeSt σ), NodeOK sem net st0 n → NodeOK sem net st0 (runOps sem net n ops)
  | [], _, h => h
  | o :: rest, n, h => runOps_preserves sem net st0 rest _ (stepOp_preserves sem net st0 n o h)

end Juno.C02
