import JunoModel.Common.Proto
import JunoModel.C02.ModelAccept
import JunoModel.C02.ModelStore
import JunoModel.C02.ModelBody
/-!
Line-protocol driver for the C02 model (`lake build c02drv`).

Wire format (space separated tokens): numbers and felts are hex without prefix; `~` is nil / none;
a list is its length followed by the elements; a byte string is hex (`-` when empty); a bool is 0/1.
Records are their fields in the order of the Lean structures. Terms are printed in prefix form
`( posN t1 .. tn )`, `( pedN .. )`, `( ped a b )`, `( keccak <hexbytes> )`, `( comm pos|ped l1 .. ln )`;
the Go side evaluates them with the real primitives.
-/
open Juno.Proto Juno.C02

abbrev P := StateT (List String) Option

def tok : P String := fun s => match s with | [] => none | t :: r => some (t, r)
def pNat : P Nat := do let t ← tok; match hexToNat? t with | some n => pure n | none => failure
def pU64 : P UInt64 := do let n ← pNat; if n < 2 ^ 64 then pure (UInt64.ofNat n) else failure
def pU32 : P UInt32 := do let n ← pNat; if n < 2 ^ 32 then pure (UInt32.ofNat n) else failure
def pFelt : P Term := do let n ← pNat; pure (.felt n)
def pBool : P Bool := do let t ← tok; if t == "1" then pure true else if t == "0" then pure false else failure
def pBytes : P Bytes := do let t ← tok; match hexToBytes? t with | some b => pure b | none => failure

def peekNil : P Bool := fun s => match s with | "~" :: r => some (true, r) | _ => some (false, s)

def pOpt (p : P α) : P (Option α) := do
  if (← peekNil) then pure none else (do let x ← p; pure (some x))

def pRep (p : P α) : Nat → P (List α)
  | 0 => pure []
  | n + 1 => do let x ← p; let xs ← pRep p n; pure (x :: xs)

def pList (p : P α) : P (List α) := do
  let n ← pNat
  if n > 100000 then failure else pRep p n

def pGasPrice : P GasPrice := do
  let w ← pOpt pFelt; let f ← pOpt pFelt; pure ⟨w, f⟩

def pHeader : P Header := do
  let hash ← pFelt; let parent ← pFelt; let number ← pU64; let root ← pFelt
  let seq ← pOpt pFelt; let txc ← pU64; let evc ← pU64; let ts ← pU64; let ver ← pBytes
  let eth ← pFelt; let strk ← pOpt pFelt; let da ← pNat
  let dg ← pOpt pGasPrice; let l2 ← pOpt pGasPrice
  pure ⟨hash, parent, number, root, seq, txc, evc, ts, ver, eth, strk, da, dg, l2⟩

def pRB : P RB := do let a ← pU64; let p ← pOpt pNat; pure ⟨a, p⟩
def pBounds : P Bounds := do
  let a ← pOpt pRB; let b ← pOpt pRB; let c ← pOpt pRB; pure ⟨a, b, c⟩

def pTx : P Tx := do
  let k ← tok
  match k with
  | "I" => do
    let hash ← pFelt; let cd ← pList pFelt; let sig ← pList pFelt; let maxFee ← pFelt
    let ca ← pFelt; let ver ← pNat; let eps ← pFelt; let nonce ← pFelt; let sender ← pFelt
    let b ← pBounds; let tip ← pU64; let pm ← pList pFelt; let add ← pList pFelt
    let nda ← pU32; let fda ← pU32; let pf ← pList pFelt
    pure (.invoke ⟨hash, cd, sig, maxFee, ca, ver, eps, nonce, sender, b, tip, pm, add, nda, fda, pf⟩)
  | "D" => do
    let hash ← pOpt pFelt; let ch ← pFelt; let sender ← pFelt; let maxFee ← pFelt; let sig ← pList pFelt
    let nonce ← pFelt; let ver ← pNat; let cch ← pFelt
    let b ← pBounds; let tip ← pU64; let pm ← pList pFelt; let add ← pList pFelt
    let nda ← pU32; let fda ← pU32
    pure (.declare ⟨hash, ch, sender, maxFee, sig, nonce, ver, cch, b, tip, pm, add, nda, fda⟩)
  | "P" => do
    let hash ← pOpt pFelt; let salt ← pFelt; let ca ← pFelt; let ch ← pFelt; let cd ← pList pFelt
    let ver ← pNat
    pure (.deploy ⟨hash, salt, ca, ch, cd, ver⟩)
  | "A" => do
    let hash ← pFelt; let salt ← pFelt; let ca ← pFelt; let ch ← pFelt; let cd ← pList pFelt
    let ver ← pNat; let maxFee ← pFelt; let sig ← pList pFelt; let nonce ← pFelt
    let b ← pBounds; let tip ← pU64; let pm ← pList pFelt; let nda ← pU32; let fda ← pU32
    pure (.deployAccount ⟨hash, salt, ca, ch, cd, ver, maxFee, sig, nonce, b, tip, pm, nda, fda⟩)
  | "L" => do
    let hash ← pFelt; let ca ← pFelt; let eps ← pFelt; let nonce ← pOpt pFelt; let cd ← pList pFelt
    let ver ← pNat
    pure (.l1Handler ⟨hash, ca, eps, nonce, cd, ver⟩)
  | _ => failure

def pEvent : P Event := do
  let f ← pFelt; let k ← pList pFelt; let d ← pList pFelt; pure ⟨f, k, d⟩

def pMsg : P Msg := do
  let f ← pFelt; let p ← pList pFelt; let to ← pNat; pure ⟨f, p, to⟩

def pGas : P Gas := do let a ← pU64; let b ← pU64; let c ← pU64; pure ⟨a, b, c⟩

def pReceipt : P Receipt := do
  let fee ← pFelt; let unit ← pNat; let evs ← pList pEvent; let gas ← pOpt pGas; let steps ← pU64
  let l1 ← pOpt pFelt; let msgs ← pList pMsg; let txh ← pFelt; let rev ← pBool; let reason ← pBytes
  pure ⟨fee, unit, evs, gas, steps, l1, msgs, txh, rev, reason⟩

def pKV : P (Nat × Term) := do let k ← pNat; let v ← pFelt; pure (k, v)
def pFMap : P FMap := pList pKV

def pStateDiff : P StateDiff := do
  let st ← pList (do let a ← pNat; let m ← pFMap; pure (a, m))
  let nonces ← pFMap; let dep ← pFMap; let v0 ← pList pNat; let v1 ← pFMap; let rep ← pFMap
  let mig ← pFMap
  pure ⟨st, nonces, dep, v0, v1, rep, mig⟩

def pBlock : P Block := do
  let h ← pHeader; let txs ← pList pTx; let rs ← pList pReceipt; pure ⟨h, txs, rs⟩

def pNet : P Net := do
  let c ← pFelt; let f ← pU64
  let unv ← pOpt (do let a ← pU64; let b ← pU64; pure (a, b))
  let fb ← pOpt pFelt
  pure ⟨c, f, unv, fb⟩

def pClasses : P Classes :=
  pList (do let k ← pNat; let c0 ← pBool; let h ← pNat; let bad ← pBool; pure (k, (⟨c0, h, bad⟩ : ClassDef)))

def pBundle : P Bundle := do
  let b ← pBlock
  let bh ← pFelt; let nr ← pFelt; let orr ← pFelt; let d ← pStateDiff
  let cs ← pClasses
  pure ⟨b, ⟨bh, nr, orr, d⟩, cs⟩

def pHead : P (Option Head) := pOpt (do let n ← pU64; let h ← pFelt; pure (⟨n, h⟩ : Head))

/-! ### abstraction of declared hashes

`accept` compares terms. The Go side has evaluated the model's own hash terms (transaction hashes,
block hash per sequencer override) with the real primitives and sends the values; a literal in a
hash-typed position (transaction hash, receipt's transaction hash, block hash, state update's block
hash) that equals the value of such a term IS that hash, so it is replaced by the term before
`accept` runs (the standard symbolic abstraction of a concrete run). -/

def Tx.setHash (h : Term) : Tx → Tx
  | .invoke t => .invoke { t with hash := h }
  | .declare t => .declare { t with hash := some h }
  | .deploy t => .deploy { t with hash := some h }
  | .deployAccount t => .deployAccount { t with hash := h }
  | .l1Handler t => .l1Handler { t with hash := h }

/-- (value, term) pairs known so far -/
abbrev AbsTable := List (Nat × Term)

def absTerm (tbl : AbsTable) (t : Term) : Term :=
  match t with
  | .felt n => (match tbl.find? (fun p => p.1 == n) with | some p => p.2 | none => t)
  | _ => t

def abstractTxs (chain : Term) : List Tx → List (Option Nat) → List Tx × AbsTable
  | t :: ts, e :: es =>
    let (ts', tbl) := abstractTxs chain ts es
    match e, txHash chain t, t.hash with
    | some v, some T, some (.felt n) =>
      if n == v then
        -- kinds whose hash is "as declared" keep their literal: their term would be the literal itself
        (match T with
         | .felt _ => (t :: ts', tbl)
         | _ => (Tx.setHash T t :: ts', (v, T) :: tbl))
      else (t :: ts', (v, T) :: tbl)
    | some v, some T, _ => (t :: ts', (v, T) :: tbl)
    | _, _, _ => (t :: ts', tbl)
  | ts, _ => (ts, [])

def abstractBundle (net : Net) (B : Bundle) (txVals : List (Option Nat)) (bhVals : List (Option Nat)) : Bundle :=
  let (txs', tbl) := abstractTxs net.chainId B.block.txs txVals
  let rs' := B.block.receipts.map (fun r => { r with txHash := absTerm tbl r.txHash })
  let b1 : Block := { B.block with txs := txs', receipts := rs' }
  -- block hash terms of the abstracted block, per override the verification loop may use
  let fbs : List Term := (.felt 0) :: (match net.fallbackSeq with | some f => [f] | none => [])
  let ovs : List (Option Term) := fbs.map (fun fb => if b1.header.sequencer.isNone then some fb else none)
  let bhTbl : AbsTable := (List.zip ovs bhVals).filterMap (fun p =>
    match p.2, blockHash net b1 B.su.diff p.1 with
    | some v, some T => some (v, T)
    | _, _ => none)
  let hdr := { b1.header with hash := absTerm bhTbl b1.header.hash }
  { B with block := { b1 with header := hdr }, su := { B.su with blockHash := absTerm bhTbl B.su.blockHash } }

def rejectStr : Reject → String
  | .suBlockHash => "su-blockhash" | .suNewRoot => "su-newroot" | .classHash => "class-hash"
  | .txReceiptLen => "tx-receipt-len" | .receiptTxHash => "receipt-txhash" | .txHash => "tx-hash"
  | .blockHash => "block-hash" | .version => "version" | .number => "number" | .parent => "parent"
  | .state => "state" | .malformed => "malformed"

/-- every check of `SanityCheckNewHeight` / `verifyBlockSuccession` that fails on its own (the
comparison with the real node is insensitive to the ORDER of independent checks, so that a
harmless reordering in juno does not raise an alarm; the model's `accept` has the code's order). -/
def failures (net : Net) (head : Option Head) (B : Bundle) : List Reject :=
  let b := B.block
  let skip := inUnverifiable net b.header.number
  (if b.header.hash ≠ B.su.blockHash then [.suBlockHash] else []) ++
  (if b.header.stateRoot ≠ B.su.newRoot then [.suNewRoot] else []) ++
  (if !verifyClassHashes B.classes then [.classHash] else []) ++
  (if b.txs.length ≠ b.receipts.length then [.txReceiptLen] else []) ++
  (if !(List.zip b.txs b.receipts).all (fun tr => tr.1.hash == some tr.2.txHash) then [.receiptTxHash] else []) ++
  (if l1CalldataChecked && b.txs.any l1NoCalldata then [.malformed] else []) ++
  (match (if skip then Except.ok () else verifyTransactionsE net.chainId b.txs b.header.version) with
   | .error e => [e] | .ok () => []) ++
  (match tryFallbacks net b B.su.diff skip (fallbackAddrs net) with
   | .error e => [e] | .ok () => []) ++
  (if !versionSupported b.header.version then [.version] else []) ++
  (if expectedNumber head ≠ b.header.number then [.number] else []) ++
  (if b.header.parentHash ≠ expectedParent head then [.parent] else [])

partial def termStr : Term → String
  | .felt n => natToHex n
  | .ped a b => "( ped " ++ termStr a ++ " " ++ termStr b ++ " )"
  | .pedN xs => "( pedN" ++ String.join (xs.map (fun t => " " ++ termStr t)) ++ " )"
  | .posN xs => "( posN" ++ String.join (xs.map (fun t => " " ++ termStr t)) ++ " )"
  | .keccak bs => "( keccak " ++ bytesToHex bs ++ " )"
  | .comm k ls => "( comm " ++ (match k with | .ped => "ped" | .pos => "pos")
                  ++ String.join (ls.map (fun t => " " ++ termStr t)) ++ " )"

def optTermStr : Option Term → String
  | some t => termStr t
  | none => "err"

/-- run a parser on all remaining tokens; every token must be consumed. -/
def parseAll (p : P α) (ts : List String) : Option α :=
  match p ts with
  | some (x, []) => some x
  | _ => none

def fmtStr : Format → String
  | .pre07 => "pre07" | .post07 => "post07" | .v0132 => "v0132" | .v0134 => "v0134"

/-! ### store-level node (round 4): the driver keeps the model's own index store across requests; the
harness compares, after EVERY operation on the real node, the key/value difference of the real
database (non-state buckets) with the batch the model built, so the two stores stay equal by
induction and the model never reads the real one. -/

structure DState where
  db : IDB := []

def feltHex64 : Term → String
  | .felt n => bytesToHex (beBytes 32 n)
  | _ => "?"

def u64Hex16 (n : UInt64) : String := bytesToHex (beBytes 8 n.toNat)

def ikeyStr : IKey → String
  | .chainHeight => "H"
  | .headerByNumber n => "h:" ++ u64Hex16 n
  | .numberByHash h => "n:" ++ feltHex64 h
  | .txIndexByHash h => "t:" ++ feltHex64 h
  | .blockTxs n => "b:" ++ u64Hex16 n
  | .stateUpdate n => "s:" ++ u64Hex16 n
  | .commitments n => "c:" ++ u64Hex16 n
  | .l1MsgHash pre => "l:" ++ String.join (pre.map feltHex64)
  | .casmMeta c => "m:" ++ bytesToHex (beBytes 32 c)

def ivalStr : Option IVal → String
  | none => "del"
  | some (.num n) => "num:" ++ u64Hex16 n
  | some (.txIdx n i) => "idx:" ++ u64Hex16 n ++ u64Hex16 i
  | some (.txHash h) => "felt:" ++ feltHex64 h
  | some (.casm m) => "casm:" ++ bytesToHex m.marshal
  | some _ => "*"

def batchStr (b : IBatch) : String :=
  if b.isEmpty then "-" else String.intercalate " " (b.map (fun op => ikeyStr op.1 ++ "=" ++ ivalStr op.2))

def migrateErrStr : MigrateErr → String
  | .v2Declared => "v2-declared" | .beforeDeclared => "before-declared" | .alreadyMigrated => "already-migrated"
  | .notMigrated => "not-migrated"

def casmErrStr : CasmErr → String
  | .classMissing => "casm-class-missing" | .notSierra => "casm-not-sierra" | .metaMissing => "casm-meta-missing"
  | .migrate e => "casm-" ++ migrateErrStr e
  | .compiledHash => "casm-compiled-malformed"

def rejectSStr : RejectS → String
  | .version => "version" | .number => "number" | .parent => "parent" | .io => "io"
  | .stateOld => "state-old" | .stateApply => "state-apply" | .stateNew => "state-new"
  | .casm e => casmErrStr e | .panicL1 => "panic-l1-calldata"

def pV2 : P (List (Nat × Nat)) := pList (do let c ← pNat; let h ← pNat; pure (c, h))

/-- operations on one `ClassCasmHashMetadata` value: `m<hex>` = Migrate(at), `u` = Unmigrate -/
def casmOps : CasmMeta → List String → Option (CasmMeta × List String)
  | m, [] => some (m, [])
  | m, op :: rest =>
    let r : Option (Except MigrateErr CasmMeta) :=
      if op == "u" then some m.unmigrate
      else if op.startsWith "m" then (hexToNat? (String.ofList (op.toList.drop 1))).bind (fun n => if n < 2 ^ 64 then some (m.migrate (UInt64.ofNat n)) else none)
      else none
    match r with
    | none => none
    | some (.ok m') => (casmOps m' rest).map (fun p => (p.1, "ok" :: p.2))
    | some (.error e) => (casmOps m rest).map (fun p => (p.1, migrateErrStr e :: p.2))

/-! ### round 5: header counts vs body, Sierra class hash -/

def pSierraEP : P SierraEP := do let i ← pU64; let s ← pFelt; pure ⟨i, s⟩

/-- a Sierra class with its two precomputed hashes (`program` / `abi` are not read by `Hash()`) -/
def pSierraHashed : P SierraCls := do
  let v ← pBytes; let e ← pList pSierraEP; let l ← pList pSierraEP; let c ← pList pSierraEP
  let ah ← pFelt; let ph ← pFelt
  pure ⟨v, e, l, c, ah, ph, [], []⟩

/-- a Sierra class as the feeder delivers it: program and ABI, no hashes -/
def pSierraRaw : P SierraCls := do
  let v ← pBytes; let e ← pList pSierraEP; let l ← pList pSierraEP; let c ← pList pSierraEP
  let prog ← pList pFelt; let abi ← pBytes
  pure ⟨v, e, l, c, .felt 0, .felt 0, prog, abi⟩

/-- `core.SegmentLengths`: number of children, the children, the length -/
partial def pSeg : P Seg := do
  let n ← pNat
  if n > 64 then failure
  let cs ← pRep pSeg n
  let l ← pU64
  pure (Seg.mk cs l)

def step (s : DState) (line : String) : DState × String :=
  match words line with
  | "casmseg" :: rest =>
    -- does CasmClass.Hash panic? `~` = nil Compiled; else cap(bytecode) and BytecodeSegmentLengths.Children
    match parseAll (do let g ← pBool; let c ← pOpt (do let cap ← pNat; let ss ← pList pSeg; pure (⟨cap, ss⟩ : CompiledShape)); pure (g, c)) rest with
    | some (g, c) =>
      (s, match casmV2HashOutcomeWith g c with | .value => "value" | .error => "error" | .panic => "panic")
    | none => (s, "bad-op")
  | "counts" :: rest =>
    -- body lengths, the counts sn2core.AdaptBlock derives from the body, and "count = length" for the header sent
    match parseAll pBlock rest with
    | some b =>
      let bl := bodyLengths b
      (s, natToHex bl.txs ++ " " ++ natToHex bl.receipts ++ " " ++ natToHex bl.events ++ " " ++
          natToHex (adaptedTxCount b.txs).toNat ++ " " ++ natToHex (adaptedEventCount b.receipts).toNat ++ " " ++
          (if countsMatch b then "1" else "0") ++ " " ++ (if adaptCounts b == b then "1" else "0"))
    | none => (s, "bad-op")
  | "clshash" :: rest =>
    match parseAll (do let l ← pBool; let c ← pSierraHashed; pure (l, c)) rest with
    | some (l, c) => (s, optTermStr (sierraClassHashWith l c))
    | none => (s, "bad-op")
  | "clsadapt" :: rest =>
    match parseAll (do let l ← pBool; let c ← pSierraRaw; pure (l, c)) rest with
    | some (l, c) => (s, optTermStr (sierraClassHashWith l (adaptSierra c)))
    | none => (s, "bad-op")
  | "tx" :: rest =>
    match parseAll (do let n ← pNet; let t ← pTx; pure (n, t)) rest with
    | some (n, t) => (s, optTermStr (txHash n.chainId t))
    | none => (s, "bad-op")
  | "txleaf" :: f :: rest =>
    match parseAll pTx rest with
    | some t =>
      (s, match f with
          | "v0134" => termStr (txLeaf0134 t)
          | "v0132" => termStr (txLeaf0132 t)
          | "ped1" => termStr (txLeafPedersen true t)
          | "ped0" => termStr (txLeafPedersen false t)
          | _ => "bad-op")
    | none => (s, "bad-op")
  | "rcpt" :: rest =>
    match parseAll pReceipt rest with
    | some r => (s, termStr (receiptHash r))
    | none => (s, "bad-op")
  | "events" :: rest =>
    match parseAll (pList pReceipt) rest with
    | some rs => (s, termStr (.comm .pos (eventLeaves rs)))
    | none => (s, "bad-op")
  | "sd" :: rest =>
    match parseAll pStateDiff rest with
    | some d => (s, natToHex (stateDiffLength d) ++ " " ++ termStr (stateDiffHash d))
    | none => (s, "bad-op")
  | "bh" :: rest =>
    match parseAll (do let n ← pNet; let o ← pOpt pFelt; let b ← pBlock; let d ← pStateDiff; pure (n, o, b, d)) rest with
    | some (n, o, b, d) => (s, optTermStr (blockHash n b d o))
    | none => (s, "bad-op")
  | "parts" :: f :: rest =>
    match parseAll (do let b ← pBlock; let d ← pStateDiff; pure (b, d)) rest with
    | some (b, d) =>
      let leaf : Option (Tx → Term) :=
        match f with | "v0134" => some txLeaf0134 | "v0132" => some txLeaf0132 | _ => none
      (s, match leaf with
          | some lf => termStr (.comm .pos (b.txs.map lf)) ++ " | " ++ termStr (.comm .pos (eventLeaves b.receipts))
                       ++ " | " ++ termStr (.comm .pos (b.receipts.map receiptHash)) ++ " | " ++ termStr (stateDiffHash d)
                       ++ " | " ++ natToHex (stateDiffLength d)
          | none => "bad-op")
    | none => (s, "bad-op")
  | "accept" :: rest =>
    -- verdict of SanityCheckNewHeight + Store up to (not including) the state application
    match parseAll (do let n ← pNet; let hd ← pHead; let B ← pBundle
                       let tv ← pList (pOpt pNat); let bv ← pList (pOpt pNat); pure (n, hd, B, tv, bv)) rest with
    | some (n, hd, B, tv, bv) =>
      let B' := abstractBundle n B tv bv
      let sem : StateSem Term := ⟨fun st _ => st, fun _ _ _ _ => some B'.su.newRoot⟩
      let c : Chain Term := ⟨hd, B'.su.oldRoot, []⟩
      let fs := (failures n hd B').map rejectStr
      (s, (match verdict (accept sem n c B') with
           | none => "pass"
           | some e => rejectStr e) ++ " | " ++ String.intercalate "," fs)
    | none => (s, "bad-op")
  | "vtx" :: rest =>
    -- VerifyTransactions on transactions whose model hash is the declared literal itself
    match parseAll (do let n ← pNet; let v ← pBytes; let txs ← pList pTx; pure (n, v, txs)) rest with
    | some (n, v, txs) => (s, toString (verifyTransactions n.chainId txs v))
    | none => (s, "bad-op")
  | "cc" :: rest =>
    match parseAll (do let a ← pU64; let b ← pU64; let c ← pU64; let d ← pNat; pure (a, b, c, d)) rest with
    | some (a, b, c, d) => (s, natToHex (concatCounts a b c d % starkPrime))
    | none => (s, "bad-op")
  | "da" :: rest =>
    match parseAll (do let a ← pU32; let b ← pU32; pure (a, b)) rest with
    | some (fee, nonce) => (s, natToHex (daMode fee nonce))
    | none => (s, "bad-op")
  | "dispatch" :: rest =>
    match parseAll (do let n ← pNet; let num ← pU64; let v ← pBytes; pure (n, num, v)) rest with
    | some (n, num, v) =>
      (s, (match dispatch n num v with | some f => fmtStr f | none => "err")
          ++ " " ++ (if versionSupported v then "supported" else "unsupported"))
    | none => (s, "bad-op")
  | "node-reset" :: [] => ({ db := [] }, "ok")
  | "node-store" :: rest =>
    -- Store on the model's own index store. `chk`: the variant of storeCasmHashMetadataV2 the harness
    -- found in the code under test (does it require the definition of a declared class?). State: `curRoot` is the commitment of the real node's
    -- state under the block's version, `applyRes` the commitment after applying the diff (~ = the
    -- application fails); both are measured on a scratch copy of the real node, not taken from the bundle.
    match parseAll (do let chk ← pBool; let guarded ← pBool; let nb ← pBool; let B ← pBundle; let cid ← pNat; let cur ← pFelt; let ap ← pOpt pFelt
                       let v2 ← pV2; pure (chk, guarded, nb, B, cid, cur, ap, v2)) rest with
    | some (chk, guarded, nb, B, cid, cur, ap, v2) =>
      let sem : StateSem Term := ⟨fun st _ => st, fun _ _ _ _ => ap⟩
      let v2of : Nat → Nat := fun c => match v2.find? (fun p => p.1 == c) with | some p => p.2 | none => 0
      let n : NodeS Term := ⟨s.db, ⟨none, cur, []⟩⟩
      let errs := String.intercalate "," ((casmErrorsWith chk s.db B.block.header B.su.diff B.classes).map casmErrStr)
      (match storeCallbackWith chk nb sem n B cid v2of with
       | .ok (ws, _) => ({ db := s.db.applyBatch ws }, "ok | " ++ errs ++ " | " ++ batchStr ws)
       | .error e =>
         -- the V2 hash of a compiled class that cannot be computed: a panic as the code is (`guarded` = the variant of
         -- storeCasmHashMetadataV1 the harness found in the code under test), an error with the repair
         let v := if e == .casm .compiledHash && !guarded then "panic-casm-hash" else rejectSStr e
         (s, v ++ " | " ++ errs ++ " | -"))
    | none => (s, "bad-op")
  | "node-revert" :: [] =>
    (match getChainHeight s.db with
     | .error _ => (s, "io | -")
     | .ok height =>
       match s.db.get (.stateUpdate height) with
       | some (.su u) =>
         (match deleteBlockContent s.db u height with
          | .error e => (s, rejectSStr e ++ " | -")
          | .ok ws => ({ db := s.db.applyBatch ws }, "ok | " ++ batchStr ws))
       | _ => (s, "io | -"))
  | "node-head" :: [] =>
    (s, match headNumberAndHash s.db with
        | .ok hd => u64Hex16 hd.number ++ " " ++ feltHex64 hd.hash
        | .error .notFound => "empty"
        | .error .other => "io")
  | "casm" :: kind :: rest =>
    -- casm new1 <at> <v1> <v2> <ops…> ; <heights…>   |   casm new2 <at> <v2> <ops…> ; <heights…>
    let (args, hs) := (rest.takeWhile (· != ";"), (rest.dropWhile (· != ";")).drop 1)
    let init : Option (CasmMeta × List String) :=
      match kind, args with
      | "new1", a :: v1 :: v2 :: ops =>
        (do let a ← hexToNat? a; let v1 ← hexToNat? v1; let v2 ← hexToNat? v2
            if a < 2 ^ 64 then pure (CasmMeta.newV1 (UInt64.ofNat a) v1 v2, ops) else none)
      | "new2", a :: v2 :: ops =>
        (do let a ← hexToNat? a; let v2 ← hexToNat? v2
            if a < 2 ^ 64 then pure (CasmMeta.newV2 (UInt64.ofNat a) v2, ops) else none)
      | _, _ => none
    (match init with
     | none => (s, "bad-op")
     | some (m0, ops) =>
       match casmOps m0 ops, hs.mapM (fun h => (hexToNat? h).bind (fun n => if n < 2 ^ 64 then some (UInt64.ofNat n) else none)) with
       | some (m, rs), some heights =>
         (s, String.intercalate "," rs ++ " | " ++ bytesToHex m.marshal ++ " | " ++ natToHex m.casmHash ++ " " ++
             (if m.isMigrated then "1" else "0") ++ (if m.isDeclaredWithV2 then "1" else "0") ++ " | " ++
             String.intercalate "," (heights.map (fun h =>
               (match m.casmHashAt h with | some x => natToHex x | none => "nf") ++ (if m.isMigratedAt h then "+" else "-"))))
       | _, _ => (s, "bad-op"))
  | _ => (s, "bad-op")

def main : IO Unit := loop step {}
