import JunoModel.Common.Proto
import JunoModel.C02.ModelAccept
/-!
Line-protocol driver for the C02 model (`lake build c02drv`).

Wire format (space separated tokens): numbers and felts are hex without prefix; `~` is nil / none;
a list is its length followed by the elements; a byte string is hex (`-` when empty); a bool is 0/1.
Records are their fields in the order of the Lean structures. Terms are printed in prefix form
`( posN t1 .. tn )`, `( pedN .. )`, `( ped a b )`, `( keccak <hexbytes> )`, `( comm pos|ped l1 .. ln )`;
the Go side evaluates them with the real primitives.
-/
open Juno.Proto Juno.C02

abbrev P := StateT (List String) Option

def tok : P String := fun s => match s with | [] => none | t :: r => some (t, r)
def pNat : P Nat := do let t ← tok; match hexToNat? t with | some n => pure n | none => failure
def pU64 : P UInt64 := do let n ← pNat; if n < 2 ^ 64 then pure (UInt64.ofNat n) else failure
def pU32 : P UInt32 := do let n ← pNat; if n < 2 ^ 32 then pure (UInt32.ofNat n) else failure
def pFelt : P Term := do let n ← pNat; pure (.felt n)
def pBool : P Bool := do let t ← tok; if t == "1" then pure true else if t == "0" then pure false else failure
def pBytes : P Bytes := do let t ← tok; match hexToBytes? t with | some b => pure b | none => failure

def peekNil : P Bool := fun s => match s with | "~" :: r => some (true, r) | _ => some (false, s)

def pOpt (p : P α) : P (Option α) := do
  if (← peekNil) then pure none else (do let x ← p; pure (some x))

def pRep (p : P α) : Nat → P (List α)
  | 0 => pure []
  | n + 1 => do let x ← p; let xs ← pRep p n; pure (x :: xs)

def pList (p : P α) : P (List α) := do
  let n ← pNat
  if n > 100000 then failure else pRep p n

def pGasPrice : P GasPrice := do
  let w ← pOpt pFelt; let f ← pOpt pFelt; pure ⟨w, f⟩

def pHeader : P Header := do
  let hash ← pFelt; let parent ← pFelt; let number ← pU64; let root ← pFelt
  let seq ← pOpt pFelt; let txc ← pU64; let evc ← pU64; let ts ← pU64; let ver ← pBytes
  let eth ← pFelt; let strk ← pOpt pFelt; let da ← pNat
  let dg ← pOpt pGasPrice; let l2 ← pOpt pGasPrice
  pure ⟨hash, parent, number, root, seq, txc, evc, ts, ver, eth, strk, da, dg, l2⟩

def pRB : P RB := do let a ← pU64; let p ← pOpt pNat; pure ⟨a, p⟩
def pBounds : P Bounds := do
  let a ← pOpt pRB; let b ← pOpt pRB; let c ← pOpt pRB; pure ⟨a, b, c⟩

def pTx : P Tx := do
  let k ← tok
  match k with
  | "I" => do
    let hash ← pFelt; let cd ← pList pFelt; let sig ← pList pFelt; let maxFee ← pFelt
    let ca ← pFelt; let ver ← pNat; let eps ← pFelt; let nonce ← pFelt; let sender ← pFelt
    let b ← pBounds; let tip ← pU64; let pm ← pList pFelt; let add ← pList pFelt
    let nda ← pU32; let fda ← pU32; let pf ← pList pFelt
    pure (.invoke ⟨hash, cd, sig, maxFee, ca, ver, eps, nonce, sender, b, tip, pm, add, nda, fda, pf⟩)
  | "D" => do
    let hash ← pOpt pFelt; let ch ← pFelt; let sender ← pFelt; let maxFee ← pFelt; let sig ← pList pFelt
    let nonce ← pFelt; let ver ← pNat; let cch ← pFelt
    let b ← pBounds; let tip ← pU64; let pm ← pList pFelt; let add ← pList pFelt
    let nda ← pU32; let fda ← pU32
    pure (.declare ⟨hash, ch, sender, maxFee, sig, nonce, ver, cch, b, tip, pm, add, nda, fda⟩)
  | "P" => do
    let hash ← pOpt pFelt; let salt ← pFelt; let ca ← pFelt; let ch ← pFelt; let cd ← pList pFelt
    let ver ← pNat
    pure (.deploy ⟨hash, salt, ca, ch, cd, ver⟩)
  | "A" => do
    let hash ← pFelt; let salt ← pFelt; let ca ← pFelt; let ch ← pFelt; let cd ← pList pFelt
    let ver ← pNat; let maxFee ← pFelt; let sig ← pList pFelt; let nonce ← pFelt
    let b ← pBounds; let tip ← pU64; let pm ← pList pFelt; let nda ← pU32; let fda ← pU32
    pure (.deployAccount ⟨hash, salt, ca, ch, cd, ver, maxFee, sig, nonce, b, tip, pm, nda, fda⟩)
  | "L" => do
    let hash ← pFelt; let ca ← pFelt; let eps ← pFelt; let nonce ← pOpt pFelt; let cd ← pList pFelt
    let ver ← pNat
    pure (.l1Handler ⟨hash, ca, eps, nonce, cd, ver⟩)
  | _ => failure

def pEvent : P Event := do
  let f ← pFelt; let k ← pList pFelt; let d ← pList pFelt; pure ⟨f, k, d⟩

def pMsg : P Msg := do
  let f ← pFelt; let p ← pList pFelt; let to ← pNat; pure ⟨f, p, to⟩

def pGas : P Gas := do let a ← pU64; let b ← pU64; let c ← pU64; pure ⟨a, b, c⟩

def pReceipt : P Receipt := do
  let fee ← pFelt; let unit ← pNat; let evs ← pList pEvent; let gas ← pOpt pGas; let steps ← pU64
  let l1 ← pOpt pFelt; let msgs ← pList pMsg; let txh ← pFelt; let rev ← pBool; let reason ← pBytes
  pure ⟨fee, unit, evs, gas, steps, l1, msgs, txh, rev, reason⟩

def pKV : P (Nat × Term) := do let k ← pNat; let v ← pFelt; pure (k, v)
def pFMap : P FMap := pList pKV

def pStateDiff : P StateDiff := do
  let st ← pList (do let a ← pNat; let m ← pFMap; pure (a, m))
  let nonces ← pFMap; let dep ← pFMap; let v0 ← pList pNat; let v1 ← pFMap; let rep ← pFMap
  let mig ← pFMap
  pure ⟨st, nonces, dep, v0, v1, rep, mig⟩

def pBlock : P Block := do
  let h ← pHeader; let txs ← pList pTx; let rs ← pList pReceipt; pure ⟨h, txs, rs⟩

def pNet : P Net := do
  let c ← pFelt; let f ← pU64
  let unv ← pOpt (do let a ← pU64; let b ← pU64; pure (a, b))
  let fb ← pOpt pFelt
  pure ⟨c, f, unv, fb⟩

def pClasses : P Classes :=
  pList (do let k ← pNat; let c0 ← pBool; let h ← pNat; pure (k, (⟨c0, h⟩ : ClassDef)))

def pBundle : P Bundle := do
  let b ← pBlock
  let bh ← pFelt; let nr ← pFelt; let orr ← pFelt; let d ← pStateDiff
  let cs ← pClasses
  pure ⟨b, ⟨bh, nr, orr, d⟩, cs⟩

def pHead : P (Option Head) := pOpt (do let n ← pU64; let h ← pFelt; pure (⟨n, h⟩ : Head))

/-! ### abstraction of declared hashes

`accept` compares terms. The Go side has evaluated the model's own hash terms (transaction hashes,
block hash per sequencer override) with the real primitives and sends the values; a literal in a
hash-typed position (transaction hash, receipt's transaction hash, block hash, state update's block
hash) that equals the value of such a term IS that hash, so it is replaced by the term before
`accept` runs (the standard symbolic abstraction of a concrete run). -/

def Tx.setHash (h : Term) : Tx → Tx
  | .invoke t => .invoke { t with hash := h }
  | .declare t => .declare { t with hash := some h }
  | .deploy t => .deploy { t with hash := some h }
  | .deployAccount t => .deployAccount { t with hash := h }
  | .l1Handler t => .l1Handler { t with hash := h }

/-- (value, term) pairs known so far -/
abbrev AbsTable := List (Nat × Term)

def absTerm (tbl : AbsTable) (t : Term) : Term :=
  match t with
  | .felt n => (match tbl.find? (fun p => p.1 == n) with | some p => p.2 | none => t)
  | _ => t

def abstractTxs (chain : Term) : List Tx → List (Option Nat) → List Tx × AbsTable
  | t :: ts, e :: es =>
    let (ts', tbl) := abstractTxs chain ts es
    match e, txHash chain t, t.hash with
    | some v, some T, some (.felt n) =>
      if n == v then
        -- kinds whose hash is "as declared" keep their literal: their term would be the literal itself
        (match T with
         | .felt _ => (t :: ts', tbl)
         | _ => (Tx.setHash T t :: ts', (v, T) :: tbl))
      else (t :: ts', (v, T) :: tbl)
    | some v, some T, _ => (t :: ts', (v, T) :: tbl)
    | _, _, _ => (t :: ts', tbl)
  | ts, _ => (ts, [])

def abstractBundle (net : Net) (B : Bundle) (txVals : List (Option Nat)) (bhVals : List (Option Nat)) : Bundle :=
  let (txs', tbl) := abstractTxs net.chainId B.block.txs txVals
  let rs' := B.block.receipts.map (fun r => { r with txHash := absTerm tbl r.txHash })
  let b1 : Block := { B.block with txs := txs', receipts := rs' }
  -- block hash terms of the abstracted block, per override the verification loop may use
  let fbs : List Term := (.felt 0) :: (match net.fallbackSeq with | some f => [f] | none => [])
  let ovs : List (Option Term) := fbs.map (fun fb => if b1.header.sequencer.isNone then some fb else none)
  let bhTbl : AbsTable := (List.zip ovs bhVals).filterMap (fun p =>
    match p.2, blockHash net b1 B.su.diff p.1 with
    | some v, some T => some (v, T)
    | _, _ => none)
  let hdr := { b1.header with hash := absTerm bhTbl b1.header.hash }
  { B with block := { b1 with header := hdr }, su := { B.su with blockHash := absTerm bhTbl B.su.blockHash } }

def rejectStr : Reject → String
  | .suBlockHash => "su-blockhash" | .suNewRoot => "su-newroot" | .classHash => "class-hash"
  | .txReceiptLen => "tx-receipt-len" | .receiptTxHash => "receipt-txhash" | .txHash => "tx-hash"
  | .blockHash => "block-hash" | .version => "version" | .number => "number" | .parent => "parent"
  | .state => "state"

/-- every check of `SanityCheckNewHeight` / `verifyBlockSuccession` that fails on its own (the
comparison with the real node is insensitive to the ORDER of independent checks, so that a
harmless reordering in juno does not raise an alarm; the model's `accept` has the code's order). -/
def failures (net : Net) (head : Option Head) (B : Bundle) : List Reject :=
  let b := B.block
  let skip := inUnverifiable net b.header.number
  (if b.header.hash ≠ B.su.blockHash then [.suBlockHash] else []) ++
  (if b.header.stateRoot ≠ B.su.newRoot then [.suNewRoot] else []) ++
  (if !verifyClassHashes B.classes then [.classHash] else []) ++
  (if b.txs.length ≠ b.receipts.length then [.txReceiptLen] else []) ++
  (if !(List.zip b.txs b.receipts).all (fun tr => tr.1.hash == some tr.2.txHash) then [.receiptTxHash] else []) ++
  (match (if skip then Except.ok () else verifyTransactionsE net.chainId b.txs b.header.version) with
   | .error e => [e] | .ok () => []) ++
  (match tryFallbacks net b B.su.diff skip (fallbackAddrs net) with
   | .error e => [e] | .ok () => []) ++
  (if !versionSupported b.header.version then [.version] else []) ++
  (if expectedNumber head ≠ b.header.number then [.number] else []) ++
  (if b.header.parentHash ≠ expectedParent head then [.parent] else [])

partial def termStr : Term → String
  | .felt n => natToHex n
  | .ped a b => "( ped " ++ termStr a ++ " " ++ termStr b ++ " )"
  | .pedN xs => "( pedN" ++ String.join (xs.map (fun t => " " ++ termStr t)) ++ " )"
  | .posN xs => "( posN" ++ String.join (xs.map (fun t => " " ++ termStr t)) ++ " )"
  | .keccak bs => "( keccak " ++ bytesToHex bs ++ " )"
  | .comm k ls => "( comm " ++ (match k with | .ped => "ped" | .pos => "pos")
                  ++ String.join (ls.map (fun t => " " ++ termStr t)) ++ " )"

def optTermStr : Option Term → String
  | some t => termStr t
  | none => "err"

/-- run a parser on all remaining tokens; every token must be consumed. -/
def parseAll (p : P α) (ts : List String) : Option α :=
  match p ts with
  | some (x, []) => some x
  | _ => none

def fmtStr : Format → String
  | .pre07 => "pre07" | .post07 => "post07" | .v0132 => "v0132" | .v0134 => "v0134"

def step (s : Unit) (line : String) : Unit × String :=
  match words line with
  | "tx" :: rest =>
    match parseAll (do let n ← pNet; let t ← pTx; pure (n, t)) rest with
    | some (n, t) => (s, optTermStr (txHash n.chainId t))
    | none => (s, "bad-op")
  | "txleaf" :: f :: rest =>
    match parseAll pTx rest with
    | some t =>
      (s, match f with
          | "v0134" => termStr (txLeaf0134 t)
          | "v0132" => termStr (txLeaf0132 t)
          | "ped1" => termStr (txLeafPedersen true t)
          | "ped0" => termStr (txLeafPedersen false t)
          | _ => "bad-op")
    | none => (s, "bad-op")
  | "rcpt" :: rest =>
    match parseAll pReceipt rest with
    | some r => (s, termStr (receiptHash r))
    | none => (s, "bad-op")
  | "events" :: rest =>
    match parseAll (pList pReceipt) rest with
    | some rs => (s, termStr (.comm .pos (eventLeaves rs)))
    | none => (s, "bad-op")
  | "sd" :: rest =>
    match parseAll pStateDiff rest with
    | some d => (s, natToHex (stateDiffLength d) ++ " " ++ termStr (stateDiffHash d))
    | none => (s, "bad-op")
  | "bh" :: rest =>
    match parseAll (do let n ← pNet; let o ← pOpt pFelt; let b ← pBlock; let d ← pStateDiff; pure (n, o, b, d)) rest with
    | some (n, o, b, d) => (s, optTermStr (blockHash n b d o))
    | none => (s, "bad-op")
  | "parts" :: f :: rest =>
    match parseAll (do let b ← pBlock; let d ← pStateDiff; pure (b, d)) rest with
    | some (b, d) =>
      let leaf : Option (Tx → Term) :=
        match f with | "v0134" => some txLeaf0134 | "v0132" => some txLeaf0132 | _ => none
      (s, match leaf with
          | some lf => termStr (.comm .pos (b.txs.map lf)) ++ " | " ++ termStr (.comm .pos (eventLeaves b.receipts))
                       ++ " | " ++ termStr (.comm .pos (b.receipts.map receiptHash)) ++ " | " ++ termStr (stateDiffHash d)
                       ++ " | " ++ natToHex (stateDiffLength d)
          | none => "bad-op")
    | none => (s, "bad-op")
  | "accept" :: rest =>
    -- verdict of SanityCheckNewHeight + Store up to (not including) the state application
    match parseAll (do let n ← pNet; let hd ← pHead; let B ← pBundle
                       let tv ← pList (pOpt pNat); let bv ← pList (pOpt pNat); pure (n, hd, B, tv, bv)) rest with
    | some (n, hd, B, tv, bv) =>
      let B' := abstractBundle n B tv bv
      let sem : StateSem Term := ⟨fun st _ => st, fun _ _ _ _ => some B'.su.newRoot⟩
      let c : Chain Term := ⟨hd, B'.su.oldRoot, []⟩
      let fs := (failures n hd B').map rejectStr
      (s, (match verdict (accept sem n c B') with
           | none => "pass"
           | some e => rejectStr e) ++ " | " ++ String.intercalate "," fs)
    | none => (s, "bad-op")
  | "vtx" :: rest =>
    -- VerifyTransactions on transactions whose model hash is the declared literal itself
    match parseAll (do let n ← pNet; let v ← pBytes; let txs ← pList pTx; pure (n, v, txs)) rest with
    | some (n, v, txs) => (s, toString (verifyTransactions n.chainId txs v))
    | none => (s, "bad-op")
  | "cc" :: rest =>
    match parseAll (do let a ← pU64; let b ← pU64; let c ← pU64; let d ← pNat; pure (a, b, c, d)) rest with
    | some (a, b, c, d) => (s, natToHex (concatCounts a b c d % starkPrime))
    | none => (s, "bad-op")
  | "da" :: rest =>
    match parseAll (do let a ← pU32; let b ← pU32; pure (a, b)) rest with
    | some (fee, nonce) => (s, natToHex (daMode fee nonce))
    | none => (s, "bad-op")
  | "dispatch" :: rest =>
    match parseAll (do let n ← pNet; let num ← pU64; let v ← pBytes; pure (n, num, v)) rest with
    | some (n, num, v) =>
      (s, (match dispatch n num v with | some f => fmtStr f | none => "err")
          ++ " " ++ (if versionSupported v then "supported" else "unsupported"))
    | none => (s, "bad-op")
  | _ => (s, "bad-op")

def main : IO Unit := loop step ()
