import JunoModel.C02.ModelBody
import JunoModel.C02.Proofs
import JunoModel.C02.ProofsStore
/-!
C02 — proofs for `ModelBody.lean` (round 5): the header-count / body-length relation and the Sierra
class hash.
-/
namespace Juno.C02

/-! ### lengths of the committed lists -/

theorem eventsFlat_length (rs : List Receipt) : (eventsFlat rs).length = eventTotal rs := by
  induction rs with
  | nil => rfl
  | cons r rs ih =>
    simp only [eventsFlat, eventTotal, List.flatMap_cons, List.length_append, List.length_map, List.map_cons, List.sum_cons] at ih ⊢
    rw [ih]

theorem eventsOnly_length (rs : List Receipt) : (eventsOnly rs).length = eventTotal rs := by
  induction rs with
  | nil => rfl
  | cons r rs ih =>
    simp only [eventsOnly, eventTotal, List.flatMap_cons, List.length_append, List.map_cons, List.sum_cons] at ih ⊢
    rw [ih]

theorem foldl_eventCount (rs : List Receipt) : ∀ (acc : UInt64),
    rs.foldl (fun acc r => acc + UInt64.ofNat r.events.length) acc = acc + UInt64.ofNat (eventTotal rs) := by
  induction rs with
  | nil => intro acc; simp [eventTotal]
  | cons r rs ih =>
    intro acc
    simp only [List.foldl_cons, ih, eventTotal, List.map_cons, List.sum_cons]
    rw [UInt64.ofNat_add, UInt64.add_assoc]

/-- the adapter's running `uint64` sum is the total number of events (mod 2^64) -/
theorem adaptedEventCount_eq (rs : List Receipt) : adaptedEventCount rs = UInt64.ofNat (eventTotal rs) := by
  unfold adaptedEventCount
  rw [foldl_eventCount]
  simp

/-- a block as `sn2core.AdaptBlock` builds it satisfies "count = length" -/
theorem adaptCounts_match (b : Block) : countsMatch (adaptCounts b) = true := by
  simp [countsMatch, adaptCounts]

theorem blockView0134_lengths (b b' : Block) (sd sd' : StateDiff) (h : blockView0134 b sd = blockView0134 b' sd') :
    bodyLengths b = bodyLengths b' := by
  have h1 := congrArg (fun v => v.txs.length) h
  have h2 := congrArg (fun v => v.receipts.length) h
  have h3 := congrArg (fun v => v.events.length) h
  simp only [blockView0134, List.length_map, eventsFlat_length] at h1 h2 h3
  simp [bodyLengths, h1, h2, h3]

theorem blockView0132_lengths (b b' : Block) (sd sd' : StateDiff) (h : blockView0132 b sd = blockView0132 b' sd') :
    bodyLengths b = bodyLengths b' := by
  have h1 := congrArg (fun v => v.txs.length) h
  have h2 := congrArg (fun v => v.receipts.length) h
  have h3 := congrArg (fun v => v.events.length) h
  simp only [blockView0132, List.length_map, eventsFlat_length] at h1 h2 h3
  simp [bodyLengths, h1, h2, h3]

theorem headerView0134_counts (h : Header) (sd : StateDiff) (v : HeaderView0134) (hv : headerView0134 h sd = some v) :
    v.txCount = h.txCount ∧ v.eventCount = h.eventCount := by
  unfold headerView0134 at hv
  split at hv
  · split at hv
    · simp only [Option.some.injEq] at hv
      subst hv
      exact ⟨rfl, rfl⟩
    · simp at hv
  · simp at hv

/-- the header counts of the two newer formats, out of the header views -/
theorem blockView0134_counts (b b' : Block) (sd sd' : StateDiff) (h : blockView0134 b sd = blockView0134 b' sd')
    (hs : (headerView0134 b.header sd).isSome = true) :
    b.header.txCount = b'.header.txCount ∧ b.header.eventCount = b'.header.eventCount := by
  have h0 : headerView0134 b.header sd = headerView0134 b'.header sd' := congrArg (fun v => v.header) h
  obtain ⟨v, hv⟩ := Option.isSome_iff_exists.mp hs
  have hv' := h0 ▸ hv
  have e1 := headerView0134_counts _ _ _ hv
  have e2 := headerView0134_counts _ _ _ hv'
  exact ⟨by rw [← e1.1, ← e2.1], by rw [← e1.2, ← e2.2]⟩

theorem blockView0132_counts (b b' : Block) (sd sd' : StateDiff) (h : blockView0132 b sd = blockView0132 b' sd') :
    b.header.txCount = b'.header.txCount ∧ b.header.eventCount = b'.header.eventCount := by
  have h0 := congrArg (fun v => v.header) h
  simp only [blockView0132, headerView0132, HeaderView0132.mk.injEq] at h0
  exact ⟨h0.2.2.2.2.1, h0.2.2.2.2.2.1⟩

/-! ### the post-0.7 format on the level of `blockHash` -/

theorem blockHash_post07 (net : Net) (b : Block) (sd : StateDiff) (ov : Option Term)
    (hf : dispatch net b.header.number b.header.version = some .post07) : blockHash net b sd ov = post07 b ov := by
  simp [blockHash, hf]

/-- equal block hashes force the post-0.7 format on the other block too, and the same committed content -/
theorem blockHash_post07_inj (net : Net) (b b' : Block) (sd sd' : StateDiff) (ov ov' : Option Term) (x : Term)
    (hf : dispatch net b.header.number b.header.version = some .post07)
    (h : blockHash net b sd ov = some x) (h' : blockHash net b' sd' ov' = some x) :
    dispatch net b'.header.number b'.header.version = some .post07 ∧
    ∃ seq seq', (match ov with | some s => some s | none => b.header.sequencer) = some seq ∧
      (match ov' with | some s => some s | none => b'.header.sequencer) = some seq' ∧
      (⟨b.header.number, b.header.stateRoot, seq, b.header.timestamp, b.header.txCount, b.header.eventCount, b.header.parentHash⟩ : HeaderViewPost07)
        = ⟨b'.header.number, b'.header.stateRoot, seq', b'.header.timestamp, b'.header.txCount, b'.header.eventCount, b'.header.parentHash⟩ ∧
      b.txs.map (sigViewPedersen (allSigsOf b)) = b'.txs.map (sigViewPedersen (allSigsOf b')) ∧
      eventsOnly b.receipts = eventsOnly b'.receipts := by
  rw [blockHash_post07 net b sd ov hf] at h
  obtain ⟨xs, hx⟩ := post07_isPed b ov x h
  cases hd : dispatch net b'.header.number b'.header.version with
  | none => simp [blockHash, hd] at h'
  | some f =>
    cases f with
    | post07 =>
      rw [blockHash_post07 net b' sd' ov' hd] at h'
      exact ⟨rfl, post07_inj b b' ov ov' x h h'⟩
    | pre07 =>
      rw [blockHash_pre07 net b' sd' ov' hd] at h'
      exact absurd (pre07_ne_post07 b' b net.chainId ov x h' h) id
    | v0132 =>
      rw [blockHash_v0132 net b' sd' ov' hd] at h'
      obtain ⟨ys, hy⟩ := post0132_isPos b' sd' x h'
      rw [hx] at hy; cases hy
    | v0134 =>
      rw [blockHash_v0134 net b' sd' ov' hd] at h'
      obtain ⟨ys, hy⟩ := post0134_isPos b' sd' x h'
      rw [hx] at hy; cases hy

/-! ### a body of another length under the same header is never accepted -/

/-- the lengths every format's hash pins down: what two blocks with the same hash share -/
theorem sameHash_lengths (net : Net) (b b' : Block) (sd sd' : StateDiff) (ov ov' : Option Term) (x : Term)
    (h : blockHash net b sd ov = some x) (h' : blockHash net b' sd' ov' = some x) :
    b.txs.length = b'.txs.length ∧
    (dispatch net b.header.number b.header.version ≠ some .pre07 → eventTotal b.receipts = eventTotal b'.receipts) ∧
    ((dispatch net b.header.number b.header.version = some .v0134 ∨ dispatch net b.header.number b.header.version = some .v0132) →
      b.receipts.length = b'.receipts.length) := by
  cases hd : dispatch net b.header.number b.header.version with
  | none => simp [blockHash, hd] at h
  | some f =>
    cases f with
    | v0134 =>
      have hv := (blockHash_v0134_inj net b b' sd sd' ov ov' x hd h h').2
      have hl := blockView0134_lengths b b' sd sd' hv
      simp only [bodyLengths, BodyLengths.mk.injEq] at hl
      exact ⟨hl.1, fun _ => hl.2.2, fun _ => hl.2.1⟩
    | v0132 =>
      have hv := (blockHash_v0132_inj net b b' sd sd' ov ov' x hd h h').2
      have hl := blockView0132_lengths b b' sd sd' hv
      simp only [bodyLengths, BodyLengths.mk.injEq] at hl
      exact ⟨hl.1, fun _ => hl.2.2, fun _ => hl.2.1⟩
    | post07 =>
      obtain ⟨_, _, _, _, _, _, htx, hev⟩ := blockHash_post07_inj net b b' sd sd' ov ov' x hd h h'
      have h1 := congrArg List.length htx
      have h2 := congrArg List.length hev
      simp only [List.length_map, eventsOnly_length] at h1 h2
      exact ⟨h1, fun _ => h2, fun hc => by rcases hc with hc | hc <;> cases hc⟩
    | pre07 =>
      obtain ⟨_, _, htx⟩ := blockHash_pre07_inj net b b' sd sd' ov ov' x hd h h'
      have h1 := congrArg List.length htx
      simp only [List.length_map] at h1
      exact ⟨h1, fun hc => absurd rfl hc, fun hc => by rcases hc with hc | hc <;> cases hc⟩

/-- the counts every format's hash pins down -/
theorem sameHash_counts (net : Net) (b b' : Block) (sd sd' : StateDiff) (ov ov' : Option Term) (x : Term)
    (h : blockHash net b sd ov = some x) (h' : blockHash net b' sd' ov' = some x) :
    b.header.txCount = b'.header.txCount ∧
    (dispatch net b.header.number b.header.version ≠ some .pre07 → b.header.eventCount = b'.header.eventCount) := by
  cases hd : dispatch net b.header.number b.header.version with
  | none => simp [blockHash, hd] at h
  | some f =>
    cases f with
    | v0134 =>
      have hv := (blockHash_v0134_inj net b b' sd sd' ov ov' x hd h h').2
      rw [blockHash_v0134 net b sd ov hd] at h
      have hs := (post0134_inj b b sd sd x h h).2.1
      have := blockView0134_counts b b' sd sd' hv hs
      exact ⟨this.1, fun _ => this.2⟩
    | v0132 =>
      have hv := (blockHash_v0132_inj net b b' sd sd' ov ov' x hd h h').2
      have := blockView0132_counts b b' sd sd' hv
      exact ⟨this.1, fun _ => this.2⟩
    | post07 =>
      obtain ⟨_, _, _, _, _, hh, _, _⟩ := blockHash_post07_inj net b b' sd sd' ov ov' x hd h h'
      simp only [HeaderViewPost07.mk.injEq] at hh
      exact ⟨hh.2.2.2.2.1, fun _ => hh.2.2.2.2.2.1⟩
    | pre07 =>
      obtain ⟨_, hh, _⟩ := blockHash_pre07_inj net b b' sd sd' ov ov' x hd h h'
      simp only [HeaderViewPre07.mk.injEq] at hh
      exact ⟨hh.2.2.1, fun hc => absurd rfl hc⟩

/-- BODY LENGTH vs HEADER, all four formats at once: take a block `B` some node accepted (outside an
unverifiable range) and any `B'` that declares the same hash — in particular one that keeps `B`'s
WHOLE header — whose body has another number of transactions, of receipts, or (every format but the
pre-0.7 one, which commits no events) another total number of events. No node accepts `B'`. -/
theorem body_length_change_rejected' {σ : Type} (sem : StateSem σ) (net : Net) (c c' d : Chain σ) (B B' : Bundle)
    (hacc : accept sem net c B = .ok c')
    (hu : inUnverifiable net B.block.header.number = false)
    (hu' : inUnverifiable net B'.block.header.number = false)
    (hsame : B'.block.header.hash = B.block.header.hash)
    (hlen : B'.block.txs.length ≠ B.block.txs.length ∨ B'.block.receipts.length ≠ B.block.receipts.length ∨
            (dispatch net B.block.header.number B.block.header.version ≠ some .pre07 ∧
             eventTotal B'.block.receipts ≠ eventTotal B.block.receipts)) :
    ∃ e, accept sem net d B' = .error e := by
  cases hacc' : accept sem net d B' with
  | error e => exact ⟨e, rfl⟩
  | ok d' =>
    have hv := (accept_ok sem net c c' B hacc).1
    have hv' := (accept_ok sem net d d' B' hacc').1
    obtain ⟨ov, _, hh⟩ := hv.hash hu
    obtain ⟨ov', _, hh'⟩ := hv'.hash hu'
    rw [hsame] at hh'
    obtain ⟨h1, h2, _⟩ := sameHash_lengths net B.block B'.block B.su.diff B'.su.diff ov ov' _ hh hh'
    rcases hlen with hl | hl | ⟨hf, hl⟩
    · exact absurd h1.symm hl
    · exact absurd (by rw [← hv'.lens, ← hv.lens, h1]) hl
    · exact absurd (h2 hf).symm hl

/-- "count = length" is INHERITED: if some node accepted a block whose header counts agree with its body
(every block that entered through `sn2core.AdaptBlock`, `adaptCounts_match`), then every block with the
same declared hash that any node accepts has them agree too (event count: every format but pre-0.7,
which commits neither the count nor the events). -/
theorem counts_match_inherited' {σ : Type} (sem : StateSem σ) (net : Net) (c c' d d' : Chain σ) (B B' : Bundle)
    (hacc : accept sem net c B = .ok c') (hacc' : accept sem net d B' = .ok d')
    (hu : inUnverifiable net B.block.header.number = false)
    (hu' : inUnverifiable net B'.block.header.number = false)
    (hsame : B'.block.header.hash = B.block.header.hash) :
    (B.block.header.txCount = adaptedTxCount B.block.txs → B'.block.header.txCount = adaptedTxCount B'.block.txs) ∧
    (dispatch net B.block.header.number B.block.header.version ≠ some .pre07 →
      B.block.header.eventCount = adaptedEventCount B.block.receipts →
      B'.block.header.eventCount = adaptedEventCount B'.block.receipts) := by
  have hv := (accept_ok sem net c c' B hacc).1
  have hv' := (accept_ok sem net d d' B' hacc').1
  obtain ⟨ov, _, hh⟩ := hv.hash hu
  obtain ⟨ov', _, hh'⟩ := hv'.hash hu'
  rw [hsame] at hh'
  obtain ⟨l1, l2, _⟩ := sameHash_lengths net B.block B'.block B.su.diff B'.su.diff ov ov' _ hh hh'
  obtain ⟨c1, c2⟩ := sameHash_counts net B.block B'.block B.su.diff B'.su.diff ov ov' _ hh hh'
  refine ⟨fun hm => ?_, fun hf hm => ?_⟩
  · rw [← c1, hm]; simp [adaptedTxCount, l1]
  · rw [← c2 hf, hm, adaptedEventCount_eq, adaptedEventCount_eq, l2 hf]

/-! ### `SierraClass.Hash()` -/

theorem epFlat_append_inj : ∀ (a b : List SierraEP) (r s : List Term), a.length = b.length →
    a.flatMap (fun ep => [ep.selector, u64 ep.index]) ++ r = b.flatMap (fun ep => [ep.selector, u64 ep.index]) ++ s →
    a = b ∧ r = s
  | [], [], r, s, _, h => by simpa using h
  | [], _ :: _, _, _, hl, _ => by simp at hl
  | _ :: _, [], _, _, hl, _ => by simp at hl
  | x :: a, y :: b, r, s, hl, h => by
    simp only [List.flatMap_cons, List.cons_append, List.nil_append, List.cons.injEq] at h
    obtain ⟨hs, hi, ht⟩ := h
    have := epFlat_append_inj a b r s (by simpa using hl) ht
    have hx : x = y := by
      cases x; cases y
      simp only [SierraEP.mk.injEq]
      exact ⟨u64_inj hi, hs⟩
    exact ⟨by rw [hx, this.1], this.2⟩

theorem epFlat_length (a : List SierraEP) : (a.flatMap (fun ep => [ep.selector, u64 ep.index])).length = 2 * a.length := by
  induction a with
  | nil => rfl
  | cons x a ih => simp only [List.flatMap_cons, List.length_append, List.length_cons, List.length_nil, ih]; omega

/-- the entry-point digest commits the list: every selector and index, in order -/
theorem sierraEntryPointsHash_inj (a b : List SierraEP) (h : sierraEntryPointsHash a = sierraEntryPointsHash b) : a = b := by
  unfold sierraEntryPointsHash at h
  simp only [Term.posN.injEq] at h
  have hl : a.length = b.length := by
    have := congrArg List.length h
    rw [epFlat_length, epFlat_length] at this
    omega
  have := epFlat_append_inj a b [] [] hl (by simpa using h)
  exact this.1

/-- what `SierraClass.Hash()` commits: the version tag's VALUE mod P, the three entry-point lists, the ABI
hash and the program hash (the two precomputed fields, not `Abi` / `Program` themselves) -/
structure SierraView where
  versionValue : Nat
  external : List SierraEP
  l1Handler : List SierraEP
  constructor : List SierraEP
  abiHash : Term
  programHash : Term
deriving DecidableEq, Repr

def sierraView (c : SierraCls) : SierraView :=
  ⟨bytesToNat (asciiBytes "CONTRACT_CLASS_V" ++ c.semanticVersion) % starkPrime, c.external, c.l1Handler, c.constructor,
   c.abiHash, c.programHash⟩

theorem sierraClassHashWith_inj (l l' : Bool) (c c' : SierraCls) (x : Term)
    (h : sierraClassHashWith l c = some x) (h' : sierraClassHashWith l' c' = some x) : sierraView c = sierraView c' := by
  unfold sierraClassHashWith at h h'
  split at h
  · simp at h
  split at h'
  · simp at h'
  simp only [Option.some.injEq] at h h'
  subst h
  simp only [Term.posN.injEq, List.cons.injEq, and_true, classVersionFelt, setBytes, Term.felt.injEq] at h'
  obtain ⟨hv, he, hl1, hc, ha, hp⟩ := h'
  simp only [sierraView, SierraView.mk.injEq]
  exact ⟨hv.symm, (sierraEntryPointsHash_inj _ _ (by simpa [sierraEntryPointsHash] using he)).symm,
    (sierraEntryPointsHash_inj _ _ (by simpa [sierraEntryPointsHash] using hl1)).symm,
    (sierraEntryPointsHash_inj _ _ (by simpa [sierraEntryPointsHash] using hc)).symm, ha.symm, hp.symm⟩

theorem classTag_head : asciiBytes "CONTRACT_CLASS_V" = (67 : UInt8) :: asciiBytes "ONTRACT_CLASS_V" := by decide

/-- versions of at most 15 bytes (tag + version fits 31 bytes: no reduction) are committed byte for byte -/
theorem classVersion_inj_of_short (v w : Bytes) (hv : v.length ≤ 15) (hw : w.length ≤ 15)
    (h : bytesToNat (asciiBytes "CONTRACT_CLASS_V" ++ v) % starkPrime = bytesToNat (asciiBytes "CONTRACT_CLASS_V" ++ w) % starkPrime) :
    v = w := by
  have tl : (asciiBytes "CONTRACT_CLASS_V").length = 16 := by decide
  have lv : (asciiBytes "CONTRACT_CLASS_V" ++ v).length ≤ 31 := by rw [List.length_append, tl]; omega
  have lw : (asciiBytes "CONTRACT_CLASS_V" ++ w).length ≤ 31 := by rw [List.length_append, tl]; omega
  rw [Nat.mod_eq_of_lt (bytesToNat_lt_prime_of_short _ lv), Nat.mod_eq_of_lt (bytesToNat_lt_prime_of_short _ lw)] at h
  rw [classTag_head, List.cons_append, List.cons_append] at h
  have := bytesToNat_inj_of_nonzero_head 67 67 _ _ (by decide) (by decide) h
  simp only [List.cons.injEq, true_and] at this
  exact List.append_cancel_left this

/-- a verified Sierra class carries the hash of its own definition -/
theorem verifyClassHashesT_mem (l : Bool) (cs : List (Term × ClsDef)) (h : verifyClassHashesT l cs = true)
    (k : Term) (c : SierraCls) (hm : (k, ClsDef.sierra c) ∈ cs) : sierraClassHashWith l c = some k := by
  unfold verifyClassHashesT at h
  rw [List.all_eq_true] at h
  have := h _ hm
  simp only at this
  cases hh : sierraClassHashWith l c with
  | none => simp [hh] at this
  | some x => simp [hh] at this; rw [this]

/-! ### when `SegmentedBytecodeHash` panics -/

/-- a flat list of segment lengths (what the Cairo compiler emits: one segment per function) -/
def flatSegs (ls : List UInt64) : List Seg := ls.map (Seg.mk [])

theorem digest_flat_isSome_iff (cap : Nat) (hcap : cap < 2 ^ 64) : ∀ (ls : List UInt64) (start total : UInt64),
    start.toNat ≤ cap →
    ((Seg.digest cap (flatSegs ls) start total).isSome = true ↔ start.toNat + (ls.map UInt64.toNat).sum ≤ cap)
  | [], start, total, hs => by simp [flatSegs, Seg.digest, hs]
  | l :: ls, start, total, hs => by
    have hl := l.toNat_lt
    have hst := start.toNat_lt
    have hadd : (start + l).toNat = (start.toNat + l.toNat) % 2 ^ 64 := UInt64.toNat_add start l
    simp only [flatSegs, List.map_cons, Seg.digest, Seg.cur, List.sum_cons]
    by_cases hc : start.toNat ≤ (start + l).toNat ∧ (start + l).toNat ≤ cap
    · rw [if_pos hc]
      have hnw : (start + l).toNat = start.toNat + l.toNat := by
        rw [hadd]
        rw [hadd] at hc
        omega
      have ih := digest_flat_isSome_iff cap hcap ls (start + l) (total + l) hc.2
      simp only [flatSegs] at ih
      rw [ih, hnw]
      omega
    · rw [if_neg hc]
      simp only [Option.isSome_none, Bool.false_eq_true, false_iff]
      intro hsum
      apply hc
      have : start.toNat + l.toNat ≤ cap := by
        have : 0 ≤ (ls.map UInt64.toNat).sum := Nat.zero_le _
        omega
      rw [hadd, Nat.mod_eq_of_lt (by omega)]
      omega

/-- FLAT segment lengths: `CasmClass.Hash` panics exactly when the lengths add up to more than the capacity of
the bytecode slice (no other way: a wrapped sum is larger than any capacity) -/
theorem compiledHashPanics_flat_iff (cap : Nat) (hcap : cap < 2 ^ 64) (l : UInt64) (ls : List UInt64) :
    compiledHashPanics (some ⟨cap, flatSegs (l :: ls)⟩) = true ↔ cap < ((l :: ls).map UInt64.toNat).sum := by
  have h := digest_flat_isSome_iff cap hcap (l :: ls) 0 0 (by simp)
  simp only [compiledHashPanics, flatSegs, List.map_cons] at h ⊢
  cases hd : Seg.digest cap (Seg.mk [] l :: List.map (Seg.mk []) ls) 0 0 with
  | none =>
    simp only [hd, Option.isSome_none, Bool.false_eq_true, false_iff] at h
    simp only [Option.isNone_none, true_iff, List.sum_cons]
    simp at h
    omega
  | some x =>
    simp only [hd, Option.isSome_some, true_iff] at h
    simp only [Option.isNone_some, Bool.false_eq_true, false_iff, List.sum_cons]
    simp at h
    omega

/-! ### the bridge between `accept`'s class map and the spelled-out class hash

`accept` (ModelAccept.lean) sees a new class as `(key, ⟨cairo0, number Hash() returned⟩)`. Under the standing
ideal-hash assumption — the evaluation of hash terms to numbers is injective — that map is the image of the
term-level definitions, and the two verifications agree. -/

/-- the `Classes` argument of `accept` that corresponds to term-level definitions under an evaluation `eval` of terms
to field elements (`Hash()` failing is represented by any number different from the key) -/
def classesOfT (limited : Bool) (eval : Term → Nat) (cs : List (Term × ClsDef)) : Classes :=
  cs.map (fun kc => (eval kc.1,
    match kc.2 with
    | .cairo0 => ({ cairo0 := true, computedHash := 0 } : ClassDef)
    | .sierra c => { cairo0 := false, computedHash := match sierraClassHashWith limited c with | some h => eval h | none => eval kc.1 + 1 }))

theorem verifyClassHashes_classesOfT (limited : Bool) (eval : Term → Nat) (hinj : ∀ a b, eval a = eval b → a = b)
    (cs : List (Term × ClsDef)) : verifyClassHashes (classesOfT limited eval cs) = verifyClassHashesT limited cs := by
  unfold verifyClassHashes verifyClassHashesT classesOfT
  rw [List.all_map]
  congr 1
  funext kc
  obtain ⟨k, d⟩ := kc
  cases d with
  | cairo0 => simp
  | sierra c =>
    cases hh : sierraClassHashWith limited c with
    | none => simp [hh]
    | some h =>
      by_cases e : h = k
      · subst e; simp [hh]
      · have : eval h ≠ eval k := fun he => e (hinj _ _ he)
        simp only [Function.comp, hh, Bool.false_or]
        rw [beq_eq_false_iff_ne.mpr this, beq_eq_false_iff_ne.mpr e]

/-! ### the casm step and `ClassDef.compiledBad` -/

theorem casmV1_stops_at_compiledBad (n : UInt64) (v2of : Nat → Nat) (cs : Classes) : ∀ (m : FMap),
    (∃ kc ∈ m, ∃ x, cs.find? (fun y => y.1 == kc.1) = some x ∧ x.2.cairo0 = false ∧ x.2.compiledBad = true) →
    ∃ e, casmV1 n v2of cs m = .error e
  | [], h => by obtain ⟨_, hm, _⟩ := h; simp at hm
  | (c, casm) :: rest, h => by
    simp only [casmV1]
    cases hf : cs.find? (fun kc => kc.1 == c) with
    | none => exact ⟨_, rfl⟩
    | some kc =>
      simp only
      by_cases hc : kc.2.cairo0 = true
      · simp [hc]
      · simp only [hc, Bool.false_eq_true, if_false]
        by_cases hb : kc.2.compiledBad = true
        · exact ⟨_, by rw [if_pos hb]⟩
        · rw [if_neg hb]
          obtain ⟨kc', hm, x, hx, hx0, hxb⟩ := h
          rcases List.mem_cons.mp hm with rfl | hm
          · simp only at hx; rw [hf] at hx; cases hx; exact absurd hxb hb
          · obtain ⟨e, he⟩ := casmV1_stops_at_compiledBad n v2of cs rest ⟨kc', hm, x, hx, hx0, hxb⟩
            exact ⟨e, by rw [he]⟩

theorem casmStepWith_stops_at_compiledBad (chk : Bool) (db : IDB) (h : Header) (d : StateDiff) (cs : Classes) (v2of : Nat → Nat)
    (v : Ver) (hp : parseVersion h.version = some v) (hv : v.ge v0_14_1 = false)
    (hm : ∃ kc ∈ d.declaredV1, ∃ x, cs.find? (fun y => y.1 == kc.1) = some x ∧ x.2.cairo0 = false ∧ x.2.compiledBad = true) :
    ∃ e, casmStepWith chk db h d cs v2of = .error e := by
  unfold casmStepWith
  simp only [hp, hv, Bool.false_eq_true, if_false]
  exact casmV1_stops_at_compiledBad h.number v2of cs d.declaredV1 hm

theorem find_map_cairo0 (cs cs' : Classes) (hc : cs'.map (fun x => (x.1, x.2.cairo0)) = cs.map (fun x => (x.1, x.2.cairo0))) (c : Nat) :
    (cs'.find? (fun kc => kc.1 == c)).map (fun x => x.2.cairo0) = (cs.find? (fun kc => kc.1 == c)).map (fun x => x.2.cairo0) := by
  induction cs generalizing cs' with
  | nil => cases cs' with
    | nil => rfl
    | cons a as => simp at hc
  | cons b bs ih =>
    cases cs' with
    | nil => simp at hc
    | cons a as =>
      simp only [List.map_cons, List.cons.injEq, Prod.mk.injEq] at hc
      obtain ⟨⟨h1, h2⟩, ht⟩ := hc
      simp only [List.find?_cons, h1]
      by_cases hk : (b.1 == c) = true
      · simp [hk, h2]
      · simp only [hk]
        exact ih as ht

theorem casmV2DeclaredChecked_cairo0_only (n : UInt64) (cs cs' : Classes)
    (hc : cs'.map (fun x => (x.1, x.2.cairo0)) = cs.map (fun x => (x.1, x.2.cairo0))) : ∀ (m : FMap),
    casmV2DeclaredChecked n cs' m = casmV2DeclaredChecked n cs m
  | [] => by simp [casmV2DeclaredChecked]
  | (c, casm) :: rest => by
    have hf := find_map_cairo0 cs cs' hc c
    have ih := casmV2DeclaredChecked_cairo0_only n cs cs' hc rest
    simp only [casmV2DeclaredChecked]
    cases h1 : cs'.find? (fun kc => kc.1 == c) <;> cases h2 : cs.find? (fun kc => kc.1 == c) <;> simp [h1, h2] at hf ⊢
    rw [hf, ih]

theorem casmStepWith_v2_ignores_compiledBad (chk : Bool) (db : IDB) (h : Header) (d : StateDiff) (cs cs' : Classes) (v2of : Nat → Nat)
    (v : Ver) (hp : parseVersion h.version = some v) (hv : v.ge v0_14_1 = true)
    (hc : cs'.map (fun x => (x.1, x.2.cairo0)) = cs.map (fun x => (x.1, x.2.cairo0))) :
    (casmStepWith chk db h d cs' v2of).toOption.isSome = (casmStepWith chk db h d cs v2of).toOption.isSome := by
  unfold casmStepWith
  simp only [hp, hv, if_true]
  rw [casmV2DeclaredChecked_cairo0_only h.number cs cs' hc]

/-! ### round 6: the state diff's `Length()` against its content; compensating changes -/

/-- `StateDiff.Length()` is a function of what `StateDiff.Hash()` commits (`DiffView`): the two section counts,
the sorted Cairo-0 list, the storage map and the nonces -/
theorem stateDiffLength_of_view (d d' : StateDiff) (h : diffView d = diffView d') :
    stateDiffLength d = stateDiffLength d' := by
  simp only [diffView, DiffView.mk.injEq] at h
  obtain ⟨h1, _, h3, _, h5, h6, h7⟩ := h
  have h5' := congrArg List.length h5
  simp only [sortNat_length] at h5'
  unfold stateDiffLength
  rw [h6, h7]
  omega

theorem storageSum_zero_iff (s : List (Nat × FMap)) :
    (s.map (fun e => e.2.length)).sum = 0 ↔ ∀ e ∈ s, e.2 = [] := by
  induction s with
  | nil => simp
  | cons a as ih =>
    simp only [List.map_cons, List.sum_cons, Nat.add_eq_zero_iff, ih, List.length_eq_zero_iff, List.mem_cons, forall_eq_or_imp]

/-- exactly the diffs with `Length() = 0`: every list empty — but `StorageDiffs` may hold any number of
addresses with an EMPTY slot map -/
theorem stateDiffLength_zero_iff (d : StateDiff) : stateDiffLength d = 0 ↔
    ((∀ e ∈ d.storage, e.2 = []) ∧ d.nonces = [] ∧ d.deployed = [] ∧ d.declaredV0 = [] ∧ d.declaredV1 = [] ∧
      d.replaced = [] ∧ d.migrated = []) := by
  unfold stateDiffLength
  simp only [Nat.add_eq_zero_iff, storageSum_zero_iff, List.length_eq_zero_iff, and_assoc]

/-- both Poseidon formats: equal block hashes force equal state-diff preimages -/
theorem sameHash_diffFlat (net : Net) (b b' : Block) (sd sd' : StateDiff) (ov ov' : Option Term) (x : Term)
    (hf : dispatch net b.header.number b.header.version = some .v0134 ∨ dispatch net b.header.number b.header.version = some .v0132)
    (h : blockHash net b sd ov = some x) (h' : blockHash net b' sd' ov' = some x) :
    stateDiffFlat sd = stateDiffFlat sd' := by
  rcases hf with hf | hf
  · exact congrArg (fun v => v.diffFlat) (blockHash_v0134_inj net b b' sd sd' ov ov' x hf h h').2
  · exact congrArg (fun v => v.diffFlat) (blockHash_v0132_inj net b b' sd sd' ov ov' x hf h h').2

/-- a state diff changed under the same declared hash — whether or not its `Length()` changes — is never accepted -/
theorem diff_change_rejected' {σ : Type} (sem : StateSem σ) (net : Net) (c c' d : Chain σ) (B B' : Bundle)
    (hacc : accept sem net c B = .ok c')
    (hu : inUnverifiable net B.block.header.number = false)
    (hu' : inUnverifiable net B'.block.header.number = false)
    (hf : dispatch net B.block.header.number B.block.header.version = some .v0134 ∨
          dispatch net B.block.header.number B.block.header.version = some .v0132)
    (hsame : B'.block.header.hash = B.block.header.hash)
    (hdiff : stateDiffFlat B'.su.diff ≠ stateDiffFlat B.su.diff) :
    ∃ e, accept sem net d B' = .error e := by
  cases hacc' : accept sem net d B' with
  | error e => exact ⟨e, rfl⟩
  | ok d' =>
    obtain ⟨ov, _, hh⟩ := (accept_ok sem net c c' B hacc).1.hash hu
    obtain ⟨ov', _, hh'⟩ := (accept_ok sem net d d' B' hacc').1.hash hu'
    rw [hsame] at hh'
    exact absurd (sameHash_diffFlat net B.block B'.block B.su.diff B'.su.diff ov ov' _ hf hh hh').symm hdiff

/-- `VerifyClassHashes` walks `newClasses`, not the diff: one Sierra entry whose definition does not hash to its key
fails `SanityCheckNewHeight` with the class-hash error, whatever the state diff declares -/
theorem sanityCheck_classHash_of_bad_entry (net : Net) (B : Bundle) (k : Nat) (cd : ClassDef)
    (hm : (k, cd) ∈ B.classes) (hs : cd.cairo0 = false) (hbad : cd.computedHash ≠ k)
    (h1 : B.block.header.hash = B.su.blockHash) (h2 : B.block.header.stateRoot = B.su.newRoot) :
    sanityCheck net B = .error .classHash := by
  have hv : verifyClassHashes B.classes = false := by
    cases h : verifyClassHashes B.classes with
    | false => rfl
    | true =>
      simp only [verifyClassHashes, List.all_eq_true] at h
      have := h (k, cd) hm
      simp [hs] at this
      exact absurd this hbad
  simp [sanityCheck, h1, h2, hv]

end Juno.C02
