import JunoModel.C02.Proofs
/-!
C02 — statements kept OUT of the obligation list (`Props.lean`), after the independent review:
* true by construction of the model (they restate a definition: `List.all`, the error branch of `offer`,
  the `none` branch of `dbWrite`) — kept only because the text of earlier reports names them;
* about a code variant that is not in /repo: the new state backend BEFORE fix d8ed24a (regression
  witness) and the proposed-but-not-applied `strictTxKinds` repair.
-/
namespace Juno.C02.Regression
open Juno.C02

/-- `VerifyTransactions` looks at EVERY position: if it passes (protocol ≥ 0.11.0), the transaction
at any index `i` recomputes to its declared hash. (A verification that skips some positions — e.g.
the remainder of a chunked parallel loop — is not this function.) -/
theorem verifyTransactions_every_position (chain : Term) (txs : List Tx) (version : Bytes) (v : Ver)
    (hp : parseVersion version = some v) (hge : v.lt v0_11_0 = false)
    (h : verifyTransactions chain txs version = true) (i : Nat) (t : Tx) (hi : txs[i]? = some t) :
    ∃ x, txHash chain t = some x ∧ t.hash = some x :=
  verifyTransactions_mem chain txs version v hp hge h t (List.mem_of_getElem? hi)


/-- The block views are whole lists, so equal block hashes pin down every position of the
transaction, receipt and event lists (what a commitment built by a worker pool must still cover). -/
theorem blockView0134_every_position (b b' : Block) (sd sd' : StateDiff) (h : blockView0134 b sd = blockView0134 b' sd') (i : Nat) :
    (b.txs[i]?).map sigView = (b'.txs[i]?).map sigView ∧
    (b.receipts[i]?).map receiptView = (b'.receipts[i]?).map receiptView ∧
    (eventsFlat b.receipts)[i]? = (eventsFlat b'.receipts)[i]? := by
  have h1 : b.txs.map sigView = b'.txs.map sigView := congrArg BlockView0134.txs h
  have h2 : b.receipts.map receiptView = b'.receipts.map receiptView := congrArg BlockView0134.receipts h
  have h3 : eventsFlat b.receipts = eventsFlat b'.receipts := congrArg BlockView0134.events h
  refine ⟨?_, ?_, by rw [h3]⟩
  · have := congrArg (fun l => l[i]?) h1; simpa using this
  · have := congrArg (fun l => l[i]?) h2; simpa using this

/-- `VerifyClassHashes` looks at every class: a stored block has no Sierra class, at any position of
the class list, whose definition does not hash to its key. -/
theorem class_tamper_at_any_position_rejected {σ : Type} (sem : StateSem σ) (net : Net) (c : Chain σ) (B : Bundle)
    (i : Nat) (k : Nat) (cd : ClassDef) (hi : B.classes[i]? = some (k, cd)) (hs : cd.cairo0 = false)
    (hbad : cd.computedHash ≠ k) : ∃ e, accept sem net c B = .error e := by
  cases hacc : accept sem net c B with
  | error e => exact ⟨e, rfl⟩
  | ok c' =>
    have hv := (accept_ok sem net c c' B hacc).1.classes
    simp only [verifyClassHashes, List.all_eq_true] at hv
    have := hv (k, cd) (List.mem_of_getElem? hi)
    simp [hs] at this
    exact absurd this hbad


/-- `reject_no_effect`: a rejected block leaves the node's chain (head, state, stored blocks) exactly
as it was. In juno this is because `Store` does everything inside one write batch. -/
theorem reject_no_effect {σ : Type} (sem : StateSem σ) (net : Net) (c : Chain σ) (B : Bundle) (e : Reject)
    (h : (offer sem net c B).2 = some e) : (offer sem net c B).1 = c :=
  offer_reject sem net c B e h

/-- The write batch of `database.Write/Update`: if the callback fails the store is untouched … -/
theorem failed_write_no_effect (store : Bytes → Option Bytes) (steps : List Step)
    (h : (dbWrite store steps).2 = false) : (dbWrite store steps).1 = store :=
  dbWrite_fail store steps h

/-- … and a step that fails makes the callback fail at whatever position it is, whatever the steps
before it have already put into the batch. -/
theorem failing_step_fails_write (store : Bytes → Option Bytes) (pre post : List Step) (s : Step)
    (hs : ∀ b, s store b = none) : (dbWrite store (pre ++ s :: post)) = (store, false) := by
  simp [dbWrite, runSteps_fail_at store pre post s [] hs]


/-- `accept` is the LEGACY backend's `Store` (and the new backend's after the proposed repair): with
the repair switched on the two coincide. -/
theorem newBackend_store_eq_legacy {σ : Type} (sem : StateSem σ) (empty : σ) (c : Chain σ) (B : Bundle) :
    storeTxnNewBackend sem empty c B = storeTxn sem c B := by
  simp [storeTxnNewBackend, storeTxnNewBackendWith, storeTxn, newBackendOpensAtHeadRoot]


/-- REGRESSION WITNESS for the new state backend BEFORE fix d8ed24a (`opensAtHeadRoot = false`, no longer
the code in /repo): a state update whose `OldRoot` is zero is applied to the EMPTY tries although the
node's state root is not zero, and the block is stored. The harness keeps the directed history
`oldroot-directed`; sig `new-backend-opens-state-at-supplied-old-root` is in `fixed`. -/
theorem newBackend_oldRoot_zero_accepted_before_d8ed24a :
    ∃ (sem : StateSem Nat) (c : Chain Nat) (B : Bundle),
      sem.root c.st B.block.header.version ≠ B.su.oldRoot ∧
      verdict (storeTxnNewBackendWith false sem 0 c B) = none ∧ verdict (storeTxn sem c B) = some .state := by
  let sem : StateSem Nat := ⟨fun st _ => .felt st, fun _ _ _ _ => some 7⟩
  let hd : Header := { (default : Header) with number := 1, parentHash := .felt 9, version := asciiBytes "0.14.0" }
  let B : Bundle := ⟨⟨hd, [], []⟩, ⟨.felt 0, .felt 7, .felt 0, default⟩, []⟩
  exact ⟨sem, ⟨some ⟨0, .felt 9⟩, 5, []⟩, B, by decide, by decide, by decide⟩

/-- With the proposed repair (`strictTxKinds = true`) both are rejected from 0.13.2 on, whatever
hash they declare. -/
theorem unverifiable_kinds_rejected_when_strict (chain : Term) (t : Tx) (version : Bytes) (v : Ver)
    (hs : strictTxKinds = true) (hp : parseVersion version = some v) (hv : v.ge v0_13_2 = true)
    (hk : recomputable t = false) : verifyTransactions chain [t] version = false := by
  have h11 : v.lt v0_11_0 = false := by
    obtain ⟨a, b, c⟩ := v
    simp only [Ver.lt, Ver.ge, v0_13_2, v0_11_0] at *
    simp at *
    omega
  simp [verifyTransactions, hp, h11, hs, hv, hk]


/-- REGRESSION WITNESS for `ParseBlockVersion` BEFORE fix 2e0402b (`parseVersionWith false`: any length
accepted): a 40-byte string starting `0.14.1.` has the same hashed value (mod P) as `0.14.0` and parses to
another protocol version. Sig `long-protocol-version-wraps-mod-p` is in `fixed`; the harness keeps the
`wrapP` string mutations and the long strings in the hash correspondence. -/
theorem version_string_wrap_accepted_before_2e0402b :
    ∃ a b v w, parseVersionWith false a = some v ∧ parseVersionWith false b = some w ∧
      bytesToNat a % starkPrime = bytesToNat b % starkPrime ∧ a ≠ b ∧ v ≠ w :=
  ⟨asciiBytes "0.14.0", wrapWitness, ⟨0, 14, 0⟩, ⟨0, 14, 1⟩, by decide, by decide, by decide, by decide, by decide⟩

/-- … and the block hash (unchanged by the fix: it still hashes the reduced value) does not see the
difference; since 2e0402b such a string no longer parses, so `blockHash` returns an error for it. -/
theorem long_version_same_block_hash_before_2e0402b (b : Block) (sd : StateDiff) (v' : Bytes)
    (h : bytesToNat v' % starkPrime = bytesToNat b.header.version % starkPrime) :
    post0134 { b with header := { b.header with version := v' } } sd = post0134 b sd :=
  post0134_version_only_modP b sd v' h

/-- the current code rejects the witness string -/
theorem wrap_witness_rejected_now : parseVersion wrapWitness = none ∧ versionSupported wrapWitness = false := by
  decide

end Juno.C02.Regression
