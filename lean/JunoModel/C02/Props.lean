import JunoModel.C02.Proofs
import JunoModel.Generated.Arith
/-!
C02 — "A block is stored only if hash, linkage, tx hashes and state root all verify."
Property theorems (statements only; the proofs are in `Proofs.lean`).

Reading guide. Hashes are terms of a free algebra (`Term`): a theorem of the form
`hashTerm a = hashTerm b → view a = view b` says that, for an ideal (collision-free) hash, the hash
commits exactly the `view`. The views list every committed field explicitly:
`TxView` (per transaction kind and version), `ReceiptView`, `DiffView`, `HeaderView0134/0132`,
`BlockView0134/0132`. What the protocol — or juno — does NOT commit is stated as theorems too
(section "named exceptions"), so that nothing is hidden in the choice of view.
`accept` is `SanityCheckNewHeight` followed by `Store`; `offer` is what a node is after being
offered a block; `run` folds `offer` over an arbitrary sequence of offered blocks.
-/
namespace Juno.C02.Props
open Juno.C02

/-! concrete blocks used by the witnesses below (post-0.7 Pedersen format) -/
def exOldNet : Net := ⟨strFelt "SN_SEPOLIA", 0, none, some (.felt 0x46a)⟩
def exOldSem : StateSem Nat := ⟨fun st _ => .felt (1000 + st), fun st _ _ _ => some (st + 1)⟩
def exOldInvoke0 : InvokeTx :=
  { (default : InvokeTx) with
      version := 1, senderAddress := .felt 0x101, nonce := .felt 1, maxFee := .felt 9, callData := [.felt 1, .felt 2] }
def exOldInvoke : InvokeTx := { exOldInvoke0 with hash := (invokeHash exOldNet.chainId exOldInvoke0).getD (.felt 0) }
def exOldHeader (version : Bytes) : Header :=
  { (default : Header) with
      number := 0, parentHash := .felt 0, stateRoot := .felt 1001, sequencer := some (.felt 0x5e9), txCount := 1,
      timestamp := 1700000000, version := version, l1GasPriceETH := .felt 3 }
def exOldBlock0 (version : Bytes) (i : InvokeTx) : Block :=
  ⟨exOldHeader version, [.invoke i], [{ (default : Receipt) with txHash := i.hash }]⟩
def exOldHash : Term := (blockHash exOldNet (exOldBlock0 (asciiBytes "0.12.3") exOldInvoke) default none).getD (.felt 0)
def exOldMk (version : Bytes) (i : InvokeTx) : Bundle :=
  let b := exOldBlock0 version i
  ⟨{ b with header := { b.header with hash := exOldHash } }, ⟨exOldHash, .felt 1001, .felt 1000, default⟩, []⟩
def exOldBundle : Bundle := exOldMk (asciiBytes "0.12.3") exOldInvoke
/-- the same block with the invoke's calldata extended (every hash kept) and the given version string -/
def exOldTampered (version : Bytes) : Bundle := exOldMk version { exOldInvoke with callData := [.felt 1, .felt 2, .felt 3] }
def exOldChain : Chain Nat := ⟨none, 0, []⟩

/-! ## Arithmetic packing -/

/-- `core.ConcatCounts` is injective over `uint64³ × (mode = Blob)`. -/
theorem concatCounts_injective (t e s t' e' s' : UInt64) (d d' : Nat)
    (h : concatCounts t e s d = concatCounts t' e' s' d') :
    t = t' ∧ e = e' ∧ s = s' ∧ (d = 1 ↔ d' = 1) :=
  concatCounts_inj t e s t' e' s' d d' h

/-- … and it stays injective after `felt.SetBytes` reduces the 256-bit number modulo the Stark prime
`P = 2^251 + 17·2^192 + 1` (the literal juno actually hashes), for ALL `uint64` counts. -/
theorem concatCounts_injective_modP (t e s t' e' s' : UInt64) (d d' : Nat)
    (h : concatCounts t e s d % starkPrime = concatCounts t' e' s' d' % starkPrime) :
    t = t' ∧ e = e' ∧ s = s' ∧ (d = 1 ↔ d' = 1) :=
  concatCounts_modP_inj t e s t' e' s' d d' h

/-- The protocol version enters the block hash as `felt.SetBytes(string)`, i.e. REDUCED modulo the Stark
prime. For the code as it is (since 2e0402b `ParseBlockVersion` rejects strings of more than 31 bytes,
so nothing wraps): two version strings that `ParseBlockVersion` accepts — every block that is accepted has
one, `verifyBlockSuccession` and `BlockHash` both parse it — and that have the same hashed value are the
same string. Full strength; the counterexample for the code before the fix is
`Regression.version_string_wrap_accepted_before_2e0402b`. -/
theorem version_string_committed (a b : Bytes) (v w : Ver)
    (hv : parseVersion a = some v) (hw : parseVersion b = some w)
    (h : bytesToNat a % starkPrime = bytesToNat b % starkPrime) : a = b := by
  have la := parseVersion_short a v (by decide) hv
  have lb := parseVersion_short b w (by decide) hw
  rw [Nat.mod_eq_of_lt (bytesToNat_lt_prime_of_short _ la), Nat.mod_eq_of_lt (bytesToNat_lt_prime_of_short _ lb)] at h
  cases a with
  | nil =>
    cases b with
    | nil => rfl
    | cons y bs =>
      have hy := parseVersion_head y bs w hw
      have := bytesToNat_lower y bs hy
      have hp : 0 < 256 ^ bs.length := Nat.pow_pos (by decide)
      have h0 : bytesToNat ([] : Bytes) = 0 := rfl
      rw [h0] at h
      omega
  | cons x as =>
    cases b with
    | nil =>
      have hx := parseVersion_head x as v hv
      have := bytesToNat_lower x as hx
      have hp : 0 < 256 ^ as.length := Nat.pow_pos (by decide)
      have h0 : bytesToNat ([] : Bytes) = 0 := rfl
      rw [h0] at h
      omega
    | cons y bs =>
      exact bytesToNat_inj_of_nonzero_head x y as bs (parseVersion_head x as v hv) (parseVersion_head y bs w hw) h

/-- `dataAvailabilityMode(fee, nonce)` is injective over `uint32²`. -/
theorem daMode_injective (f n f' n' : UInt32) (h : daMode f n = daMode f' n') : f = f' ∧ n = n' :=
  daFelt_inj h

/-- The model's `daMode` IS the function /verif/gen regenerates from `core/transaction.go` on every
check run (`JunoModel.Tie.DaMode` proves the packing law over that regenerated definition). -/
theorem daMode_is_regenerated (f n : UInt32) : (Juno.Generated.daMode f n).toNat = daMode f n := by
  simp only [Juno.Generated.daMode, Id.run, pure, Juno.Generated.Go.shl64, daMode]
  have hf := f.toNat_lt; have hn := n.toNat_lt
  simp [UInt64.toNat_add, UInt64.toNat_shiftLeft]
  rw [Nat.shiftLeft_eq]
  omega

/-- `tipAndResourcesHash` commits the tip, both mandatory bounds and the presence and value of the
L1-data-gas bound — prices only in their low 128 bits (`ResView`). -/
theorem tipAndResources_injective (t t' : UInt64) (b b' : Bounds) (x : Term)
    (h : tipAndResources t b = some x) (h' : tipAndResources t' b' = some x) :
    ∃ v, resView t b = some v ∧ resView t' b' = some v :=
  tipAndResources_inj t t' b b' x h h'

/-! ## Transaction hashes -/

/-- Every transaction hash juno recomputes is the encoding of the transaction's committed view
(`txView`: kind, full version felt, and every field listed in `TxView`). -/
theorem txHash_commits_view (chain : Term) (t : Tx) (h : Term) (v : TxView)
    (hh : txHash chain t = some h) (hv : txView t = some v) : h = encodeView chain v :=
  txHash_eq_encode chain t h v hh hv

/-- `txHash_injective` for every (kind, version) at once: two transactions of ANY kinds and versions
whose recomputed hashes are the same term have the same committed view — in particular the same
kind and version. -/
theorem txHash_injective (chain : Term) (a b : Tx) (h : Term) (va vb : TxView)
    (ha : txHash chain a = some h) (hb : txHash chain b = some h)
    (hva : txView a = some va) (hvb : txView b = some vb) : va = vb :=
  encodeView_inj chain va vb (txView_valid a va hva) (txView_valid b vb hvb)
    (by rw [← txHash_eq_encode chain a h va ha hva, ← txHash_eq_encode chain b h vb hb hvb])

/-! ## Commitment leaves -/

/-- 0.13.4+ transaction commitment leaf: declared hash and the signature, element by element. -/
theorem txLeaf0134_injective (a b : Tx) (h : txLeaf0134 a = txLeaf0134 b) : sigView a = sigView b :=
  txLeaf0134_inj a b h

/-- 0.13.2–0.13.3 leaf: the same, except that an empty signature is hashed as `[0]`. -/
theorem txLeaf0132_injective (a b : Tx) (h : txLeaf0132 a = txLeaf0132 b) : sigView0132 a = sigView0132 b :=
  txLeaf0132_inj a b h

/-- Event leaf: emitting transaction hash, `from`, keys and data; the explicit `len keys` / `len data`
elements are what makes the flat list uniquely decodable. -/
theorem eventLeaf_injective (h h' : Term) (e e' : Event) (heq : eventLeaf h e = eventLeaf h' e') :
    h = h' ∧ e = e' :=
  eventLeaf_inj h h' e e' heq

/-- The event commitment commits the block's events in order, each with its transaction hash. -/
theorem eventCommitment_injective (rs rs' : List Receipt) (h : eventLeaves rs = eventLeaves rs') :
    eventsFlat rs = eventsFlat rs' :=
  eventLeaves_inj rs rs' h

/-- `messagesSentHash`: count, then per message from / to / payload size / payload. -/
theorem msgsHash_injective (a b : List Msg) (h : msgsHash a = msgsHash b) : a = b :=
  msgsHash_inj a b h

/-- Receipt hash: transaction hash, fee, every L2→L1 message, the reverted flag and (if reverted)
the revert reason, L1 gas and L1 data gas (`ReceiptView`). -/
theorem receiptHash_injective (r r' : Receipt) (h : receiptHash r = receiptHash r') :
    receiptView r = receiptView r' :=
  receiptHash_inj r r' h

/-! ## State diff -/

/-- `StateDiff.Hash()` commits the `DiffView` — under the sequencer's guarantee juno itself quotes
(no address both deployed and replaced: `wfDiff`). Every section count is needed for this. -/
theorem stateDiffHash_injective (d d' : StateDiff) (hw : wfDiff d) (hw' : wfDiff d')
    (h : stateDiffHash d = stateDiffHash d') : diffView d = diffView d' :=
  stateDiffFlat_inj d d' hw hw' (by simpa [stateDiffHash] using h)

/-- `wfDiff` holds whenever the replaced addresses are distinct and none of them is deployed. -/
theorem wfDiff_of_disjoint_maps (d : StateDiff) (hn : (keys d.replaced).Nodup)
    (hd : ∀ k ∈ keys d.replaced, k ∉ keys d.deployed) : wfDiff d :=
  wfDiff_of_disjoint d hn hd

/-! ## Block hash: every committed field, per format -/

/-- 0.13.4 / 0.14.x format. Equal block-hash terms ⇒ the other block uses the same format and has
the same `BlockView0134`: number, state root, sequencer, timestamp, transaction / event counts, state
diff length, blob bit, all six gas prices, version string bytes, parent hash; every transaction's hash
and signature; every event with its transaction hash and position; every receipt's `ReceiptView`;
the state diff's flat preimage (`stateDiffHash_injective` turns it into the `DiffView`). -/
theorem committed_fields_injective_v0134 (net : Net) (b b' : Block) (sd sd' : StateDiff)
    (ov ov' : Option Term) (x : Term)
    (hf : dispatch net b.header.number b.header.version = some .v0134)
    (h : blockHash net b sd ov = some x) (h' : blockHash net b' sd' ov' = some x) :
    dispatch net b'.header.number b'.header.version = some .v0134 ∧ blockView0134 b sd = blockView0134 b' sd' :=
  blockHash_v0134_inj net b b' sd sd' ov ov' x hf h h'

/-- 0.13.2–0.13.3 format: `BlockView0132` (no L2 gas price; nil sequencer / STRK price / data gas
prices read as zero; empty signatures read as `[0]`). -/
theorem committed_fields_injective_v0132 (net : Net) (b b' : Block) (sd sd' : StateDiff)
    (ov ov' : Option Term) (x : Term)
    (hf : dispatch net b.header.number b.header.version = some .v0132)
    (h : blockHash net b sd ov = some x) (h' : blockHash net b' sd' ov' = some x) :
    dispatch net b'.header.number b'.header.version = some .v0132 ∧ blockView0132 b sd = blockView0132 b' sd' :=
  blockHash_v0132_inj net b b' sd sd' ov ov' x hf h h'

/-- post-0.7 Pedersen format (every protocol version below 0.13.2 from `First07Block` on; the
real-network fixture blocks): number, state root, sequencer (after the fallback override), timestamp,
transaction and event counts, parent hash; every transaction's hash and signature (before 0.11.1:
only invoke signatures); every event's from / keys / data in order. NOT committed in this format:
the protocol version string, gas prices, receipts (fees, messages, revert status), the state diff. -/
theorem committed_fields_injective_post07 (b b' : Block) (ov ov' : Option Term) (x : Term)
    (h : post07 b ov = some x) (h' : post07 b' ov' = some x) :
    ∃ seq seq', (match ov with | some s => some s | none => b.header.sequencer) = some seq ∧
      (match ov' with | some s => some s | none => b'.header.sequencer) = some seq' ∧
      (⟨b.header.number, b.header.stateRoot, seq, b.header.timestamp, b.header.txCount, b.header.eventCount, b.header.parentHash⟩ : HeaderViewPost07)
        = ⟨b'.header.number, b'.header.stateRoot, seq', b'.header.timestamp, b'.header.txCount, b'.header.eventCount, b'.header.parentHash⟩ ∧
      b.txs.map (sigViewPedersen (allSigsOf b)) = b'.txs.map (sigViewPedersen (allSigsOf b')) ∧
      eventsOnly b.receipts = eventsOnly b'.receipts :=
  post07_inj b b' ov ov' x h h'

/-! ## Acceptance -/

/-- `accept_sound`: a block is stored only if the state update carries the block's hash and root,
class hashes verify, receipts match transactions, every transaction hash recomputes and the block
hash recomputes (outside a network's unverifiable range), the version is supported, number and
parent hash continue the head, the state's root is the declared old root, the diff applies and
yields exactly the declared new root; and then the head, state and stored list are extended by
exactly this block. -/
theorem accept_sound {σ : Type} (sem : StateSem σ) (net : Net) (c c' : Chain σ) (B : Bundle)
    (h : accept sem net c B = .ok c') : Verified net B ∧ Stored sem c c' B :=
  accept_ok sem net c c' B h

/-- `tamper_rejected`, 0.13.4+: if a node accepts `B`, then any `B'` that declares the same block hash
but uses another hash format or differs in any field of `BlockView0134` is rejected by every node
(whatever its chain `d`). -/
theorem tamper_rejected_v0134 {σ : Type} (sem : StateSem σ) (net : Net) (c c' d : Chain σ) (B B' : Bundle)
    (hacc : accept sem net c B = .ok c')
    (hu : inUnverifiable net B.block.header.number = false)
    (hu' : inUnverifiable net B'.block.header.number = false)
    (hf : dispatch net B.block.header.number B.block.header.version = some .v0134)
    (hsame : B'.block.header.hash = B.block.header.hash)
    (hdiff : dispatch net B'.block.header.number B'.block.header.version ≠ some .v0134 ∨
             blockView0134 B'.block B'.su.diff ≠ blockView0134 B.block B.su.diff) :
    ∃ e, accept sem net d B' = .error e := by
  cases hacc' : accept sem net d B' with
  | error e => exact ⟨e, rfl⟩
  | ok d' =>
    obtain ⟨ov, _, hh⟩ := (accept_ok sem net c c' B hacc).1.hash hu
    obtain ⟨ov', _, hh'⟩ := (accept_ok sem net d d' B' hacc').1.hash hu'
    rw [hsame] at hh'
    have := blockHash_v0134_inj net B.block B'.block B.su.diff B'.su.diff ov ov' _ hf hh hh'
    rcases hdiff with hd | hd
    · exact absurd this.1 hd
    · exact absurd this.2.symm hd

/-- `tamper_rejected`, 0.13.2–0.13.3. -/
theorem tamper_rejected_v0132 {σ : Type} (sem : StateSem σ) (net : Net) (c c' d : Chain σ) (B B' : Bundle)
    (hacc : accept sem net c B = .ok c')
    (hu : inUnverifiable net B.block.header.number = false)
    (hu' : inUnverifiable net B'.block.header.number = false)
    (hf : dispatch net B.block.header.number B.block.header.version = some .v0132)
    (hsame : B'.block.header.hash = B.block.header.hash)
    (hdiff : dispatch net B'.block.header.number B'.block.header.version ≠ some .v0132 ∨
             blockView0132 B'.block B'.su.diff ≠ blockView0132 B.block B.su.diff) :
    ∃ e, accept sem net d B' = .error e := by
  cases hacc' : accept sem net d B' with
  | error e => exact ⟨e, rfl⟩
  | ok d' =>
    obtain ⟨ov, _, hh⟩ := (accept_ok sem net c c' B hacc).1.hash hu
    obtain ⟨ov', _, hh'⟩ := (accept_ok sem net d d' B' hacc').1.hash hu'
    rw [hsame] at hh'
    have := blockHash_v0132_inj net B.block B'.block B.su.diff B'.su.diff ov ov' _ hf hh hh'
    rcases hdiff with hd | hd
    · exact absurd this.1 hd
    · exact absurd this.2.symm hd

/-- Linkage and state root are checked independently of every hash: a block whose number or parent
hash does not continue the head, or whose declared roots do not match the state before / after
applying its diff, is rejected even if all its hashes are consistent (re-hashed tampering). -/
theorem unlinked_or_wrong_root_rejected {σ : Type} (sem : StateSem σ) (net : Net) (c : Chain σ) (B : Bundle)
    (hbad : B.block.header.number ≠ expectedNumber c.head ∨ B.block.header.parentHash ≠ expectedParent c.head ∨
            sem.root c.st B.block.header.version ≠ B.su.oldRoot ∨
            (∀ st', sem.apply c.st B.block.header.number B.su.diff B.classes = some st' →
                    sem.root st' B.block.header.version ≠ B.block.header.stateRoot)) :
    ∃ e, accept sem net c B = .error e := by
  cases hacc : accept sem net c B with
  | error e => exact ⟨e, rfl⟩
  | ok c' =>
    obtain ⟨hv, hs⟩ := accept_ok sem net c c' B hacc
    rcases hbad with h | h | h | h
    · exact absurd hs.number h
    · exact absurd hs.parent h
    · exact absurd hs.oldRoot h
    · exact absurd (by rw [hs.newRoot, hv.suRoot]) (h c'.st hs.applied)

/-- Transactions of accepted blocks (protocol ≥ 0.11.0): the declared hash of every transaction
whose hash juno recomputes is the encoding of its committed view. Hence two accepted blocks cannot
contain transactions with the same hash and different committed fields.

PARTIAL: the full-strength statement would have no hypothesis `txView t = some _`, i.e. cover every
transaction of an accepted block. It does not hold: juno never recomputes the hash of legacy Deploy
transactions, Declare version 0 transactions and L1-handler transactions without nonce, in blocks of
ANY protocol version — see `declare_v0_tamper_accepted` below for the witness on the model (the
harness replays it on the real node: known finding
`declare-version-set-to-0-skips-tx-hash-verification`). -/
theorem tx_tamper_rejected_partial (net : Net) (B B' : Bundle) (hv : Verified net B) (hv' : Verified net B')
    (hu : inUnverifiable net B.block.header.number = false)
    (hu' : inUnverifiable net B'.block.header.number = false)
    (v v' : Ver) (hp : parseVersion B.block.header.version = some v) (hp' : parseVersion B'.block.header.version = some v')
    (hge : v.lt v0_11_0 = false) (hge' : v'.lt v0_11_0 = false)
    (t t' : Tx) (ht : t ∈ B.block.txs) (ht' : t' ∈ B'.block.txs) (w w' : TxView)
    (hw : txView t = some w) (hw' : txView t' = some w') (hsame : t.hash = t'.hash) : w = w' := by
  have h1 := verified_tx_hash net B hv hu v hp hge t ht w hw
  have h2 := verified_tx_hash net B' hv' hu' v' hp' hge' t' ht' w' hw'
  rw [hsame, h2] at h1
  exact (encodeView_inj net.chainId w w' (txView_valid t w hw) (txView_valid t' w' hw') (by simpa using h1.symm))

/-- `tamper_rejected` for transactions, quantified over the POSITION: take an accepted block `B`
and any block `B'` whose transaction at position `i` — any `i`, first, last, in the tail after the
last full chunk of a worker pool — keeps the declared hash of `B`'s transaction at `i` but differs
from it in a committed field; then `B'` is rejected by every node.
(PARTIAL in the same sense as `tx_tamper_rejected_partial`: only for kinds whose hash juno recomputes.) -/
theorem tx_tamper_at_any_position_rejected_partial {σ : Type} (sem : StateSem σ) (net : Net) (c c' d : Chain σ)
    (B B' : Bundle) (i : Nat) (t t' : Tx) (w w' : TxView)
    (hacc : accept sem net c B = .ok c')
    (hu : inUnverifiable net B.block.header.number = false)
    (hu' : inUnverifiable net B'.block.header.number = false)
    (v v' : Ver) (hp : parseVersion B.block.header.version = some v) (hp' : parseVersion B'.block.header.version = some v')
    (hge : v.lt v0_11_0 = false) (hge' : v'.lt v0_11_0 = false)
    (hi : B.block.txs[i]? = some t) (hi' : B'.block.txs[i]? = some t')
    (hw : txView t = some w) (hw' : txView t' = some w') (hsame : t'.hash = t.hash) (hdiff : w' ≠ w) :
    ∃ e, accept sem net d B' = .error e := by
  cases hacc' : accept sem net d B' with
  | error e => exact ⟨e, rfl⟩
  | ok d' =>
    have hv := (accept_ok sem net c c' B hacc).1
    have hv' := (accept_ok sem net d d' B' hacc').1
    exact absurd (tx_tamper_rejected_partial net B B' hv hv' hu hu' v v' hp hp' hge hge' t t'
      (List.mem_of_getElem? hi) (List.mem_of_getElem? hi') w w' hw hw' hsame.symm).symm hdiff

/-- SECOND LIMIT of the two `_partial` theorems above (hypotheses `hge`, `hge'`): below protocol 0.11.0
`VerifyTransactions` verifies nothing, and the Pedersen block hash (every protocol below 0.13.2) does
not commit the version string. DEFECT WITNESS: a block of a 0.12.3 chain whose invoke transaction is
tampered (calldata extended, every hash kept) is rejected — but the same tampering with the version
string changed to `0.10.0` is ACCEPTED. Harness: known finding
`version-downgrade-skips-tx-hash-verification`. -/
theorem tx_tamper_accepted_below_0_11 :
    (offer exOldSem exOldNet exOldChain exOldBundle).2 = none ∧
    (offer exOldSem exOldNet exOldChain (exOldTampered (asciiBytes "0.12.3"))).2 = some .txHash ∧
    (offer exOldSem exOldNet exOldChain (exOldTampered (asciiBytes "0.10.0"))).2 = none ∧
    (offer exOldSem exOldNet exOldChain (exOldTampered [])).2 = none := by
  decide

/-- The `Store` callback as its concrete list of ten steps over one write batch
(`verifyBlockSuccession`, `state.Update`, header, transactions+receipts, state update, commitments,
L1-handler message hashes, CASM metadata, chain height, event filter): it succeeds exactly when both
verdicts are positive and NO step fails on I/O, whatever the failing position `k` is … -/
theorem store_succeeds_iff_every_step_does (db : DB) (i : StoreInput) (io : Nat → Bool) :
    (dbStore db i io).2 = true ↔ (i.successionOK = true ∧ i.stateOK = true ∧ ∀ k, k < 10 → io k = false) :=
  dbStore_ok_iff db i io

/-- … a failed `Store` — rejected succession, state-root mismatch, or an I/O failure at ANY of the ten
positions, after any number of writes already put into the batch — leaves every key of the database
as it was (`reject_no_effect` on the level of the key/value store; the harness injects the failure
at every batch operation of the real `Store` and compares the database byte for byte) … -/
theorem store_failure_leaves_database_untouched (db : DB) (i : StoreInput) (io : Nat → Bool)
    (h : (dbStore db i io).2 = false) : (dbStore db i io).1 = db :=
  dbStore_fail_no_effect db i io h

/-- … and a successful one makes the block the head: chain height = its number, its header indexed. -/
theorem store_success_sets_head (db : DB) (i : StoreInput) (io : Nat → Bool) (h : (dbStore db i io).2 = true) :
    (dbStore db i io).1 (.chainHeight, 0) = some i.number ∧
    (dbStore db i io).1 (.headerByNumber, i.number) = some i.header :=
  dbStore_ok_head db i io h

/-- On the level of the chain: a rejected offer leaves head, state and stored blocks as they were
(definitional for `offer`; the content is in the three theorems above and in the harness oracle). -/
theorem reject_no_effect {σ : Type} (sem : StateSem σ) (net : Net) (c : Chain σ) (B : Bundle) (e : Reject)
    (h : (offer sem net c B).2 = some e) : (offer sem net c B).1 = c :=
  offer_reject sem net c B e h

/-- A verified block with a sequencer address was hashed with ITS OWN address (no override), so the
Pedersen format commits the header's sequencer; the fallback addresses are tried only for a nil one. -/
theorem verified_uses_own_sequencer (net : Net) (B : Bundle) (hv : Verified net B) (s : Term)
    (hs : B.block.header.sequencer = some s) (hu : inUnverifiable net B.block.header.number = false) :
    blockHash net B.block B.su.diff none = some B.block.header.hash := by
  obtain ⟨ov, hm, hh⟩ := hv.hash hu
  simp [overridesOf, hs] at hm
  rw [hm] at hh
  exact hh

/-- For ALL histories: whatever sequence of blocks (valid, tampered, misplaced) a node that started
empty is offered, its stored chain is linked block by block from genesis (numbers consecutive from
0, each parent hash the previous block's hash), every stored block passed all verifications, each
declared old / new root is the state root before / after applying its diff, and the state is the
fold of the stored diffs. -/
theorem chain_invariant {σ : Type} (sem : StateSem σ) (net : Net) (st0 : σ) (Bs : List Bundle) :
    let c := run sem net ⟨none, st0, []⟩ Bs
    ChainOK sem net st0 c.head c.st c.stored :=
  run_preserves sem net st0 Bs ⟨none, st0, []⟩ ChainOK.empty

/-- For ALL histories of offers AND reverts (`RevertHead` pops the head; that it restores the previous
state is C04's property and assumed): the current chain and every chain a later revert can return to
are linked from genesis, verified block by block, with the state the fold of the stored diffs. -/
theorem chain_invariant_with_reverts {σ : Type} (sem : StateSem σ) (net : Net) (st0 : σ) (ops : List Op) :
    NodeOK sem net st0 (runOps sem net ⟨⟨none, st0, []⟩, []⟩ ops) :=
  runOps_preserves sem net st0 ops ⟨⟨none, st0, []⟩, []⟩ ⟨ChainOK.empty, by intro p hp; simp at hp⟩

/-- For ALL pairs of histories: whatever two nodes were offered, if each stores a block (of the
0.13.4+ format, outside an unverifiable range) and the two blocks declare the same hash, then they
have the same format and the same committed content — every position of every list included. -/
theorem stored_same_hash_same_content_v0134 {σ : Type} (sem : StateSem σ) (net : Net) (st0 st0' : σ)
    (Bs Bs' : List Bundle) (B B' : Bundle)
    (hB : B ∈ (run sem net ⟨none, st0, []⟩ Bs).stored) (hB' : B' ∈ (run sem net ⟨none, st0', []⟩ Bs').stored)
    (hu : inUnverifiable net B.block.header.number = false) (hu' : inUnverifiable net B'.block.header.number = false)
    (hf : dispatch net B.block.header.number B.block.header.version = some .v0134)
    (hsame : B'.block.header.hash = B.block.header.hash) :
    dispatch net B'.block.header.number B'.block.header.version = some .v0134 ∧
    blockView0134 B.block B.su.diff = blockView0134 B'.block B'.su.diff := by
  have hv := chainOK_mem_verified sem net st0 _ _ _ (run_preserves sem net st0 Bs ⟨none, st0, []⟩ ChainOK.empty) B hB
  have hv' := chainOK_mem_verified sem net st0' _ _ _ (run_preserves sem net st0' Bs' ⟨none, st0', []⟩ ChainOK.empty) B' hB'
  obtain ⟨ov, _, hh⟩ := hv.hash hu
  obtain ⟨ov', _, hh'⟩ := hv'.hash hu'
  rw [hsame] at hh'
  exact blockHash_v0134_inj net B.block B'.block B.su.diff B'.su.diff ov ov' _ hf hh hh'

/-- the same for the 0.13.2–0.13.3 format -/
theorem stored_same_hash_same_content_v0132 {σ : Type} (sem : StateSem σ) (net : Net) (st0 st0' : σ)
    (Bs Bs' : List Bundle) (B B' : Bundle)
    (hB : B ∈ (run sem net ⟨none, st0, []⟩ Bs).stored) (hB' : B' ∈ (run sem net ⟨none, st0', []⟩ Bs').stored)
    (hu : inUnverifiable net B.block.header.number = false) (hu' : inUnverifiable net B'.block.header.number = false)
    (hf : dispatch net B.block.header.number B.block.header.version = some .v0132)
    (hsame : B'.block.header.hash = B.block.header.hash) :
    dispatch net B'.block.header.number B'.block.header.version = some .v0132 ∧
    blockView0132 B.block B.su.diff = blockView0132 B'.block B'.su.diff := by
  have hv := chainOK_mem_verified sem net st0 _ _ _ (run_preserves sem net st0 Bs ⟨none, st0, []⟩ ChainOK.empty) B hB
  have hv' := chainOK_mem_verified sem net st0' _ _ _ (run_preserves sem net st0' Bs' ⟨none, st0', []⟩ ChainOK.empty) B' hB'
  obtain ⟨ov, _, hh⟩ := hv.hash hu
  obtain ⟨ov', _, hh'⟩ := hv'.hash hu'
  rw [hsame] at hh'
  exact blockHash_v0132_inj net B.block B'.block B.su.diff B'.su.diff ov ov' _ hf hh hh'

/-! ## Named exceptions: what is NOT committed (each a proved statement, none hidden in a view) -/

/-- 0.13.2–0.13.3: the empty signature and the signature `[0]` give the same commitment leaf. -/
theorem exception_empty_signature_is_zero_v0132 (i : InvokeTx) (hs : i.signature = []) :
    txLeaf0132 (.invoke i) = txLeaf0132 (.invoke { i with signature := [.felt 0] }) := by
  simp [txLeaf0132, Tx.signature, Tx.hash, hs]

/-- The receipt hash ignores the fee unit, the L2 gas, every execution resource other than L1 gas
and L1 data gas, and the L1→L2 message. -/
theorem exception_receipt_uncommitted (r : Receipt) (feeUnit : Nat) (steps l2 : UInt64) (l1msg : Option Term) (g : Gas)
    (hg : r.totalGas = some g) :
    receiptHash { r with feeUnit := feeUnit, steps := steps, l1ToL2 := l1msg, totalGas := some { g with l2Gas := l2 } }
      = receiptHash r := by
  simp [receiptHash, hg]

/-- The revert reason is hashed only when the receipt is marked reverted. -/
theorem exception_revert_reason_unreverted (r : Receipt) (reason : Bytes) (hr : r.reverted = false) :
    receiptHash { r with revertReason := reason } = receiptHash r := by
  simp [receiptHash, hr]

/-- `L1DAMode` enters the hash only as `mode == Blob`: all other values are "calldata". -/
theorem exception_l1DAMode_only_blob_bit (t e s : UInt64) (d : Nat) (hd : d ≠ 1) :
    concatCounts t e s d = concatCounts t e s 0 := by
  unfold concatCounts
  rw [if_neg hd, if_neg (by decide : ¬ (0 : Nat) = 1)]

/-- Only the low 128 bits of a resource bound's price are hashed. -/
theorem exception_price_high_bits (name : String) (a : UInt64) (p q : Nat) (h : q = p + 2 ^ 128) :
    rbFelt name (some ⟨a, some q⟩) = rbFelt name (some ⟨a, some p⟩) := by
  have : q % 2 ^ 128 = p % 2 ^ 128 := by omega
  simp only [rbFelt, this]

/-- The 0.13.2 block hash does not contain the L2 gas price. -/
theorem exception_l2GasPrice_v0132 (b : Block) (sd : StateDiff) (g : Option GasPrice) :
    post0132 { b with header := { b.header with l2GasPrice := g } } sd = post0132 b sd := by
  simp [post0132, commonPrefix]

/-- `DeclaredV0Classes` is hashed sorted: its order is not committed. -/
theorem exception_v0_order (d : StateDiff) (a b : Nat) (rest : List Nat) (h : d.declaredV0 = a :: b :: rest) :
    sortNat (b :: a :: rest) = sortNat d.declaredV0 →
    stateDiffHash { d with declaredV0 := b :: a :: rest } = stateDiffHash d := by
  intro hs
  simp [stateDiffHash, stateDiffFlat, updatedContracts, declaredPairs, hs, h, len]

/-- Declared and migrated classes are ONE list in the state-diff hash: moving an entry from one map
to the other keeps the hash (the protocol's own commitment does the same). -/
theorem exception_declared_vs_migrated :
    stateDiffHash { (default : StateDiff) with declaredV1 := [(7, .felt 9)] }
      = stateDiffHash { (default : StateDiff) with migrated := [(7, .felt 9)] } := by
  decide

/-- Without `wfDiff` (an address both deployed and replaced — excluded by the sequencer) the class
hash of the deployment is not committed. -/
theorem exception_deployed_and_replaced :
    stateDiffHash { (default : StateDiff) with deployed := [(7, .felt 1)], replaced := [(7, .felt 3)] }
      = stateDiffHash { (default : StateDiff) with deployed := [(7, .felt 2)], replaced := [(7, .felt 3)] } := by
  decide

/-- Deployed contracts and replaced classes are ONE list in the state-diff hash as well: listing a
deployment as a class replacement keeps the hash (only `State.Update` tells them apart: deploying an
existing / replacing a non-existing contract fails). -/
theorem exception_deployed_vs_replaced_move :
    stateDiffHash { (default : StateDiff) with deployed := [(7, .felt 9)] }
      = stateDiffHash { (default : StateDiff) with replaced := [(7, .felt 9)] } := by
  decide

/-- The Pedersen formats (protocol < 0.13.2) commit neither the gas prices, the DA mode nor the L2 gas
price … -/
theorem exception_post07_prices (b : Block) (ov : Option Term) (eth : Term) (strk : Option Term) (da : Nat)
    (dg l2 : Option GasPrice) :
    post07 { b with header := { b.header with l1GasPriceETH := eth, l1GasPriceSTRK := strk, l1DAMode := da,
                                               l1DataGasPrice := dg, l2GasPrice := l2 } } ov = post07 b ov := by
  simp [post07, pedTxComm]

/-- … nor anything of a receipt except its events (fee, messages, revert status, gas), nor which
receipt an event belongs to … -/
theorem exception_post07_receipts (b : Block) (ov : Option Term) (rs : List Receipt)
    (h : eventsOnly rs = eventsOnly b.receipts) : post07 { b with receipts := rs } ov = post07 b ov := by
  simp [post07, pedTxComm, eventLeavesPedersen_eq, h]

/-- … nor the version string itself, as long as it stays on the same side of 0.11.1 (signature rule). -/
theorem exception_post07_version (b : Block) (ov : Option Term) (v' : Bytes) (w w' : Ver)
    (hp : parseVersion b.header.version = some w) (hp' : parseVersion v' = some w')
    (h : w'.ge v0_11_1 = w.ge v0_11_1) :
    post07 { b with header := { b.header with version := v' } } ov = post07 b ov := by
  simp [post07, pedTxComm, hp, hp', h]

/-- Transactions whose hash juno takes as declared, whatever their fields: legacy Deploy … -/
theorem exception_deploy_unverified (chain : Term) (d : DeployTx) (h : Term) (hh : d.hash = some h) :
    txHash chain (.deploy d) = some h := by
  simp [txHash, hh]

/-- … Declare version 0 … -/
theorem exception_declare_v0_unverified (chain : Term) (d : DeclareTx) (h : Term) (hv : verIs d.version 0 = true)
    (hh : d.hash = some h) : txHash chain (.declare d) = some h := by
  simp [txHash, declareHash, hv, hh]

/-- … and L1-handler transactions without nonce. -/
theorem exception_l1handler_without_nonce_unverified (chain : Term) (l : L1HandlerTx) (hv : verIs l.version 0 = true)
    (hn : l.nonce = none) : txHash chain (.l1Handler l) = some l.hash := by
  simp [txHash, l1HandlerHash, hv, hn]

/-- DEFECT WITNESS (negation of the full-strength `tx_tamper_rejected`), for the code as it is
(`strictTxKinds = false`): take any Declare transaction that verifies; set its version to 0 and
change its class hash: `VerifyTransactions` still passes — in a block of protocol 0.14.0 — and the
commitment leaf is unchanged, so the block hash is too. -/
theorem declare_v0_tamper_accepted : strictTxKinds = false →
    ∃ (chain : Term) (d d' : DeclareTx),
      verifyTransactions chain [.declare d] (asciiBytes "0.14.0") = true ∧
      verifyTransactions chain [.declare d'] (asciiBytes "0.14.0") = true ∧
      d'.hash = d.hash ∧ d'.classHash ≠ d.classHash ∧ d'.version ≠ d.version ∧
      txLeaf0134 (.declare d') = txLeaf0134 (.declare d) := by
  first
  | (intro h; exact absurd h (by decide))
  | (intro _
     let d0 : DeclareTx := { (default : DeclareTx) with version := 2, classHash := .felt 5, compiledClassHash := .felt 6 }
     let h := (declareHash (.felt 1) d0).getD (.felt 0)
     exact ⟨.felt 1, { d0 with hash := some h }, { d0 with hash := some h, version := 0, classHash := .felt 77 },
       by decide, by decide, rfl, by decide, by decide, by decide⟩)

/-- The same for an L1-handler transaction whose nonce is dropped. -/
theorem l1handler_nonce_drop_accepted : strictTxKinds = false →
    ∃ (chain : Term) (l l' : L1HandlerTx),
      verifyTransactions chain [.l1Handler l] (asciiBytes "0.14.0") = true ∧
      verifyTransactions chain [.l1Handler l'] (asciiBytes "0.14.0") = true ∧
      l'.hash = l.hash ∧ l'.callData ≠ l.callData ∧
      txLeaf0134 (.l1Handler l') = txLeaf0134 (.l1Handler l) := by
  first
  | (intro h; exact absurd h (by decide))
  | (intro _
     let l0 : L1HandlerTx := { (default : L1HandlerTx) with nonce := some (.felt 3), callData := [.felt 1] }
     let h := (l1HandlerHash (.felt 1) l0).getD (.felt 0)
     exact ⟨.felt 1, { l0 with hash := h }, { l0 with hash := h, nonce := none, callData := [.felt 1, .felt 2] },
       by decide, by decide, rfl, by decide, by decide⟩)

/-! ## Non-vacuity: the hypotheses above are satisfiable -/

section Examples

def exNet : Net := ⟨strFelt "SN_SEPOLIA", 0, none, some (.felt 0x46a)⟩
def exSem : StateSem Nat := ⟨fun st _ => .felt (1000 + st), fun st _ _ _ => some (st + 1)⟩

def exInvoke0 : InvokeTx :=
  { (default : InvokeTx) with
      version := 3, senderAddress := .felt 0x101, nonce := .felt 1,
      callData := [.felt 1, .felt 2], signature := [.felt 8, .felt 9],
      bounds := ⟨some ⟨5, some 7⟩, some ⟨6, some 8⟩, some ⟨1, some 2⟩⟩, tip := 1, feeDAMode := 1 }
def exInvoke : InvokeTx := { exInvoke0 with hash := (invokeHash exNet.chainId exInvoke0).getD (.felt 0) }
def exReceipt : Receipt :=
  { (default : Receipt) with
      fee := .felt 3, txHash := exInvoke.hash, events := [⟨.felt 0x101, [.felt 0x50], [.felt 1]⟩],
      msgs := [⟨.felt 0x101, [.felt 4], 0x1001⟩], totalGas := some ⟨3, 4, 5⟩ }
def exDiff : StateDiff :=
  { (default : StateDiff) with
      storage := [(0x101, [(1, .felt 5)])], nonces := [(0x101, .felt 1)], deployed := [(0x101, .felt 0xc0)] }
def exHeader0 : Header :=
  { (default : Header) with
      number := 0, parentHash := .felt 0, stateRoot := .felt 1001, sequencer := some (.felt 0x5e9),
      txCount := 1, eventCount := 1, timestamp := 1700000000, version := asciiBytes "0.14.0", l1GasPriceETH := .felt 3,
      l1GasPriceSTRK := some (.felt 4), l1DAMode := 1, l1DataGasPrice := some ⟨some (.felt 5), some (.felt 6)⟩,
      l2GasPrice := some ⟨some (.felt 7), some (.felt 8)⟩ }
def exBlock0 : Block := ⟨exHeader0, [.invoke exInvoke], [exReceipt]⟩
def exHash : Term := (blockHash exNet exBlock0 exDiff none).getD (.felt 0)
def exBlock : Block := { exBlock0 with header := { exHeader0 with hash := exHash } }
def exBundle : Bundle := ⟨exBlock, ⟨exHash, .felt 1001, .felt 1000, exDiff⟩, [(7, ⟨false, 7⟩), (9, ⟨true, 0⟩)]⟩
def exChain : Chain Nat := ⟨none, 0, []⟩

/-- a 0.14.0-format block with an invoke-v3 transaction, an event, a message and a state diff is accepted -/
example : (offer exSem exNet exChain exBundle).2 = none := by decide
example : dispatch exNet exBlock.header.number exBlock.header.version = some .v0134 := by decide
example : inUnverifiable exNet exBlock.header.number = false := by decide
example : (txView (.invoke exInvoke)).isSome = true := by decide
example : wfDiff exDiff := by unfold wfDiff; decide
/-- the same block with another timestamp (declared hash kept) is rejected, and nothing changes -/
example : (offer exSem exNet exChain { exBundle with block := { exBlock with header := { exBlock.header with timestamp := 1700000001 } } }).2
    = some .blockHash := by decide
/-- a valid block offered at the wrong position is rejected for its number -/
example : (offer exSem exNet (offer exSem exNet exChain exBundle).1 exBundle).2 = some .number := by decide
/-- the version dispatch on odd strings, as `ParseBlockVersion` does it -/
example : parseVersion (asciiBytes "0.13.2.1") = some ⟨0, 13, 2⟩ ∧ parseVersion (asciiBytes "0.14") = some ⟨0, 14, 0⟩
    ∧ parseVersion (asciiBytes "0.13.x") = none ∧ parseVersion [] = some ⟨0, 0, 0⟩ := by decide

/-- every constructor of `TxView` is inhabited by a transaction the model hash-verifies -/
example : (txView (.invoke { (default : InvokeTx) with version := 0 })).isSome = true ∧
    (txView (.invoke { (default : InvokeTx) with version := 1 })).isSome = true ∧
    (txView (.declare { (default : DeclareTx) with version := 1 })).isSome = true ∧
    (txView (.declare { (default : DeclareTx) with version := 2 })).isSome = true ∧
    (txView (.declare { (default : DeclareTx) with version := 3, bounds := ⟨some ⟨1, some 1⟩, some ⟨1, some 1⟩, none⟩ })).isSome = true ∧
    (txView (.deployAccount { (default : DeployAccountTx) with version := 1 })).isSome = true ∧
    (txView (.deployAccount { (default : DeployAccountTx) with version := 3, bounds := ⟨some ⟨1, some 1⟩, some ⟨1, some 1⟩, none⟩ })).isSome = true ∧
    (txView (.l1Handler { (default : L1HandlerTx) with version := 0, nonce := some (.felt 1) })).isSome = true := by decide
/-- a 0.13.2-format copy of the example block is accepted too (hypotheses of `tamper_rejected_v0132`) -/
def exHeader0132 : Header := { exHeader0 with version := asciiBytes "0.13.2" }
def exHash0132 : Term := (blockHash exNet ⟨exHeader0132, exBlock0.txs, exBlock0.receipts⟩ exDiff none).getD (.felt 0)
def exBundle0132 : Bundle :=
  ⟨⟨{ exHeader0132 with hash := exHash0132 }, exBlock0.txs, exBlock0.receipts⟩, ⟨exHash0132, .felt 1001, .felt 1000, exDiff⟩, []⟩
example : (offer exSem exNet exChain exBundle0132).2 = none ∧
    dispatch exNet exBundle0132.block.header.number exBundle0132.block.header.version = some .v0132 := by decide

end Examples

end Juno.C02.Props
