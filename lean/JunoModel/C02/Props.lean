import JunoModel.C02.Proofs
import JunoModel.C02.ProofsStore
import JunoModel.C02.ProofsBody
import JunoModel.Generated.Arith
/-!
C02 — "A block is stored only if hash, linkage, tx hashes and state root all verify."
Property theorems (statements only; the proofs are in `Proofs.lean`).

Reading guide. Hashes are terms of a free algebra (`Term`): a theorem of the form
`hashTerm a = hashTerm b → view a = view b` says that, for an ideal (collision-free) hash, the hash
commits exactly the `view`. The views list every committed field explicitly:
`TxView` (per transaction kind and version), `ReceiptView`, `DiffView`, `HeaderView0134/0132`,
`BlockView0134/0132`. What the protocol — or juno — does NOT commit is stated as theorems too
(section "named exceptions"), so that nothing is hidden in the choice of view.
`accept` is `SanityCheckNewHeight` followed by `Store`; `offer` is what a node is after being
offered a block; `run` folds `offer` over an arbitrary sequence of offered blocks.
-/
namespace Juno.C02.Props
open Juno.C02

/-! concrete blocks used by the witnesses below (post-0.7 Pedersen format) -/
def exOldNet : Net := ⟨strFelt "SN_SEPOLIA", 0, none, some (.felt 0x46a)⟩
def exOldSem : StateSem Nat := ⟨fun st _ => .felt (1000 + st), fun st _ _ _ => some (st + 1)⟩
def exOldInvoke0 : InvokeTx :=
  { (default : InvokeTx) with
      version := 1, senderAddress := .felt 0x101, nonce := .felt 1, maxFee := .felt 9, callData := [.felt 1, .felt 2] }
def exOldInvoke : InvokeTx := { exOldInvoke0 with hash := (invokeHash exOldNet.chainId exOldInvoke0).getD (.felt 0) }
def exOldHeader (version : Bytes) : Header :=
  { (default : Header) with
      number := 0, parentHash := .felt 0, stateRoot := .felt 1001, sequencer := some (.felt 0x5e9), txCount := 1,
      timestamp := 1700000000, version := version, l1GasPriceETH := .felt 3 }
def exOldBlock0 (version : Bytes) (i : InvokeTx) : Block :=
  ⟨exOldHeader version, [.invoke i], [{ (default : Receipt) with txHash := i.hash }]⟩
def exOldHash : Term := (blockHash exOldNet (exOldBlock0 (asciiBytes "0.12.3") exOldInvoke) default none).getD (.felt 0)
def exOldMk (version : Bytes) (i : InvokeTx) : Bundle :=
  let b := exOldBlock0 version i
  ⟨{ b with header := { b.header with hash := exOldHash } }, ⟨exOldHash, .felt 1001, .felt 1000, default⟩, []⟩
def exOldBundle : Bundle := exOldMk (asciiBytes "0.12.3") exOldInvoke
/-- the same block with the invoke's calldata extended (every hash kept) and the given version string -/
def exOldTampered (version : Bytes) : Bundle := exOldMk version { exOldInvoke with callData := [.felt 1, .felt 2, .felt 3] }
def exOldChain : Chain Nat := ⟨none, 0, []⟩

/-! ## Arithmetic packing -/

/-- `core.ConcatCounts` is injective over `uint64³ × (mode = Blob)`. -/
theorem concatCounts_injective (t e s t' e' s' : UInt64) (d d' : Nat)
    (h : concatCounts t e s d = concatCounts t' e' s' d') :
    t = t' ∧ e = e' ∧ s = s' ∧ (d = 1 ↔ d' = 1) :=
  concatCounts_inj t e s t' e' s' d d' h

/-- … and it stays injective after `felt.SetBytes` reduces the 256-bit number modulo the Stark prime
`P = 2^251 + 17·2^192 + 1` (the literal juno actually hashes), for ALL `uint64` counts. -/
theorem concatCounts_injective_modP (t e s t' e' s' : UInt64) (d d' : Nat)
    (h : concatCounts t e s d % starkPrime = concatCounts t' e' s' d' % starkPrime) :
    t = t' ∧ e = e' ∧ s = s' ∧ (d = 1 ↔ d' = 1) :=
  concatCounts_modP_inj t e s t' e' s' d d' h

/-- The protocol version enters the block hash as `felt.SetBytes(string)`, i.e. REDUCED modulo the Stark
prime. For the code as it is (since 2e0402b `ParseBlockVersion` rejects strings of more than 31 bytes,
so nothing wraps): two version strings that `ParseBlockVersion` accepts — every block that is accepted has
one, `verifyBlockSuccession` and `BlockHash` both parse it — and that have the same hashed value are the
same string. Full strength; the counterexample for the code before the fix is
`Regression.version_string_wrap_accepted_before_2e0402b`. -/
theorem version_string_committed (a b : Bytes) (v w : Ver)
    (hv : parseVersion a = some v) (hw : parseVersion b = some w)
    (h : bytesToNat a % starkPrime = bytesToNat b % starkPrime) : a = b := by
  have la := parseVersion_short a v (by decide) hv
  have lb := parseVersion_short b w (by decide) hw
  rw [Nat.mod_eq_of_lt (bytesToNat_lt_prime_of_short _ la), Nat.mod_eq_of_lt (bytesToNat_lt_prime_of_short _ lb)] at h
  cases a with
  | nil =>
    cases b with
    | nil => rfl
    | cons y bs =>
      have hy := parseVersion_head y bs w hw
      have := bytesToNat_lower y bs hy
      have hp : 0 < 256 ^ bs.length := Nat.pow_pos (by decide)
      have h0 : bytesToNat ([] : Bytes) = 0 := rfl
      rw [h0] at h
      omega
  | cons x as =>
    cases b with
    | nil =>
      have hx := parseVersion_head x as v hv
      have := bytesToNat_lower x as hx
      have hp : 0 < 256 ^ as.length := Nat.pow_pos (by decide)
      have h0 : bytesToNat ([] : Bytes) = 0 := rfl
      rw [h0] at h
      omega
    | cons y bs =>
      exact bytesToNat_inj_of_nonzero_head x y as bs (parseVersion_head x as v hv) (parseVersion_head y bs w hw) h

/-- `dataAvailabilityMode(fee, nonce)` is injective over `uint32²`. -/
theorem daMode_injective (f n f' n' : UInt32) (h : daMode f n = daMode f' n') : f = f' ∧ n = n' :=
  daFelt_inj h

/-- The model's `daMode` IS the function /verif/gen regenerates from `core/transaction.go` on every
check run (`JunoModel.Tie.DaMode` proves the packing law over that regenerated definition). -/
theorem daMode_is_regenerated (f n : UInt32) : (Juno.Generated.daMode f n).toNat = daMode f n := by
  simp only [Juno.Generated.daMode, Id.run, pure, Juno.Generated.Go.shl64, daMode]
  have hf := f.toNat_lt; have hn := n.toNat_lt
  simp [UInt64.toNat_add, UInt64.toNat_shiftLeft]
  rw [Nat.shiftLeft_eq]
  omega

/-- `tipAndResourcesHash` commits the tip, both mandatory bounds and the presence and value of the
L1-data-gas bound — prices only in their low 128 bits (`ResView`). -/
theorem tipAndResources_injective (t t' : UInt64) (b b' : Bounds) (x : Term)
    (h : tipAndResources t b = some x) (h' : tipAndResources t' b' = some x) :
    ∃ v, resView t b = some v ∧ resView t' b' = some v :=
  tipAndResources_inj t t' b b' x h h'

/-! ## Transaction hashes -/

/-- Every transaction hash juno recomputes is the encoding of the transaction's committed view
(`txView`: kind, full version felt, and every field listed in `TxView`). -/
theorem txHash_commits_view (chain : Term) (t : Tx) (h : Term) (v : TxView)
    (hh : txHash chain t = some h) (hv : txView t = some v) : h = encodeView chain v :=
  txHash_eq_encode chain t h v hh hv

/-- `txHash_injective` for every (kind, version) at once: two transactions of ANY kinds and versions
whose recomputed hashes are the same term have the same committed view — in particular the same
kind and version. -/
theorem txHash_injective (chain : Term) (a b : Tx) (h : Term) (va vb : TxView)
    (ha : txHash chain a = some h) (hb : txHash chain b = some h)
    (hva : txView a = some va) (hvb : txView b = some vb) : va = vb :=
  encodeView_inj chain va vb (txView_valid a va hva) (txView_valid b vb hvb)
    (by rw [← txHash_eq_encode chain a h va ha hva, ← txHash_eq_encode chain b h vb hb hvb])

/-! ## Commitment leaves -/

/-- 0.13.4+ transaction commitment leaf: declared hash and the signature, element by element. -/
theorem txLeaf0134_injective (a b : Tx) (h : txLeaf0134 a = txLeaf0134 b) : sigView a = sigView b :=
  txLeaf0134_inj a b h

/-- 0.13.2–0.13.3 leaf: the same, except that an empty signature is hashed as `[0]`. -/
theorem txLeaf0132_injective (a b : Tx) (h : txLeaf0132 a = txLeaf0132 b) : sigView0132 a = sigView0132 b :=
  txLeaf0132_inj a b h

/-- Event leaf: emitting transaction hash, `from`, keys and data; the explicit `len keys` / `len data`
elements are what makes the flat list uniquely decodable. -/
theorem eventLeaf_injective (h h' : Term) (e e' : Event) (heq : eventLeaf h e = eventLeaf h' e') :
    h = h' ∧ e = e' :=
  eventLeaf_inj h h' e e' heq

/-- The event commitment commits the block's events in order, each with its transaction hash. -/
theorem eventCommitment_injective (rs rs' : List Receipt) (h : eventLeaves rs = eventLeaves rs') :
    eventsFlat rs = eventsFlat rs' :=
  eventLeaves_inj rs rs' h

/-- `messagesSentHash`: count, then per message from / to / payload size / payload. -/
theorem msgsHash_injective (a b : List Msg) (h : msgsHash a = msgsHash b) : a = b :=
  msgsHash_inj a b h

/-- Receipt hash: transaction hash, fee, every L2→L1 message, the reverted flag and (if reverted)
the revert reason, L1 gas and L1 data gas (`ReceiptView`). -/
theorem receiptHash_injective (r r' : Receipt) (h : receiptHash r = receiptHash r') :
    receiptView r = receiptView r' :=
  receiptHash_inj r r' h

/-! ## State diff -/

/-- `StateDiff.Hash()` commits the `DiffView` — under the sequencer's guarantee juno itself quotes
(no address both deployed and replaced: `wfDiff`). Every section count is needed for this. -/
theorem stateDiffHash_injective (d d' : StateDiff) (hw : wfDiff d) (hw' : wfDiff d')
    (h : stateDiffHash d = stateDiffHash d') : diffView d = diffView d' :=
  stateDiffFlat_inj d d' hw hw' (by simpa [stateDiffHash] using h)

/-- `wfDiff` holds whenever the replaced addresses are distinct and none of them is deployed. -/
theorem wfDiff_of_disjoint_maps (d : StateDiff) (hn : (keys d.replaced).Nodup)
    (hd : ∀ k ∈ keys d.replaced, k ∉ keys d.deployed) : wfDiff d :=
  wfDiff_of_disjoint d hn hd

/-! ## Block hash: every committed field, per format -/

/-- 0.13.4 / 0.14.x format. Equal block-hash terms ⇒ the other block uses the same format and has
the same `BlockView0134`: number, state root, sequencer, timestamp, transaction / event counts, state
diff length, blob bit, all six gas prices, version string bytes, parent hash; every transaction's hash
and signature; every event with its transaction hash and position; every receipt's `ReceiptView`;
the state diff's flat preimage (`stateDiffHash_injective` turns it into the `DiffView`). -/
theorem committed_fields_injective_v0134 (net : Net) (b b' : Block) (sd sd' : StateDiff)
    (ov ov' : Option Term) (x : Term)
    (hf : dispatch net b.header.number b.header.version = some .v0134)
    (h : blockHash net b sd ov = some x) (h' : blockHash net b' sd' ov' = some x) :
    dispatch net b'.header.number b'.header.version = some .v0134 ∧ blockView0134 b sd = blockView0134 b' sd' :=
  blockHash_v0134_inj net b b' sd sd' ov ov' x hf h h'

/-- 0.13.2–0.13.3 format: `BlockView0132` (no L2 gas price; nil sequencer / STRK price / data gas
prices read as zero; empty signatures read as `[0]`). -/
theorem committed_fields_injective_v0132 (net : Net) (b b' : Block) (sd sd' : StateDiff)
    (ov ov' : Option Term) (x : Term)
    (hf : dispatch net b.header.number b.header.version = some .v0132)
    (h : blockHash net b sd ov = some x) (h' : blockHash net b' sd' ov' = some x) :
    dispatch net b'.header.number b'.header.version = some .v0132 ∧ blockView0132 b sd = blockView0132 b' sd' :=
  blockHash_v0132_inj net b b' sd sd' ov ov' x hf h h'

/-- post-0.7 Pedersen format (every protocol version below 0.13.2 from `First07Block` on; the
real-network fixture blocks): number, state root, sequencer (after the fallback override), timestamp,
transaction and event counts, parent hash; every transaction's hash and signature (before 0.11.1:
only invoke signatures); every event's from / keys / data in order. NOT committed in this format:
the protocol version string, gas prices, receipts (fees, messages, revert status), the state diff. -/
theorem committed_fields_injective_post07 (b b' : Block) (ov ov' : Option Term) (x : Term)
    (h : post07 b ov = some x) (h' : post07 b' ov' = some x) :
    ∃ seq seq', (match ov with | some s => some s | none => b.header.sequencer) = some seq ∧
      (match ov' with | some s => some s | none => b'.header.sequencer) = some seq' ∧
      (⟨b.header.number, b.header.stateRoot, seq, b.header.timestamp, b.header.txCount, b.header.eventCount, b.header.parentHash⟩ : HeaderViewPost07)
        = ⟨b'.header.number, b'.header.stateRoot, seq', b'.header.timestamp, b'.header.txCount, b'.header.eventCount, b'.header.parentHash⟩ ∧
      b.txs.map (sigViewPedersen (allSigsOf b)) = b'.txs.map (sigViewPedersen (allSigsOf b')) ∧
      eventsOnly b.receipts = eventsOnly b'.receipts :=
  post07_inj b b' ov ov' x h h'

/-- pre-0.7 Pedersen format (blocks below the network's `First07Block`, protocol < 0.13.2; mainnet's first
833 blocks): number, state root, transaction count, the chain id and the parent hash; every transaction's
hash and signature (as in the post-0.7 format). NOT committed: sequencer address, timestamp, event count and
every event (the format hashes zeros in their places), the version string, gas prices, receipts, the
state diff. A hash of this format is never a hash of another format. -/
theorem committed_fields_injective_pre07 (net : Net) (b b' : Block) (sd sd' : StateDiff) (ov ov' : Option Term) (x : Term)
    (hf : dispatch net b.header.number b.header.version = some .pre07)
    (h : blockHash net b sd ov = some x) (h' : blockHash net b' sd' ov' = some x) :
    dispatch net b'.header.number b'.header.version = some .pre07 ∧
    (⟨b.header.number, b.header.stateRoot, b.header.txCount, net.chainId, b.header.parentHash⟩ : HeaderViewPre07)
      = ⟨b'.header.number, b'.header.stateRoot, b'.header.txCount, net.chainId, b'.header.parentHash⟩ ∧
    b.txs.map (sigViewPedersen (allSigsOf b)) = b'.txs.map (sigViewPedersen (allSigsOf b')) :=
  blockHash_pre07_inj net b b' sd sd' ov ov' x hf h h'

/-- … the named exceptions of that format: sequencer address, timestamp, event count, receipts (events
included) are not read by `pre07Hash` … -/
theorem exception_pre07_uncommitted (b : Block) (c : Term) (seq : Option Term) (ts ec : UInt64) (rs : List Receipt) :
    pre07 { b with header := { b.header with sequencer := seq, timestamp := ts, eventCount := ec }, receipts := rs } c = pre07 b c := by
  simp [pre07, pedTxComm]

/-! ## Acceptance -/

/-- `accept_sound`: a block is stored only if the state update carries the block's hash and root,
class hashes verify, receipts match transactions, every transaction hash recomputes and the block
hash recomputes (outside a network's unverifiable range), the version is supported, number and
parent hash continue the head, the state's root is the declared old root, the diff applies and
yields exactly the declared new root; and then the head, state and stored list are extended by
exactly this block. -/
theorem accept_sound {σ : Type} (sem : StateSem σ) (net : Net) (c c' : Chain σ) (B : Bundle)
    (h : accept sem net c B = .ok c') : Verified net B ∧ Stored sem c c' B :=
  accept_ok sem net c c' B h

/-- `tamper_rejected`, 0.13.4+: if a node accepts `B`, then any `B'` that declares the same block hash
but uses another hash format or differs in any field of `BlockView0134` is rejected by every node
(whatever its chain `d`). -/
theorem tamper_rejected_v0134 {σ : Type} (sem : StateSem σ) (net : Net) (c c' d : Chain σ) (B B' : Bundle)
    (hacc : accept sem net c B = .ok c')
    (hu : inUnverifiable net B.block.header.number = false)
    (hu' : inUnverifiable net B'.block.header.number = false)
    (hf : dispatch net B.block.header.number B.block.header.version = some .v0134)
    (hsame : B'.block.header.hash = B.block.header.hash)
    (hdiff : dispatch net B'.block.header.number B'.block.header.version ≠ some .v0134 ∨
             blockView0134 B'.block B'.su.diff ≠ blockView0134 B.block B.su.diff) :
    ∃ e, accept sem net d B' = .error e := by
  cases hacc' : accept sem net d B' with
  | error e => exact ⟨e, rfl⟩
  | ok d' =>
    obtain ⟨ov, _, hh⟩ := (accept_ok sem net c c' B hacc).1.hash hu
    obtain ⟨ov', _, hh'⟩ := (accept_ok sem net d d' B' hacc').1.hash hu'
    rw [hsame] at hh'
    have := blockHash_v0134_inj net B.block B'.block B.su.diff B'.su.diff ov ov' _ hf hh hh'
    rcases hdiff with hd | hd
    · exact absurd this.1 hd
    · exact absurd this.2.symm hd

/-- `tamper_rejected`, 0.13.2–0.13.3. -/
theorem tamper_rejected_v0132 {σ : Type} (sem : StateSem σ) (net : Net) (c c' d : Chain σ) (B B' : Bundle)
    (hacc : accept sem net c B = .ok c')
    (hu : inUnverifiable net B.block.header.number = false)
    (hu' : inUnverifiable net B'.block.header.number = false)
    (hf : dispatch net B.block.header.number B.block.header.version = some .v0132)
    (hsame : B'.block.header.hash = B.block.header.hash)
    (hdiff : dispatch net B'.block.header.number B'.block.header.version ≠ some .v0132 ∨
             blockView0132 B'.block B'.su.diff ≠ blockView0132 B.block B.su.diff) :
    ∃ e, accept sem net d B' = .error e := by
  cases hacc' : accept sem net d B' with
  | error e => exact ⟨e, rfl⟩
  | ok d' =>
    obtain ⟨ov, _, hh⟩ := (accept_ok sem net c c' B hacc).1.hash hu
    obtain ⟨ov', _, hh'⟩ := (accept_ok sem net d d' B' hacc').1.hash hu'
    rw [hsame] at hh'
    have := blockHash_v0132_inj net B.block B'.block B.su.diff B'.su.diff ov ov' _ hf hh hh'
    rcases hdiff with hd | hd
    · exact absurd this.1 hd
    · exact absurd this.2.symm hd

/-- `tamper_rejected`, pre-0.7 format. -/
theorem tamper_rejected_pre07 {σ : Type} (sem : StateSem σ) (net : Net) (c c' d : Chain σ) (B B' : Bundle)
    (hacc : accept sem net c B = .ok c')
    (hu : inUnverifiable net B.block.header.number = false)
    (hu' : inUnverifiable net B'.block.header.number = false)
    (hf : dispatch net B.block.header.number B.block.header.version = some .pre07)
    (hsame : B'.block.header.hash = B.block.header.hash)
    (hdiff : dispatch net B'.block.header.number B'.block.header.version ≠ some .pre07 ∨
      (⟨B'.block.header.number, B'.block.header.stateRoot, B'.block.header.txCount, net.chainId, B'.block.header.parentHash⟩ : HeaderViewPre07)
        ≠ ⟨B.block.header.number, B.block.header.stateRoot, B.block.header.txCount, net.chainId, B.block.header.parentHash⟩ ∨
      B'.block.txs.map (sigViewPedersen (allSigsOf B'.block)) ≠ B.block.txs.map (sigViewPedersen (allSigsOf B.block))) :
    ∃ e, accept sem net d B' = .error e := by
  cases hacc' : accept sem net d B' with
  | error e => exact ⟨e, rfl⟩
  | ok d' =>
    obtain ⟨ov, _, hh⟩ := (accept_ok sem net c c' B hacc).1.hash hu
    obtain ⟨ov', _, hh'⟩ := (accept_ok sem net d d' B' hacc').1.hash hu'
    rw [hsame] at hh'
    have := blockHash_pre07_inj net B.block B'.block B.su.diff B'.su.diff ov ov' _ hf hh hh'
    rcases hdiff with hd | hd | hd
    · exact absurd this.1 hd
    · exact absurd this.2.1.symm hd
    · exact absurd this.2.2.symm hd

/-- NAMED EXCEPTION, the unverifiable range (`BlockHashMetaInfo.UnverifiableRange`; Goerli / integration
history): inside it `VerifyBlockHash` checks only that transactions and receipts pair up — whatever the
header, the transactions and the DECLARED hash are, it succeeds as soon as the hash function itself does
not fail. Linkage, the state-update cross checks and the state roots are still enforced
(`unlinked_or_wrong_root_rejected`, `accept_sound` do not depend on the range). -/
theorem exception_unverifiable_range (net : Net) (b : Block) (sd : StateDiff)
    (hu : inUnverifiable net b.header.number = true)
    (hl : b.txs.length = b.receipts.length)
    (hr : (List.zip b.txs b.receipts).all (fun tr => tr.1.hash == some tr.2.txHash) = true)
    (hc : (l1CalldataChecked && b.txs.any l1NoCalldata) = false)
    (hh : (blockHash net b sd (if b.header.sequencer.isNone then some (.felt 0) else none)).isSome = true) :
    verifyBlockHash net b sd = .ok () :=
  verifyBlockHash_unverifiable net b sd hu hl hr hc hh

/-- Linkage and state root are checked independently of every hash: a block whose number or parent
hash does not continue the head, or whose declared roots do not match the state before / after
applying its diff, is rejected even if all its hashes are consistent (re-hashed tampering). -/
theorem unlinked_or_wrong_root_rejected {σ : Type} (sem : StateSem σ) (net : Net) (c : Chain σ) (B : Bundle)
    (hbad : B.block.header.number ≠ expectedNumber c.head ∨ B.block.header.parentHash ≠ expectedParent c.head ∨
            sem.root c.st B.block.header.version ≠ B.su.oldRoot ∨
            (∀ st', sem.apply c.st B.block.header.number B.su.diff B.classes = some st' →
                    sem.root st' B.block.header.version ≠ B.block.header.stateRoot)) :
    ∃ e, accept sem net c B = .error e := by
  cases hacc : accept sem net c B with
  | error e => exact ⟨e, rfl⟩
  | ok c' =>
    obtain ⟨hv, hs⟩ := accept_ok sem net c c' B hacc
    rcases hbad with h | h | h | h
    · exact absurd hs.number h
    · exact absurd hs.parent h
    · exact absurd hs.oldRoot h
    · exact absurd (by rw [hs.newRoot, hv.suRoot]) (h c'.st hs.applied)

/-- Transactions of accepted blocks (protocol ≥ 0.11.0): the declared hash of every transaction
whose hash juno recomputes is the encoding of its committed view. Hence two accepted blocks cannot
contain transactions with the same hash and different committed fields.

PARTIAL: the full-strength statement would have no hypothesis `txView t = some _`, i.e. cover every
transaction of an accepted block. It does not hold: juno never recomputes the hash of legacy Deploy
transactions, Declare version 0 transactions and L1-handler transactions without nonce, in blocks of
ANY protocol version — see `declare_v0_tamper_accepted` below for the witness on the model (the
harness replays it on the real node: known finding
`declare-version-set-to-0-skips-tx-hash-verification`). -/
theorem tx_tamper_rejected_partial (net : Net) (B B' : Bundle) (hv : Verified net B) (hv' : Verified net B')
    (hu : inUnverifiable net B.block.header.number = false)
    (hu' : inUnverifiable net B'.block.header.number = false)
    (v v' : Ver) (hp : parseVersion B.block.header.version = some v) (hp' : parseVersion B'.block.header.version = some v')
    (hge : v.lt v0_11_0 = false) (hge' : v'.lt v0_11_0 = false)
    (t t' : Tx) (ht : t ∈ B.block.txs) (ht' : t' ∈ B'.block.txs) (w w' : TxView)
    (hw : txView t = some w) (hw' : txView t' = some w') (hsame : t.hash = t'.hash) : w = w' := by
  have h1 := verified_tx_hash net B hv hu v hp hge t ht w hw
  have h2 := verified_tx_hash net B' hv' hu' v' hp' hge' t' ht' w' hw'
  rw [hsame, h2] at h1
  exact (encodeView_inj net.chainId w w' (txView_valid t w hw) (txView_valid t' w' hw') (by simpa using h1.symm))

/-- `tamper_rejected` for transactions, quantified over the POSITION: take an accepted block `B`
and any block `B'` whose transaction at position `i` — any `i`, first, last, in the tail after the
last full chunk of a worker pool — keeps the declared hash of `B`'s transaction at `i` but differs
from it in a committed field; then `B'` is rejected by every node.
(PARTIAL in the same sense as `tx_tamper_rejected_partial`: only for kinds whose hash juno recomputes.) -/
theorem tx_tamper_at_any_position_rejected_partial {σ : Type} (sem : StateSem σ) (net : Net) (c c' d : Chain σ)
    (B B' : Bundle) (i : Nat) (t t' : Tx) (w w' : TxView)
    (hacc : accept sem net c B = .ok c')
    (hu : inUnverifiable net B.block.header.number = false)
    (hu' : inUnverifiable net B'.block.header.number = false)
    (v v' : Ver) (hp : parseVersion B.block.header.version = some v) (hp' : parseVersion B'.block.header.version = some v')
    (hge : v.lt v0_11_0 = false) (hge' : v'.lt v0_11_0 = false)
    (hi : B.block.txs[i]? = some t) (hi' : B'.block.txs[i]? = some t')
    (hw : txView t = some w) (hw' : txView t' = some w') (hsame : t'.hash = t.hash) (hdiff : w' ≠ w) :
    ∃ e, accept sem net d B' = .error e := by
  cases hacc' : accept sem net d B' with
  | error e => exact ⟨e, rfl⟩
  | ok d' =>
    have hv := (accept_ok sem net c c' B hacc).1
    have hv' := (accept_ok sem net d d' B' hacc').1
    exact absurd (tx_tamper_rejected_partial net B B' hv hv' hu hu' v v' hp hp' hge hge' t t'
      (List.mem_of_getElem? hi) (List.mem_of_getElem? hi') w w' hw hw' hsame.symm).symm hdiff

/-- SECOND LIMIT of the two `_partial` theorems above (hypotheses `hge`, `hge'`): below protocol 0.11.0
`VerifyTransactions` verifies nothing, and the Pedersen block hash (every protocol below 0.13.2) does
not commit the version string. DEFECT WITNESS: a block of a 0.12.3 chain whose invoke transaction is
tampered (calldata extended, every hash kept) is rejected — but the same tampering with the version
string changed to `0.10.0` is ACCEPTED. Harness: known finding
`version-downgrade-skips-tx-hash-verification`. -/
theorem tx_tamper_accepted_below_0_11 :
    (offer exOldSem exOldNet exOldChain exOldBundle).2 = none ∧
    (offer exOldSem exOldNet exOldChain (exOldTampered (asciiBytes "0.12.3"))).2 = some .txHash ∧
    (offer exOldSem exOldNet exOldChain (exOldTampered (asciiBytes "0.10.0"))).2 = none ∧
    (offer exOldSem exOldNet exOldChain (exOldTampered [])).2 = none := by
  decide

/-- The `Store` callback as its concrete list of ten steps over one write batch
(`verifyBlockSuccession`, `state.Update`, header, transactions+receipts, state update, commitments,
L1-handler message hashes, CASM metadata, chain height, event filter): it succeeds exactly when both
verdicts are positive and NO step fails on I/O, whatever the failing position `k` is … -/
theorem store_succeeds_iff_every_step_does (db : DB) (i : StoreInput) (io : Nat → Bool) :
    (dbStore db i io).2 = true ↔ (i.successionOK = true ∧ i.stateOK = true ∧ ∀ k, k < 10 → io k = false) :=
  dbStore_ok_iff db i io

/-- … a failed `Store` — rejected succession, state-root mismatch, or an I/O failure at ANY of the ten
positions, after any number of writes already put into the batch — leaves every key of the database
as it was (`reject_no_effect` on the level of the key/value store; the harness injects the failure
at every batch operation of the real `Store` and compares the database byte for byte) … -/
theorem store_failure_leaves_database_untouched (db : DB) (i : StoreInput) (io : Nat → Bool)
    (h : (dbStore db i io).2 = false) : (dbStore db i io).1 = db :=
  dbStore_fail_no_effect db i io h

/-- … and a successful one makes the block the head: chain height = its number, its header indexed. -/
theorem store_success_sets_head (db : DB) (i : StoreInput) (io : Nat → Bool) (h : (dbStore db i io).2 = true) :
    (dbStore db i io).1 (.chainHeight, 0) = some i.number ∧
    (dbStore db i io).1 (.headerByNumber, i.number) = some i.header :=
  dbStore_ok_head db i io h

/-- On the level of the chain: a rejected offer leaves head, state and stored blocks as they were
(definitional for `offer`; the content is in the three theorems above and in the harness oracle). -/
theorem reject_no_effect {σ : Type} (sem : StateSem σ) (net : Net) (c : Chain σ) (B : Bundle) (e : Reject)
    (h : (offer sem net c B).2 = some e) : (offer sem net c B).1 = c :=
  offer_reject sem net c B e h

/-- A verified block with a sequencer address was hashed with ITS OWN address (no override), so the
Pedersen format commits the header's sequencer; the fallback addresses are tried only for a nil one. -/
theorem verified_uses_own_sequencer (net : Net) (B : Bundle) (hv : Verified net B) (s : Term)
    (hs : B.block.header.sequencer = some s) (hu : inUnverifiable net B.block.header.number = false) :
    blockHash net B.block B.su.diff none = some B.block.header.hash := by
  obtain ⟨ov, hm, hh⟩ := hv.hash hu
  simp [overridesOf, hs] at hm
  rw [hm] at hh
  exact hh

/-- For ALL histories: whatever sequence of blocks (valid, tampered, misplaced) a node that started
empty is offered, its stored chain is linked block by block from genesis (numbers consecutive from
0, each parent hash the previous block's hash), every stored block passed all verifications, each
declared old / new root is the state root before / after applying its diff, and the state is the
fold of the stored diffs. -/
theorem chain_invariant {σ : Type} (sem : StateSem σ) (net : Net) (st0 : σ) (Bs : List Bundle) :
    let c := run sem net ⟨none, st0, []⟩ Bs
    ChainOK sem net st0 c.head c.st c.stored :=
  run_preserves sem net st0 Bs ⟨none, st0, []⟩ ChainOK.empty

/-- For ALL histories of offers AND reverts (`RevertHead` pops the head; that it restores the previous
state is C04's property and assumed): the current chain and every chain a later revert can return to
are linked from genesis, verified block by block, with the state the fold of the stored diffs. -/
theorem chain_invariant_with_reverts {σ : Type} (sem : StateSem σ) (net : Net) (st0 : σ) (ops : List Op) :
    NodeOK sem net st0 (runOps sem net ⟨⟨none, st0, []⟩, []⟩ ops) :=
  runOps_preserves sem net st0 ops ⟨⟨none, st0, []⟩, []⟩ ⟨ChainOK.empty, by intro p hp; simp at hp⟩

/-- For ALL pairs of histories: whatever two nodes were offered, if each stores a block (of the
0.13.4+ format, outside an unverifiable range) and the two blocks declare the same hash, then they
have the same format and the same committed content — every position of every list included. -/
theorem stored_same_hash_same_content_v0134 {σ : Type} (sem : StateSem σ) (net : Net) (st0 st0' : σ)
    (Bs Bs' : List Bundle) (B B' : Bundle)
    (hB : B ∈ (run sem net ⟨none, st0, []⟩ Bs).stored) (hB' : B' ∈ (run sem net ⟨none, st0', []⟩ Bs').stored)
    (hu : inUnverifiable net B.block.header.number = false) (hu' : inUnverifiable net B'.block.header.number = false)
    (hf : dispatch net B.block.header.number B.block.header.version = some .v0134)
    (hsame : B'.block.header.hash = B.block.header.hash) :
    dispatch net B'.block.header.number B'.block.header.version = some .v0134 ∧
    blockView0134 B.block B.su.diff = blockView0134 B'.block B'.su.diff := by
  have hv := chainOK_mem_verified sem net st0 _ _ _ (run_preserves sem net st0 Bs ⟨none, st0, []⟩ ChainOK.empty) B hB
  have hv' := chainOK_mem_verified sem net st0' _ _ _ (run_preserves sem net st0' Bs' ⟨none, st0', []⟩ ChainOK.empty) B' hB'
  obtain ⟨ov, _, hh⟩ := hv.hash hu
  obtain ⟨ov', _, hh'⟩ := hv'.hash hu'
  rw [hsame] at hh'
  exact blockHash_v0134_inj net B.block B'.block B.su.diff B'.su.diff ov ov' _ hf hh hh'

/-- the same for the 0.13.2–0.13.3 format -/
theorem stored_same_hash_same_content_v0132 {σ : Type} (sem : StateSem σ) (net : Net) (st0 st0' : σ)
    (Bs Bs' : List Bundle) (B B' : Bundle)
    (hB : B ∈ (run sem net ⟨none, st0, []⟩ Bs).stored) (hB' : B' ∈ (run sem net ⟨none, st0', []⟩ Bs').stored)
    (hu : inUnverifiable net B.block.header.number = false) (hu' : inUnverifiable net B'.block.header.number = false)
    (hf : dispatch net B.block.header.number B.block.header.version = some .v0132)
    (hsame : B'.block.header.hash = B.block.header.hash) :
    dispatch net B'.block.header.number B'.block.header.version = some .v0132 ∧
    blockView0132 B.block B.su.diff = blockView0132 B'.block B'.su.diff := by
  have hv := chainOK_mem_verified sem net st0 _ _ _ (run_preserves sem net st0 Bs ⟨none, st0, []⟩ ChainOK.empty) B hB
  have hv' := chainOK_mem_verified sem net st0' _ _ _ (run_preserves sem net st0' Bs' ⟨none, st0', []⟩ ChainOK.empty) B' hB'
  obtain ⟨ov, _, hh⟩ := hv.hash hu
  obtain ⟨ov', _, hh'⟩ := hv'.hash hu'
  rw [hsame] at hh'
  exact blockHash_v0132_inj net B.block B'.block B.su.diff B'.su.diff ov ov' _ hf hh hh'

/-! ## Named exceptions: what is NOT committed (each a proved statement, none hidden in a view) -/

/-- 0.13.2–0.13.3: the empty signature and the signature `[0]` give the same commitment leaf. -/
theorem exception_empty_signature_is_zero_v0132 (i : InvokeTx) (hs : i.signature = []) :
    txLeaf0132 (.invoke i) = txLeaf0132 (.invoke { i with signature := [.felt 0] }) := by
  simp [txLeaf0132, Tx.signature, Tx.hash, hs]

/-- The receipt hash ignores the fee unit, the L2 gas, every execution resource other than L1 gas
and L1 data gas, and the L1→L2 message. -/
theorem exception_receipt_uncommitted (r : Receipt) (feeUnit : Nat) (steps l2 : UInt64) (l1msg : Option Term) (g : Gas)
    (hg : r.totalGas = some g) :
    receiptHash { r with feeUnit := feeUnit, steps := steps, l1ToL2 := l1msg, totalGas := some { g with l2Gas := l2 } }
      = receiptHash r := by
  simp [receiptHash, hg]

/-- The revert reason is hashed only when the receipt is marked reverted. -/
theorem exception_revert_reason_unreverted (r : Receipt) (reason : Bytes) (hr : r.reverted = false) :
    receiptHash { r with revertReason := reason } = receiptHash r := by
  simp [receiptHash, hr]

/-- `L1DAMode` enters the hash only as `mode == Blob`: all other values are "calldata". -/
theorem exception_l1DAMode_only_blob_bit (t e s : UInt64) (d : Nat) (hd : d ≠ 1) :
    concatCounts t e s d = concatCounts t e s 0 := by
  unfold concatCounts
  rw [if_neg hd, if_neg (by decide : ¬ (0 : Nat) = 1)]

/-- Only the low 128 bits of a resource bound's price are hashed. -/
theorem exception_price_high_bits (name : String) (a : UInt64) (p q : Nat) (h : q = p + 2 ^ 128) :
    rbFelt name (some ⟨a, some q⟩) = rbFelt name (some ⟨a, some p⟩) := by
  have : q % 2 ^ 128 = p % 2 ^ 128 := by omega
  simp only [rbFelt, this]

/-- The 0.13.2 block hash does not contain the L2 gas price. -/
theorem exception_l2GasPrice_v0132 (b : Block) (sd : StateDiff) (g : Option GasPrice) :
    post0132 { b with header := { b.header with l2GasPrice := g } } sd = post0132 b sd := by
  simp [post0132, commonPrefix]

/-- `DeclaredV0Classes` is hashed sorted: its order is not committed. -/
theorem exception_v0_order (d : StateDiff) (a b : Nat) (rest : List Nat) (h : d.declaredV0 = a :: b :: rest) :
    sortNat (b :: a :: rest) = sortNat d.declaredV0 →
    stateDiffHash { d with declaredV0 := b :: a :: rest } = stateDiffHash d := by
  intro hs
  simp [stateDiffHash, stateDiffFlat, updatedContracts, declaredPairs, hs, h, len]

/-- Declared and migrated classes are ONE list in the state-diff hash: moving an entry from one map
to the other keeps the hash (the protocol's own commitment does the same). -/
theorem exception_declared_vs_migrated :
    stateDiffHash { (default : StateDiff) with declaredV1 := [(7, .felt 9)] }
      = stateDiffHash { (default : StateDiff) with migrated := [(7, .felt 9)] } := by
  decide

/-- Without `wfDiff` (an address both deployed and replaced — excluded by the sequencer) the class
hash of the deployment is not committed. -/
theorem exception_deployed_and_replaced :
    stateDiffHash { (default : StateDiff) with deployed := [(7, .felt 1)], replaced := [(7, .felt 3)] }
      = stateDiffHash { (default : StateDiff) with deployed := [(7, .felt 2)], replaced := [(7, .felt 3)] } := by
  decide

/-- Deployed contracts and replaced classes are ONE list in the state-diff hash as well: listing a
deployment as a class replacement keeps the hash (only `State.Update` tells them apart: deploying an
existing / replacing a non-existing contract fails). -/
theorem exception_deployed_vs_replaced_move :
    stateDiffHash { (default : StateDiff) with deployed := [(7, .felt 9)] }
      = stateDiffHash { (default : StateDiff) with replaced := [(7, .felt 9)] } := by
  decide

/-- The Pedersen formats (protocol < 0.13.2) commit neither the gas prices, the DA mode nor the L2 gas
price … -/
theorem exception_post07_prices (b : Block) (ov : Option Term) (eth : Term) (strk : Option Term) (da : Nat)
    (dg l2 : Option GasPrice) :
    post07 { b with header := { b.header with l1GasPriceETH := eth, l1GasPriceSTRK := strk, l1DAMode := da,
                                               l1DataGasPrice := dg, l2GasPrice := l2 } } ov = post07 b ov := by
  simp [post07, pedTxComm]

/-- … nor anything of a receipt except its events (fee, messages, revert status, gas), nor which
receipt an event belongs to … -/
theorem exception_post07_receipts (b : Block) (ov : Option Term) (rs : List Receipt)
    (h : eventsOnly rs = eventsOnly b.receipts) : post07 { b with receipts := rs } ov = post07 b ov := by
  simp [post07, pedTxComm, eventLeavesPedersen_eq, h]

/-- … nor the version string itself, as long as it stays on the same side of 0.11.1 (signature rule). -/
theorem exception_post07_version (b : Block) (ov : Option Term) (v' : Bytes) (w w' : Ver)
    (hp : parseVersion b.header.version = some w) (hp' : parseVersion v' = some w')
    (h : w'.ge v0_11_1 = w.ge v0_11_1) :
    post07 { b with header := { b.header with version := v' } } ov = post07 b ov := by
  simp [post07, pedTxComm, hp, hp', h]

/-- Transactions whose hash juno takes as declared, whatever their fields: legacy Deploy … -/
theorem exception_deploy_unverified (chain : Term) (d : DeployTx) (h : Term) (hh : d.hash = some h) :
    txHash chain (.deploy d) = some h := by
  simp [txHash, hh]

/-- … Declare version 0 … -/
theorem exception_declare_v0_unverified (chain : Term) (d : DeclareTx) (h : Term) (hv : verIs d.version 0 = true)
    (hh : d.hash = some h) : txHash chain (.declare d) = some h := by
  simp [txHash, declareHash, hv, hh]

/-- … and L1-handler transactions without nonce. -/
theorem exception_l1handler_without_nonce_unverified (chain : Term) (l : L1HandlerTx) (hv : verIs l.version 0 = true)
    (hn : l.nonce = none) : txHash chain (.l1Handler l) = some l.hash := by
  simp [txHash, l1HandlerHash, hv, hn]

/-- DEFECT WITNESS (negation of the full-strength `tx_tamper_rejected`), for the code as it is
(`strictTxKinds = false`): take any Declare transaction that verifies; set its version to 0 and
change its class hash: `VerifyTransactions` still passes — in a block of protocol 0.14.0 — and the
commitment leaf is unchanged, so the block hash is too. -/
theorem declare_v0_tamper_accepted : strictTxKinds = false →
    ∃ (chain : Term) (d d' : DeclareTx),
      verifyTransactions chain [.declare d] (asciiBytes "0.14.0") = true ∧
      verifyTransactions chain [.declare d'] (asciiBytes "0.14.0") = true ∧
      d'.hash = d.hash ∧ d'.classHash ≠ d.classHash ∧ d'.version ≠ d.version ∧
      txLeaf0134 (.declare d') = txLeaf0134 (.declare d) := by
  first
  | (intro h; exact absurd h (by decide))
  | (intro _
     let d0 : DeclareTx := { (default : DeclareTx) with version := 2, classHash := .felt 5, compiledClassHash := .felt 6 }
     let h := (declareHash (.felt 1) d0).getD (.felt 0)
     exact ⟨.felt 1, { d0 with hash := some h }, { d0 with hash := some h, version := 0, classHash := .felt 77 },
       by decide, by decide, rfl, by decide, by decide, by decide⟩)

/-- The same for an L1-handler transaction whose nonce is dropped. -/
theorem l1handler_nonce_drop_accepted : strictTxKinds = false →
    ∃ (chain : Term) (l l' : L1HandlerTx),
      verifyTransactions chain [.l1Handler l] (asciiBytes "0.14.0") = true ∧
      verifyTransactions chain [.l1Handler l'] (asciiBytes "0.14.0") = true ∧
      l'.hash = l.hash ∧ l'.callData ≠ l.callData ∧
      txLeaf0134 (.l1Handler l') = txLeaf0134 (.l1Handler l) := by
  first
  | (intro h; exact absurd h (by decide))
  | (intro _
     let l0 : L1HandlerTx := { (default : L1HandlerTx) with nonce := some (.felt 3), callData := [.felt 1] }
     let h := (l1HandlerHash (.felt 1) l0).getD (.felt 0)
     exact ⟨.felt 1, { l0 with hash := h }, { l0 with hash := h, nonce := none, callData := [.felt 1, .felt 2] },
       by decide, by decide, rfl, by decide, by decide⟩)

/-! ## The store-level node (round 4): `Store` over the key/value store

`ModelStore.lean` transcribes what the code does with the buckets the property calls "the stored chain
and indexes": the head is DERIVED from `ChainHeight` + `BlockHeadersByNumber` on every call
(`verifyBlockSuccession`, `headNumberAndHash`, `headStateRoot`), and `writeBlockContent` is a concrete
list of puts into one batch, with `storeCasmHashMetadata` as the only step that can still refuse the
block. `NodeS` = (index store, abstract chain); the theorems below say that the index store and the
abstract chain of `accept_sound` / `chain_invariant` never drift apart. -/

/-- REFINEMENT, one step: on a node whose index store agrees with its abstract chain (`DBInv`: the head
the code reads from the two buckets IS the abstract head), every block the concrete `Store` of either
backend stores is stored by the abstract `storeTxn` — so `accept_sound` and everything built on it
speak about the concrete `Store` — and the agreement is preserved. -/
theorem store_level_refines_chain {σ : Type} (newBackend : Bool) (sem : StateSem σ) (n n' : NodeS σ) (B : Bundle)
    (commitments : Nat) (v2of : Nat → Nat) (hi : DBInv n.db n.chain)
    (h : storeDB newBackend sem n B commitments v2of = .ok n') :
    storeTxn sem n.chain B = .ok n'.chain ∧ DBInv n'.db n'.chain :=
  storeDB_refines newBackend sem n n' B commitments v2of hi h

/-- … and EXACTLY which blocks the concrete `Store` refuses although the abstract one accepts them: those
on which `MessageHash` panics (an L1 handler without calldata) and those the casm-metadata step rejects.
No I/O class can occur: on such a node `headStateRoot` always finds the header it reads.
(Round 5: "the casm-metadata step rejects" now includes `CasmErr.compiledHash` — the V2 hash of a declared class's
compiled class cannot be computed, `ClassDef.compiledBad`: a panic as the code is, an error with the repair;
`casm_step_stops_at_malformed_compiled_class`, `compiled_class_hash_panics_iff_flat`.) -/
theorem store_level_success_iff {σ : Type} (newBackend : Bool) (sem : StateSem σ) (n : NodeS σ) (B : Bundle)
    (commitments : Nat) (v2of : Nat → Nat) (hi : DBInv n.db n.chain) :
    (∃ n', storeDB newBackend sem n B commitments v2of = .ok n') ↔
      ((∃ c', storeTxn sem n.chain B = .ok c') ∧ (l1Writes B.block.txs).isSome = true ∧
       ∃ cw, casmStep n.db B.block.header B.su.diff B.classes v2of = .ok cw) :=
  storeDB_ok_iff newBackend sem n B commitments v2of hi

/-- ALL HISTORIES: whatever (block, commitments) pairs a node that started empty is offered, on either
backend, its index store agrees with its abstract chain, the abstract chain is linked and verified
(`ChainOK`, as in `chain_invariant`), and `verifyBlockSuccession` evaluated on the STORE decides for any
further header exactly what the abstract succession check decides. -/
theorem store_level_invariant_all_histories {σ : Type} (newBackend : Bool) (sem : StateSem σ) (net : Net) (st0 : σ)
    (v2of : Nat → Nat) (Bs : List (Bundle × Nat)) :
    let n := runDB newBackend sem net v2of (emptyNode st0) Bs
    DBInv n.db n.chain ∧ ChainOK sem net st0 n.chain.head n.chain.st n.chain.stored ∧
    (headNumberAndHash n.db = (match n.chain.head with | some hd => .ok hd | none => .error .notFound)) ∧
    ∀ h : Header, (verifySuccessionDB n.db h = .ok () ↔ verifySuccession n.chain.head h = .ok ()) := by
  have hinv := runDB_preserves newBackend sem net st0 v2of Bs (emptyNode st0) ⟨DBInv.emptyNode st0, ChainOK.empty⟩
  exact ⟨hinv.1, hinv.2, headNumberAndHash_of_inv _ _ hinv.1, fun h => verifySuccessionDB_ok_iff _ _ hinv.1 h⟩

/-- the root the new state backend opens the state at (`headStateRoot`: the stored header of `Number - 1`) is,
on every node whose store agrees with its chain, the state root the HEAD block declared — which by
`chain_invariant` is the root of the node's current state — never a value the offered block supplies
(the statement of fix d8ed24a on the level of the store). -/
theorem new_backend_opens_state_at_the_head_root {σ : Type} (db : IDB) (c : Chain σ) (hi : DBInv db c) (h : Header)
    (hs : verifySuccession c.head h = .ok ()) (B : Bundle) (rest : List Bundle) (hst : c.stored = B :: rest)
    (hd : Head) (hhd : c.head = some hd) (h0 : h.number ≠ 0) :
    headStateRootDB db h = .ok B.block.header.stateRoot :=
  headStateRootDB_eq db c hi h hs B rest hst hd hhd h0

/-- what a stored block leaves in the indexes: the height is its number, its header is found by number
and its number by hash, its transactions / state update / commitments by number … -/
theorem store_level_block_indexed {σ : Type} (newBackend : Bool) (sem : StateSem σ) (n n' : NodeS σ) (B : Bundle)
    (commitments : Nat) (v2of : Nat → Nat) (h : storeDB newBackend sem n B commitments v2of = .ok n') :
    n'.db.get .chainHeight = some (.num B.block.header.number) ∧
    n'.db.get (.headerByNumber B.block.header.number) = some (.header B.block.header) ∧
    n'.db.get (.numberByHash B.block.header.hash) = some (.num B.block.header.number) ∧
    n'.db.get (.blockTxs B.block.header.number) = some (.body B.block.txs B.block.receipts) ∧
    n'.db.get (.stateUpdate B.block.header.number) = some (.su B.su) ∧
    n'.db.get (.commitments B.block.header.number) = some (.comms commitments) := by
  unfold storeDB at h
  split at h
  · simp at h
  · rename_i ws st' hcb
    simp only [Except.ok.injEq] at h
    subst h
    exact applied_gets n.db B commitments v2of ws (storeCallback_ok newBackend sem n B commitments v2of ws st' hcb).2.2.2.2

/-- … every transaction under its hash at (block number, position) — at EVERY position `i`; if a hash
occurs more than once in the block the index names its last occurrence … -/
theorem store_level_tx_index {σ : Type} (newBackend : Bool) (sem : StateSem σ) (n n' : NodeS σ) (B : Bundle)
    (commitments : Nat) (v2of : Nat → Nat) (h : storeDB newBackend sem n B commitments v2of = .ok n') (i : Nat) (t : Tx)
    (hi : B.block.txs[i]? = some t)
    (hlast : ∀ j t', i < j → B.block.txs[j]? = some t' → t'.hash.getD (.felt 0) ≠ t.hash.getD (.felt 0)) :
    n'.db.get (.txIndexByHash (t.hash.getD (.felt 0))) = some (.txIdx B.block.header.number (UInt64.ofNat i)) :=
  storeDB_tx_index newBackend sem n n' B commitments v2of h i t hi hlast

/-- … every L1-handler transaction under its message hash … -/
theorem store_level_l1_message_index {σ : Type} (newBackend : Bool) (sem : StateSem σ) (n n' : NodeS σ) (B : Bundle)
    (commitments : Nat) (v2of : Nat → Nat) (h : storeDB newBackend sem n B commitments v2of = .ok n') (l : L1HandlerTx)
    (pre : List Term) (hm : Tx.l1Handler l ∈ B.block.txs) (hp : l1MsgPreimage l = some pre)
    (huniq : ∀ l', Tx.l1Handler l' ∈ B.block.txs → l1MsgPreimage l' = some pre → l'.hash = l.hash) :
    n'.db.get (.l1MsgHash pre) = some (.txHash l.hash) :=
  storeDB_l1_index newBackend sem n n' B commitments v2of h l pre hm hp huniq

/-- … and NOTHING else: every index key outside `storeKeys B` (another block number, another block or
transaction hash, another message, another class) keeps its value. -/
theorem store_level_frame {σ : Type} (newBackend : Bool) (sem : StateSem σ) (n n' : NodeS σ) (B : Bundle)
    (commitments : Nat) (v2of : Nat → Nat) (h : storeDB newBackend sem n B commitments v2of = .ok n') (k : IKey)
    (hk : ¬ storeKeys B k) : n'.db.get k = n.db.get k :=
  storeDB_frame newBackend sem n n' B commitments v2of h k hk

/-- `ClassCasmHashMetadata.Migrate` succeeds exactly on an entry declared with the V1 hash, strictly
before the migrating block, and not migrated yet. -/
theorem casm_migrate_ok_iff (m : CasmMeta) (blockNumber : UInt64) :
    (∃ m', m.migrate blockNumber = .ok m') ↔
      (m.casmHashV1.isSome = true ∧ m.declaredAt < blockNumber ∧ m.migratedAt = 0) :=
  migrate_ok_iff m blockNumber

/-- the hash a migrated entry answers for every height: not found below the declaration, the V1 hash
from the declaration up to (excluding) the migration, the V2 hash from the migration on. -/
theorem casm_hash_at_every_height (declaredAt migratedAt : UInt64) (v1 v2 : Nat) (m' : CasmMeta)
    (hm : (CasmMeta.newV1 declaredAt v1 v2).migrate migratedAt = .ok m') (height : UInt64) :
    m'.casmHashAt height =
      if height < declaredAt then none else if height < migratedAt then some v1 else some v2 :=
  casmHashAt_after_migrate declaredAt migratedAt v1 v2 m' hm height

/-- ALL HISTORIES (no offered block numbered 2^64-1, so that "head + 1" never wraps): every casm metadata
entry of the store was declared at or below the head, is not migrated or migrated strictly after its
declaration and at or below the head, and a V2-declared entry is never migrated. -/
theorem casm_invariant_all_histories {σ : Type} (newBackend : Bool) (sem : StateSem σ) (net : Net) (st0 : σ)
    (v2of : Nat → Nat) (Bs : List (Bundle × Nat))
    (hmax : ∀ Bc ∈ Bs, Bc.1.block.header.number.toNat + 1 < 2 ^ 64) :
    let n := runDB newBackend sem net v2of (emptyNode st0) Bs
    CasmInv n.db n.chain.head :=
  runDB_casmInv newBackend sem net st0 v2of Bs hmax

/-- … hence the guard `migratedAt <= declaredAt` of `Migrate` (`ErrCannotMigrateBeforeDeclared`) can never
be what makes `Store` reject a block: on every reachable store the casm step of a block numbered above
the head fails, if it fails, for another reason. -/
theorem casm_before_declared_unreachable (db : IDB) (head : Option Head) (blockNumber : UInt64)
    (hc : CasmInv db head) (habove : ∀ hd, head = some hd → hd.number < blockNumber) (migrated : FMap) (e : CasmErr)
    (h : casmV2Migrated db blockNumber migrated = .error e) : e ≠ .migrate .beforeDeclared :=
  casmV2Migrated_never_beforeDeclared db head blockNumber hc habove migrated e h

/-- A declared-class entry WITHOUT definition in `newClasses`: `State.Update` leaves the class trie — hence
the state root — untouched for it (`classTrieUpdates`), so the only thing that can stop a block carrying
such an entry is the casm-metadata step of `writeBlockContent`. It does, for every protocol version
below 0.14.1 — and from 0.14.1 on only with the repair (`chk = true`). -/
theorem declared_class_without_definition_rejected (chk : Bool) (db : IDB) (h : Header) (d : StateDiff)
    (classes : Classes) (v2of : Nat → Nat) (v : Ver) (hp : parseVersion h.version = some v)
    (hchk : v.ge v0_14_1 = true → chk = true)
    (hm : ∃ kc ∈ d.declaredV1, classes.find? (fun x => x.1 == kc.1) = none) :
    (∃ e, casmStepWith chk db h d classes v2of = .error e) ∧
    (∀ c x, classes.find? (fun k => k.1 == c) = none →
      classTrieUpdates { d with declaredV1 := (c, x) :: d.declaredV1 } classes = classTrieUpdates d classes) :=
  ⟨casmStepWith_rejects_declared_without_definition chk db h d classes v2of v hp hchk hm,
   fun c x hc => classTrieUpdates_ignores_declared_without_definition d classes c x hc⟩

/-- a state whose only content is the class trie, updated exactly as `State.Update` does -/
def exClsNet : Net := ⟨strFelt "SN_SEPOLIA", 0, none, some (.felt 0x46a)⟩
def exClsSem : StateSem FMap :=
  ⟨fun st _ => .posN (st.flatMap (fun kv => [.felt kv.1, kv.2])), fun st _ d cs => some (st ++ classTrieUpdates d cs)⟩
def exClsHeader : Header :=
  { (default : Header) with
      number := 0, parentHash := .felt 0, stateRoot := .posN [], sequencer := some (.felt 0x5e9),
      timestamp := 1700000000, version := asciiBytes "0.14.1", l1GasPriceETH := .felt 3,
      l1GasPriceSTRK := some (.felt 4), l1DataGasPrice := some ⟨some (.felt 5), some (.felt 6)⟩,
      l2GasPrice := some ⟨some (.felt 7), some (.felt 8)⟩ }
/-- the state diff declares class 7 with compiled class hash 9; `newClasses` is empty -/
def exClsDiff : StateDiff := { (default : StateDiff) with declaredV1 := [(7, .felt 9)] }
def exClsHash (ver : String) : Term :=
  (blockHash exClsNet ⟨{ exClsHeader with version := asciiBytes ver }, [], []⟩ exClsDiff none).getD (.felt 0)
def exClsBundle (ver : String) : Bundle :=
  ⟨⟨{ exClsHeader with version := asciiBytes ver, hash := exClsHash ver }, [], []⟩, ⟨exClsHash ver, .posN [], .posN [], exClsDiff⟩, []⟩

/-- DEFECT WITNESS for the code as it is (`chk = false`): a self-consistent 0.14.1 block whose state diff
declares a class WITHOUT definition passes `SanityCheckNewHeight` and every check of `Store`, and is
stored with the state root of the EMPTY class trie although its diff declares a class — the state is not
the fold of the stored diffs. The same block labelled 0.14.0 is rejected by the casm step
(`classMissing`), and with the repair (`chk = true`) the 0.14.1 block is rejected as well.
Harness: known finding `declared-class-without-definition-stored-from-0-14-1`. -/
theorem declared_class_without_definition_stored_from_0_14_1 :
    verdict (sanityCheck exClsNet (exClsBundle "0.14.1")) = none ∧
    verdictS (storeCallbackWith false false exClsSem (emptyNode []) (exClsBundle "0.14.1") 0 (fun _ => 0)) = none ∧
    verdictS (storeCallbackWith false true exClsSem (emptyNode []) (exClsBundle "0.14.1") 0 (fun _ => 0)) = none ∧
    verdictS (storeCallbackWith false false exClsSem (emptyNode []) (exClsBundle "0.14.0") 0 (fun _ => 0)) = some (.casm .classMissing) ∧
    verdictS (storeCallbackWith true false exClsSem (emptyNode []) (exClsBundle "0.14.1") 0 (fun _ => 0)) = some (.casm .classMissing) := by
  decide

/-- `WriteL1HandlerMsgHashes` panics (`MessageHash` indexes `CallData[0]`) exactly when some L1-handler
transaction of the block has no calldata. -/
theorem l1_message_index_panics_iff (txs : List Tx) : l1Writes txs = none ↔ txs.any l1NoCalldata = true :=
  l1Writes_none_iff txs

/-- With the repair (`l1CalldataChecked = true`) a block that passed `SanityCheckNewHeight` cannot make
`Store` panic there. -/
theorem no_store_panic_when_l1_calldata_checked (net : Net) (B : Bundle) (hv : Verified net B)
    (hc : l1CalldataChecked = true) : (l1Writes B.block.txs).isSome = true := by
  cases h : l1Writes B.block.txs with
  | some ws => rfl
  | none =>
    have := (l1Writes_none_iff B.block.txs).mp h
    rw [hv.l1Calldata hc] at this
    cases this

/-- a self-consistent 0.14.0 block whose only transaction is an L1 handler WITHOUT calldata -/
def exL1Empty0 : L1HandlerTx :=
  { (default : L1HandlerTx) with contractAddress := .felt 0x101, entryPointSelector := .felt 0x5e1, nonce := some (.felt 1), callData := [] }
def exL1Empty : L1HandlerTx :=
  { exL1Empty0 with hash := (l1HandlerHash (strFelt "SN_SEPOLIA") exL1Empty0).getD (.felt 0) }
def exL1Header : Header :=
  { (default : Header) with
      number := 0, parentHash := .felt 0, stateRoot := .felt 1001, sequencer := some (.felt 0x5e9),
      txCount := 1, timestamp := 1700000000, version := asciiBytes "0.14.0", l1GasPriceETH := .felt 3,
      l1GasPriceSTRK := some (.felt 4), l1DataGasPrice := some ⟨some (.felt 5), some (.felt 6)⟩,
      l2GasPrice := some ⟨some (.felt 7), some (.felt 8)⟩ }
def exL1Block0 : Block := ⟨exL1Header, [.l1Handler exL1Empty], [{ (default : Receipt) with txHash := exL1Empty.hash, totalGas := some ⟨1, 2, 3⟩ }]⟩
def exL1Net : Net := ⟨strFelt "SN_SEPOLIA", 0, none, some (.felt 0x46a)⟩
def exL1Hash : Term := (blockHash exL1Net exL1Block0 default none).getD (.felt 0)
def exL1Bundle : Bundle :=
  ⟨{ exL1Block0 with header := { exL1Header with hash := exL1Hash } }, ⟨exL1Hash, .felt 1001, .felt 1000, default⟩, []⟩
def exL1Sem : StateSem Nat := ⟨fun st _ => .felt (1000 + st), fun st _ _ _ => some (st + 1)⟩

/-- DEFECT WITNESS for the code as it is (`l1CalldataChecked = false`): the block above passes every check
of `SanityCheckNewHeight` — the L1-handler transaction hash does not need the calldata — its number,
parent and state roots continue the (empty) chain, and `Store` panics in `MessageHash` on both backends.
Harness: known finding `store-panics-on-l1-handler-without-calldata`. -/
theorem store_panics_on_l1_handler_without_calldata : l1CalldataChecked = false →
    verdict (sanityCheck exL1Net exL1Bundle) = none ∧
    verdict (storeTxn exL1Sem (emptyNode 0).chain exL1Bundle) = none ∧
    verdictS (storeDB false exL1Sem (emptyNode 0) exL1Bundle 0 (fun _ => 0)) = some .panicL1 ∧
    verdictS (storeDB true exL1Sem (emptyNode 0) exL1Bundle 0 (fun _ => 0)) = some .panicL1 := by
  first
  | (intro h; exact absurd h (by decide))
  | (intro _
     exact ⟨by decide, by decide, by decide, by decide⟩)

/-! ## Round 5: header counts vs body lengths, the post-0.7 tamper theorem, the Sierra class hash

`ModelBody.lean`. The header's `TransactionCount` / `EventCount` are hashed as NUMBERS next to the
commitments over the CONTENT; nothing in `VerifyBlockHash` / `SanityCheckNewHeight` / `Store` compares a
count with a length. What the block hash itself guarantees is proved here. -/

/-- every accepted block pairs each transaction with a receipt (the one length relation juno checks itself) -/
theorem accepted_block_pairs_transactions_with_receipts {σ : Type} (sem : StateSem σ) (net : Net) (c c' : Chain σ) (B : Bundle)
    (h : accept sem net c B = .ok c') : B.block.txs.length = B.block.receipts.length :=
  (accept_ok sem net c c' B h).1.lens

/-- BODY LENGTH vs HEADER, all four hash formats at once: take a block `B` some node accepted (outside an
unverifiable range) and any `B'` declaring the same hash — in particular `B` with its WHOLE header kept,
hash and counts included — whose body has another number of transactions, another number of receipts,
or (every format except pre-0.7, which commits no events) another total number of events: transactions,
receipts and events ADDED to a valid empty block, or content REMOVED from a non-empty one. No node, whatever
its chain, accepts `B'`. (A shortcut in a commitment keyed on a header count instead of on the content would
falsify exactly this; harness family `body-length:*`.) -/
theorem body_length_change_rejected {σ : Type} (sem : StateSem σ) (net : Net) (c c' d : Chain σ) (B B' : Bundle)
    (hacc : accept sem net c B = .ok c')
    (hu : inUnverifiable net B.block.header.number = false)
    (hu' : inUnverifiable net B'.block.header.number = false)
    (hsame : B'.block.header.hash = B.block.header.hash)
    (hlen : B'.block.txs.length ≠ B.block.txs.length ∨ B'.block.receipts.length ≠ B.block.receipts.length ∨
            (dispatch net B.block.header.number B.block.header.version ≠ some .pre07 ∧
             eventTotal B'.block.receipts ≠ eventTotal B.block.receipts)) :
    ∃ e, accept sem net d B' = .error e :=
  body_length_change_rejected' sem net c c' d B B' hacc hu hu' hsame hlen

/-- the block hash pins the three body lengths and both header counts: two blocks with the same hash term
have the same number of transactions, (0.13.2+) of receipts, (all but pre-0.7) of events, the same
`TransactionCount` and (all but pre-0.7) the same `EventCount` -/
theorem same_hash_same_lengths_and_counts (net : Net) (b b' : Block) (sd sd' : StateDiff) (ov ov' : Option Term) (x : Term)
    (h : blockHash net b sd ov = some x) (h' : blockHash net b' sd' ov' = some x) :
    b.txs.length = b'.txs.length ∧ b.header.txCount = b'.header.txCount ∧
    (dispatch net b.header.number b.header.version ≠ some .pre07 →
      eventTotal b.receipts = eventTotal b'.receipts ∧ b.header.eventCount = b'.header.eventCount) ∧
    ((dispatch net b.header.number b.header.version = some .v0134 ∨ dispatch net b.header.number b.header.version = some .v0132) →
      b.receipts.length = b'.receipts.length) := by
  obtain ⟨l1, l2, l3⟩ := sameHash_lengths net b b' sd sd' ov ov' x h h'
  obtain ⟨c1, c2⟩ := sameHash_counts net b b' sd sd' ov ov' x h h'
  exact ⟨l1, c1, fun hf => ⟨l2 hf, c2 hf⟩, l3⟩

/-- `sn2core.AdaptBlock` derives both header counts from the content (`uint64` arithmetic: the running sum
of the adapter is the total number of events mod 2^64): a block that enters through it has count = length -/
theorem adapted_block_counts_match (b : Block) :
    countsMatch (adaptCounts b) = true ∧ (adaptCounts b).header.eventCount = UInt64.ofNat (eventTotal b.receipts) ∧
    (adaptCounts b).header.txCount = UInt64.ofNat b.txs.length :=
  ⟨adaptCounts_match b, adaptedEventCount_eq b.receipts, rfl⟩

/-- "an accepted block has count = length", as far as it holds for juno: the relation is INHERITED through
the hash. If some node accepted a block whose header counts agree with its body (every block that came
through the adapter), every block with the same declared hash that ANY node accepts has them agree too
(the event count in every format but pre-0.7). -/
theorem counts_match_inherited {σ : Type} (sem : StateSem σ) (net : Net) (c c' d d' : Chain σ) (B B' : Bundle)
    (hacc : accept sem net c B = .ok c') (hacc' : accept sem net d B' = .ok d')
    (hu : inUnverifiable net B.block.header.number = false)
    (hu' : inUnverifiable net B'.block.header.number = false)
    (hsame : B'.block.header.hash = B.block.header.hash) :
    (B.block.header.txCount = adaptedTxCount B.block.txs → B'.block.header.txCount = adaptedTxCount B'.block.txs) ∧
    (dispatch net B.block.header.number B.block.header.version ≠ some .pre07 →
      B.block.header.eventCount = adaptedEventCount B.block.receipts →
      B'.block.header.eventCount = adaptedEventCount B'.block.receipts) :=
  counts_match_inherited' sem net c c' d d' B B' hacc hacc' hu hu' hsame

/-- `tamper_rejected`, post-0.7 Pedersen format (every protocol below 0.13.2 from `First07Block` on) — missing
until round 5. For blocks that carry their sequencer address: if a node accepts `B`, any `B'` declaring the
same hash that uses another format, or differs in number / state root / sequencer / timestamp / transaction
count / event count / parent hash, in any transaction's hash or committed signature, or in any event
(from / keys / data, in order) is rejected by every node. -/
theorem tamper_rejected_post07 {σ : Type} (sem : StateSem σ) (net : Net) (c c' d : Chain σ) (B B' : Bundle) (s s' : Term)
    (hacc : accept sem net c B = .ok c')
    (hu : inUnverifiable net B.block.header.number = false)
    (hu' : inUnverifiable net B'.block.header.number = false)
    (hs : B.block.header.sequencer = some s) (hs' : B'.block.header.sequencer = some s')
    (hf : dispatch net B.block.header.number B.block.header.version = some .post07)
    (hsame : B'.block.header.hash = B.block.header.hash)
    (hdiff : dispatch net B'.block.header.number B'.block.header.version ≠ some .post07 ∨
      (⟨B'.block.header.number, B'.block.header.stateRoot, s', B'.block.header.timestamp, B'.block.header.txCount,
        B'.block.header.eventCount, B'.block.header.parentHash⟩ : HeaderViewPost07)
        ≠ ⟨B.block.header.number, B.block.header.stateRoot, s, B.block.header.timestamp, B.block.header.txCount,
           B.block.header.eventCount, B.block.header.parentHash⟩ ∨
      B'.block.txs.map (sigViewPedersen (allSigsOf B'.block)) ≠ B.block.txs.map (sigViewPedersen (allSigsOf B.block)) ∨
      eventsOnly B'.block.receipts ≠ eventsOnly B.block.receipts) :
    ∃ e, accept sem net d B' = .error e := by
  cases hacc' : accept sem net d B' with
  | error e => exact ⟨e, rfl⟩
  | ok d' =>
    have hv := (accept_ok sem net c c' B hacc).1
    have hv' := (accept_ok sem net d d' B' hacc').1
    have hh := verified_uses_own_sequencer net B hv s hs hu
    have hh' := verified_uses_own_sequencer net B' hv' s' hs' hu'
    rw [hsame] at hh'
    obtain ⟨hd, q, q', hq, hq', hview, htx, hev⟩ :=
      blockHash_post07_inj net B.block B'.block B.su.diff B'.su.diff none none _ hf hh hh'
    simp only [hs, hs', Option.some.injEq] at hq hq'
    subst hq hq'
    rcases hdiff with h | h | h | h
    · exact absurd hd h
    · exact absurd hview.symm h
    · exact absurd htx.symm h
    · exact absurd hev.symm h

/-- For ALL pairs of histories (the all-formats companion of `stored_same_hash_same_content_*`): whatever two nodes
were offered, two STORED blocks that declare the same hash (outside an unverifiable range) have the same number of
transactions, the same header `TransactionCount`, and — every format but pre-0.7 — the same number of events and the
same `EventCount`; so if one of them has count = length, the other has. -/
theorem stored_same_hash_same_lengths_and_counts {σ : Type} (sem : StateSem σ) (net : Net) (st0 st0' : σ)
    (Bs Bs' : List Bundle) (B B' : Bundle)
    (hB : B ∈ (run sem net ⟨none, st0, []⟩ Bs).stored) (hB' : B' ∈ (run sem net ⟨none, st0', []⟩ Bs').stored)
    (hu : inUnverifiable net B.block.header.number = false) (hu' : inUnverifiable net B'.block.header.number = false)
    (hsame : B'.block.header.hash = B.block.header.hash) :
    B.block.txs.length = B'.block.txs.length ∧ B.block.header.txCount = B'.block.header.txCount ∧
    B.block.txs.length = B.block.receipts.length ∧ B'.block.txs.length = B'.block.receipts.length ∧
    (dispatch net B.block.header.number B.block.header.version ≠ some .pre07 →
      eventTotal B.block.receipts = eventTotal B'.block.receipts ∧ B.block.header.eventCount = B'.block.header.eventCount) := by
  have hv := chainOK_mem_verified sem net st0 _ _ _ (run_preserves sem net st0 Bs ⟨none, st0, []⟩ ChainOK.empty) B hB
  have hv' := chainOK_mem_verified sem net st0' _ _ _ (run_preserves sem net st0' Bs' ⟨none, st0', []⟩ ChainOK.empty) B' hB'
  obtain ⟨ov, _, hh⟩ := hv.hash hu
  obtain ⟨ov', _, hh'⟩ := hv'.hash hu'
  rw [hsame] at hh'
  obtain ⟨l1, c1, h3, _⟩ := same_hash_same_lengths_and_counts net B.block B'.block B.su.diff B'.su.diff ov ov' _ hh hh'
  exact ⟨l1, c1, hv.lens, hv'.lens, h3⟩

/-- the same for the content of the post-0.7 format (blocks that carry their sequencer address): for ALL pairs of
histories, two stored blocks with the same declared hash have the same format, header view, transaction hashes with
their committed signatures, and events. -/
theorem stored_same_hash_same_content_post07 {σ : Type} (sem : StateSem σ) (net : Net) (st0 st0' : σ)
    (Bs Bs' : List Bundle) (B B' : Bundle) (s s' : Term)
    (hB : B ∈ (run sem net ⟨none, st0, []⟩ Bs).stored) (hB' : B' ∈ (run sem net ⟨none, st0', []⟩ Bs').stored)
    (hu : inUnverifiable net B.block.header.number = false) (hu' : inUnverifiable net B'.block.header.number = false)
    (hs : B.block.header.sequencer = some s) (hs' : B'.block.header.sequencer = some s')
    (hf : dispatch net B.block.header.number B.block.header.version = some .post07)
    (hsame : B'.block.header.hash = B.block.header.hash) :
    dispatch net B'.block.header.number B'.block.header.version = some .post07 ∧
    (⟨B.block.header.number, B.block.header.stateRoot, s, B.block.header.timestamp, B.block.header.txCount,
      B.block.header.eventCount, B.block.header.parentHash⟩ : HeaderViewPost07)
      = ⟨B'.block.header.number, B'.block.header.stateRoot, s', B'.block.header.timestamp, B'.block.header.txCount,
         B'.block.header.eventCount, B'.block.header.parentHash⟩ ∧
    B.block.txs.map (sigViewPedersen (allSigsOf B.block)) = B'.block.txs.map (sigViewPedersen (allSigsOf B'.block)) ∧
    eventsOnly B.block.receipts = eventsOnly B'.block.receipts := by
  have hv := chainOK_mem_verified sem net st0 _ _ _ (run_preserves sem net st0 Bs ⟨none, st0, []⟩ ChainOK.empty) B hB
  have hv' := chainOK_mem_verified sem net st0' _ _ _ (run_preserves sem net st0' Bs' ⟨none, st0', []⟩ ChainOK.empty) B' hB'
  have hh := verified_uses_own_sequencer net B hv s hs hu
  have hh' := verified_uses_own_sequencer net B' hv' s' hs' hu'
  rw [hsame] at hh'
  obtain ⟨hd, q, q', hq, hq', hview, htx, hev⟩ :=
    blockHash_post07_inj net B.block B'.block B.su.diff B'.su.diff none none _ hf hh hh'
  simp only [hs, hs', Option.some.injEq] at hq hq'
  subst hq hq'
  exact ⟨hd, hview, htx, hev⟩

/-- a self-consistent 0.14.0 block whose header says 7 transactions and 9 events while its body has one
transaction and one event: the hash is computed by juno's own rule (header counts + commitments over the content) -/
def exCntHeader0 : Header :=
  { (default : Header) with
      number := 0, parentHash := .felt 0, stateRoot := .felt 1001, sequencer := some (.felt 0x5e9),
      txCount := 7, eventCount := 9, timestamp := 1700000000, version := asciiBytes "0.14.0", l1GasPriceETH := .felt 3,
      l1GasPriceSTRK := some (.felt 4), l1DAMode := 1, l1DataGasPrice := some ⟨some (.felt 5), some (.felt 6)⟩,
      l2GasPrice := some ⟨some (.felt 7), some (.felt 8)⟩ }
def exCntInvoke0 : InvokeTx :=
  { (default : InvokeTx) with
      version := 3, senderAddress := .felt 0x101, nonce := .felt 1, callData := [.felt 1, .felt 2], signature := [.felt 8, .felt 9],
      bounds := ⟨some ⟨5, some 7⟩, some ⟨6, some 8⟩, some ⟨1, some 2⟩⟩, tip := 1, feeDAMode := 1 }
def exCntInvoke : InvokeTx := { exCntInvoke0 with hash := (invokeHash (strFelt "SN_SEPOLIA") exCntInvoke0).getD (.felt 0) }
def exCntReceipt : Receipt :=
  { (default : Receipt) with fee := .felt 3, txHash := exCntInvoke.hash, events := [⟨.felt 0x101, [.felt 0x50], [.felt 1]⟩], totalGas := some ⟨3, 4, 5⟩ }
def exCntNet : Net := ⟨strFelt "SN_SEPOLIA", 0, none, some (.felt 0x46a)⟩
def exCntBlock0 : Block := ⟨exCntHeader0, [.invoke exCntInvoke], [exCntReceipt]⟩
def exCntHash : Term := (blockHash exCntNet exCntBlock0 default none).getD (.felt 0)
def exCntBundle : Bundle :=
  ⟨{ exCntBlock0 with header := { exCntHeader0 with hash := exCntHash } }, ⟨exCntHash, .felt 1001, .felt 1000, default⟩, []⟩
def exCntSem : StateSem Nat := ⟨fun st _ => .felt (1000 + st), fun st _ _ _ => some (st + 1)⟩

/-- NAMED EXCEPTION (juno as it is): the header counts are taken AS DECLARED. The block above — counts 7 / 9,
body 1 transaction / 1 event, hash recomputed over exactly that — passes `SanityCheckNewHeight` and `Store`:
juno never compares a header count with a length. Count = length is established where blocks enter
(`adapted_block_counts_match`; p2p sync compares them before calling `SanityCheckNewHeight`) and inherited
through the hash (`counts_match_inherited`). Harness: `body-length:*+rehash` offers are observed (accepted),
never judged. -/
theorem exception_header_counts_not_compared_with_content :
    (offer exCntSem exCntNet ⟨none, 0, []⟩ exCntBundle).2 = none ∧ countsMatch exCntBundle.block = false := by
  decide

/-! ### the Sierra class hash (`core.SierraClass.Hash`, what `VerifyClassHashes` recomputes) -/

/-- `SierraClass.Hash()` commits the `SierraView`: the version tag's value (mod P), every entry point (selector
and index, in order) of the three lists, the ABI hash and the program hash. Two definitions that verify under
the same class hash — by either variant of the code — have the same view. -/
theorem sierraClassHash_injective (l l' : Bool) (c c' : SierraCls) (x : Term)
    (h : sierraClassHashWith l c = some x) (h' : sierraClassHashWith l' c' = some x) : sierraView c = sierraView c' :=
  sierraClassHashWith_inj l l' c c' x h h'

/-- … hence a tampered definition at ANY position of `newClasses` that keeps its key but changes the view is
refused by `VerifyClassHashes` as soon as the untampered one verifies -/
theorem class_definition_tamper_rejected (l : Bool) (cs cs' : List (Term × ClsDef)) (k : Term) (c c' : SierraCls)
    (hok : verifyClassHashesT l cs = true) (hm : (k, ClsDef.sierra c) ∈ cs) (hm' : (k, ClsDef.sierra c') ∈ cs')
    (hdiff : sierraView c' ≠ sierraView c) : verifyClassHashesT l cs' = false := by
  cases hv : verifyClassHashesT l cs' with
  | false => rfl
  | true =>
    have h1 := verifyClassHashesT_mem l cs hok k c hm
    have h2 := verifyClassHashesT_mem l cs' hv k c' hm'
    exact absurd (sierraClassHashWith_inj l l c' c k h2 h1) hdiff

/-- THE BRIDGE to `accept`: `accept` sees a new class as (key, number `Hash()` returned). Under the standing ideal-hash
assumption (the evaluation `eval` of hash terms to field elements is injective) the class map of a block is the image
`classesOfT` of its term-level definitions, and an ACCEPTED block's every Sierra definition — at any position of
`newClasses` — hashes, as a term, to its key: `accept_sound` extends to the content of class definitions. -/
theorem accepted_block_class_definitions_verify {σ : Type} (sem : StateSem σ) (net : Net) (c c' : Chain σ) (limited : Bool)
    (eval : Term → Nat) (hinj : ∀ a b, eval a = eval b → a = b) (block : Block) (su : StateUpdate) (cs : List (Term × ClsDef))
    (h : accept sem net c ⟨block, su, classesOfT limited eval cs⟩ = .ok c') (k : Term) (d : SierraCls)
    (hm : (k, ClsDef.sierra d) ∈ cs) : sierraClassHashWith limited d = some k := by
  have hv := (accept_ok sem net c c' _ h).1.classes
  rw [verifyClassHashes_classesOfT limited eval hinj cs] at hv
  exact verifyClassHashesT_mem limited cs hv k d hm

/-- a class as `sn2core.AdaptSierraClass` builds it (program hash = Poseidon of the program, ABI hash =
Starknet-Keccak of the ABI): the class hash commits the program, felt by felt, and the ABI bytes as well -/
theorem adapted_class_hash_commits_definition (l l' : Bool) (c c' : SierraCls) (x : Term)
    (h : sierraClassHashWith l (adaptSierra c) = some x) (h' : sierraClassHashWith l' (adaptSierra c') = some x) :
    c.program = c'.program ∧ c.abi = c'.abi ∧ c.external = c'.external ∧ c.l1Handler = c'.l1Handler ∧
    c.constructor = c'.constructor := by
  have hv := sierraClassHashWith_inj l l' _ _ x h h'
  simp only [sierraView, adaptSierra, SierraView.mk.injEq, Term.posN.injEq, Term.keccak.injEq] at hv
  exact ⟨hv.2.2.2.2.2, hv.2.2.2.2.1, hv.2.1, hv.2.2.1, hv.2.2.2.1⟩

/-- NAMED EXCEPTION: `Hash()` reads the two PRECOMPUTED fields, not the definition: on the level of
`SanityCheckNewHeight(block, stateUpdate, newClasses)` the `Program` and `Abi` of a Sierra class are not
committed (they are for every class the adapters build: `adapted_class_hash_commits_definition`) -/
theorem exception_class_program_and_abi_not_hashed (l : Bool) (c : SierraCls) (p : List Term) (a : Bytes) :
    sierraClassHashWith l { c with program := p, abi := a } = sierraClassHashWith l c := by
  simp [sierraClassHashWith]

/-- the semantic version string enters as `SetBytes("CONTRACT_CLASS_V" ++ version)`, REDUCED mod P. Versions
of at most 15 bytes (tag + version ≤ 31 bytes; every real class has "0.1.0") are committed byte for byte …
PARTIAL: the full-strength statement has no length hypotheses; it fails for the code as it is
(`class_version_wrap_accepted`) and holds with the repair (`class_version_committed_when_limited`). -/
theorem class_version_committed_partial (l l' : Bool) (c c' : SierraCls) (x : Term)
    (hv : c.semanticVersion.length ≤ 15) (hv' : c'.semanticVersion.length ≤ 15)
    (h : sierraClassHashWith l c = some x) (h' : sierraClassHashWith l' c' = some x) :
    c.semanticVersion = c'.semanticVersion := by
  have := sierraClassHashWith_inj l l' c c' x h h'
  simp only [sierraView, SierraView.mk.injEq] at this
  exact classVersion_inj_of_short _ _ hv hv' this.1

/-- a 39-byte semantic version that starts with `0.1.0.` and has the value of `0.1.0` modulo P behind the tag -/
def exWrapClassVersion : Bytes :=
  [48, 46, 49, 46, 48, 46, 0, 1, 157, 240, 209, 27, 29, 217, 161, 8, 105, 234, 13, 217, 150, 124, 170, 236, 26, 239, 129,
   148, 96, 240, 211, 15, 59, 115, 105, 168, 65, 254, 193]

/-- DEFECT WITNESS for the code as it is (`limited = false`): the class hash of a definition does not change
when its `SemanticVersion` "0.1.0" is replaced by the 39-byte string above, so `VerifyClassHashes` accepts the
tampered definition under the same class hash; with the repair (`limited = true`) `Hash()` fails for it.
Harness: known finding `sierra-class-version-wraps-mod-p`. -/
theorem class_version_wrap_accepted (c : SierraCls) (h : c.semanticVersion = asciiBytes "0.1.0") :
    sierraClassHashWith false { c with semanticVersion := exWrapClassVersion } = sierraClassHashWith false c ∧
    exWrapClassVersion ≠ c.semanticVersion ∧
    sierraClassHashWith true { c with semanticVersion := exWrapClassVersion } = none := by
  refine ⟨?_, ?_, ?_⟩
  · have e : classVersionFelt exWrapClassVersion = classVersionFelt (asciiBytes "0.1.0") := by decide
    simp [sierraClassHashWith, h, e]
  · rw [h]; decide
  · simp [sierraClassHashWith, exWrapClassVersion]

/-- … and with the repair the version is committed at FULL strength: whatever two definitions hash to the
same class hash have the same version string -/
theorem class_version_committed_when_limited (c c' : SierraCls) (x : Term)
    (h : sierraClassHashWith true c = some x) (h' : sierraClassHashWith true c' = some x) :
    c.semanticVersion = c'.semanticVersion := by
  have hl : ∀ (d : SierraCls) (y : Term), sierraClassHashWith true d = some y → d.semanticVersion.length ≤ 15 := by
    intro d y hd
    unfold sierraClassHashWith at hd
    split at hd
    · simp at hd
    · rename_i hn
      simp only [Bool.true_and, decide_eq_true_eq] at hn
      omega
  exact class_version_committed_partial true true c c' x (hl c x h) (hl c' x h') h h'

/-! ### when the compiled-class hash panics (`core.CasmClass.Hash`, called by `storeCasmHashMetadataV1` inside `Store`) -/

/-- the casm-metadata step of a block BELOW 0.14.1 (`storeCasmHashMetadataV1`) hashes the compiled class of every class
the diff declares: if one of them has a Sierra definition on which that hash does not return (`compiledBad`), the step —
hence `Store`, after the state update and all other writes went into the batch — ends with `compiledHash`, whatever the
other entries are (it cannot succeed); from 0.14.1 on the compiled class is not hashed and the flag is not read. -/
theorem casm_step_stops_at_malformed_compiled_class (chk : Bool) (db : IDB) (h : Header) (d : StateDiff) (classes : Classes)
    (v2of : Nat → Nat) (v : Ver) (hp : parseVersion h.version = some v) :
    (v.ge v0_14_1 = false → (∃ kc ∈ d.declaredV1, ∃ x, classes.find? (fun y => y.1 == kc.1) = some x ∧ x.2.cairo0 = false ∧ x.2.compiledBad = true) →
      ∃ e, casmStepWith chk db h d classes v2of = .error e) ∧
    (v.ge v0_14_1 = true → ∀ classes', classes'.map (fun x => (x.1, x.2.cairo0)) = classes.map (fun x => (x.1, x.2.cairo0)) →
      (casmStepWith chk db h d classes' v2of).toOption.isSome = (casmStepWith chk db h d classes v2of).toOption.isSome) :=
  ⟨fun hv hm => casmStepWith_stops_at_compiledBad chk db h d classes v2of v hp hv hm,
   fun hv classes' hc => casmStepWith_v2_ignores_compiledBad chk db h d classes classes' v2of v hp hv hc⟩

/-- FLAT segment lengths (what the Cairo compiler emits): `CasmClass.Hash` panics exactly when the lengths add
up to more than the capacity of the bytecode slice — the `uint64` sum wrapping around included. -/
theorem compiled_class_hash_panics_iff_flat (cap : Nat) (hcap : cap < 2 ^ 64) (l : UInt64) (ls : List UInt64) :
    compiledHashPanics (some ⟨cap, flatSegs (l :: ls)⟩) = true ↔ cap < ((l :: ls).map UInt64.toNat).sum :=
  compiledHashPanics_flat_iff cap hcap l ls

/-- a nil `Compiled` (what `starknetdata/feeder` passes for a deprecated compiled class) always panics; a compiled
class WITHOUT segment lengths never does (the whole bytecode is hashed, nothing is sliced) -/
theorem compiled_class_hash_nil_and_unsegmented (cap : Nat) :
    compiledHashPanics none = true ∧ compiledHashPanics (some ⟨cap, []⟩) = false := ⟨rfl, rfl⟩

/-- DEFECT WITNESS for the code as it is (`guarded = false`): a compiled class of three felts whose segment
lengths say 2 + 2, and a class without compiled class, make the V2-hash computation of
`storeCasmHashMetadataV1` PANIC — inside `Store`, for a block below 0.14.1 that passed every verification (the
compiled class is committed by nothing juno checks). With the repair (`guarded = true`) the outcome is an error:
the block is rejected and the batch dropped. Four felts for 2 + 2 are fine in both variants.
Harness: known finding `store-panics-on-malformed-compiled-class`. -/
theorem store_panics_on_malformed_compiled_class :
    casmV2HashOutcomeWith false (some ⟨3, flatSegs [2, 2]⟩) = .panic ∧ casmV2HashOutcomeWith false none = .panic ∧
    casmV2HashOutcomeWith true (some ⟨3, flatSegs [2, 2]⟩) = .error ∧ casmV2HashOutcomeWith true none = .error ∧
    casmV2HashOutcomeWith false (some ⟨4, flatSegs [2, 2]⟩) = .value ∧ casmV2HashOutcomeWith true (some ⟨4, flatSegs [2, 2]⟩) = .value := by
  decide

/-- the guard is total: with the repair the V2-hash step never panics, whatever the compiled class is -/
theorem no_casm_hash_panic_when_guarded (c : Option CompiledShape) : casmV2HashOutcomeWith true c ≠ .panic := by
  unfold casmV2HashOutcomeWith
  split <;> simp

/-- NESTED segment lengths, as transcribed: `digestSegment` advances the shared `startingOffset` once inside the
recursive call and once more in the parent's loop. A segment `[3, 2]` nested in one parent leaves the offset at 10,
not 5; and the well-formed shape `[[2], 1]` over three felts (2 + 1 = 3) is sliced at `[4:5]` — a panic.
(Recorded as a lead: the compiled-class hash of a class with nested segments is not C02's subject.) -/
theorem nested_segments_advance_the_offset_twice :
    Seg.digest 5 [Seg.mk [Seg.mk [] 3, Seg.mk [] 2] 0] 0 0 = some (5, 10) ∧
    compiledHashPanics (some ⟨3, [Seg.mk [Seg.mk [] 2] 0, Seg.mk [] 1]⟩) = true ∧
    compiledHashPanics (some ⟨3, flatSegs [2, 1]⟩) = false := by
  decide

/-! ## Round 6: compensating tamperings — summaries (`Length()`, the header counts, the declared-class set) are not keys

A shortcut keyed on a SUMMARY of the content ("`Length() == 0`: the diff is empty", "the diff declares nothing: no class
to verify", "the counts add up") leaves every single-field tampering rejected. These theorems say what the hash and the
checks pin beyond the summary. Harness family `compound:counts:* / difflen:* / classes:* / messages:*` (compound6.go). -/

/-- `StateDiff.Hash()` pins `StateDiff.Length()` (the number the 0.13.2+ block hash commits a second time inside
`ConcatCounts`): two diffs with the same hash have the same length — the two commitments can never disagree -/
theorem state_diff_hash_pins_length (d d' : StateDiff) (hw : wfDiff d) (hw' : wfDiff d')
    (h : stateDiffHash d = stateDiffHash d') : stateDiffLength d = stateDiffLength d' :=
  stateDiffLength_of_view d d' (stateDiffHash_injective d d' hw hw' h)

/-- exactly which diffs have `Length() = 0`: every section empty, EXCEPT that `StorageDiffs` may list any number of
addresses with an empty slot map (`Length()` sums the inner lengths) -/
theorem zero_length_diff_iff (d : StateDiff) : stateDiffLength d = 0 ↔
    ((∀ e ∈ d.storage, e.2 = []) ∧ d.nonces = [] ∧ d.deployed = [] ∧ d.declaredV0 = [] ∧ d.declaredV1 = [] ∧
      d.replaced = [] ∧ d.migrated = []) :=
  stateDiffLength_zero_iff d

/-- a diff whose only content is one address with an empty storage map -/
def exZeroLenDiff : StateDiff := { (default : StateDiff) with storage := [(0x7e57ab1e, [])] }

/-- … so `Length() = 0` is NOT "the empty diff": the witness has length 0 and another hash than the empty diff (the
number of contracts with storage updates and the address are hashed). A fast path `if Length() == 0 { commitment of
the empty diff }` would make the two collide; harness case `compound:difflen:empty-storage-map-added:to-empty-diff` -/
theorem zero_length_diff_is_not_the_empty_diff :
    stateDiffLength exZeroLenDiff = 0 ∧ wfDiff exZeroLenDiff ∧ wfDiff default ∧
    stateDiffHash exZeroLenDiff ≠ stateDiffHash default := by
  refine ⟨by decide, by unfold wfDiff; decide, by unfold wfDiff; decide, by decide⟩

/-- COMPENSATING CHANGE OF THE DIFF, both Poseidon formats (0.13.2+): a block `B` some node accepted and any `B'` that
declares the same hash but carries a state diff with another preimage — WHETHER OR NOT its `Length()` differs (one
entry removed and another added, an entry moved between contracts or sections, an empty storage map added) — is
accepted by no node. With `state_diff_hash_pins_length`: the length lane of `ConcatCounts` adds nothing the diff
commitment does not pin, and nothing is pinned by the length alone. -/
theorem length_preserving_diff_change_rejected {σ : Type} (sem : StateSem σ) (net : Net) (c c' d : Chain σ) (B B' : Bundle)
    (hacc : accept sem net c B = .ok c')
    (hu : inUnverifiable net B.block.header.number = false)
    (hu' : inUnverifiable net B'.block.header.number = false)
    (hf : dispatch net B.block.header.number B.block.header.version = some .v0134 ∨
          dispatch net B.block.header.number B.block.header.version = some .v0132)
    (hsame : B'.block.header.hash = B.block.header.hash)
    (hdiff : stateDiffFlat B'.su.diff ≠ stateDiffFlat B.su.diff) :
    ∃ e, accept sem net d B' = .error e :=
  diff_change_rejected' sem net c c' d B B' hacc hu hu' hf hsame hdiff

/-- COMPENSATING HEADER COUNTS, all four formats: `B` accepted, `B'` declares the same hash and has another
`TransactionCount`, or (all but pre-0.7) another `EventCount` — in particular the two exchanged, or one unit moved
from one to the other so that their sum stays — is accepted by no node, whatever is done to the body at the same time -/
theorem compensating_counts_rejected {σ : Type} (sem : StateSem σ) (net : Net) (c c' d : Chain σ) (B B' : Bundle)
    (hacc : accept sem net c B = .ok c')
    (hu : inUnverifiable net B.block.header.number = false)
    (hu' : inUnverifiable net B'.block.header.number = false)
    (hsame : B'.block.header.hash = B.block.header.hash)
    (hcnt : B'.block.header.txCount ≠ B.block.header.txCount ∨
            (dispatch net B.block.header.number B.block.header.version ≠ some .pre07 ∧
             B'.block.header.eventCount ≠ B.block.header.eventCount)) :
    ∃ e, accept sem net d B' = .error e := by
  cases hacc' : accept sem net d B' with
  | error e => exact ⟨e, rfl⟩
  | ok d' =>
    obtain ⟨ov, _, hh⟩ := (accept_ok sem net c c' B hacc).1.hash hu
    obtain ⟨ov', _, hh'⟩ := (accept_ok sem net d d' B' hacc').1.hash hu'
    rw [hsame] at hh'
    obtain ⟨c1, c2⟩ := sameHash_counts net B.block B'.block B.su.diff B'.su.diff ov ov' _ hh hh'
    rcases hcnt with h | ⟨hf, h⟩
    · exact absurd c1.symm h
    · exact absurd (c2 hf).symm h

/-- THE CLASS LIST IS VERIFIED INDEPENDENTLY OF THE DIFF: `VerifyClassHashes` walks `newClasses`. A bundle whose
`newClasses` holds — at any position, declared by the state diff or not, even when the diff declares NOTHING — one Sierra
definition that does not hash to its key fails `SanityCheckNewHeight` with the class-hash error (given the two cheap
cross checks pass), hence is stored by no node. Harness: `compound:classes:undeclared-definition-under-wrong-key`. -/
theorem class_list_verified_independently_of_the_diff {σ : Type} (sem : StateSem σ) (net : Net) (c : Chain σ) (B : Bundle)
    (k : Nat) (cd : ClassDef) (hm : (k, cd) ∈ B.classes) (hs : cd.cairo0 = false) (hbad : cd.computedHash ≠ k) :
    (B.block.header.hash = B.su.blockHash → B.block.header.stateRoot = B.su.newRoot → sanityCheck net B = .error .classHash) ∧
    ∃ e, accept sem net c B = .error e := by
  refine ⟨sanityCheck_classHash_of_bad_entry net B k cd hm hs hbad, ?_⟩
  cases hacc : accept sem net c B with
  | error e => exact ⟨e, rfl⟩
  | ok c' =>
    have hv := (accept_ok sem net c c' B hacc).1.classes
    simp only [verifyClassHashes, List.all_eq_true] at hv
    have := hv (k, cd) hm
    simp [hs] at this
    exact absurd this hbad

/-! ### the code as it is since fixes d902b5f and 302c657 (`classVersionLengthLimited = compiledHashGuarded = true`) -/

/-- FULL strength on the code as it is (fix d902b5f: `SierraClass.Hash()` fails for a version longer than 15 bytes):
two Sierra definitions `VerifyClassHashes` can accept under the same class hash have the same `SemanticVersion`, byte for
byte. (`class_version_committed_partial` / `class_version_wrap_accepted` remain as the statements about the variant
before the fix; the harness sig `sierra-class-version-wraps-mod-p` is in `fixed`: an unlisted violation if it returns.) -/
theorem class_version_committed (c c' : SierraCls) (x : Term)
    (h : sierraClassHash c = some x) (h' : sierraClassHash c' = some x) : c.semanticVersion = c'.semanticVersion :=
  class_version_committed_when_limited c c' x h h'

/-- the code as it is (fix 302c657): the V2-hash step of `storeCasmHashMetadataV1` never panics, whatever compiled class
the feeder delivered — a malformed one is an error, the block is rejected and the batch dropped -/
theorem store_never_panics_on_the_compiled_class (c : Option CompiledShape) :
    casmV2HashOutcome c ≠ .panic ∧ (compiledHashPanics c = true → casmV2HashOutcome c = .error) := by
  refine ⟨no_casm_hash_panic_when_guarded c, fun hp => ?_⟩
  show casmV2HashOutcomeWith true c = .error
  simp [casmV2HashOutcomeWith, hp]

/-! ## Non-vacuity: the hypotheses above are satisfiable -/

section Examples

def exNet : Net := ⟨strFelt "SN_SEPOLIA", 0, none, some (.felt 0x46a)⟩
def exSem : StateSem Nat := ⟨fun st _ => .felt (1000 + st), fun st _ _ _ => some (st + 1)⟩

def exInvoke0 : InvokeTx :=
  { (default : InvokeTx) with
      version := 3, senderAddress := .felt 0x101, nonce := .felt 1,
      callData := [.felt 1, .felt 2], signature := [.felt 8, .felt 9],
      bounds := ⟨some ⟨5, some 7⟩, some ⟨6, some 8⟩, some ⟨1, some 2⟩⟩, tip := 1, feeDAMode := 1 }
def exInvoke : InvokeTx := { exInvoke0 with hash := (invokeHash exNet.chainId exInvoke0).getD (.felt 0) }
def exReceipt : Receipt :=
  { (default : Receipt) with
      fee := .felt 3, txHash := exInvoke.hash, events := [⟨.felt 0x101, [.felt 0x50], [.felt 1]⟩],
      msgs := [⟨.felt 0x101, [.felt 4], 0x1001⟩], totalGas := some ⟨3, 4, 5⟩ }
def exDiff : StateDiff :=
  { (default : StateDiff) with
      storage := [(0x101, [(1, .felt 5)])], nonces := [(0x101, .felt 1)], deployed := [(0x101, .felt 0xc0)] }
def exHeader0 : Header :=
  { (default : Header) with
      number := 0, parentHash := .felt 0, stateRoot := .felt 1001, sequencer := some (.felt 0x5e9),
      txCount := 1, eventCount := 1, timestamp := 1700000000, version := asciiBytes "0.14.0", l1GasPriceETH := .felt 3,
      l1GasPriceSTRK := some (.felt 4), l1DAMode := 1, l1DataGasPrice := some ⟨some (.felt 5), some (.felt 6)⟩,
      l2GasPrice := some ⟨some (.felt 7), some (.felt 8)⟩ }
def exBlock0 : Block := ⟨exHeader0, [.invoke exInvoke], [exReceipt]⟩
def exHash : Term := (blockHash exNet exBlock0 exDiff none).getD (.felt 0)
def exBlock : Block := { exBlock0 with header := { exHeader0 with hash := exHash } }
def exBundle : Bundle := ⟨exBlock, ⟨exHash, .felt 1001, .felt 1000, exDiff⟩, [(7, ⟨false, 7, false⟩), (9, ⟨true, 0, false⟩)]⟩
def exChain : Chain Nat := ⟨none, 0, []⟩

/-- a 0.14.0-format block with an invoke-v3 transaction, an event, a message and a state diff is accepted -/
example : (offer exSem exNet exChain exBundle).2 = none := by decide
example : dispatch exNet exBlock.header.number exBlock.header.version = some .v0134 := by decide
example : inUnverifiable exNet exBlock.header.number = false := by decide
example : (txView (.invoke exInvoke)).isSome = true := by decide
example : wfDiff exDiff := by unfold wfDiff; decide
/-- the same block with another timestamp (declared hash kept) is rejected, and nothing changes -/
example : (offer exSem exNet exChain { exBundle with block := { exBlock with header := { exBlock.header with timestamp := 1700000001 } } }).2
    = some .blockHash := by decide
/-- a valid block offered at the wrong position is rejected for its number -/
example : (offer exSem exNet (offer exSem exNet exChain exBundle).1 exBundle).2 = some .number := by decide
/-- the version dispatch on odd strings, as `ParseBlockVersion` does it -/
example : parseVersion (asciiBytes "0.13.2.1") = some ⟨0, 13, 2⟩ ∧ parseVersion (asciiBytes "0.14") = some ⟨0, 14, 0⟩
    ∧ parseVersion (asciiBytes "0.13.x") = none ∧ parseVersion [] = some ⟨0, 0, 0⟩ := by decide

/-- every constructor of `TxView` is inhabited by a transaction the model hash-verifies -/
example : (txView (.invoke { (default : InvokeTx) with version := 0 })).isSome = true ∧
    (txView (.invoke { (default : InvokeTx) with version := 1 })).isSome = true ∧
    (txView (.declare { (default : DeclareTx) with version := 1 })).isSome = true ∧
    (txView (.declare { (default : DeclareTx) with version := 2 })).isSome = true ∧
    (txView (.declare { (default : DeclareTx) with version := 3, bounds := ⟨some ⟨1, some 1⟩, some ⟨1, some 1⟩, none⟩ })).isSome = true ∧
    (txView (.deployAccount { (default : DeployAccountTx) with version := 1 })).isSome = true ∧
    (txView (.deployAccount { (default : DeployAccountTx) with version := 3, bounds := ⟨some ⟨1, some 1⟩, some ⟨1, some 1⟩, none⟩ })).isSome = true ∧
    (txView (.l1Handler { (default : L1HandlerTx) with version := 0, nonce := some (.felt 1) })).isSome = true := by decide
/-- a 0.13.2-format copy of the example block is accepted too (hypotheses of `tamper_rejected_v0132`) -/
def exHeader0132 : Header := { exHeader0 with version := asciiBytes "0.13.2" }
def exHash0132 : Term := (blockHash exNet ⟨exHeader0132, exBlock0.txs, exBlock0.receipts⟩ exDiff none).getD (.felt 0)
def exBundle0132 : Bundle :=
  ⟨⟨{ exHeader0132 with hash := exHash0132 }, exBlock0.txs, exBlock0.receipts⟩, ⟨exHash0132, .felt 1001, .felt 1000, exDiff⟩, []⟩
example : (offer exSem exNet exChain exBundle0132).2 = none ∧
    dispatch exNet exBundle0132.block.header.number exBundle0132.block.header.version = some .v0132 := by decide

/-- store-level non-vacuity: the example block is stored on the empty store-level node by both backends,
its index entries are there, the derived head is the block, and offering it again is refused for its number -/
def exNode1 : NodeS Nat := offerDB false exSem exNet (fun _ => 0) (emptyNode 0) (exBundle, 7)
example : verdictS (storeDB false exSem (emptyNode 0) exBundle 7 (fun _ => 0)) = none ∧
    verdictS (storeDB true exSem (emptyNode 0) exBundle 7 (fun _ => 0)) = none := by decide
example : exNode1.db.get .chainHeight = some (.num 0) ∧
    exNode1.db.get (.txIndexByHash exInvoke.hash) = some (.txIdx 0 0) ∧
    (headNumberAndHash exNode1.db).toOption = some ⟨0, exHash⟩ := by decide
example : verdictS (storeDB true exSem exNode1 exBundle 7 (fun _ => 0)) = some .number := by decide
example : (headStateRootDB exNode1.db { (default : Header) with number := 1 }).toOption = some (.felt 1001) := by decide
/-- casm metadata: declared with the V1 hash at block 3, migrated at block 9; a second migration, a migration
of a V2-declared class and a migration at the declaring block are refused -/
example : ((CasmMeta.newV1 3 0xa1 0xa2).migrate 9).toOption.map (fun m => (m.casmHashAt 2, m.casmHashAt 3, m.casmHashAt 8, m.casmHashAt 9))
      = some (none, some 0xa1, some 0xa1, some 0xa2) ∧
    (((CasmMeta.newV1 3 0xa1 0xa2).migrate 9).toOption.bind (fun m => (m.migrate 10).toOption)) = none ∧
    ((CasmMeta.newV2 3 0xa2).migrate 9).toOption = none ∧ ((CasmMeta.newV1 3 0xa1 0xa2).migrate 3).toOption = none := by decide
/-- the casm step rejects a 0.14.1 block that migrates a class without metadata -/
example : (match casmStep [] { (default : Header) with version := asciiBytes "0.14.1", number := 4 }
    { (default : StateDiff) with migrated := [(7, .felt 9)] } [] (fun _ => 0) with | .error e => some e | .ok _ => none)
    = some .metaMissing := by decide

/-- a network whose constants a short chain straddles (the harness's "network boundaries" phase uses the
same): block 0 is hashed by `pre07Hash`, block 3 by `post07Hash`, block 4 lies in the unverifiable range -/
def exBNet : Net := ⟨strFelt "SN_SEPOLIA", 2, some (4, 5), some (.felt 0x5e9)⟩
example : dispatch exBNet 0 (asciiBytes "0.10.3") = some .pre07 ∧ dispatch exBNet 2 (asciiBytes "0.10.3") = some .post07 ∧
    inUnverifiable exBNet 3 = false ∧ inUnverifiable exBNet 4 = true ∧ inUnverifiable exBNet 5 = true ∧ inUnverifiable exBNet 6 = false := by decide
def exPre07Block0 : Block := ⟨{ exOldHeader (asciiBytes "0.10.3") with stateRoot := .felt 1001 }, [.invoke exOldInvoke], [{ (default : Receipt) with txHash := exOldInvoke.hash }]⟩
def exPre07Hash : Term := (blockHash exBNet exPre07Block0 default none).getD (.felt 0)
def exPre07Bundle : Bundle :=
  ⟨{ exPre07Block0 with header := { exPre07Block0.header with hash := exPre07Hash } }, ⟨exPre07Hash, .felt 1001, .felt 1000, default⟩, []⟩
/-- a pre-0.7 block is accepted; with another transaction count (hash kept) it is rejected; with another
timestamp AND sequencer address it is still accepted (`exception_pre07_uncommitted`) -/
example : (offer exOldSem exBNet exOldChain exPre07Bundle).2 = none ∧
    (offer exOldSem exBNet exOldChain { exPre07Bundle with block := { exPre07Bundle.block with header := { exPre07Bundle.block.header with txCount := 2 } } }).2 = some .blockHash ∧
    (offer exOldSem exBNet exOldChain { exPre07Bundle with block := { exPre07Bundle.block with header := { exPre07Bundle.block.header with timestamp := 5, sequencer := some (.felt 7) } } }).2 = none := by decide

/-- round 5, body length vs header: a valid EMPTY 0.14.0 block is accepted; the same header (hash, counts 0 / 0)
with a transaction, its receipt and an event ADDED is rejected by the hash check; the non-empty example block with
its content REMOVED (header kept) too; and both tamperings change `bodyLengths` -/
def exEmptyHeader0 : Header := { exHeader0 with txCount := 0, eventCount := 0 }
def exEmptyHash : Term := (blockHash exNet ⟨exEmptyHeader0, [], []⟩ exDiff none).getD (.felt 0)
def exEmptyBundle : Bundle := ⟨⟨{ exEmptyHeader0 with hash := exEmptyHash }, [], []⟩, ⟨exEmptyHash, .felt 1001, .felt 1000, exDiff⟩, []⟩
def exEmptyFilled : Bundle := { exEmptyBundle with block := { exEmptyBundle.block with txs := [.invoke exInvoke], receipts := [exReceipt] } }
def exEmptied : Bundle := { exBundle with block := { exBundle.block with txs := [], receipts := [] } }
example : (offer exSem exNet exChain exEmptyBundle).2 = none ∧ (offer exSem exNet exChain exEmptyFilled).2 = some .blockHash ∧
    (offer exSem exNet exChain exEmptied).2 = some .blockHash ∧
    exEmptyFilled.block.header = exEmptyBundle.block.header ∧ exEmptied.block.header = exBundle.block.header ∧
    bodyLengths exEmptyFilled.block ≠ bodyLengths exEmptyBundle.block ∧ bodyLengths exEmptied.block ≠ bodyLengths exBundle.block := by decide
/-- the example blocks have count = length (hypothesis of `counts_match_inherited`), also after the adapter's derivation -/
example : countsMatch exBundle.block = true ∧ countsMatch exEmptyBundle.block = true ∧
    adaptCounts exBundle.block = exBundle.block := by decide
/-- hypotheses of `tamper_rejected_post07`: the 0.12.3 block is accepted, carries its sequencer, uses the post-0.7 format;
with another event count (hash kept) it is rejected -/
example : (offer exOldSem exOldNet exOldChain exOldBundle).2 = none ∧ exOldBundle.block.header.sequencer = some (.felt 0x5e9) ∧
    dispatch exOldNet exOldBundle.block.header.number exOldBundle.block.header.version = some .post07 ∧
    (offer exOldSem exOldNet exOldChain { exOldBundle with block := { exOldBundle.block with header := { exOldBundle.block.header with eventCount := 1 } } }).2
      = some .blockHash := by decide
/-- a Sierra class: its hash is defined in both variants of the code, another entry-point index / selector /
ABI hash / program hash / (short) version changes the view, and `VerifyClassHashes` refuses the tampered definition -/
def exSierra : SierraCls :=
  { semanticVersion := asciiBytes "0.1.0", external := [⟨0, .felt 77⟩, ⟨1, .felt 78⟩], l1Handler := [], constructor := [⟨2, .felt 79⟩],
    abiHash := .felt 4242, programHash := .felt 4244, program := [.felt 1, .felt 2, .felt 3], abi := asciiBytes "[]" }
def exSierraKey : Term := (sierraClassHash exSierra).getD (.felt 0)
example : (sierraClassHashWith false exSierra).isSome = true ∧ (sierraClassHashWith true exSierra).isSome = true ∧
    verifyClassHashesT false [(.felt 5, .cairo0), (exSierraKey, .sierra exSierra)] = true ∧
    verifyClassHashesT false [(exSierraKey, .sierra { exSierra with external := [⟨0, .felt 77⟩, ⟨2, .felt 78⟩] })] = false ∧
    verifyClassHashesT false [(exSierraKey, .sierra { exSierra with constructor := [] })] = false ∧
    verifyClassHashesT false [(exSierraKey, .sierra { exSierra with semanticVersion := asciiBytes "0.1.1" })] = false ∧
    verifyClassHashesT false [(exSierraKey, .sierra { exSierra with program := [] })] = true ∧
    sierraView { exSierra with abiHash := .felt 1 } ≠ sierraView exSierra := by decide
/-- the wrap witness on that class: same key in the code as it is, `Hash()` fails with the repair -/
example : verifyClassHashesT false [(exSierraKey, .sierra { exSierra with semanticVersion := exWrapClassVersion })] = true ∧
    verifyClassHashesT true [(exSierraKey, .sierra { exSierra with semanticVersion := exWrapClassVersion })] = false ∧
    verifyClassHashesT true [(exSierraKey, .sierra exSierra)] = true := by decide
/-- an adapted class (`adaptSierra`): hypotheses of `adapted_class_hash_commits_definition` -/
example : (sierraClassHashWith false (adaptSierra exSierra)).isSome = true ∧
    sierraClassHashWith false (adaptSierra { exSierra with program := [.felt 1, .felt 2, .felt 4] }) ≠ sierraClassHashWith false (adaptSierra exSierra) := by decide

/-- hypotheses of the two all-histories theorems of round 5: the example blocks ARE stored by the histories that offer them
(after a rejected tampered copy, too) -/
example : exBundle ∈ (run exSem exNet exChain [exEmptied, exBundle]).stored ∧
    exOldBundle ∈ (run exOldSem exOldNet exOldChain [exOldBundle]).stored := by decide

/-- `classesOfT` (the class map of `accepted_block_class_definitions_verify`): a Sierra definition under the value of its own
hash term verifies in `accept`'s `verifyClassHashes`, under another key it does not. (The evaluation used here is NOT injective —
it only has to separate the two literals; the theorem's `hinj` is the standing ideal-hash assumption of checks/c02.json: the term
algebra is countable, an injective evaluation exists, none is constructed.) -/
example : verifyClassHashes (classesOfT false (fun t => match t with | .felt n => n | _ => 12345) [(.felt 12345, .sierra exSierra)]) = true ∧
    verifyClassHashes (classesOfT false (fun t => match t with | .felt n => n | _ => 12345) [(.felt 5, .sierra exSierra)]) = false := by decide

/-- `casm_step_stops_at_malformed_compiled_class`: a 0.13.2 block declaring class 7 whose definition's compiled class cannot be
hashed ends the casm step with `compiledHash`; with a well-formed one it writes the metadata; the same block labelled 0.14.1 does
not look at the flag -/
example : (match casmStep [] { (default : Header) with version := asciiBytes "0.13.2", number := 4 }
      { (default : StateDiff) with declaredV1 := [(7, .felt 9)] } [(7, ⟨false, 7, true⟩)] (fun _ => 0) with | .error e => some e | .ok _ => none)
      = some .compiledHash ∧
    (casmStep [] { (default : Header) with version := asciiBytes "0.13.2", number := 4 }
      { (default : StateDiff) with declaredV1 := [(7, .felt 9)] } [(7, ⟨false, 7, false⟩)] (fun _ => 0)).toOption.isSome = true ∧
    (casmStep [] { (default : Header) with version := asciiBytes "0.14.1", number := 4 }
      { (default : StateDiff) with declaredV1 := [(7, .felt 9)] } [(7, ⟨false, 7, true⟩)] (fun _ => 0)).toOption.isSome = true := by decide

/-- round 6: the example block with (a) an EMPTY storage map added to its diff — `Length()` unchanged —, (b) its nonce entry
replaced by a storage entry — `Length()` unchanged —, (c) its two header counts changed with the same sum (hash kept each time)
is rejected by the hash check; (d) with a Sierra definition under a wrong key in `newClasses`, which the diff does not
declare, by the class check. Hypotheses of `length_preserving_diff_change_rejected`, `compensating_counts_rejected`,
`class_list_verified_independently_of_the_diff`, `state_diff_hash_pins_length`. -/
def exDiffEmptyMap : StateDiff := { exDiff with storage := exDiff.storage ++ [(0x7e57ab1e, [])] }
def exDiffNonceToSlot : StateDiff := { exDiff with nonces := [], storage := [(0x101, [(1, .felt 5), (2, .felt 9)])] }
example : stateDiffLength exDiffEmptyMap = stateDiffLength exDiff ∧ stateDiffLength exDiffNonceToSlot = stateDiffLength exDiff ∧
    stateDiffFlat exDiffEmptyMap ≠ stateDiffFlat exDiff ∧ stateDiffFlat exDiffNonceToSlot ≠ stateDiffFlat exDiff ∧
    (offer exSem exNet exChain { exBundle with su := { exBundle.su with diff := exDiffEmptyMap } }).2 = some .blockHash ∧
    (offer exSem exNet exChain { exBundle with su := { exBundle.su with diff := exDiffNonceToSlot } }).2 = some .blockHash ∧
    (offer exSem exNet exChain { exBundle with block := { exBlock with header := { exBlock.header with txCount := 2, eventCount := 0 } } }).2 = some .blockHash ∧
    (offer exSem exNet exChain { exBundle with classes := exBundle.classes ++ [(11, ⟨false, 12, false⟩)] }).2 = some .classHash ∧
    exBundle.su.diff.declaredV1 = [] := by decide
example : wfDiff exDiffEmptyMap ∧ wfDiff exDiffNonceToSlot := by constructor <;> (unfold wfDiff; decide)

/-- `class_version_committed`, `store_never_panics_on_the_compiled_class`: the example class hashes in the code as it is; the
malformed compiled class of `store_panics_on_malformed_compiled_class` is now an error -/
example : (sierraClassHash exSierra).isSome = true ∧ sierraClassHash { exSierra with semanticVersion := exWrapClassVersion } = none ∧
    casmV2HashOutcome (some ⟨3, flatSegs [2, 2]⟩) = .error ∧ casmV2HashOutcome none = .error ∧
    casmV2HashOutcome (some ⟨4, flatSegs [2, 2]⟩) = .value := by decide

end Examples

end Juno.C02.Props
