import JunoModel.C02.Model
/-
C02 — model, part 2: block acceptance.
`Blockchain.SanityCheckNewHeight` (blockchain/blockchain.go) → `core.VerifyBlockHash`
(core/block.go) → `core.VerifyTransactions`; then `stateBackend.Store`
(blockchain/statebackend/{statebackend,deprecated}.go) = `verifyBlockSuccession` + `state.Update`
(old-root check, apply diff, new-root check) + `writeBlockContent`, all inside ONE
`database.Write/Update` whose batch is dropped when the callback returns an error.

The state itself (tries, contracts) is C01/C03 territory; here it is a parameter `StateSem`:
`root st version` is `State.Commitment(protocolVersion)`, `apply` is the mutation part of
`State.Update` (`none` = it returned an error). Equality of felts is equality of terms (ideal hash).
Core Lean only.
-/
namespace Juno.C02

structure StateUpdate where
  blockHash : Term
  newRoot : Term
  oldRoot : Term
  diff : StateDiff
deriving DecidableEq, Repr, Inhabited

/-- A class definition as far as acceptance is concerned: whether it is a Cairo-0 class (never
verified) and the number `class.Hash()` computes from the definition. -/
structure ClassDef where
  cairo0 : Bool
  computedHash : Nat
  /-- round 5: `sierraClass.Compiled.Hash(HashVersionV2)` does NOT return for this definition — `Compiled` is nil, or
  the bytecode is shorter than its segment lengths (`ModelBody.lean: compiledHashPanics` says exactly when). Read by
  `storeCasmHashMetadataV1` only (ModelStore.lean `casmV1`); no check of `SanityCheckNewHeight` looks at it. -/
  compiledBad : Bool := false
deriving DecidableEq, Repr, Inhabited

abbrev Classes := List (Nat × ClassDef)

structure Bundle where
  block : Block
  su : StateUpdate
  classes : Classes
deriving DecidableEq, Repr, Inhabited

inductive Reject
  | suBlockHash | suNewRoot | classHash | txReceiptLen | receiptTxHash | txHash | blockHash
  | version | number | parent | state
  | malformed
deriving DecidableEq, Repr, Inhabited

/-- `core.VerifyClassHashes`: Cairo-0 classes are skipped. -/
def verifyClassHashes (cs : Classes) : Bool :=
  cs.all (fun kc => kc.2.cairo0 || kc.2.computedHash == kc.1)

/-- `VerifyTransactions` with its error classes. -/
def verifyTransactionsE (chain : Term) (txs : List Tx) (version : Bytes) : Except Reject Unit :=
  match parseVersion version with
  | none => .error .version
  | some _ => if verifyTransactions chain txs version then .ok () else .error .txHash

def inUnverifiable (net : Net) (n : UInt64) : Bool :=
  match net.unverifiable with
  | some (lo, hi) => lo ≤ n && n ≤ hi
  | none => false

/-- the fallback sequencer addresses `VerifyBlockHash` tries, in order: zero, then the network's -/
def fallbackAddrs (net : Net) : List Term :=
  (.felt 0) :: (match net.fallbackSeq with | some f => [f] | none => [])

/-- the `overrideSeqAddr` arguments `VerifyBlockHash` can pass to `BlockHash` for this block: none when
the header has a sequencer address, else one of the fallbacks -/
def overridesOf (net : Net) (b : Block) : List (Option Term) :=
  if b.header.sequencer.isNone then (fallbackAddrs net).map some else [none]

/-- the loop over fallback sequencer addresses at the end of `core.VerifyBlockHash`. -/
def tryFallbacks (net : Net) (b : Block) (sd : StateDiff) (skip : Bool) : List Term → Except Reject Unit
  | [] => .error .blockHash
  | fb :: rest =>
    let ov : Option Term := if b.header.sequencer.isNone then some fb else none
    match blockHash net b sd ov with
    | none => .error .blockHash
    | some h => if h = b.header.hash then .ok () else if skip then .ok () else tryFallbacks net b sd skip rest

/-- SWITCH (the model follows the code). `false`: `/repo` as it is — `VerifyBlockHash` does not look at the
calldata of L1-handler transactions, so a self-consistent block with an L1 handler WITHOUT calldata
passes and `Store` then panics in `MessageHash` (`ModelStore.lean`, `RejectS.panicL1`). `true`: with
`proposed-fixes/C02-store-panics-on-l1-handler-without-calldata.diff` the block is rejected as malformed. -/
def l1CalldataChecked : Bool := true

/-- an L1-handler transaction whose calldata is empty (no L1 sender address) -/
def l1NoCalldata : Tx → Bool
  | .l1Handler l => l.callData.isEmpty
  | _ => false

/-- `core.VerifyBlockHash`. -/
def verifyBlockHash (net : Net) (b : Block) (sd : StateDiff) : Except Reject Unit :=
  if b.txs.length ≠ b.receipts.length then .error .txReceiptLen
  else if !(List.zip b.txs b.receipts).all (fun tr => tr.1.hash == some tr.2.txHash) then .error .receiptTxHash
  else if l1CalldataChecked && b.txs.any l1NoCalldata then .error .malformed
  else
    let skip := inUnverifiable net b.header.number
    match (if skip then .ok () else verifyTransactionsE net.chainId b.txs b.header.version) with
    | .error e => .error e
    | .ok () =>
      tryFallbacks net b sd skip (fallbackAddrs net)

/-- `Blockchain.SanityCheckNewHeight`. -/
def sanityCheck (net : Net) (B : Bundle) : Except Reject Unit :=
  if B.block.header.hash ≠ B.su.blockHash then .error .suBlockHash
  else if B.block.header.stateRoot ≠ B.su.newRoot then .error .suNewRoot
  else if !verifyClassHashes B.classes then .error .classHash
  else verifyBlockHash net B.block B.su.diff

structure Head where
  number : UInt64
  hash : Term
deriving DecidableEq, Repr, Inhabited

structure StateSem (σ : Type) where
  root : σ → Bytes → Term
  apply : σ → UInt64 → StateDiff → Classes → Option σ

/-- what a node holds: the head (none = empty chain), the state, and the stored bundles (newest first). -/
structure Chain (σ : Type) where
  head : Option Head
  st : σ
  stored : List Bundle

/-- the block number `verifyBlockSuccession` expects: head + 1 (uint64 arithmetic), 0 on an empty chain -/
def expectedNumber : Option Head → UInt64
  | some hd => hd.number + 1
  | none => 0

/-- the parent hash `verifyBlockSuccession` expects: the head's hash, zero on an empty chain -/
def expectedParent : Option Head → Term
  | some hd => hd.hash
  | none => .felt 0

/-- `verifyBlockSuccession`. -/
def verifySuccession (head : Option Head) (h : Header) : Except Reject Unit :=
  if !versionSupported h.version then .error .version
  else if expectedNumber head ≠ h.number then .error .number
  else if h.parentHash ≠ expectedParent head then .error .parent
  else .ok ()

/-- the callback `Store` runs inside the database batch, as a pure function of the chain. -/
def storeTxn {σ : Type} (sem : StateSem σ) (c : Chain σ) (B : Bundle) : Except Reject (Chain σ) :=
  match verifySuccession c.head B.block.header with
  | .error e => .error e
  | .ok () =>
    if sem.root c.st B.block.header.version ≠ B.su.oldRoot then .error .state
    else match sem.apply c.st B.block.header.number B.su.diff B.classes with
      | none => .error .state
      | some st' =>
        if sem.root st' B.block.header.version ≠ B.su.newRoot then .error .state
        else .ok ⟨some ⟨B.block.header.number, B.block.header.hash⟩, st', B :: c.stored⟩

/-- SWITCH (the model follows the code). `false`: `/repo` as it is — the new state backend's
`Store` opens the state with `state.New(stateUpdate.OldRoot, …)`. `true`: with
`proposed-fixes/C02-new-state-backend-old-root-unchecked.diff` it opens it at the head's stored root. -/
def newBackendOpensAtHeadRoot : Bool := true

/-- `state.New(root)` of the new backend (`trie2.New`): a ZERO root selects empty tries, any other
root resolves the tries currently on disk (`cur`). -/
def openedAt {σ : Type} (empty cur : σ) (root : Term) : σ := if root = .felt 0 then empty else cur

/-- `stateBackend.Store` (new state backend, core/state). Same as `storeTxn` except for the state
the diff is applied to: as the code is, the state opened at the caller-supplied `OldRoot`, which
makes `verifyComm(OldRoot)` compare `OldRoot` with itself when it is zero. (`empty` abstracts
"empty tries over the current flat state".) -/
def storeTxnNewBackendWith {σ : Type} (opensAtHeadRoot : Bool) (sem : StateSem σ) (empty : σ) (c : Chain σ) (B : Bundle) :
    Except Reject (Chain σ) :=
  match verifySuccession c.head B.block.header with
  | .error e => .error e
  | .ok () =>
    let st := if opensAtHeadRoot then c.st else openedAt empty c.st B.su.oldRoot
    if sem.root st B.block.header.version ≠ B.su.oldRoot then .error .state
    else match sem.apply st B.block.header.number B.su.diff B.classes with
      | none => .error .state
      | some st' =>
        if sem.root st' B.block.header.version ≠ B.su.newRoot then .error .state
        else .ok ⟨some ⟨B.block.header.number, B.block.header.hash⟩, st', B :: c.stored⟩

/-- the new backend's `Store` of the code as it is -/
def storeTxnNewBackend {σ : Type} (sem : StateSem σ) (empty : σ) (c : Chain σ) (B : Bundle) : Except Reject (Chain σ) :=
  storeTxnNewBackendWith newBackendOpensAtHeadRoot sem empty c B

/-- `SanityCheckNewHeight` then `Store`, as the synchroniser calls them. -/
def accept {σ : Type} (sem : StateSem σ) (net : Net) (c : Chain σ) (B : Bundle) : Except Reject (Chain σ) :=
  match sanityCheck net B with
  | .error e => .error e
  | .ok () => storeTxn sem c B

/-- `none` = accepted, `some e` = rejected with class `e`. -/
def verdict {α : Type} : Except Reject α → Option Reject
  | .ok _ => none
  | .error e => some e

/-- offering a block to a node: the chain afterwards and the verdict. -/
def offer {σ : Type} (sem : StateSem σ) (net : Net) (c : Chain σ) (B : Bundle) : Chain σ × Option Reject :=
  match accept sem net c B with
  | .ok c' => (c', none)
  | .error e => (c, some e)

/-! ## The write batch (`db.Write` / `db.Update` of the memory and Pebble stores)

`Store` performs all its effects through one batch: `fn(batch)` runs first, and only if it returns
nil is `batch.Write()` called. The steps of the callback (state update, header, transactions and
receipts, state update blob, commitments, L1-handler message hashes, CASM metadata, chain height,
running event filter) are modelled as a list of functions that read the committed store and the
pending batch and either extend the batch or fail. -/

abbrev KV := List (Bytes × Option Bytes)   -- a batch: puts (some v) and deletes (none), oldest first

def applyBatch (store : Bytes → Option Bytes) (batch : KV) : Bytes → Option Bytes :=
  batch.foldl (fun s op => fun k => if k = op.1 then op.2 else s k) store

abbrev Step := (Bytes → Option Bytes) → KV → Option KV

def runSteps (store : Bytes → Option Bytes) : List Step → KV → Option KV
  | [], batch => some batch
  | s :: rest, batch =>
    match s store batch with
    | none => none
    | some batch' => runSteps store rest batch'

/-- `database.Write(fn)`: the store afterwards and whether `fn` succeeded. -/
def dbWrite (store : Bytes → Option Bytes) (steps : List Step) : (Bytes → Option Bytes) × Bool :=
  match runSteps store steps [] with
  | some batch => (applyBatch store batch, true)
  | none => (store, false)

/-! ## `Store` as its concrete list of writes (blockchain/statebackend/{statebackend,deprecated,block_ops}.go)

The callback of `database.Write/Update` in `Store`, step by step, in the order of the code:
`verifyBlockSuccession` (reads only), `state.Update` (state / trie / history keys), then
`writeBlockContent`: `WriteBlockHeader` (header by number + number by hash),
`WriteTransactionsAndReceipts`, `WriteStateUpdateByBlockNum`, `WriteBlockCommitment`,
`WriteL1HandlerMsgHashes`, `storeCasmHashMetadata`, `WriteChainHeight`, and finally
`runningFilter.InsertWithBatch`. Every step receives the batch; besides its logical verdict
(`successionOK`, `stateOK`) each step can fail on I/O (`ioFail k`). The harness ties this to the
code by fault injection: it makes the k-th batch operation of a valid block's `Store` fail, for
every k, and compares the database byte for byte. -/

inductive Bucket
  | chainHeight | headerByNumber | numberByHash | txsAndReceipts | stateUpdate | commitments
  | l1HandlerMsgHashes | casmMetadata | state | eventFilter
deriving DecidableEq, Repr

abbrev DKey := Bucket × Nat
abbrev DB := DKey → Option Nat
abbrev WBatch := List (DKey × Option Nat)     -- puts (some v) / deletes (none), oldest first

def DB.applyBatch (db : DB) (b : WBatch) : DB :=
  b.foldl (fun d op => fun k => if k = op.1 then op.2 else d k) db

/-- what `Store` is asked to write (contents abstracted to numbers) -/
structure StoreInput where
  number : Nat
  hashId : Nat
  header : Nat
  body : Nat
  su : Nat
  commitments : Nat
  l1msgs : List (Nat × Nat)
  casm : List (Nat × Nat)
  stateWrites : List (Nat × Option Nat)
  bloom : Nat
  successionOK : Bool
  stateOK : Bool

/-- a step of the callback: whether it succeeds, and the writes it appends to the batch -/
abbrev SStep := Bool × WBatch

/-- the ten steps of the callback; `ioFail k` makes step `k` fail on I/O -/
def storeSteps (i : StoreInput) (ioFail : Nat → Bool) : List SStep :=
  [ (i.successionOK && !ioFail 0, []),
    (i.stateOK && !ioFail 1, i.stateWrites.map (fun w => ((Bucket.state, w.1), w.2))),
    (!ioFail 2, [((.headerByNumber, i.number), some i.header), ((.numberByHash, i.hashId), some i.number)]),
    (!ioFail 3, [((.txsAndReceipts, i.number), some i.body)]),
    (!ioFail 4, [((.stateUpdate, i.number), some i.su)]),
    (!ioFail 5, [((.commitments, i.number), some i.commitments)]),
    (!ioFail 6, i.l1msgs.map (fun m => ((Bucket.l1HandlerMsgHashes, m.1), some m.2))),
    (!ioFail 7, i.casm.map (fun m => ((Bucket.casmMetadata, m.1), some m.2))),
    (!ioFail 8, [((.chainHeight, 0), some i.number)]),
    (!ioFail 9, [((.eventFilter, 0), some i.bloom)]) ]

/-- run the steps in order: the first failing step aborts the callback -/
def runSSteps : List SStep → WBatch → Option WBatch
  | [], b => some b
  | (ok, ops) :: rest, b => if ok then runSSteps rest (b ++ ops) else none

/-- `database.Write(fn)` / `Update(fn)`: the batch is written only when `fn` returned nil -/
def dbStore (db : DB) (i : StoreInput) (ioFail : Nat → Bool) : DB × Bool :=
  match runSSteps (storeSteps i ioFail) [] with
  | some b => (db.applyBatch b, true)
  | none => (db, false)

/-! ## Histories with reverts

`RevertHead` pops the head block; that it restores exactly the previous state is property C04 and is
assumed here: a node is the stack of its chain snapshots. -/

inductive Op
  | offer (B : Bundle)
  | revert

structure NodeSt (σ : Type) where
  cur : Chain σ
  prev : List (Chain σ)      -- snapshots before each stored block, newest first

def stepOp {σ : Type} (sem : StateSem σ) (net : Net) (n : NodeSt σ) : Op → NodeSt σ
  | .offer B =>
    match accept sem net n.cur B with
    | .ok c' => ⟨c', n.cur :: n.prev⟩
    | .error _ => n
  | .revert =>
    match n.prev with
    | p :: ps => ⟨p, ps⟩
    | [] => n                 -- RevertHead on an empty chain fails

def runOps {σ : Type} (sem : StateSem σ) (net : Net) : NodeSt σ → List Op → NodeSt σ
  | n, [] => n
  | n, o :: rest => runOps sem net (stepOp sem net n o) rest

end Juno.C02
