/-
C11 — `jsonrpc/pretty_error.go`: the index arithmetic of the parse-error pretty printer.
The text it draws is not part of the property, but it runs on every unparsable input and slices
byte and rune arrays with computed indices: an index out of range is a panic, i.e. a crash of the
server on a byte sequence. Modelled: `windowBuffer.Write` (the last 512 bytes seen through the
`TeeReader`), `errorOffset`, the marker position / line / column computation of
`prettyParseError` + `lineAndColumn`, and the cut computed by `truncateAround`.
Core Lean only (linked into `c11drv`).
-/
namespace Juno.C11.Pretty

def maxWindowSize : Nat := 512
def maxLineWidth : Nat := 80

/-- `windowBuffer` -/
structure Win where
  window : List UInt8 := []
  consumedBytes : Nat := 0
  newlinesSeen : Nat := 0
  deriving Repr

def countNL (p : List UInt8) : Nat := p.count 10

/-- `windowBuffer.Write` -/
def Win.write (c : Win) (p : List UInt8) : Win :=
  let consumed := c.consumedBytes + p.length
  let newlines := c.newlinesSeen + countNL p
  if p.length ≥ maxWindowSize then
    { window := p.drop (p.length - maxWindowSize), consumedBytes := consumed, newlinesSeen := newlines }
  else
    -- overflow := len(window) + len(p) - maxWindowSize; if overflow > 0 the oldest bytes go
    let overflow := c.window.length + p.length - maxWindowSize   -- truncated subtraction = max 0
    { window := c.window.drop overflow ++ p, consumedBytes := consumed, newlinesSeen := newlines }

/-- the buffer after the reads the decoder made -/
def Win.writes (c : Win) (chunks : List (List UInt8)) : Win := chunks.foldl Win.write c

/-- the error `dec.Decode` returned, as far as `errorOffset` distinguishes -/
inductive DecodeErr where
  | syntax (offset : Int)      -- *json.SyntaxError
  | type (offset : Int)        -- *json.UnmarshalTypeError
  | eof                        -- io.EOF / io.ErrUnexpectedEOF
  | other
  deriving Repr

/-- `errorOffset(inputLength, err)` -/
def errorOffset (inputLength : Nat) : DecodeErr → Option Int
  | .syntax o => some (min (o - 1) inputLength)
  | .type o => some (min (o - 1) inputLength)
  | .eof => some inputLength
  | .other => none

/-! ### `utf8.RuneCount` -/

def isCont (b : UInt8) : Bool := 0x80 ≤ b.toNat ∧ b.toNat ≤ 0xBF

/-- length of the well-formed UTF-8 sequence at the head of the list, 1 for anything else (an
invalid byte counts as one rune of width 1) -/
def runeWidth : List UInt8 → Nat
  | [] => 0
  | b0 :: rest =>
    let x := b0.toNat
    if x < 0x80 then 1
    else if 0xC2 ≤ x ∧ x ≤ 0xDF then
      match rest with
      | b1 :: _ => if isCont b1 then 2 else 1
      | _ => 1
    else if 0xE0 ≤ x ∧ x ≤ 0xEF then
      match rest with
      | b1 :: b2 :: _ =>
        let lo := if x = 0xE0 then 0xA0 else 0x80
        let hi := if x = 0xED then 0x9F else 0xBF
        if lo ≤ b1.toNat ∧ b1.toNat ≤ hi ∧ isCont b2 then 3 else 1
      | _ => 1
    else if 0xF0 ≤ x ∧ x ≤ 0xF4 then
      match rest with
      | b1 :: b2 :: b3 :: _ =>
        let lo := if x = 0xF0 then 0x90 else 0x80
        let hi := if x = 0xF4 then 0x8F else 0xBF
        if lo ≤ b1.toNat ∧ b1.toNat ≤ hi ∧ isCont b2 ∧ isCont b3 then 4 else 1
      | _ => 1
    else 1

def runeCountFuel : Nat → List UInt8 → Nat
  | 0, _ => 0
  | _, [] => 0
  | fuel + 1, bs => 1 + runeCountFuel fuel (bs.drop (runeWidth bs))

def runeCount (bs : List UInt8) : Nat := runeCountFuel bs.length bs

/-- `bytes.LastIndexByte(bs, '\n') + 1` -/
def lineStartOf (bs : List UInt8) : Nat :=
  match (bs.reverse.idxOf? 10) with
  | some i => bs.length - i
  | none => 0

/-- where the caret goes -/
structure Pos where
  markerPos : Nat
  line : Nat
  col : Nat
  deriving Repr, DecidableEq

/-- `prettyParseError` up to the call of `drawMarker`: `none` = no caret (the error offset is
unknown, or it lies before the window) -/
def position (c : Win) (err : DecodeErr) (skipped : Nat := 0) : Option Pos :=
  -- `skipped` = `windowBuffer.skippedBytes` (since 4590891): leading blanks `isBatch` consumed before the
  -- decoder started; decoder offsets are relative to them
  match (errorOffset (c.consumedBytes - skipped) err).map (· + (skipped : Int)) with
  | none => none
  | some absOffset =>
    let windowStart : Int := (c.consumedBytes : Int) - (c.window.length : Int)
    if absOffset < windowStart then none
    else
      let markerPos := (absOffset - windowStart).toNat
      -- lineAndColumn
      let line := c.newlinesSeen - countNL (c.window.drop markerPos) + 1
      let before := c.window.take markerPos
      let lineStart := lineStartOf before
      let col := runeCount (before.drop lineStart) + 1
      some { markerPos := markerPos, line := line, col := col }

/-- `truncateAround(line, pivot, maxLineWidth)` for a line of `len` runes: the slice bounds
`runes[start:end]` and the new column of the pivot; `none` = the line is short enough and is
returned unchanged (with `pivot`). Go `int` arithmetic. -/
def truncateAround (len : Nat) (pivot : Int) : Option (Int × Int × Int) :=
  if len ≤ maxLineWidth then none
  else
    let ellipsis : Int := 3
    let maxContextSize : Int := (maxLineWidth : Int) - 2 * ellipsis
    let pivotIdx : Int := min (pivot - 1) len
    let start0 : Int := max 0 (pivotIdx - maxContextSize / 2)
    let end_ : Int := min (start0 + maxContextSize) len
    let start : Int := max 0 (end_ - maxContextSize)
    let left : Int := if start > 0 then ellipsis else 0
    some (start, end_, pivotIdx - start + left + 1)

end Juno.C11.Pretty
