import JunoModel.C11.Model
import JunoModel.C11.ModelFloat
/-
C11 — the concrete `Env` used by the correspondence harness: what `json.Unmarshal` into the Go
parameter types of the harness' recording handlers accepts and produces, what the validator
(`rpc/v10/validator.go`: `felt_max_bits`, `version_0x3`; built-in `min`, `required`) rejects, and
how the recording handlers answer. Core Lean only (linked into `c11drv`).

The theorems in Props.lean hold for EVERY `Env`; this instance only serves the tie, except for the
small arithmetic facts about the validator stated in Props.lean.
-/
namespace Juno.C11

/-! ## integers (`strconv.ParseInt(text, 10, 64)` on a JSON number literal) -/

def digitsVal (cs : List Char) : Option Nat :=
  cs.foldl (fun acc c => do
    let a ← acc
    if '0' ≤ c ∧ c ≤ '9' then pure (a * 10 + (c.toNat - 48)) else none) (some 0)

/-- value of a JSON number literal that is a plain integer (`-`? digits), if it fits an int64 -/
def parseInt64 (t : String) : Option Int :=
  match t.toList with
  | [] => none
  | '-' :: ds =>
    if ds.isEmpty then none else
    match digitsVal ds with
    | some n => if n ≤ 9223372036854775808 then some (-(n : Int)) else none
    | none => none
  | ds =>
    match digitsVal ds with
    | some n => if n ≤ 9223372036854775807 then some (n : Int) else none
    | none => none

def decodeInt : Json → Option Int
  | .null => some 0          -- Unmarshal of null into a non-pointer is a no-op
  | .num t => parseInt64 t
  | _ => none

def intJson (i : Int) : Json := .num (toString i)

/-! ## `any` / `json.RawMessage` parameters -/

mutual
/-- numbers of a value stored in a Go `any` are float64: every number literal is replaced by
what `json.Marshal` writes for the float64 it parses to; `none` if one of them overflows
(`json.Unmarshal` then fails) -/
def floatNums : Json → Option Json
  | .num t => (F64.roundTrip t).map .num
  | .arr xs => (floatNumsList xs).map .arr
  | .obj kvs => (floatNumsMembers kvs).map .obj
  | j => some j
def floatNumsList : List Json → Option (List Json)
  | [] => some []
  | x :: xs => do
    let y ← floatNums x
    let ys ← floatNumsList xs
    pure (y :: ys)
def floatNumsMembers : List (String × Json) → Option (List (String × Json))
  | [] => some []
  | (k, v) :: r => do
    let y ← floatNums v
    let ys ← floatNumsMembers r
    pure ((k, y) :: ys)
end

/-! ## struct parameters with validation -/

def foldEq (key : String) (upper : String) : Bool := foldName key == upper.toList

def listAll? {α β : Type} (f : α → Option β) : List α → Option (List β)
  | [] => some []
  | x :: xs => do
    let y ← f x
    let ys ← listAll? f xs
    pure (y :: ys)

/-- `json.Unmarshal` into `struct{ A int `validate:"min=1"` }` (before validation): the value
of `A`, `none` on a type error. `null` leaves the zero struct. -/
def decodeVStructRaw : Json → Option Int
  | .null => some 0
  | .obj kvs =>
    let st : Option Int × Bool := kvs.foldl (fun (st : Option Int × Bool) kv =>
      if kv.1 == "A" || foldEq kv.1 "A" then
        match kv.2 with
        | .null => st
        | .num t => match parseInt64 t with
          | some i => (some i, st.2)
          | none => (st.1, true)
        | _ => (st.1, true)
      else st) (none, false)
    if st.2 then none else some (st.1.getD 0)
  | _ => none

def vstructJson (a : Int) : Json := .obj [("A", intJson a)]

/-- … followed by `validator.Struct`: `min=1` -/
def decodeVStruct (v : Json) : Option Json :=
  match decodeVStructRaw v with
  | some a => if a ≥ 1 then some (vstructJson a) else none
  | none => none

/-- `[]struct{A}`: `validateParam` walks the slice and validates every element -/
def decodeVSlice : Json → Option Json
  | .null => some .null
  | .arr xs => (listAll? decodeVStruct xs).map .arr
  | _ => none

/-- `map[string]*struct{A}`: `validateParam` walks the map; a nil pointer is not validated -/
def decodeVMap : Json → Option Json
  | .null => some .null
  | .obj kvs =>
    (listAll? (fun (kv : String × Json) => match kv.2 with
      | .null => some (kv.1, Json.null)
      | v => (decodeVStruct v).map (fun j => (kv.1, j))) kvs).map .obj
  | _ => none

def hexVal? (c : Char) : Option Nat :=
  if '0' ≤ c ∧ c ≤ '9' then some (c.toNat - 48)
  else if 'a' ≤ c ∧ c ≤ 'f' then some (c.toNat - 87)
  else if 'A' ≤ c ∧ c ≤ 'F' then some (c.toNat - 55)
  else none

def feltPrime : Nat := 2 ^ 251 + 17 * 2 ^ 192 + 1

/-- `felt.Felt.UnmarshalJSON` on a JSON string: `0x`/`0X`, 1..64 hex digits, value below P -/
def feltOf (s : String) : Option Nat :=
  match s.toList with
  | '0' :: x :: ds =>
    if (x == 'x' || x == 'X') && !ds.isEmpty && ds.length ≤ 64 then
      match ds.foldl (fun acc c => do let a ← acc; let v ← hexVal? c; pure (a * 16 + v)) (some 0) with
      | some n => if n < feltPrime then some n else none
      | none => none
    else none
  | _ => none

def hexDigitChar (n : Nat) : Char := if n < 10 then Char.ofNat (48 + n) else Char.ofNat (87 + n)

/-- `Felt.String()`: 0x + lower-case hex without leading zeros -/
def feltString (n : Nat) : String := "0x" ++ String.ofList (Nat.toDigits 16 n)

/-- number of bits of `n` (`big.Int.BitLen`) -/
def bitLen : Nat → Nat
  | 0 => 0
  | n + 1 => 1 + bitLen ((n + 1) / 2)
decreasing_by omega

/-- `validateFeltMaxBits` on a felt value -/
def feltMaxBits (n bits : Nat) : Bool := bitLen n ≤ bits

/-- `validateVersion03` on a felt value: "0x3" or "0x100000000000000000000000000000003" -/
def version03 (n : Nat) : Bool := n == 3 || n == 2 ^ 128 + 3

/-- store into a `*felt.Felt` field: `some none` = nil pointer, `none` = decode error -/
def storeFelt : Json → Option (Option Nat)
  | .null => some none
  | .str s => (feltOf s).map some
  | _ => none

/-- `struct{ MaxAmount *felt.Felt `json:"max_amount" validate:"required,felt_max_bits=64"`;
            MaxPricePerUnit *felt.Felt `json:"max_price_per_unit" validate:"required,felt_max_bits=128"`;
            Version *felt.Felt `json:"version" validate:"required,version_0x3"` }`
(the first two as in `rpc/v10/transaction_types.go` `ResourceBounds`, the third as in
`BroadcastedTransaction.Version`). State: the three pointers and "a decode error happened". -/
structure BoundsSt where
  ma : Option Nat := none
  mp : Option Nat := none
  ver : Option Nat := none
  err : Bool := false

def boundsStep (st : BoundsSt) (kv : String × Json) : BoundsSt :=
  if st.err then st
  else if kv.1 == "max_amount" || foldEq kv.1 "MAX_AMOUNT" then
    match storeFelt kv.2 with
    | some v => { st with ma := v }
    | none => { st with err := true }
  else if kv.1 == "max_price_per_unit" || foldEq kv.1 "MAX_PRICE_PER_UNIT" then
    match storeFelt kv.2 with
    | some v => { st with mp := v }
    | none => { st with err := true }
  else if kv.1 == "version" || foldEq kv.1 "VERSION" then
    match storeFelt kv.2 with
    | some v => { st with ver := v }
    | none => { st with err := true }
  else st

/-- the validator on the decoded struct: all three `required`, the bit limits, the version -/
def boundsValid (ma mp ver : Nat) : Bool := feltMaxBits ma 64 && feltMaxBits mp 128 && version03 ver

def decodeBounds : Json → Option Json
  | .obj kvs =>
    let st := kvs.foldl boundsStep {}
    if st.err then none else
    match st.ma, st.mp, st.ver with
    | some ma, some mp, some ver =>
      if boundsValid ma mp ver then
        some (.obj [("max_amount", .str (feltString ma)), ("max_price_per_unit", .str (feltString mp)),
                    ("version", .str (feltString ver))])
      else none
    | _, _, _ => none                     -- `required` fails on a nil pointer
  | _ => none                             -- null: zero struct fails `required`; others: type error

/-! ## the environment -/

/-- (`strictAny` is unused since numbers at `any` are modelled exactly, see ModelFloat.lean) -/
def goDecode (_strictAny : Bool) : PType → Json → Option Json
  | .any, v => floatNums (canon v)
  | .raw, v => some (canon v)
  | .int, v => (decodeInt v).map intJson
  | .str, .null => some (.str "")
  | .str, .str s => some (.str s)
  | .str, _ => none
  | .bool, .null => some (.bool false)
  | .bool, .bool b => some (.bool b)
  | .bool, _ => none
  | .ptrInt, .null => some .null
  | .ptrInt, v => (decodeInt v).map intJson
  | .ints, .null => some .null
  | .ints, .arr xs => (listAll? decodeInt xs).map (fun is => .arr (is.map intJson))
  | .ints, _ => none
  | .vstruct, v => decodeVStruct (canon v)
  | .bounds, v => decodeBounds (canon v)
  | .vslice, v => decodeVSlice (canon v)
  | .vmap, v => decodeVMap (canon v)

def goZero : PType → Json
  | .any => .null
  | .raw => .null
  | .int => .num "0"
  | .str => .str ""
  | .bool => .bool false
  | .ptrInt => .null
  | .ints => .null
  | .vstruct => .obj [("A", .num "0")]
  | .bounds => .obj [("max_amount", .null), ("max_price_per_unit", .null), ("version", .null)]
  | .vslice => .null
  | .vmap => .null

/-- behaviours of the harness' recording handlers -/
inductive Behaviour where
  | echo | fail | internal | nilres | typednil | both
  /-- returns a value `json.Marshal` rejects (NaN) -/
  | unmarshalable
  /-- panics -/
  | panic
  /-- blocks until the request context is cancelled, then answers like `echo` -/
  | waitctx
  /-- (round 5) results / errors that are zero values of their Go type: `0`, `""`, `false`, `&Error{0, "", 0}` -/
  | zeroint | emptystr | falseres | failzero
  deriving Repr, DecidableEq, Inhabited

def behave (b : Behaviour) (args : List Json) : HResult :=
  match b with
  | .echo => { result := some (.arr args) }
  | .fail => { error := some { code := 44, message := "Expected Error", data := args.head? } }
  | .internal => { error := some (mkErr InternalError none) }
  | .nilres => {}
  | .typednil => { result := some .null }
  | .both => { result := some (.arr args), error := some { code := 7, message := "both" } }
  | .waitctx => { result := some (.arr args) }
  | .unmarshalable => { result := some .null, marshals := false }
  | .panic => { panics := true }
  | .zeroint => { result := some (.num "0") }
  | .emptystr => { result := some (.str "") }
  | .falseres => { result := some (.bool false) }
  | .failzero => { error := some { code := 0, message := "", data := some (.num "0") } }

def goEnv (strictAny : Bool) (behaviours : List (String × Behaviour)) (nullNotGiven : Bool := true) : Env where
  nullNotGiven := nullNotGiven
  decode := goDecode strictAny
  zero := goZero
  call name args :=
    match behaviours.reverse.find? (fun nb => nb.1 = name) with
    | some nb => behave nb.2 args
    | none => {}

end Juno.C11
