import JunoModel.C11.ModelTxRules
/-! C11 (round 6) — what the tag table of the broadcasted transaction amounts to, per transaction type. -/
namespace Juno.C11.TxRules

theorem accepts_iff (ty : TxType) (present : Field → Bool) :
    accepts ty present = true ↔
      (∀ f ∈ requiredFor ty, present f = true) ∧
      (ty ≠ .invoke → present .proofFacts = false ∧ present .proof = false) := by
  cases ty <;>
    simp [accepts, Field.all, rule, Rule.ok, requiredFor] <;>
    grind

end Juno.C11.TxRules
