/-
C11 — the connection a handler may keep writing to (round 4): `connection`, `ConnFromContext`,
`Server.HandleReadWriter` in `jsonrpc/server.go`, and the connection limit of `Websocket.ServeHTTP`
(`connSem` in `jsonrpc/websocket.go`).

`HandleReadWriter` puts a `connection` into the request context. Handlers (subscriptions) hand it to
goroutines that write further messages. `connection.Write` blocks on the channel `activated`, which is
closed (deferred) when `HandleReadWriter` returns — after the response to the request itself has been
written, or after that failed (`initialErr`), in which case every later write is refused. Small-step
model: handler goroutines write at any moment, in any order. Core Lean only.
-/
namespace Juno.C11.Conn

/-- a message on the wire: the response of `HandleReader` or something a handler goroutine pushed -/
inductive Msg where
  | response
  | pushed (n : Nat)
  deriving Repr, DecidableEq

/-- how the request itself ends -/
structure Finish where
  /-- `HandleReader` returned a response (`resp != nil`); a notification has none -/
  hasResponse : Bool
  /-- `HandleReader` returned an error -/
  handleErr : Bool := false
  /-- `rw.Write(resp)` succeeds -/
  writeOk : Bool := true
  deriving Repr, DecidableEq

structure St where
  /-- what has been written to `rw`, in order -/
  wire : List Msg := []
  /-- `activated` is closed -/
  activated : Bool := false
  /-- `conn.initialErr != nil` -/
  initialErr : Bool := false
  /-- goroutines inside `connection.Write`, blocked on `<-c.activated`, with what they want to write -/
  blocked : List Nat := []
  /-- pushes that returned an error -/
  refused : List Nat := []
  deriving Repr

/-- One step of the connection while / after `HandleReadWriter` runs. -/
inductive Step (fin : Finish) : St → St → Prop
  /-- a handler goroutine calls `conn.Write` before the connection is activated: it blocks -/
  | block (s : St) (n : Nat) (h : s.activated = false) : Step fin s { s with blocked := s.blocked ++ [n] }
  /-- a blocked goroutine proceeds once `activated` is closed (any of them, in any order) -/
  | unblock (s : St) (a : List Nat) (n : Nat) (b : List Nat) (h : s.activated = true) (hb : s.blocked = a ++ n :: b) :
      Step fin s (if s.initialErr then { s with blocked := a ++ b, refused := s.refused ++ [n] }
                  else { s with blocked := a ++ b, wire := s.wire ++ [.pushed n] })
  /-- a goroutine calls `conn.Write` after activation -/
  | late (s : St) (n : Nat) (h : s.activated = true) :
      Step fin s (if s.initialErr then { s with refused := s.refused ++ [n] } else { s with wire := s.wire ++ [.pushed n] })
  /-- `HandleReadWriter` finishes: error of `HandleReader`, or the response is written (or not), then
  the deferred `close(activated)` -/
  | finish (s : St) (h : s.activated = false) :
      Step fin s
        (if fin.handleErr then { s with activated := true, initialErr := true }
         else if fin.hasResponse then
           (if fin.writeOk then { s with activated := true, wire := s.wire ++ [.response] }
            else { s with activated := true, initialErr := true })
         else { s with activated := true })

inductive Reach (fin : Finish) : St → Prop
  | init : Reach fin {}
  | step {s t : St} : Reach fin s → Step fin s t → Reach fin t

/-- the request's own response reaches the wire -/
def Finish.delivers (fin : Finish) : Bool := !fin.handleErr && fin.hasResponse && fin.writeOk

/-- `HandleReadWriter` returns an error (the transport closes the connection) -/
def Finish.fails (fin : Finish) : Bool := fin.handleErr || (fin.hasResponse && !fin.writeOk)

/-- what the harness observes for a request whose handler goroutines push `pushes` (sequentially, from
one goroutine): the wire and which pushes were refused -/
def outcome (fin : Finish) (pushes : List Nat) : List Msg × List Nat :=
  if fin.fails then ([], pushes)
  else ((if fin.hasResponse then [Msg.response] else []) ++ pushes.map Msg.pushed, [])

/-! ## The connection limit of the WebSocket transport (`connSem`, weight 1 per connection) -/

structure Limit where
  max : Nat
  /-- connections holding the semaphore -/
  openConns : Nat := 0
  deriving Repr, DecidableEq

inductive LimitOp where
  /-- a client connects; nobody disconnects within `connTimeout` (5 s) -/
  | connect
  /-- `ServeHTTP` of a connection returns (`defer ws.connSem.Release(1)`) -/
  | disconnect
  /-- a request that is no WebSocket handshake: it takes a slot, `websocket.Accept` fails, `ServeHTTP`
  returns and the slot is released -/
  | badUpgrade
  deriving Repr, DecidableEq

/-- `true` = upgraded, `false` = 503 "Too many connections" after the timeout -/
def Limit.step (l : Limit) : LimitOp → Limit × Bool
  | .connect => if l.openConns < l.max then ({ l with openConns := l.openConns + 1 }, true) else (l, false)
  | .disconnect => ({ l with openConns := l.openConns - 1 }, true)
  | .badUpgrade => (l, decide (l.openConns < l.max))

def Limit.trace (l : Limit) : List LimitOp → List Bool
  | [] => []
  | o :: r => (l.step o).2 :: (l.step o).1.trace r

end Juno.C11.Conn
