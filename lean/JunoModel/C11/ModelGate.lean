import JunoModel.C11.ModelTransport
/-
C11 — the admission gate in front of `HandleReader` on the HTTP transport (round 4):
`jsonrpc/gate.go` (`NewGate`, `Gate.Acquire`, `Gate.Release`, `Running`, `Queued`, `Rejected`) and the
branches of `HTTP.ServeHTTP` (`jsonrpc/http.go`) that depend on it and on the request timeout.

The gate is a counter `activeRequests` (processing + queued), a buffered channel `sem` of capacity
`maxConcurrent` and a monotone counter `rejected`. Goroutines blocked in the `select` of `Acquire`
are `waiting`. A `Release` with a blocked sender hands the slot over atomically (Go's channel
receive takes the buffered element and moves the blocked sender's element into the buffer in one
step), so on the level of the counters the model is deterministic. Core Lean only.
-/
namespace Juno.C11.Gate

def two64 : Nat := 18446744073709551616

/-- `NewGate`: `maxRequests := maxQueue + uint64(maxConcurrent)` in `uint64` arithmetic; a wrapped sum
(smaller than `maxQueue`) is replaced by `math.MaxUint64`. -/
def newMax (maxConcurrent maxQueue : Nat) : Nat :=
  let sum := (maxQueue + maxConcurrent) % two64
  if sum < maxQueue then two64 - 1 else sum

structure St where
  /-- `cap(g.sem)` -/
  maxConcurrent : Nat
  maxRequests : Nat
  /-- `g.activeRequests` -/
  active : Nat := 0
  /-- `len(g.sem)` = `Running()` -/
  sem : Nat := 0
  /-- `g.rejected` -/
  rejected : Nat := 0
  /-- goroutines blocked in the `select` of `Acquire` -/
  waiting : Nat := 0
  deriving Repr, DecidableEq

def St.new (maxConcurrent maxQueue : Nat) : St :=
  { maxConcurrent := maxConcurrent, maxRequests := newMax maxConcurrent maxQueue }

/-- `Queued()`: `int(activeRequests) - len(sem)` -/
def St.queued (s : St) : Int := (s.active : Int) - (s.sem : Int)

inductive Outcome where
  /-- `Acquire` returned nil -/
  | admitted
  /-- `Acquire` blocks in its `select` (all slots busy, room in the queue) -/
  | queued
  /-- `ErrServerBusy` -/
  | busy
  /-- `ctx.Err()` of a context that was already done -/
  | ctxErr
  /-- the operation is not enabled in this state (nothing happens) -/
  | noop
  deriving Repr, DecidableEq

inductive Op where
  /-- `Acquire(ctx)`; `ctxDone` = `ctx.Err() != nil` at the call -/
  | acquire (ctxDone : Bool)
  /-- `Release()` by a holder of a slot -/
  | release
  /-- the context of a goroutine blocked in `Acquire` is done: it leaves the queue with `ctx.Err()` -/
  | waiterCtxDone
  deriving Repr, DecidableEq

def St.step (s : St) : Op → St × Outcome
  | .acquire true => (s, .ctxErr)            -- already cancelled: does not even enter the queue
  | .acquire false =>
    if s.active + 1 > s.maxRequests then ({ s with rejected := s.rejected + 1 }, .busy)
    else if s.sem < s.maxConcurrent then ({ s with active := s.active + 1, sem := s.sem + 1 }, .admitted)
    else ({ s with active := s.active + 1, waiting := s.waiting + 1 }, .queued)
  | .release =>
    if s.sem = 0 then (s, .noop)
    else if s.waiting > 0 then
      -- the freed slot goes to a blocked sender at once: `len(sem)` does not change
      ({ s with active := s.active - 1, waiting := s.waiting - 1 }, .admitted)
    else ({ s with active := s.active - 1, sem := s.sem - 1 }, .noop)
  | .waiterCtxDone =>
    if s.waiting = 0 then (s, .noop)
    else ({ s with active := s.active - 1, waiting := s.waiting - 1 }, .ctxErr)

def St.run (s : St) (ops : List Op) : St := ops.foldl (fun s o => (s.step o).1) s

/-- the outcomes of a script, with the three public counters after every operation -/
def St.trace (s : St) : List Op → List (Outcome × Nat × Int × Nat)
  | [] => []
  | o :: r =>
    let (t, out) := s.step o
    (out, t.sem, t.queued, t.rejected) :: t.trace r

end Juno.C11.Gate

namespace Juno.C11

/-- what the gate (and the request deadline) decided for one POST -/
inductive Admission where
  /-- no gate configured, or `Acquire` returned nil -/
  | admitted
  /-- `ErrServerBusy` -/
  | busy
  /-- the request deadline (`WithRequestTimeout`) expired while the request was queued -/
  | deadlineWhileQueued
  /-- `context.Canceled` while queued: the client has gone -/
  | clientGone
  deriving Repr, DecidableEq

structure GatedResponse where
  http : HttpResponse
  /-- `Retry-After: 1` -/
  retryAfter : Bool := false
  /-- `http.Error` text (sent as `text/plain`) -/
  text : Option String := none
  deriving Repr

/-- `HTTP.ServeHTTP` with a gate: GET / other methods are answered before the gate is consulted; a POST
that is not admitted is answered 503 (or not at all when the client has gone) and never reaches
`HandleReader`; an admitted POST is handled as without a gate. -/
def serveHTTPGated (adm : Admission) (cfg : Config) (env : Env) (tbl : Table) (r : HttpRequest) : GatedResponse :=
  match r.method, adm with
  | .post, .busy =>
    { http := { status := 503, json := false, body := none, log := [] }, retryAfter := true, text := some "Server is busy\n" }
  | .post, .deadlineWhileQueued =>
    { http := { status := 503, json := false, body := none, log := [] }, retryAfter := true,
      text := some "Request timed out while queued\n" }
  | .post, .clientGone => { http := { status := 0, json := false, body := none, log := [] } }
  | _, _ => { http := serveHTTP cfg env tbl r }

end Juno.C11

/-! ## One POST at the gate from arrival to the return of `ServeHTTP` (round 6) -/

namespace Juno.C11

/-- how `HTTP.ServeHTTP` is left by a POST the gate admitted -/
inductive PostExit where
  /-- `resp != nil`: the answer is written -/
  | answered
  /-- `resp == nil` (only notifications): nothing is written -/
  | silent
  /-- `HandleReader` returned an error: 500 -/
  | goError
  /-- a panic unwinds `ServeHTTP` (net/http recovers it and drops the connection) -/
  | panicked
  deriving Repr, DecidableEq

/-- The gate operations of one POST that is alone at the gate (it has left before the next request arrives).
`live = false`: the request context is already done when `Acquire` is called (`WithRequestTimeout` expired, client
gone) — `Acquire` returns `ctx.Err()` and nothing is held. Otherwise `Acquire`, and — `defer h.gate.Release()`
right after the successful `Acquire` — exactly one `Release` on EVERY way out of `ServeHTTP`: answer written,
nothing to write, Go error, panic. -/
def postGateOps (live : Bool) (_exit : PostExit) : List Gate.Op :=
  if live then [.acquire false, .release] else [.acquire true]

/-- the gate after a sequence of such POSTs, with the outcome of every `Acquire` and the three public counters
after every POST -/
def Gate.St.posts (s : Gate.St) : List (Bool × PostExit) → List (Gate.Outcome × Nat × Int × Nat)
  | [] => []
  | (live, e) :: r =>
    let ops := postGateOps live e
    let t := s.run ops
    ((s.step (ops.headD .release)).2, t.sem, t.queued, t.rejected) :: t.posts r

end Juno.C11
