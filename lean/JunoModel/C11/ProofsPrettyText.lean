import JunoModel.C11.ModelPrettyText
import JunoModel.C11.ProofsPretty
/-! C11 — the text part of `pretty_error.go` never slices out of range (round 4). -/
namespace Juno.C11.Pretty

theorem lineStartOf_le (bs : Bytes) : lineStartOf bs ≤ bs.length := by
  unfold lineStartOf
  split <;> omega

theorem indexOfByte_lt (b : UInt8) (bs : Bytes) (e : Nat) (h : indexOfByte b bs = some e) : e < bs.length := by
  induction bs generalizing e with
  | nil => simp [indexOfByte] at h
  | cons x r ih =>
    simp only [indexOfByte] at h
    split at h
    · simp at h; subst h; simp
    · cases hr : indexOfByte b r with
      | none => simp [hr] at h
      | some k =>
        simp [hr] at h
        subst h
        have := ih k hr
        simp; omega

/-- `truncateAround` never slices `runes[start:end]` out of range, and the new pivot stays ≥ 1 -/
theorem truncateRunes_ok (runes : List Nat) (pivot : Int) (hp : 1 ≤ pivot) :
    ∃ r p, truncateRunes? runes pivot = some (r, p) ∧ 1 ≤ p := by
  unfold truncateRunes?
  cases h : truncateAround runes.length pivot with
  | none => exact ⟨none, pivot, rfl, hp⟩
  | some t =>
    obtain ⟨s, e, mc⟩ := t
    have ⟨h1, h2, h3, h4⟩ := truncateAround_in_range runes.length pivot hp s e mc h
    simp only [h1, h2, h3, and_self, if_true]
    exact ⟨_, mc, rfl, h4⟩

theorem truncateText_ok (line : Bytes) (pivot : Int) (hp : 1 ≤ pivot) :
    ∃ t p, truncateText? line pivot = some (t, p) ∧ 1 ≤ p := by
  obtain ⟨r, p, h, hp'⟩ := truncateRunes_ok (decodeRunes line) pivot hp
  unfold truncateText?
  rw [h]
  cases r with
  | none => exact ⟨line, p, rfl, hp'⟩
  | some rs => exact ⟨encodeRunes rs, p, rfl, hp'⟩

/-- number of runes `truncateAround` hands back: the line itself or what it cut out of it -/
def drawnLength (runes : List Nat) : Option (List Nat) → Nat
  | none => runes.length
  | some rs => rs.length

/-- what is drawn is never wider than `maxLineWidth` runes -/
theorem truncateRunes_width (runes : List Nat) (pivot : Int) (r : Option (List Nat)) (p : Int)
    (h : truncateRunes? runes pivot = some (r, p)) :
    drawnLength runes r ≤ maxLineWidth := by
  unfold truncateRunes? at h
  cases ht : truncateAround runes.length pivot with
  | none =>
    simp [ht] at h
    obtain ⟨rfl, _⟩ := h
    unfold truncateAround at ht
    split at ht
    · simpa [drawnLength]
    · simp at ht
  | some t =>
    obtain ⟨s, e, mc⟩ := t
    simp only [ht] at h
    split at h
    · rename_i hr
      simp only [Option.some.injEq, Prod.mk.injEq] at h
      obtain ⟨rfl, _⟩ := h
      unfold truncateAround at ht
      split at ht
      · simp at ht
      · simp only [Option.some.injEq, Prod.mk.injEq] at ht
        obtain ⟨hs, he, _⟩ := ht
        simp only [drawnLength, List.length_append, List.length_drop, List.length_take, maxLineWidth, ellipsis] at *
        have e1 : (if s > 0 then [46, 46, 46] else ([] : List Nat)).length ≤ 3 := by split <;> simp
        have e2 : (if e < (runes.length : Int) then [46, 46, 46] else ([] : List Nat)).length ≤ 3 := by split <;> simp
        omega
    · simp at h

theorem precedingLoop_ok (window : Bytes) (ws : Nat) (fuel ls : Nat) (h : ls ≤ window.length) :
    ∃ rows, precedingLoop? window ws fuel ls = some rows ∧ rows.length ≤ fuel := by
  induction fuel generalizing ls with
  | zero => exact ⟨[], rfl, Nat.le_refl _⟩
  | succ n ih =>
    unfold precedingLoop?
    by_cases h0 : ls = 0
    · simp [h0]
    · simp only [h0, if_false]
      have h1 : ¬ (ls - 1 > window.length) := by omega
      simp only [h1, if_false]
      have h2 := lineStartOf_le (window.take (ls - 1))
      have h3 : (window.take (ls - 1)).length = ls - 1 := by simp; omega
      by_cases hc : lineStartOf (window.take (ls - 1)) = 0 ∧ ws > 0
      · simp [hc]
      · simp only [hc, if_false]
        have h4 : ¬ (lineStartOf (window.take (ls - 1)) > ls - 1) := by omega
        simp only [h4, if_false]
        obtain ⟨t, p, ht, _⟩ := truncateText_ok ((window.take (ls - 1)).drop (lineStartOf (window.take (ls - 1)))) 1 (by omega)
        rw [ht]
        obtain ⟨rest, hr, hl⟩ := ih (lineStartOf (window.take (ls - 1))) (by omega)
        rw [hr]
        exact ⟨t :: rest, rfl, by simp; omega⟩

/-- at most `maxContextRows` rows are drawn above the offending line -/
theorem precedingLines_ok (window : Bytes) (ws mp : Nat) (h : mp ≤ window.length) :
    ∃ rows, precedingLines? window ws mp = some rows ∧ rows.length ≤ maxContextRows := by
  unfold precedingLines?
  have h1 : ¬ (mp > window.length) := by omega
  simp only [h1, if_false]
  have h2 := lineStartOf_le (window.take mp)
  have h3 : (window.take mp).length = mp := by simp; omega
  obtain ⟨rows, hr, hl⟩ := precedingLoop_ok window ws maxContextRows (lineStartOf (window.take mp)) (by omega)
  rw [hr]
  exact ⟨rows.reverse, rfl, by simpa using hl⟩

theorem offendingLine_ok (input : Bytes) (offset : Nat) (h : offset ≤ input.length) :
    ∃ l, offendingLine? input offset = some l := by
  unfold offendingLine?
  have h1 : ¬ (offset > input.length) := by omega
  simp only [h1, if_false]
  have h2 := lineStartOf_le (input.take offset)
  have h3 : (input.take offset).length = offset := by simp; omega
  cases he : indexNL (input.drop offset) with
  | none =>
    have : lineStartOf (input.take offset) ≤ input.length := by omega
    simp [this]
  | some e =>
    have := indexOfByte_lt 10 _ e he
    simp only [List.length_drop] at this
    have hc : lineStartOf (input.take offset) ≤ offset + e ∧ offset + e ≤ input.length := by omega
    simp [hc]

theorem describeError_ok (input : Bytes) (offset : Nat) (e : ErrInfo) (_h : offset ≤ input.length) :
    ∃ t, describeError? input offset e = some t := by
  unfold describeError?
  cases e.kind with
  | «syntax» o =>
    simp only
    unfold describeSyntaxError?
    cases expectedToken e.text with
    | none => exact ⟨_, rfl⟩
    | some x =>
      simp only
      by_cases hl : offset ≥ input.length
      · simp [hl]
      · simp only [hl, if_false]
        have hgt : ¬ (offset > input.length) := by omega
        split
        · unfold precededByComma?
          simp only [hgt, if_false]
          split <;> first | exact ⟨_, rfl⟩ | (rename_i hh; simp at hh)
        · exact ⟨_, rfl⟩
  | type o => exact ⟨_, rfl⟩
  | eof => exact ⟨_, rfl⟩
  | other => exact ⟨_, rfl⟩

theorem drawMarker_ok (window : Bytes) (ws mp : Nat) (col : Int) (msg : Text) (h : mp ≤ window.length) (hc : 1 ≤ col) :
    ∃ t, drawMarker? window ws mp col msg = some t := by
  unfold drawMarker?
  obtain ⟨rows, hr, _⟩ := precedingLines_ok window ws mp h
  obtain ⟨ol, ho⟩ := offendingLine_ok window mp h
  rw [hr, ho]
  obtain ⟨line, p, ht, hp⟩ := truncateText_ok ol col hc
  simp only [ht]
  have : ¬ (p - 1 < 0) := by omega
  simp [this]

/-- `prettyParseError` never panics: no slice of `lineAndColumn`, `describeSyntaxError`,
`precededByComma`, `offendingLine`, `truncateAround`, `precedingLines` is out of range and the
`strings.Repeat` count of `drawMarker` is never negative — for every window the `TeeReader` can
have produced, every decode error and every number of skipped leading blanks. -/
theorem prettyParseError_ok (c : Win) (skipped : Nat) (e : ErrInfo) (h : c.Inv) (hsk : skipped ≤ c.consumedBytes) :
    ∃ t, prettyParseError? c skipped e = some t := by
  unfold prettyParseError?
  cases ho : errorOffset (c.consumedBytes - skipped) e.kind with
  | none => exact ⟨_, rfl⟩
  | some off =>
    simp only [Option.map_some]
    have hle : off + (skipped : Int) ≤ (c.consumedBytes : Int) := by
      cases hk : e.kind <;> simp [hk, errorOffset] at ho <;> omega
    obtain ⟨h1, h2⟩ := h
    by_cases hlt : off + (skipped : Int) < (c.consumedBytes : Int) - (c.window.length : Int)
    · simp only [hlt, if_true]
      exact describeError_ok [] 0 e (by simp)
    · simp only [hlt, if_false]
      have hg : ¬ (off + (skipped : Int) - ((c.consumedBytes : Int) - (c.window.length : Int)) < 0 ∨
          off + (skipped : Int) - ((c.consumedBytes : Int) - (c.window.length : Int)) > (c.window.length : Int) ∨
          (c.consumedBytes : Int) - (c.window.length : Int) < 0) := by omega
      simp only [hg, if_false]
      have hpos : ∃ pos, position c e.kind skipped = some pos ∧ 1 ≤ (pos.col : Int) := by
        cases hp : position c e.kind skipped with
        | none =>
          exfalso
          unfold position at hp
          simp [ho, hlt] at hp
        | some pos =>
          have := (position_in_range c e.kind pos ⟨h1, h2⟩ skipped hsk hp).2.2
          exact ⟨pos, rfl, by omega⟩
      obtain ⟨pos, hp, hcol⟩ := hpos
      rw [hp]
      have hm : (off + (skipped : Int) - ((c.consumedBytes : Int) - (c.window.length : Int))).toNat ≤ c.window.length := by omega
      obtain ⟨d, hd⟩ := describeError_ok c.window _ e hm
      rw [hd]
      exact drawMarker_ok c.window _ _ _ _ hm hcol

/-- after `truncateAround` the caret column still names the rune it named before -/
theorem truncateRunes_caret (runes : List Nat) (pivot : Int) (h1 : 1 ≤ pivot) (hlt : pivot - 1 < (runes.length : Int))
    (rs : List Nat) (p : Int) (h : truncateRunes? runes pivot = some (some rs, p)) :
    rs[(p - 1).toNat]? = runes[(pivot - 1).toNat]? := by
  unfold truncateRunes? at h
  cases ht : truncateAround runes.length pivot with
  | none => simp [ht] at h
  | some t =>
    obtain ⟨s, e, mc⟩ := t
    simp only [ht] at h
    split at h
    · rename_i hr
      simp only [Option.some.injEq, Prod.mk.injEq] at h
      obtain ⟨hrs, hp⟩ := h
      subst hp
      unfold truncateAround at ht
      split at ht
      · simp at ht
      · simp only [Option.some.injEq, Prod.mk.injEq, maxLineWidth] at ht
        obtain ⟨hs, he, hmc⟩ := ht
        -- s ≤ pivot-1 < e
        have hs1 : s ≤ pivot - 1 := by omega
        have he1 : pivot - 1 < e := by omega
        have hleft : (if s > 0 then ellipsis else ([] : List Nat)).length = (if s > 0 then 3 else 0) := by
          split <;> simp [ellipsis]
        have hidx : (mc - 1).toNat = (if s > 0 then ellipsis else ([] : List Nat)).length + ((pivot - 1).toNat - s.toNat) := by
          rw [hleft]
          split <;> omega
        rw [← hrs, hidx, List.append_assoc, List.getElem?_append_right (Nat.le_add_right _ _)]
        simp only [Nat.add_sub_cancel_left]
        have hk : (pivot - 1).toNat - s.toNat < ((runes.take e.toNat).drop s.toNat).length := by
          simp only [List.length_drop, List.length_take]
          omega
        rw [List.getElem?_append_left hk, List.getElem?_drop, List.getElem?_take]
        have : s.toNat + ((pivot - 1).toNat - s.toNat) = (pivot - 1).toNat := by omega
        rw [this]
        have : (pivot - 1).toNat < e.toNat := by omega
        rw [if_pos this]
    · simp at h

end Juno.C11.Pretty
