import JunoModel.C11.Model
/-
C11 — the vocabulary in which the property is stated (no proofs here).

  * `IsResponse id j`     : `j` is a JSON-RPC 2.0 response object carrying id `id`
  * `Stage`, `stageOf`    : the stages a request value passes (decode, isSane, method lookup,
                            argument binding); the first failing stage decides the answer
  * `entryId`, `noReply`, `callOf` : per request value, the id its response must carry, whether
                            it is to be passed over in silence, and the handler call it causes
  * `Input.entries`       : the request values of an input (one for a single request, the
                            elements for a batch)
Core Lean only.
-/
namespace Juno.C11

/-- `j` is a well-formed JSON-RPC 2.0 response object with id `id`: member `jsonrpc` = "2.0",
exactly one of `result` / `error`, `error` being `{code, message[, data]}`, and `id`. -/
inductive IsResponse (id : Json) : Json → Prop
  | result (v : Json) :
      IsResponse id (.obj [("jsonrpc", .str "2.0"), ("result", v), ("id", id)])
  | error (e : RpcError) :
      IsResponse id (.obj [("jsonrpc", .str "2.0"), ("error", e.toJson), ("id", id)])

/-- `j` is an error response with the given code and id -/
def IsErrorResponse (code : Int) (id : Json) (j : Json) : Prop :=
  ∃ msg data, j = .obj [("jsonrpc", .str "2.0"),
                        ("error", RpcError.toJson { code := code, message := msg, data := data }),
                        ("id", id)]

/-- no handler of the environment returns `(nil, nil)` -/
def NoNilResult (env : Env) : Prop :=
  ∀ name args, (env.call name args).result.isSome = true ∨ (env.call name args).error.isSome = true

/-- How far a syntactically valid JSON value gets as a request. -/
inductive Stage where
  /-- `Decode(*Request)` fails: not an object (nor null), or `jsonrpc` / `method` ill-typed -/
  | undecodable
  /-- decoded, `isSane` rejects it -/
  | insane (e : SaneErr) (req : Request)
  /-- a sane request for a method that is not registered -/
  | unknownMethod (req : Request)
  /-- the method exists, `buildArguments` fails -/
  | badParams (req : Request) (m : Method) (e : BindErr)
  /-- everything passes: handler `m.name` runs with `args` -/
  | run (req : Request) (m : Method) (args : List Json)

def stageOf (env : Env) (tbl : Table) (j : Json) : Stage :=
  match decodeRequest j with
  | none => .undecodable
  | some req =>
    match isSane req with
    | some e => .insane e req
    | none =>
      match lookupMethod tbl req.method with
      | none => .unknownMethod req
      | some m =>
        match buildArguments env req.params m with
        | .error e => .badParams req m e
        | .ok args => .run req m args

/-- the decoded request of a stage, if any -/
def Stage.request? : Stage → Option Request
  | .undecodable => none
  | .insane _ r => some r
  | .unknownMethod r => some r
  | .badParams r _ _ => some r
  | .run r _ _ => some r

/-- The id a response to this request value carries: the request's id; `null` when the value
could not be decoded, when it has no id, or when the id itself is what `isSane` rejects. -/
def Stage.id (cfg : Config) : Stage → Json
  | .undecodable => .null
  | .insane e r => if e = .id then .null else echoId cfg r.id
  | .unknownMethod r => idJson r.id
  | .badParams r _ _ => idJson r.id
  | .run r _ _ => idJson r.id

/-- A valid Request object without id (juno also reads `"id": null` this way): a notification. -/
def Stage.isNotification : Stage → Bool
  | .unknownMethod r => r.id.isNone
  | .badParams r _ _ => r.id.isNone
  | .run r _ _ => r.id.isNone
  | _ => false

/-- Request values the server passes over in silence. With `silentNotificationErrors` these are
exactly the notifications; the unchanged server stays silent only if the handler actually ran. -/
def Stage.noReply (cfg : Config) : Stage → Bool
  | .unknownMethod r => cfg.silentNotificationErrors && r.id.isNone
  | .badParams r _ _ => cfg.silentNotificationErrors && r.id.isNone
  | .run r _ _ => r.id.isNone
  | _ => false

/-- the handler invocation a request value causes -/
def Stage.call? : Stage → Option Call
  | .run _ m args => some (m.name, args)
  | _ => none

/-- The error code of the first failing stage; `none` when the handler decides.
`decodeFailCode` is -32700 for a single request and -32600 inside a batch. -/
def Stage.errorCode? (decodeFailCode : Int) : Stage → Option Int
  | .undecodable => some decodeFailCode
  | .insane _ _ => some (-32600)
  | .unknownMethod _ => some (-32601)
  | .badParams _ _ _ => some (-32602)
  | .run _ _ _ => none

/-- what the handler's return values become -/
def handlerResponse (cfg : Config) (out : HResult) (id : Json) : Response :=
  match out.error with
  | some e => { error := some e, id := id }
  | none =>
    { result := match out.result with
        | some v => some v
        | none => if cfg.nullForNilResult then some .null else none,
      id := id }

/-- The input reaches `handleBatchRequest` with these (non-empty) elements. -/
def Input.batch? (cfg : Config) (inp : Input) : Option (List Json) :=
  if isBatch cfg inp && !cfg.batchDisabled then
    match inp.parsed with
    | some (.arr (x :: xs)) => some (x :: xs)
    | _ => none
  else none

/-- The input is handled as one single request value. -/
def Input.single? (cfg : Config) (inp : Input) : Option Json :=
  if isBatch cfg inp then none else inp.parsed

/-- The request values of an input; `none` when the input as a whole is refused (unparsable,
empty batch, batches disabled). -/
def Input.entries (cfg : Config) (inp : Input) : Option (List Json) :=
  match inp.batch? cfg with
  | some xs => some xs
  | none => (inp.single? cfg).map (fun j => [j])

/-- `decodeFailCode` of the path the input takes -/
def Input.decodeFailCode (cfg : Config) (inp : Input) : Int :=
  if (inp.batch? cfg).isSome then -32600 else -32700

/-- two lists are related element by element (same length, same order) -/
inductive Forall₂ {α β : Type} (R : α → β → Prop) : List α → List β → Prop
  | nil : Forall₂ R [] []
  | cons {a : α} {b : β} {l1 : List α} {l2 : List β} : R a b → Forall₂ R l1 l2 → Forall₂ R (a :: l1) (b :: l2)

/-- The response objects of an output: the elements of the array for a batch, the single object
otherwise, nothing when the server stays silent. -/
def Output.responses (batch : Bool) (o : Output) : List Json :=
  match o.body with
  | none => []
  | some j =>
    if batch then
      match j with
      | .arr rs => rs
      | j => [j]
    else [j]

/-- How response objects are put on the wire: nothing if there are none, the array for a batch,
the object itself for a single request. -/
def assemble (batch : Bool) (rs : List Json) : Option Json :=
  if batch then (if rs.isEmpty then none else some (.arr rs)) else rs.head?

/-- A well-formed output: nothing, or one response object (single request, or an input refused
as a whole), or a non-empty array of response objects (batch). -/
def WellFormedBody (batch : Bool) : Option Json → Prop
  | none => True
  | some j =>
    if batch then ∃ rs, rs ≠ [] ∧ j = .arr rs ∧ ∀ r ∈ rs, ∃ id, IsResponse id r
    else ∃ id, IsResponse id j

/-- hypothesis under which every response is well-formed: the server writes `"result":null` for
a nil result (repaired), or no handler returns `(nil, nil)` -/
def ResultsOk (cfg : Config) (env : Env) : Prop :=
  cfg.nullForNilResult = true ∨ NoNilResult env

/-- What it means for response object `r` to answer request value `e`: it is a well-formed response
carrying the id of `e`; its error code is that of the first stage `e` fails at (-32700 resp. -32600 not a
decodable Request, -32600 not sane, -32601 unknown method, -32602 params do not bind); and if `e`
passes every stage it is what the handler returned. -/
def AnswersRequest (cfg : Config) (env : Env) (tbl : Table) (decodeFailCode : Int) (e r : Json) : Prop :=
  IsResponse ((stageOf env tbl e).id cfg) r ∧
  (∀ code, (stageOf env tbl e).errorCode? decodeFailCode = some code →
      IsErrorResponse code ((stageOf env tbl e).id cfg) r) ∧
  (∀ req m args id, stageOf env tbl e = .run req m args → req.id = some id →
      r = (handlerResponse cfg (env.call m.name args) id).toJson)

/-- value of the member named `k` (first occurrence) -/
def member (kvs : List (String × Json)) (k : String) : Option Json :=
  (kvs.find? (fun kv => kv.1 = k)).map (·.2)

/-- A Request object written the ordinary way: no member name twice, and no member whose name
merely case-folds onto `jsonrpc` / `method` / `params` / `id`. -/
def PlainMembers (kvs : List (String × Json)) : Prop :=
  (kvs.map (·.1)).Nodup ∧
  ∀ kv ∈ kvs, fieldOf kv.1 ≠ none → kv.1 ∈ ["jsonrpc", "method", "params", "id"]

/-- a `string` field read from an optional member: absent and `null` leave "", a string is
taken, anything else is a type error -/
def stringField : Option Json → Option String
  | none => some ""
  | some (.str s) => some s
  | some .null => some ""
  | some _ => none

/-- optional parameters form a tail of the parameter list -/
def OptionalTail : List Param → Prop
  | [] => True
  | p :: ps => (p.optional = true → ∀ q ∈ ps, q.optional = true) ∧ OptionalTail ps

/-! ## JSON-RPC 2.0 from its text — independent of juno's functions

Nothing below mentions `decodeRequest`, `isSane`, `buildArguments` or `handleRequest`. -/

/-- §4: what a JSON value is, as a Request -/
inductive SpecKind where
  /-- not a valid Request object: answered with -32600 -/
  | invalid
  /-- a Request object without `id` member: never answered -/
  | notification (method : String) (params : Option Json)
  /-- a Request object with an `id` member holding a String, a Number or Null: answered once, with that id -/
  | request (id : Json) (method : String) (params : Option Json)

/-- `params`, if present, MUST be a Structured value (Array or Object): `some none` = omitted,
`none` = present but not structured -/
def specParams : Option Json → Option (Option Json)
  | none => some none
  | some (.arr xs) => some (some (.arr xs))
  | some (.obj o) => some (some (.obj o))
  | some _ => none

/-- §4 read literally for an object written the ordinary way (`PlainMembers`): `jsonrpc` is
exactly "2.0"; `method` is a (non-empty) String; `params`, if present, is an Array or an Object;
`id`, if present, is a String, a Number or Null — and then the value is NOT a notification. -/
def specKindObj (kvs : List (String × Json)) : SpecKind :=
    match member kvs "jsonrpc", member kvs "method" with
    | some (.str v), some (.str m) =>
      if v ≠ "2.0" ∨ m = "" then .invalid else
      match specParams (member kvs "params") with
      | none => .invalid
      | some p =>
        match member kvs "id" with
        | none => .notification m p
        | some (.str s) => .request (.str s) m p
        | some (.num t) => .request (.num t) m p
        | some .null => .request .null m p
        | some _ => .invalid
    | _, _ => .invalid

/-- §4 for any JSON value: only objects can be Requests -/
def specKind : Json → SpecKind
  | .obj kvs => specKindObj kvs
  | _ => .invalid

/-- one supplied value as an argument: decoded to the parameter's type; juno's documented rule for
`null` (since 4d3f28e): "not given" for an optional parameter, never a value of a required one -/
def specArg (env : Env) (p : Param) (v : Json) : Option Json :=
  if env.nullNotGiven = true ∧ v matches .null then
    (if p.optional then some (env.zero p.ty) else none)
  else env.decode p.ty v

/-- §4.2 by position: the supplied values against the first parameters, in order -/
def specDecodeAll (env : Env) : List Param → List Json → Option (List Json)
  | p :: ps, v :: vs => do
    let a ← specArg env p v
    let r ← specDecodeAll env ps vs
    pure (a :: r)
  | _, _ => some []

/-- §4.2 by name: every parameter takes the member of its name; an absent optional parameter
takes its zero value, an absent required one makes the call unbindable -/
def specNamed (env : Env) (kvs : List (String × Json)) : List Param → Option (List Json)
  | [] => some []
  | p :: ps =>
    match member kvs p.name with
    | some v => do
      let a ← specArg env p v
      let r ← specNamed env kvs ps
      pure (a :: r)
    | none =>
      if p.optional then do
        let r ← specNamed env kvs ps
        pure (env.zero p.ty :: r)
      else none

/-- The argument vector the caller supplied, or `none` when the parameters cannot be bound to the
method ("Invalid params"): by position — not more values than parameters, every parameter left
out is optional; by name — every member names a parameter, every required parameter is named;
omitted — every parameter is optional. -/
def specBind (env : Env) (ps : List Param) : Option Json → Option (List Json)
  | none => if ps.all (·.optional) then some (ps.map (fun p => env.zero p.ty)) else none
  | some (.arr []) => if ps.all (·.optional) then some (ps.map (fun p => env.zero p.ty)) else none
  | some (.obj []) => if ps.all (·.optional) then some (ps.map (fun p => env.zero p.ty)) else none
  | some (.arr vs) =>
    if vs.length ≤ ps.length ∧ (ps.drop vs.length).all (·.optional) then
      (specDecodeAll env ps vs).map (fun as => as ++ (ps.drop vs.length).map (fun p => env.zero p.ty))
    else none
  | some (.obj kvs) =>
    if kvs.all (fun kv => ps.any (fun p => p.name = kv.1)) then specNamed env kvs ps else none
  | some _ => none

/-- the handler invocation a Request must cause -/
def specCall (env : Env) (tbl : Table) (method : String) (params : Option Json) : Option Call :=
  match lookupMethod tbl method with
  | none => none
  | some m => (specBind env m.params params).map (fun args => (m.name, args))

/-- the id an Invalid Request answer may carry: Null, or the request's own `id` member when that is a
legal id -/
def InvalidIdOk (j rid : Json) : Prop :=
  rid = .null ∨ ∃ kvs, j = .obj kvs ∧ member kvs "id" = some rid

/-- the `id` member, if there is one, is a String, a Number or Null -/
def IdScalarOrAbsent (kvs : List (String × Json)) : Prop :=
  ∀ v, member kvs "id" = some v → (∃ s, v = .str s) ∨ (∃ t, v = .num t) ∨ v = .null

/-- where the text of the specification leaves room, the spec-facing theorems do not speak:
`"params": null` (not a Structured value, commonly accepted as "omitted"; juno accepts it) and ids
with a fractional part ("SHOULD NOT"; juno rejects them) -/
def SpecDefinite (kvs : List (String × Json)) : Prop :=
  member kvs "params" ≠ some .null ∧ ∀ t, member kvs "id" = some (.num t) → idBad (some (.num t)) = false

/-- What the specification demands for one request value: response (or silence) and handler call. -/
def MeetsSpec (cfg : Config) (env : Env) (tbl : Table) (j : Json) (out : Option Response × List Call) : Prop :=
  match specKind j with
  | .invalid =>
    out.2 = [] ∧ ∃ r, out.1 = some r ∧ IsErrorResponse (-32600) r.id r.toJson ∧ InvalidIdOk j r.id
  | .notification m p => out.1 = none ∧ out.2 = (specCall env tbl m p).toList
  | .request id m p =>
    out.2 = (specCall env tbl m p).toList ∧ ∃ r, out.1 = some r ∧ r.id = id ∧
      match lookupMethod tbl m with
      | none => IsErrorResponse (-32601) id r.toJson
      | some meth =>
        match specBind env meth.params p with
        | none => IsErrorResponse (-32602) id r.toJson
        | some args => r = handlerResponse cfg (env.call meth.name args) id

/-- the table is one for which "by position" and "by name" mean something: distinct parameter
names, optional parameters last (checked on juno's real tables by the harness) -/
def TableOk (tbl : Table) : Prop :=
  ∀ m ∈ tbl, (m.params.map (·.name)).Nodup ∧ OptionalTail m.params

/-- a request value in the domain of the spec-facing theorems: not an object, or an object written
plainly whose `params` (if an array or object) is in Go's canonical form with distinct member names -/
def PlainEntry : Json → Prop
  | .obj kvs =>
    PlainMembers kvs ∧
    (∀ v, member kvs "params" = some v → canon v = v ∧ ∀ o, v = .obj o → (o.map (·.1)).Nodup)
  | _ => True

/-- the exclusions under which a request value is judged against the specification for the server
as it is; each excluded shape is a documented deviation with its own counterexample theorem:
`"id": null`, a single (non-batch) value that `Decode(*Request)` rejects, and (outside the text of
the specification) `"params": null`, fractional ids, non-canonical or duplicate params members -/
def Judged (single : Bool) (e : Json) : Prop :=
  PlainEntry e ∧
  (∀ kvs, e = .obj kvs → SpecDefinite kvs ∧ IdScalarOrAbsent kvs ∧ member kvs "id" ≠ some .null) ∧
  (single = true → decodeRequest e ≠ none)

def SpecKind.isNotification : SpecKind → Bool
  | .notification _ _ => true
  | _ => false

/-- a legal id of a response: String, Number or Null -/
def LegalId : Json → Prop
  | .str _ => True
  | .num _ => True
  | .null => True
  | _ => False

end Juno.C11
