import JunoModel.C11.Proofs
/-! C11 — juno's binding and dispatch against the independent reading of JSON-RPC 2.0 in ModelSpec.lean. -/
namespace Juno.C11

/-- the dispatcher's treatment of one argument is the documented rule -/
theorem specArg_eq (env : Env) (p : Param) (v : Json) : specArg env p v = decodeParam env p v := by
  unfold specArg decodeParam
  cases hn : env.nullNotGiven <;> cases v <;> simp

/-! ### by position -/

theorem required_le_of_drop_optional (ps : List Param) (n : Nat)
    (h : ∀ q ∈ ps.drop n, q.optional = true) : (ps.filter (fun p => !p.optional)).length ≤ n := by
  induction ps generalizing n with
  | nil => simp
  | cons p ps ih =>
    cases n with
    | zero =>
      have : (p :: ps).filter (fun p => !p.optional) = [] := by
        rw [List.filter_eq_nil_iff]; intro q hq; simp [h q (by simpa using hq)]
      simp [this]
    | succ k =>
      have := ih k (by simpa using h)
      simp only [List.filter_cons]
      split <;> simp <;> omega

theorem bindPositional_eq_spec (env : Env) (ps : List Param) (vs : List Json) (hlen : vs.length ≤ ps.length) :
    (bindPositional env ps vs).toOption =
      (specDecodeAll env ps vs).map (fun as => as ++ (ps.drop vs.length).map (fun p => env.zero p.ty)) := by
  induction ps generalizing vs with
  | nil =>
    cases vs with
    | nil => rfl
    | cons v vs => simp at hlen
  | cons p ps ih =>
    cases vs with
    | nil =>
      have := ih [] (by simp)
      simp only [specDecodeAll, Option.map_some, List.nil_append, List.length_nil, List.drop_zero] at this ⊢
      simp only [bindPositional]
      cases hb : bindPositional env ps [] with
      | error e => simp [hb, Except.toOption] at this
      | ok rest =>
        simp [hb, Except.toOption] at this
        simp [bind, Except.bind, pure, Except.pure, Except.toOption, this]
    | cons v vs =>
      have := ih vs (by simpa using hlen)
      simp only [bindPositional, specDecodeAll, specArg_eq]
      cases hd : decodeParam env p v with
      | none => simp [Except.toOption, bind, Option.bind]
      | some a =>
        cases hs : specDecodeAll env ps vs with
        | none =>
          cases hb : bindPositional env ps vs with
          | error e => simp [bind, Except.bind, Except.toOption, Option.bind]
          | ok rest => simp [hb, hs, Except.toOption] at this
        | some as =>
          cases hb : bindPositional env ps vs with
          | error e => simp [hb, hs, Except.toOption] at this
          | ok rest =>
            simp [hb, hs, Except.toOption] at this
            simp [bind, Except.bind, pure, Except.pure, Except.toOption, Option.bind, this]

/-! ### by name -/

theorem mapGet_eq_member {m : List (String × Json)} (hnd : (m.map (·.1)).Nodup) (k : String) :
    mapGet m k = member m k := by
  induction m with
  | nil => simp [mapGet, member]
  | cons kv rest ih =>
    obtain ⟨k0, v0⟩ := kv
    have hnot : k0 ∉ rest.map (·.1) := (List.nodup_cons.mp hnd).1
    have hnd' := (List.nodup_cons.mp hnd).2
    by_cases hk : k0 = k
    · subst hk
      rw [mapGet_head hnot, member_cons_eq]
    · rw [member_cons_ne (by simpa using hk)]
      rw [← ih hnd']
      unfold mapGet
      rw [List.reverse_cons, List.find?_append]
      cases hf : rest.reverse.find? (fun kv => decide (kv.1 = k)) with
      | some x => simp
      | none => simp [hk]

theorem member_mapDelete_ne {m : List (String × Json)} {k n : String} (h : n ≠ k) :
    member (mapDelete m n) k = member m k := by
  induction m with
  | nil => simp [mapDelete, member]
  | cons kv rest ih =>
    simp only [mapDelete, List.filter_cons] at ih ⊢
    by_cases hkv : kv.1 = n
    · have : kv.1 ≠ k := by rw [hkv]; exact h
      simp only [hkv, ne_eq, not_true_eq_false, decide_false, Bool.false_eq_true, if_false]
      rw [ih]
      rw [member_cons_ne this]
    · simp only [ne_eq, hkv, not_false_eq_true, decide_true, if_true]
      by_cases hk : kv.1 = k
      · obtain ⟨a, b⟩ := kv
        simp only at hk; subst hk
        rw [member_cons_eq, member_cons_eq]
      · rw [member_cons_ne hk, member_cons_ne hk, ih]

theorem nodup_mapDelete {m : List (String × Json)} (n : String) (hnd : (m.map (·.1)).Nodup) :
    ((mapDelete m n).map (·.1)).Nodup := by
  unfold mapDelete
  exact (List.Nodup.sublist (List.Sublist.map _ (List.filter_sublist)) hnd)

theorem specNamed_mapDelete (env : Env) (m : List (String × Json)) (n : String) (ps : List Param)
    (h : n ∉ ps.map (·.name)) : specNamed env (mapDelete m n) ps = specNamed env m ps := by
  induction ps with
  | nil => rfl
  | cons p ps ih =>
    have hp : n ≠ p.name := fun e => h (by simp [e])
    have ih' := ih (fun hm => h (by simp [hm]))
    simp only [specNamed, member_mapDelete_ne hp, ih']

/-- the named loop of `buildArguments` computes `specNamed` and leaves exactly the members whose
name is not a parameter -/
theorem bindNamed_eq_spec (env : Env) (ps : List Param) (m : List (String × Json))
    (hps : (ps.map (·.name)).Nodup) (hm : (m.map (·.1)).Nodup) :
    (match specNamed env m ps with
     | some args => bindNamed env ps m = .ok (args, m.filter (fun kv => !(ps.any (fun p => p.name = kv.1))))
     | none => ∃ e, bindNamed env ps m = .error e) := by
  induction ps generalizing m with
  | nil =>
    simp only [specNamed, bindNamed, List.any_nil, Bool.not_false]
    congr 2
    exact (List.filter_eq_self.mpr (fun _ _ => rfl)).symm
  | cons p ps ih =>
    have hps' := (List.nodup_cons.mp hps).2
    have hp : p.name ∉ ps.map (·.name) := (List.nodup_cons.mp hps).1
    simp only [specNamed, bindNamed, mapGet_eq_member hm, specArg_eq]
    cases hmem : member m p.name with
    | some v =>
      simp only
      cases hd : decodeParam env p v with
      | none => exact ⟨_, rfl⟩
      | some a =>
        have ih' := ih (mapDelete m p.name) hps' (nodup_mapDelete _ hm)
        rw [specNamed_mapDelete env m p.name ps hp] at ih'
        cases hs : specNamed env m ps with
        | none =>
          simp only [hs] at ih'
          obtain ⟨e, he⟩ := ih'
          simp [he, bind, Except.bind, Option.bind]
        | some args =>
          simp only [hs] at ih'
          simp only [ih', bind, Except.bind, pure, Except.pure, Option.bind]
          congr 2
          simp only [mapDelete, List.filter_filter]
          apply List.filter_congr
          intro kv _
          by_cases hk : kv.1 = p.name <;> simp [hk, eq_comm]
    | none =>
      simp only
      by_cases ho : p.optional = true
      · simp only [ho, if_true]
        have ih' := ih m hps' hm
        cases hs : specNamed env m ps with
        | none =>
          simp only [hs] at ih'
          obtain ⟨e, he⟩ := ih'
          simp [he, bind, Except.bind, Option.bind]
        | some args =>
          simp only [hs] at ih'
          simp only [ih', bind, Except.bind, pure, Except.pure, Option.bind]
          congr 2
          apply List.filter_congr
          intro kv hkv
          have : ¬ (p.name = kv.1) := by
            intro e
            simp only [member, Option.map_eq_none_iff, List.find?_eq_none, decide_eq_true_eq] at hmem
            exact hmem kv hkv e.symm
          simp [this]
      · simp [ho]

theorem mapKeys_eq_nil_iff (m : List (String × Json)) : mapKeys m = [] ↔ m = [] := by
  constructor
  · intro h
    cases m with
    | nil => rfl
    | cons kv rest =>
      exfalso
      have : ∀ (l : List (String × Json)) (acc : List String), acc ≠ [] →
          l.foldl (fun acc kv => if acc.contains kv.1 then acc else acc ++ [kv.1]) acc ≠ [] := by
        intro l
        induction l with
        | nil => intro acc h; simpa using h
        | cons x xs ih =>
          intro acc hacc
          simp only [List.foldl_cons]
          apply ih
          split <;> simp [hacc]
      exact this rest [kv.1] (by simp) (by simpa [mapKeys] using h)
  · intro h; subst h; rfl

/-- **Bindability**: `buildArguments` succeeds exactly when the parameters can be bound by the rules of
§4.2 (`specBind`), and then yields the argument vector the caller supplied. -/
theorem buildArguments_eq_specBind (env : Env) (m : Method) (params : Option Json)
    (hnd : (m.params.map (·.name)).Nodup) (htail : OptionalTail m.params)
    (hkeys : ∀ o, params = some (.obj o) → (o.map (·.1)).Nodup)
    (hshape : params = none ∨ (∃ xs, params = some (.arr xs)) ∨ (∃ o, params = some (.obj o))) :
    (buildArguments env params m).toOption = specBind env m.params params := by
  have hall : ((m.params.filter (fun p => !p.optional)).map (·.name) ≠ []) ↔ ¬ (m.params.all (·.optional) = true) := by
    simp only [ne_eq, List.map_eq_nil_iff, List.filter_eq_nil_iff, List.all_eq_true]
    constructor
    · intro h1 h2; exact h1 (fun p hp => by simp [h2 p hp])
    · intro h1 h2; exact h1 (fun p hp => by simpa using h2 p hp)
  have hempty : ∀ (p : Option Json), isNilOrEmpty p = true →
      (buildArguments env p m).toOption =
        (if m.params.all (·.optional) then some (m.params.map (fun p => env.zero p.ty)) else none) := by
    intro p hp
    simp only [buildArguments, hp, if_true]
    by_cases ha : m.params.all (·.optional) = true
    · have : ¬ ((m.params.filter (fun p => !p.optional)).map (·.name) ≠ []) := by rw [hall]; simpa using ha
      simp [this, ha, Except.toOption]
    · have : (m.params.filter (fun p => !p.optional)).map (·.name) ≠ [] := by rw [hall]; exact ha
      simp [this, ha, Except.toOption]
  rcases hshape with rfl | ⟨xs, rfl⟩ | ⟨o, rfl⟩
  · simpa [specBind] using hempty none rfl
  · cases xs with
    | nil => simpa [specBind] using hempty (some (.arr [])) rfl
    | cons x xs =>
      simp only [specBind, buildArguments, isNilOrEmpty, Bool.false_eq_true, if_false]
      by_cases hc : (x :: xs).length ≤ m.params.length ∧ (m.params.drop (x :: xs).length).all (·.optional) = true
      · have hreq : requiredParamCount m ≤ (x :: xs).length :=
          required_le_of_drop_optional m.params _ (by simpa using hc.2)
        have : ¬ ((x :: xs).length < requiredParamCount m ∨ (x :: xs).length > m.params.length) := by omega
        simp only [this, if_false, hc, and_self, if_true]
        exact bindPositional_eq_spec env m.params (x :: xs) hc.1
      · simp only [hc, if_false]
        have : (x :: xs).length < requiredParamCount m ∨ (x :: xs).length > m.params.length := by
          by_cases hl : (x :: xs).length ≤ m.params.length
          · left
            apply Nat.lt_of_not_le
            intro hle
            apply hc
            refine ⟨hl, ?_⟩
            simpa using drop_optional m.params (x :: xs).length htail hle
          · right; omega
        simp only [List.length_cons, gt_iff_lt] at this
        simp [this, Except.toOption]
  · cases o with
    | nil => simpa [specBind] using hempty (some (.obj [])) rfl
    | cons kv o =>
      have hk := hkeys (kv :: o) rfl
      have hb := bindNamed_eq_spec env m.params (kv :: o) hnd hk
      simp only [specBind, buildArguments, isNilOrEmpty, Bool.false_eq_true, if_false]
      cases hs : specNamed env (kv :: o) m.params with
      | none =>
        simp only [hs] at hb
        obtain ⟨e, he⟩ := hb
        simp only [he, Except.toOption]
        split <;> rfl
      | some args =>
        simp only [hs] at hb
        simp only [hb]
        by_cases hallk : (kv :: o).all (fun kv => m.params.any (fun p => p.name = kv.1)) = true
        · have : (kv :: o).filter (fun kv => !(m.params.any (fun p => p.name = kv.1))) = [] := by
            rw [List.filter_eq_nil_iff]
            intro x hx
            have := List.all_eq_true.mp hallk x hx
            simp [this]
          simp [this, mapKeys, hallk, Except.toOption]
        · have hne : (kv :: o).filter (fun kv => !(m.params.any (fun p => p.name = kv.1))) ≠ [] := by
            intro hnil
            apply hallk
            rw [List.all_eq_true]
            intro x hx
            have := (List.filter_eq_nil_iff.mp hnil) x hx
            simpa using this
          have hmk : mapKeys ((kv :: o).filter (fun kv => !(m.params.any (fun p => p.name = kv.1)))) ≠ [] :=
            fun h => hne ((mapKeys_eq_nil_iff _).mp h)
          simp [hmk, hallk, Except.toOption]

/-! ### a plainly written request value: juno's stages against `specKind` -/

theorem canon_scalar (v : Json) (h : (∃ s, v = .str s) ∨ (∃ t, v = .num t)) : storeAny v = some v := by
  rcases h with ⟨s, rfl⟩ | ⟨t, rfl⟩ <;> simp [storeAny, canon]

/-- what juno decodes from a plain object, field by field -/
theorem plain_fields (kvs : List (String × Json)) (hp : PlainMembers kvs) (v m : String)
    (hv : member kvs "jsonrpc" = some (.str v)) (hm : member kvs "method" = some (.str m)) :
    decodeRequest (.obj kvs) =
      some (Request.mk v m ((member kvs "params").bind storeAny) ((member kvs "id").bind storeAny)) := by
  rw [decodeRequest_plain kvs hp, hv, hm]
  simp [stringField]

theorem stage_valid (env : Env) (tbl : Table) (kvs : List (String × Json)) (hp : PlainMembers kvs)
    (m : String) (p id : Option Json)
    (hv : member kvs "jsonrpc" = some (.str "2.0")) (hm : member kvs "method" = some (.str m)) (hne : m ≠ "")
    (hpar : (member kvs "params").bind storeAny = p) (hpok : paramsBad p = false)
    (hid : (member kvs "id").bind storeAny = id) (hidok : idBad id = false) :
    stageOf env tbl (.obj kvs) =
      (let req : Request := Request.mk "2.0" m p id
       match lookupMethod tbl m with
       | none => .unknownMethod req
       | some meth =>
         match buildArguments env p meth with
         | .error e => .badParams req meth e
         | .ok args => .run req meth args) := by
  unfold stageOf
  rw [plain_fields kvs hp "2.0" m hv hm, hpar, hid]
  simp only [isSane, hne, hpok, hidok, ne_eq, not_true_eq_false, if_false, Bool.false_eq_true]
  cases lookupMethod tbl m with
  | none => rfl
  | some meth => cases hb : buildArguments env p meth <;> simp [hb]

theorem lookupMethod_mem {tbl : Table} {name : String} {m : Method} (h : lookupMethod tbl name = some m) :
    m ∈ tbl := by
  unfold lookupMethod at h
  exact List.mem_reverse.mp (List.mem_of_find?_eq_some h)

theorem error_isError (code : Int) (d : Option Json) (id : Json)
    (h : code = -32700 ∨ code = -32600 ∨ code = -32601 ∨ code = -32602) :
    IsErrorResponse code id ({ error := some (mkErr code d), id := id } : Response).toJson := by
  obtain ⟨msg, hm⟩ := mkErr_code code d h
  exact ⟨msg, d, by simp [toJson_error, hm]⟩

/-- a valid Request (by the stage functions) is dispatched as the specification says -/
theorem valid_entry (env : Env) (tbl : Table) (c : Int) (kvs : List (String × Json)) (hp : PlainMembers kvs)
    (htbl : TableOk tbl) (m : String) (p id : Option Json)
    (hv : member kvs "jsonrpc" = some (.str "2.0")) (hm : member kvs "method" = some (.str m)) (hne : m ≠ "")
    (hpar : (member kvs "params").bind storeAny = p) (hpok : paramsBad p = false)
    (hid : (member kvs "id").bind storeAny = id) (hidok : idBad id = false)
    (hkeys : ∀ o, p = some (.obj o) → (o.map (·.1)).Nodup)
    (out : Option Response × List Call) (hdef : out = handleEntry junoCfg env tbl c (.obj kvs)) :
    out.2 = (specCall env tbl m p).toList ∧
    (match id with
     | none => out.1 = none
     | some i => ∃ r, out.1 = some r ∧ r.id = i ∧
        match lookupMethod tbl m with
        | none => IsErrorResponse (-32601) i r.toJson
        | some meth =>
          match specBind env meth.params p with
          | none => IsErrorResponse (-32602) i r.toJson
          | some args => r = handlerResponse junoCfg (env.call meth.name args) i) := by
  have hout : out = entrySpec junoCfg env c (stageOf env tbl (.obj kvs)) := by rw [hdef, handleEntry_eq]
  clear hdef
  rw [stage_valid env tbl kvs hp m p id hv hm hne hpar hpok hid hidok] at hout
  have hshape : p = none ∨ (∃ xs, p = some (.arr xs)) ∨ (∃ o, p = some (.obj o)) := by
    cases p with
    | none => exact Or.inl rfl
    | some v => cases v <;> simp [paramsBad] at hpok ⊢
  cases hl : lookupMethod tbl m with
  | none =>
    simp only [hl] at hout
    subst hout
    simp only [specCall, hl, Option.toList]
    cases id with
    | none => simp [entrySpec, junoCfg]
    | some i =>
      refine ⟨by simp [entrySpec], _, by simp [entrySpec, junoCfg]; rfl, rfl, ?_⟩
      exact error_isError (-32601) none i (by simp)
  | some meth =>
    obtain ⟨hnd, htail⟩ := htbl meth (lookupMethod_mem hl)
    have hB := buildArguments_eq_specBind env meth p hnd htail hkeys hshape
    simp only [hl] at hout
    cases hb : buildArguments env p meth with
    | error e =>
      simp only [hb, Except.toOption] at hB hout
      subst hout
      simp only [specCall, hl, ← hB, Option.map_none, Option.toList]
      cases id with
      | none => simp [entrySpec, junoCfg]
      | some i =>
        refine ⟨by simp [entrySpec], _, by simp [entrySpec, junoCfg]; rfl, rfl, ?_⟩
        exact error_isError (-32602) (some e.data) i (by simp)
    | ok args =>
      simp only [hb, Except.toOption] at hB hout
      subst hout
      simp only [specCall, hl, ← hB, Option.map_some, Option.toList]
      cases id with
      | none => simp [entrySpec]
      | some i => exact ⟨by simp [entrySpec], _, by simp [entrySpec], by
          simp only [handlerResponse]; cases (env.call meth.name args).error <;> rfl, rfl⟩

/-- a value that does not get past `decodeRequest` / `isSane` is answered -32600 (in a batch; for a
single request only if it is decodable) with id Null or its own id member -/
theorem invalid_entry (cfg : Config) (env : Env) (tbl : Table) (c : Int) (j : Json)
    (h : (decodeRequest j = none ∧ c = -32600) ∨
         (∃ req e, decodeRequest j = some req ∧ isSane req = some e ∧ (e = .id ∨ InvalidIdOk j (echoId cfg req.id)))) :
    (handleEntry cfg env tbl c j).2 = [] ∧
    ∃ r, (handleEntry cfg env tbl c j).1 = some r ∧ IsErrorResponse (-32600) r.id r.toJson ∧ InvalidIdOk j r.id := by
  rw [handleEntry_eq]
  rcases h with ⟨hd, rfl⟩ | ⟨req, e, hd, hs, hid⟩
  · have hst : stageOf env tbl j = .undecodable := by simp [stageOf, hd]
    rw [hst]
    refine ⟨rfl, _, rfl, ?_, Or.inl rfl⟩
    exact errResponse_isError (-32600) _ (by simp)
  · have hst : stageOf env tbl j = .insane e req := by simp [stageOf, hd, hs]
    rw [hst]
    refine ⟨rfl, _, rfl, ?_, ?_⟩
    · exact error_isError (-32600) _ _ (by simp)
    · show InvalidIdOk j (if e = .id then .null else echoId cfg req.id)
      by_cases he : e = .id
      · simp only [he, if_true]; exact Or.inl rfl
      · simp only [he, if_false]
        rcases hid with h1 | h2
        · exact absurd h1 he
        · exact h2

theorem stringField_nonempty {o : Option Json} {s : String} (h : stringField o = some s) (hs : s ≠ "") :
    o = some (.str s) := by
  cases o with
  | none => simp [stringField] at h; exact absurd h hs
  | some v =>
    cases v with
    | str t => simp [stringField] at h; rw [h]
    | null => simp [stringField] at h; exact absurd h hs
    | bool b => simp [stringField] at h
    | num t => simp [stringField] at h
    | arr xs => simp [stringField] at h
    | obj kvs => simp [stringField] at h

theorem isSane_none {r : Request} (h : isSane r = none) :
    r.version = "2.0" ∧ r.method ≠ "" ∧ paramsBad r.params = false ∧ idBad r.id = false := by
  unfold isSane at h
  by_cases h1 : r.version = "2.0"
  · by_cases h2 : r.method = ""
    · simp [h1, h2] at h
    · cases h3 : paramsBad r.params with
      | true => simp [h1, h2, h3] at h
      | false =>
        cases h4 : idBad r.id with
        | true => simp [h1, h2, h3, h4] at h
        | false => exact ⟨h1, h2, rfl, rfl⟩
  · simp [h1] at h

/-- for a plain object: whatever passes `decodeRequest` and `isSane` is a Request by the text of §4 -/
theorem sane_is_spec_valid (kvs : List (String × Json)) (hp : PlainMembers kvs)
    (req : Request) (hd : decodeRequest (.obj kvs) = some req) (hs : isSane req = none) :
    ∃ m, member kvs "jsonrpc" = some (.str "2.0") ∧ member kvs "method" = some (.str m) ∧ m ≠ "" ∧
      req = Request.mk "2.0" m ((member kvs "params").bind storeAny) ((member kvs "id").bind storeAny) ∧
      paramsBad req.params = false ∧ idBad req.id = false := by
  rw [decodeRequest_plain kvs hp] at hd
  cases hv : stringField (member kvs "jsonrpc") with
  | none => simp [hv] at hd
  | some v =>
    cases hm : stringField (member kvs "method") with
    | none => simp [hv, hm] at hd
    | some m =>
      simp only [hv, hm, Option.some.injEq] at hd
      subst hd
      obtain ⟨h1, h2, h3, h4⟩ := isSane_none hs
      simp only at h1 h2 h3 h4
      subst h1
      exact ⟨m, stringField_nonempty hv (by decide), stringField_nonempty hm h2, h2, rfl, h3, h4⟩

theorem specKind_obj_invalid_of_decode_none (kvs : List (String × Json)) (hp : PlainMembers kvs)
    (hd : decodeRequest (.obj kvs) = none) : specKind (.obj kvs) = .invalid := by
  rw [decodeRequest_plain kvs hp] at hd
  show specKindObj kvs = .invalid
  unfold specKindObj
  cases hj : member kvs "jsonrpc" with
  | none => rfl
  | some vj =>
    cases hm : member kvs "method" with
    | none => cases vj <;> rfl
    | some vm =>
      cases vj <;> cases vm <;> first | rfl | (simp [hj, hm, stringField] at hd)

/-- **Every request value meets the specification** — under the stated exclusions, each of which is a
documented deviation of juno with its own counterexample theorem. -/
theorem entry_meets_spec (env : Env) (tbl : Table) (c : Int) (j : Json) (htbl : TableOk tbl)
    (hplain : PlainEntry j)
    (hdefinite : ∀ kvs, j = .obj kvs → SpecDefinite kvs ∧ IdScalarOrAbsent kvs)
    (hnotnull : ∀ kvs, j = .obj kvs → member kvs "id" ≠ some .null)
    (hdec : c = -32600 ∨ decodeRequest j ≠ none) :
    MeetsSpec junoCfg env tbl j (handleEntry junoCfg env tbl c j) := by
  have hc : decodeRequest j = none → c = -32600 := by
    intro h; rcases hdec with h1 | h2
    · exact h1
    · exact absurd h h2
  cases j with
  | null =>
    unfold MeetsSpec; simp only [specKind]
    exact invalid_entry junoCfg env tbl c .null (Or.inr ⟨{}, .version, rfl, by decide, Or.inr (Or.inl rfl)⟩)
  | bool b =>
    unfold MeetsSpec; simp only [specKind]
    exact invalid_entry junoCfg env tbl c _ (Or.inl ⟨rfl, hc rfl⟩)
  | num t =>
    unfold MeetsSpec; simp only [specKind]
    exact invalid_entry junoCfg env tbl c _ (Or.inl ⟨rfl, hc rfl⟩)
  | str t =>
    unfold MeetsSpec; simp only [specKind]
    exact invalid_entry junoCfg env tbl c _ (Or.inl ⟨rfl, hc rfl⟩)
  | arr xs =>
    unfold MeetsSpec; simp only [specKind]
    exact invalid_entry junoCfg env tbl c _ (Or.inl ⟨rfl, hc rfl⟩)
  | obj kvs =>
    obtain ⟨hp, hcanon⟩ := hplain
    obtain ⟨⟨hpn, hidnum⟩, hidsc⟩ := hdefinite kvs rfl
    have hidnn := hnotnull kvs rfl
    cases hd : decodeRequest (.obj kvs) with
    | none =>
      unfold MeetsSpec
      rw [specKind_obj_invalid_of_decode_none kvs hp hd]
      exact invalid_entry junoCfg env tbl c _ (Or.inl ⟨hd, hc hd⟩)
    | some req =>
      -- the decoded id is the id member (a scalar) or nil
      have hreqid : ∀ r, decodeRequest (.obj kvs) = some r →
          r.id = (member kvs "id").bind storeAny ∧ r.params = (member kvs "params").bind storeAny := by
        intro r hr
        rw [decodeRequest_plain kvs hp] at hr
        cases h1 : stringField (member kvs "jsonrpc") <;> cases h2 : stringField (member kvs "method") <;>
          simp [h1, h2] at hr
        subst hr; exact ⟨rfl, rfl⟩
      have hidok : InvalidIdOk (.obj kvs) (echoId junoCfg req.id) := by
        rw [(hreqid req hd).1]
        cases hmi : member kvs "id" with
        | none => exact Or.inl rfl
        | some v =>
          rcases hidsc v hmi with ⟨s, rfl⟩ | ⟨t, rfl⟩ | rfl
          · exact Or.inr ⟨kvs, rfl, by simp [hmi, storeAny, canon, echoId, junoCfg]⟩
          · exact Or.inr ⟨kvs, rfl, by simp [hmi, storeAny, canon, echoId, junoCfg]⟩
          · exact Or.inl rfl
      cases hs : isSane req with
      | some e =>
        -- not sane: the specification calls it invalid as well
        have hinv : specKind (.obj kvs) = .invalid := by
          show specKindObj kvs = .invalid
          unfold specKindObj
          cases hj : member kvs "jsonrpc" with
          | none => rfl
          | some vj =>
            cases hm : member kvs "method" with
            | none => cases vj <;> rfl
            | some vm =>
              cases vj <;> cases vm <;> try rfl
              rename_i v m
              simp only
              by_cases hvm : v ≠ "2.0" ∨ m = ""
              · simp [hvm]
              · have hv : v = "2.0" := by
                  cases Classical.em (v = "2.0") with
                  | inl h => exact h
                  | inr h => exact absurd (Or.inl h) hvm
                have hm0 : m ≠ "" := fun h => hvm (Or.inr h)
                subst hv
                have hreq := plain_fields kvs hp "2.0" m hj hm
                rw [hd] at hreq
                have hreq' := (Option.some.inj hreq)
                rw [hreq'] at hs
                simp only [isSane, ne_eq, not_true_eq_false, if_false, hm0] at hs
                simp only [hvm, if_false]
                -- params
                cases hpm : member kvs "params" with
                | none =>
                  simp only [hpm, Option.bind_none, paramsBad, Bool.false_eq_true, if_false] at hs
                  cases hmi : member kvs "id" with
                  | none => simp [hmi, idBad] at hs
                  | some vi =>
                    cases vi with
                    | null => exact absurd hmi hidnn
                    | str t => simp [hmi, storeAny, canon, idBad] at hs
                    | num t => simp [hmi, storeAny, canon, hidnum t hmi] at hs
                    | bool b => rfl
                    | arr xs => rfl
                    | obj o => rfl
                | some vp =>
                  cases vp with
                  | null => exact absurd hpm hpn
                  | bool b => rfl
                  | num t => rfl
                  | str t => rfl
                  | arr xs =>
                    simp only [hpm, Option.bind_some, storeAny, canon, paramsBad, Bool.false_eq_true, if_false] at hs
                    cases hmi : member kvs "id" with
                    | none => simp [hmi, idBad] at hs
                    | some vi =>
                      cases vi with
                      | null => exact absurd hmi hidnn
                      | str t => simp [hmi, storeAny, canon, idBad] at hs
                      | num t => simp [hmi, storeAny, canon, hidnum t hmi] at hs
                      | bool b => rfl
                      | arr xs => rfl
                      | obj o => rfl
                  | obj o =>
                    simp only [hpm, Option.bind_some, storeAny, canon, paramsBad, Bool.false_eq_true, if_false] at hs
                    cases hmi : member kvs "id" with
                    | none => simp [hmi, idBad] at hs
                    | some vi =>
                      cases vi with
                      | null => exact absurd hmi hidnn
                      | str t => simp [hmi, storeAny, canon, idBad] at hs
                      | num t => simp [hmi, storeAny, canon, hidnum t hmi] at hs
                      | bool b => rfl
                      | arr xs => rfl
                      | obj o => rfl
        unfold MeetsSpec; rw [hinv]
        exact invalid_entry junoCfg env tbl c _ (Or.inr ⟨req, e, hd, hs, Or.inr hidok⟩)
      | none =>
        obtain ⟨m, hj, hm, hm0, hreq, hpb, hib⟩ := sane_is_spec_valid kvs hp req hd hs
        subst hreq
        simp only at hpb hib
        -- the params member is absent, an array or an object (in canonical form)
        have hpar : ∃ p, (member kvs "params").bind storeAny = p ∧
            specParams (member kvs "params") = some p ∧
            (∀ o, p = some (.obj o) → (o.map (·.1)).Nodup) := by
          cases hpm : member kvs "params" with
          | none => exact ⟨none, rfl, rfl, by intro o h; cases h⟩
          | some vp =>
            obtain ⟨hc1, hc2⟩ := hcanon vp hpm
            cases vp with
            | null => exact absurd hpm hpn
            | bool b => simp [hpm, storeAny, canon, paramsBad] at hpb
            | num t => simp [hpm, storeAny, canon, paramsBad] at hpb
            | str t => simp [hpm, storeAny, canon, paramsBad] at hpb
            | arr xs =>
              refine ⟨some (.arr xs), ?_, rfl, by intro o h; cases h⟩
              simp only [Option.bind_some, storeAny, hc1]
            | obj o =>
              refine ⟨some (.obj o), ?_, rfl, ?_⟩
              · simp only [Option.bind_some, storeAny, hc1]
              · intro o' h; cases h; exact hc2 o rfl
        obtain ⟨p, hp1, hp2, hp3⟩ := hpar
        have hpok : paramsBad p = false := by rw [← hp1]; exact hpb
        unfold MeetsSpec
        show (match specKindObj kvs with | .invalid => _ | .notification m p => _ | .request id m p => _)
        cases hmi : member kvs "id" with
        | none =>
          have hk : specKindObj kvs = .notification m p := by
            unfold specKindObj
            simp only [hj, hm]
            have : ¬ ("2.0" ≠ "2.0" ∨ m = "") := by simp [hm0]
            simp only [this, if_false, hmi]
            rw [hp2]
          rw [hk]
          have := valid_entry env tbl c kvs hp htbl m p none hj hm hm0 hp1 hpok (by simp [hmi]) rfl hp3 _ rfl
          exact ⟨this.2, this.1⟩
        | some vi =>
          have hidv : (member kvs "id").bind storeAny = some vi ∧
              specKindObj kvs = .request vi m p := by
            cases vi with
            | null => exact absurd hmi hidnn
            | bool b => simp [hmi, storeAny, canon, idBad] at hib
            | arr xs => simp [hmi, storeAny, canon, idBad] at hib
            | obj o => simp [hmi, storeAny, canon, idBad] at hib
            | str t =>
              refine ⟨by simp [hmi, storeAny, canon], ?_⟩
              unfold specKindObj
              simp only [hj, hm]
              have : ¬ ("2.0" ≠ "2.0" ∨ m = "") := by simp [hm0]
              simp only [this, if_false, hmi]
              rw [hp2]
            | num t =>
              refine ⟨by simp [hmi, storeAny, canon], ?_⟩
              unfold specKindObj
              simp only [hj, hm]
              have : ¬ ("2.0" ≠ "2.0" ∨ m = "") := by simp [hm0]
              simp only [this, if_false, hmi]
              rw [hp2]
          rw [hidv.2]
          have hidok2 : idBad (some vi) = false := by rw [← hidv.1]; exact hib
          have := valid_entry env tbl c kvs hp htbl m p (some vi) hj hm hm0 hp1 hpok hidv.1 hidok2 hp3 _ rfl
          exact ⟨this.1, this.2⟩

/-! ### handlers that fail -/

/-- no handler panics or returns something `json.Marshal` rejects -/
def HandlersOk (env : Env) : Prop := ∀ n a, (env.call n a).faulty = false

theorem handlerOutcome_ok {env : Env} (h : HandlersOk env) (tbl : Table) (j : Json) (b : Bool) (o : HResult)
    (hh : handlerOutcome env tbl j = some (b, o)) : o.panics = false ∧ o.marshals = true := by
  unfold handlerOutcome at hh
  split at hh
  · simp at hh
  · split at hh
    · simp at hh
    · split at hh
      · simp at hh
      · split at hh
        · simp at hh
        · rename_i mm _ _ aa _
          simp only [Option.some.injEq, Prod.mk.injEq] at hh
          obtain ⟨_, rfl⟩ := hh
          have := h mm.name aa
          simp only [HResult.faulty, Bool.or_eq_false_iff, Bool.not_eq_false'] at this
          exact this

theorem responseLost_false {env : Env} (h : HandlersOk env) (tbl : Table) (j : Json) :
    responseLost env tbl j = false ∧ entryPanics env tbl j = false := by
  unfold responseLost entryPanics
  cases ho : handlerOutcome env tbl j with
  | none => simp
  | some bo =>
    obtain ⟨b, o⟩ := bo
    obtain ⟨h1, h2⟩ := handlerOutcome_ok h tbl j b o ho
    simp [h1, h2]

/-- with well-behaved handlers `handleInputF` is `handleInput` -/
theorem handleInputF_ok_asis (cfg : Config) (env : Env) (tbl : Table) (inp : Input) (h : HandlersOk env)
    (hc : cfg.internalErrorOnHandlerFailure = false) :
    handleInputF cfg env tbl inp =
      { body := (handleInput cfg env tbl inp).body, log := (handleInput cfg env tbl inp).log } := by
  unfold handleInputF
  simp only [hc, Bool.false_eq_true, if_false]
  by_cases hB : isBatch cfg inp = true
  · simp only [hB, Bool.not_true, Bool.false_eq_true, if_false]
    by_cases hD : cfg.batchDisabled = true
    · simp [hD]
    · simp only [hD, Bool.not_false, if_true]
      cases hp : inp.parsed with
      | none => rfl
      | some v =>
        cases v with
        | arr ys =>
          cases ys with
          | nil => rfl
          | cons y ys =>
            have hk : (y :: ys).filter (fun e => !responseLost env tbl e) = y :: ys := by
              rw [List.filter_eq_self]; intro e _; simp [(responseLost_false h tbl e).1]
            simp only [hk]
            simp [handleInput, hB, hD, hp]
        | null => rfl
        | bool b => rfl
        | num t => rfl
        | str t => rfl
        | obj o => rfl
  · simp only [Bool.not_eq_true] at hB
    simp only [hB, Bool.not_false, if_true]
    cases hp : inp.parsed with
    | none => rfl
    | some j => simp [(responseLost_false h tbl j).1, (responseLost_false h tbl j).2]

theorem sanitize_id {env : Env} (h : HandlersOk env) : env.sanitize = env := by
  cases env with
  | mk decode zero call nng =>
    simp only [Env.sanitize, Env.mk.injEq, true_and, and_true]
    funext n a
    have := h n a
    simp only at this
    simp [this]

/-- with well-behaved handlers `handleInputF` is `handleInput`, whether or not failures would be answered -/
theorem handleInputF_ok (cfg : Config) (env : Env) (tbl : Table) (inp : Input) (h : HandlersOk env) :
    handleInputF cfg env tbl inp =
      { body := (handleInput cfg env tbl inp).body, log := (handleInput cfg env tbl inp).log } := by
  cases hc : cfg.internalErrorOnHandlerFailure with
  | false => exact handleInputF_ok_asis cfg env tbl inp h hc
  | true => simp [handleInputF, hc, sanitize_id h]

theorem sanitize_ok (env : Env) : HandlersOk env.sanitize := by
  intro n a
  simp only [Env.sanitize]
  split <;> simp_all [HResult.faulty]

/-- the body is well-formed whatever the handlers do (a lost response is an absence, not a malformation) -/
theorem wellformedF (cfg : Config) (env : Env) (tbl : Table) (inp : Input) (hn : cfg.nullForNilResult = true) :
    WellFormedBody (inp.batch? cfg).isSome (handleInputF cfg env tbl inp).body := by
  unfold handleInputF
  by_cases hc : cfg.internalErrorOnHandlerFailure = true
  · simp only [hc, if_true]
    exact wellformed cfg env.sanitize tbl inp (Or.inl hn)
  · simp only [hc, Bool.false_eq_true, if_false]
    have base := wellformed cfg env tbl inp (Or.inl hn)
    by_cases hB : isBatch cfg inp = true
    · simp only [hB, Bool.not_true, Bool.false_eq_true, if_false]
      by_cases hD : cfg.batchDisabled = true
      · simpa [hD] using base
      · simp only [hD, Bool.not_false, if_true]
        cases hp : inp.parsed with
        | none => simpa using base
        | some v =>
          cases v with
          | arr ys =>
            cases ys with
            | nil => simpa using base
            | cons y ys =>
              simp only
              have hbq : (inp.batch? cfg).isSome = true := by
                simp [Input.batch?, hB, hD, hp]
              rw [hbq]
              cases hk : (y :: ys).filter (fun e => !responseLost env tbl e) with
              | nil => simp [batchResponses, batchEntries, WellFormedBody]
              | cons k ks =>
                -- the kept entries form a batch of their own
                let inp' : Input := { inp with parsed := some (.arr (k :: ks)) }
                have hB' : isBatch cfg inp' = true := hB
                have hq' : inp'.batch? cfg = some (k :: ks) := by simp [Input.batch?, hB', hD, inp']
                have w := wellformed cfg env tbl inp' (Or.inl hn)
                rw [handleInput_batch cfg env tbl inp' (k :: ks) hq', hq'] at w
                exact w
          | null => simpa using base
          | bool b => simpa using base
          | num t => simpa using base
          | str t => simpa using base
          | obj o => simpa using base
    · simp only [Bool.not_eq_true] at hB
      simp only [hB, Bool.not_false, if_true]
      cases hp : inp.parsed with
      | none => simpa using base
      | some j =>
        simp only
        split
        · simp [WellFormedBody]
        · split
          · simp [WellFormedBody]
          · exact base

/-! ### whole inputs against the specification -/

theorem assemble_eq_none (b : Bool) (l : List Json) : assemble b l = none ↔ l = [] := by
  cases b <;> cases l <;> simp [assemble]

theorem input_meets_spec (env : Env) (tbl : Table) (inp : Input) (es : List Json)
    (hes : inp.entries junoCfg = some es) (htbl : TableOk tbl) (hok : HandlersOk env)
    (hj : ∀ e ∈ es, Judged (!(inp.batch? junoCfg).isSome) e) :
    (∀ e ∈ es, MeetsSpec junoCfg env tbl e (handleEntry junoCfg env tbl (inp.decodeFailCode junoCfg) e)) ∧
    (handleInputF junoCfg env tbl inp).body =
      assemble (inp.batch? junoCfg).isSome
        ((es.filterMap (fun e => (handleEntry junoCfg env tbl (inp.decodeFailCode junoCfg) e).1)).map Response.toJson) ∧
    (handleInputF junoCfg env tbl inp).log =
      es.flatMap (fun e => (handleEntry junoCfg env tbl (inp.decodeFailCode junoCfg) e).2) ∧
    (handleInputF junoCfg env tbl inp).goError = false ∧ (handleInputF junoCfg env tbl inp).panicked = false := by
  rw [handleInputF_ok junoCfg env tbl inp hok]
  have hmeets : ∀ e ∈ es, MeetsSpec junoCfg env tbl e (handleEntry junoCfg env tbl (inp.decodeFailCode junoCfg) e) := by
    intro e he
    obtain ⟨hpl, hd, hsingle⟩ := hj e he
    apply entry_meets_spec env tbl _ e htbl hpl
    · intro kvs hk; exact ⟨(hd kvs hk).1, (hd kvs hk).2.1⟩
    · intro kvs hk; exact (hd kvs hk).2.2
    · cases hb : (inp.batch? junoCfg).isSome with
      | true => left; simp [Input.decodeFailCode, hb]
      | false => right; exact hsingle (by simp [hb])
  refine ⟨hmeets, ?_, ?_, rfl, rfl⟩
  · rcases entries_cases hes with hb | ⟨hb, j, hjs, rfl⟩
    · rw [handleInput_batch junoCfg env tbl inp es hb]
      have hc : inp.decodeFailCode junoCfg = InvalidRequest := by simp [Input.decodeFailCode, hb, InvalidRequest]
      simp only [hb, Option.isSome_some, hc, assemble, if_true, batchResponses, batchEntries, List.filterMap_map,
        List.isEmpty_map, Function.comp_def]
    · rw [handleInput_single junoCfg env tbl inp j hjs]
      have hc : inp.decodeFailCode junoCfg = InvalidJSON := by simp [Input.decodeFailCode, hb, InvalidJSON]
      simp only [hb, Option.isSome_none, hc, assemble, Bool.false_eq_true, if_false]
      cases hh : (handleEntry junoCfg env tbl InvalidJSON j).1 <;> simp [hh]
  · rcases entries_cases hes with hb | ⟨hb, j, hjs, rfl⟩
    · rw [handleInput_batch junoCfg env tbl inp es hb]
      have hc : inp.decodeFailCode junoCfg = InvalidRequest := by simp [Input.decodeFailCode, hb, InvalidRequest]
      simp only [hc, batchLog, batchEntries, List.flatMap_map]
    · rw [handleInput_single junoCfg env tbl inp j hjs]
      have hc : inp.decodeFailCode junoCfg = InvalidJSON := by simp [Input.decodeFailCode, hb, InvalidJSON]
      simp [hc]

theorem meetsSpec_silent_iff {cfg : Config} {env : Env} {tbl : Table} {j : Json} {out : Option Response × List Call}
    (h : MeetsSpec cfg env tbl j out) : out.1 = none ↔ (specKind j).isNotification = true := by
  unfold MeetsSpec at h
  cases hk : specKind j with
  | invalid =>
    simp only [hk] at h
    obtain ⟨_, r, hr, _⟩ := h
    simp [hr, SpecKind.isNotification]
  | notification m p =>
    simp only [hk] at h
    simp [h.1, SpecKind.isNotification]
  | request id m p =>
    simp only [hk] at h
    obtain ⟨_, r, hr, _⟩ := h
    simp [hr, SpecKind.isNotification]

theorem silent_iff_spec (env : Env) (tbl : Table) (inp : Input) (htbl : TableOk tbl) (hok : HandlersOk env)
    (hj : ∀ es, inp.entries junoCfg = some es → ∀ e ∈ es, Judged (!(inp.batch? junoCfg).isSome) e) :
    (handleInputF junoCfg env tbl inp).body = none ↔
      ∃ es, inp.entries junoCfg = some es ∧ ∀ e ∈ es, (specKind e).isNotification = true := by
  cases hes : inp.entries junoCfg with
  | none =>
    obtain ⟨code, j, _, hout, _⟩ := handleInput_refused junoCfg env tbl inp hes
    rw [handleInputF_ok junoCfg env tbl inp hok, hout]
    simp
  | some es =>
    obtain ⟨hm, hbody, _⟩ := input_meets_spec env tbl inp es hes htbl hok (hj es hes)
    rw [hbody, assemble_eq_none]
    simp only [List.map_eq_nil_iff, List.filterMap_eq_nil_iff, Option.some.injEq, exists_eq_left']
    constructor
    · intro h e he
      exact (meetsSpec_silent_iff (hm e he)).mp (h e he)
    · intro h e he
      exact (meetsSpec_silent_iff (hm e he)).mpr (h e he)

/-! ### the id a response carries -/

theorem stage_id_legal_repaired (cfg : Config) (hc : cfg.legalIdEchoOnly = true) (env : Env) (tbl : Table) (j : Json) :
    LegalId ((stageOf env tbl j).id cfg) := by
  have sane_legal : ∀ req : Request, isSane req = none → LegalId (idJson req.id) := by
    intro req hs
    have := (isSane_none hs).2.2.2
    cases hid : req.id with
    | none => simp [idJson, LegalId]
    | some v => cases v <;> simp [hid, idBad] at this <;> simp [idJson, LegalId]
  unfold stageOf
  cases hd : decodeRequest j with
  | none => simp [Stage.id, LegalId]
  | some req =>
    simp only
    cases hs : isSane req with
    | some e =>
      simp only [Stage.id]
      by_cases he : e = .id
      · simp [he, LegalId]
      · simp only [he, if_false, echoId, hc, if_true]
        cases req.id with
        | none => simp [LegalId]
        | some v => cases v <;> simp [LegalId]
    | none =>
      simp only
      cases lookupMethod tbl req.method with
      | none => exact sane_legal req hs
      | some m =>
        simp only
        cases buildArguments env req.params m with
        | error e => exact sane_legal req hs
        | ok args => exact sane_legal req hs

/-! ### the current server: failing handlers are answered (6442b48) -/

theorem handleInputF_sanitize (env : Env) (tbl : Table) (inp : Input) :
    handleInputF junoCfg env tbl inp = handleInputF junoCfg env.sanitize tbl inp := by
  rw [handleInputF_ok junoCfg env.sanitize tbl inp (sanitize_ok env)]
  simp [handleInputF, junoCfg]

theorem input_meets_spec_all (env : Env) (tbl : Table) (inp : Input) (es : List Json)
    (hes : inp.entries junoCfg = some es) (htbl : TableOk tbl)
    (hj : ∀ e ∈ es, Judged (!(inp.batch? junoCfg).isSome) e) :
    (∀ e ∈ es, MeetsSpec junoCfg env.sanitize tbl e (handleEntry junoCfg env.sanitize tbl (inp.decodeFailCode junoCfg) e)) ∧
    (handleInputF junoCfg env tbl inp).body =
      assemble (inp.batch? junoCfg).isSome
        ((es.filterMap (fun e => (handleEntry junoCfg env.sanitize tbl (inp.decodeFailCode junoCfg) e).1)).map Response.toJson) ∧
    (handleInputF junoCfg env tbl inp).log =
      es.flatMap (fun e => (handleEntry junoCfg env.sanitize tbl (inp.decodeFailCode junoCfg) e).2) ∧
    (handleInputF junoCfg env tbl inp).goError = false ∧ (handleInputF junoCfg env tbl inp).panicked = false := by
  rw [handleInputF_sanitize]
  exact input_meets_spec env.sanitize tbl inp es hes htbl (sanitize_ok env) hj

theorem silent_iff_spec_all (env : Env) (tbl : Table) (inp : Input) (htbl : TableOk tbl)
    (hj : ∀ es, inp.entries junoCfg = some es → ∀ e ∈ es, Judged (!(inp.batch? junoCfg).isSome) e) :
    (handleInputF junoCfg env tbl inp).body = none ↔
      ∃ es, inp.entries junoCfg = some es ∧ ∀ e ∈ es, (specKind e).isNotification = true := by
  rw [handleInputF_sanitize]
  exact silent_iff_spec env.sanitize tbl inp htbl (sanitize_ok env) hj

/-- what the caller of a failing handler gets: -32603 Internal error with the request's id -/
theorem failing_handler_answer (cfg : Config) (env : Env) (n : String) (a : List Json) (id : Json)
    (h : (env.call n a).faulty = true) :
    IsErrorResponse (-32603) id (handlerResponse cfg (env.sanitize.call n a) id).toJson := by
  simp only [Env.sanitize, h, if_true, handlerResponse]
  exact ⟨"Internal error", some opaqueData, by simp [toJson_error, mkErr, InternalError, InvalidJSON, InvalidRequest, MethodNotFound, InvalidParams]⟩

end Juno.C11
