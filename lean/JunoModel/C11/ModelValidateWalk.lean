/-
C11 (round 6 follow-up) — `Server.validateParam` (`jsonrpc/server.go`): which values of a handler parameter the
registered Validator gets to see. The walk is by reflect.Kind:

    struct, or non-nil pointer to struct  -> validator.Struct(param)
    slice / array                         -> every element, recursively
    map                                   -> every value, recursively
    anything else (also a pointer to a slice / map / pointer, an interface) -> nothing

For a parameter whose static type is a chain of containers around a validated struct (`[][]T`, `map[string][2]T`,
`[][]*T`, …) the chain of kinds decides whether the structs at the leaves are reached. Core Lean only.
-/
namespace Juno.C11.VWalk

/-- container kinds of the static type, outermost first; the leaf is the validated struct -/
inductive Kind where
  | slice | array | map | ptr
  deriving Repr, DecidableEq

/-- `validateParam` reaches the structs below this chain (as the code is: a pointer is only followed when it points
directly at a struct) -/
def descends : List Kind → Bool
  | [] => true
  | [.ptr] => true
  | .ptr :: _ => false
  | _ :: r => descends r

/-- the request is accepted: every struct the walk reaches satisfies its rules (`leaves`: validity, left to right) -/
def accepted (ks : List Kind) (leaves : List Bool) : Bool :=
  if descends ks then leaves.all id else true

/-- the variant that returns early for a slice / array whose ELEMENT kind is not struct, pointer or map (NOT the
code: the regression witness of the follow-up) -/
def descendsEarlyReturn : List Kind → Bool
  | [] => true
  | [.ptr] => true
  | .ptr :: _ => false
  | .map :: r => descendsEarlyReturn r
  | _ :: .slice :: _ => false
  | _ :: .array :: _ => false
  | _ :: r => descendsEarlyReturn r

theorem descends_of_no_ptr (ks : List Kind) (h : ∀ k ∈ ks, k ≠ .ptr) : descends ks = true := by
  induction ks with
  | nil => rfl
  | cons k r ih =>
    have hk : k ≠ .ptr := h k (by simp)
    have hr := ih (fun k hk' => h k (by simp [hk']))
    cases k <;> simp_all [descends]

theorem descends_append_ptr (ks : List Kind) (h : ∀ k ∈ ks, k ≠ .ptr) : descends (ks ++ [.ptr]) = true := by
  induction ks with
  | nil => rfl
  | cons k r ih =>
    have hk : k ≠ .ptr := h k (by simp)
    have hr := ih (fun k hk' => h k (by simp [hk']))
    cases k <;> first | exact absurd rfl hk | (cases r <;> simp_all [descends])

end Juno.C11.VWalk
