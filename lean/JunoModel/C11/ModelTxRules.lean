/-
C11 (round 6) — the conditional parameter rules of the broadcasted transaction (`rpc/v10`), i.e. what
`rpcv10.Validator()` (`rpc/v10/validator.go`) decides for the parameter of `starknet_addInvokeTransaction` /
`addDeclareTransaction` / `addDeployAccountTransaction` (one handler, one parameter type: `*BroadcastedTransaction`)
once `encoding/json` has decoded it: the `validate:` tags of `Transaction` / `BroadcastedTransaction`
(`required`, `required_if=Type X`, `excluded_unless=Type INVOKE`), evaluated the way go-playground/validator does
with the custom type function `Validator()` registers for `TransactionType` — the comparison value of `Type` is
`t.String()` ("DECLARE", …, "<unknown>" for the zero value of an absent `type` member), which is what the tag
parameters are compared with. Before round 6: "`TransactionType` type func: not covered". Core Lean only.
-/
namespace Juno.C11.TxRules

/-- `TransactionType` after decoding; `unknown` = the zero value (no `type` member): `String()` = "<unknown>" -/
inductive TxType where
  | unknown | declare | deploy | deployAccount | invoke | l1Handler
  deriving Repr, DecidableEq

/-- the members of the parameter that carry a `validate:` tag about presence -/
inductive Field where
  | type | version | nonce | contractAddressSalt | classHash | constructorCalldata | senderAddress | signature
  | calldata | resourceBounds | tip | paymasterData | accountDeploymentData | nonceDAMode | feeDAMode | proofFacts
  | contractClass | proof
  deriving Repr, DecidableEq

def Field.all : List Field :=
  [.type, .version, .nonce, .contractAddressSalt, .classHash, .constructorCalldata, .senderAddress, .signature,
   .calldata, .resourceBounds, .tip, .paymasterData, .accountDeploymentData, .nonceDAMode, .feeDAMode, .proofFacts,
   .contractClass, .proof]

inductive Rule where
  /-- `required` on a field whose validated value can never be empty: `Type` (the custom type function turns every
  value, also the zero value, into a non-empty string) -/
  | always
  /-- `required` -/
  | required
  /-- `required_if=Type A,required_if=Type B` -/
  | requiredIf (ts : List TxType)
  /-- `excluded_unless=Type A` -/
  | excludedUnless (ts : List TxType)
  deriving Repr, DecidableEq

/-- the tags of `rpcv10.Transaction` and `rpcv10.BroadcastedTransaction` -/
def rule : Field → Rule
  | .type => .always
  | .version | .nonce | .signature | .resourceBounds | .tip | .paymasterData | .nonceDAMode | .feeDAMode => .required
  | .contractAddressSalt | .classHash | .constructorCalldata => .requiredIf [.deploy, .deployAccount]
  | .senderAddress => .requiredIf [.declare, .invoke]
  | .calldata => .requiredIf [.invoke]
  | .accountDeploymentData => .requiredIf [.invoke, .declare]
  | .proofFacts | .proof => .excludedUnless [.invoke]
  | .contractClass => .requiredIf [.declare]

def Rule.ok (ty : TxType) (present : Bool) : Rule → Bool
  | .always => true
  | .required => present
  | .requiredIf ts => !(ts.contains ty) || present
  | .excludedUnless ts => ts.contains ty || !present

/-- `validator.Struct(param)` succeeds (as far as presence goes: every present member is well-formed) -/
def accepts (ty : TxType) (present : Field → Bool) : Bool :=
  Field.all.all (fun f => (rule f).ok ty (present f))

/-- the members a transaction of this type must carry -/
def requiredFor : TxType → List Field
  | .invoke => [.version, .nonce, .signature, .resourceBounds, .tip, .paymasterData, .nonceDAMode, .feeDAMode,
      .senderAddress, .calldata, .accountDeploymentData]
  | .declare => [.version, .nonce, .signature, .resourceBounds, .tip, .paymasterData, .nonceDAMode, .feeDAMode,
      .senderAddress, .accountDeploymentData, .contractClass]
  | .deployAccount | .deploy => [.version, .nonce, .signature, .resourceBounds, .tip, .paymasterData, .nonceDAMode,
      .feeDAMode, .contractAddressSalt, .classHash, .constructorCalldata]
  | .l1Handler | .unknown => [.version, .nonce, .signature, .resourceBounds, .tip, .paymasterData, .nonceDAMode, .feeDAMode]

end Juno.C11.TxRules
