import JunoModel.C11.ModelPretty
/-
C11 — `jsonrpc/pretty_error.go`, the TEXT of a parse-error answer (round 4). `ModelPretty.lean`
stops where the caret position is known; this module transcribes the rest of `prettyParseError`:
`describeError` / `describeSyntaxError` / `describeTypeError` / `expectedToken` / `precededByComma`,
`offendingLine`, `truncateAround` (on the real runes), `precedingLines` and `drawMarker`.

Every Go slice expression and `strings.Repeat` count is CHECKED here: the functions return `none`
exactly where the Go code would panic (index out of range / negative repeat count), so that "the
pretty printer never panics" is a statement (`ProofsPrettyText.lean`) and not a by-product of
Lean's total `take`/`drop`.

What comes from Go's libraries and is an input of the model: the decode error (`err.Error()`, for
an `UnmarshalTypeError` its `Field`, `Type.String()`, `Value`). What the model leaves to Go's `fmt`:
`%q` of a non-ASCII rune and of a string (returned as a segment the harness renders with
`strconv.QuoteRune` / `strconv.Quote`). Core Lean only (linked into `c11drv`).
-/
namespace Juno.C11.Pretty

abbrev Bytes := List UInt8

def maxContextRows : Nat := 3

def ascii (s : String) : Bytes := s.toUTF8.toList

/-! ### UTF-8 as Go decodes and encodes it -/

/-- `utf8.DecodeRune`: code point and width; an invalid or cut-off sequence is (U+FFFD, 1), the
empty input (U+FFFD, 0) -/
def decodeRune (bs : Bytes) : Nat × Nat :=
  match runeWidth bs, bs with
  | 0, _ => (0xFFFD, 0)
  | 2, b0 :: b1 :: _ => ((b0.toNat % 32) * 64 + b1.toNat % 64, 2)
  | 3, b0 :: b1 :: b2 :: _ => ((b0.toNat % 16) * 4096 + (b1.toNat % 64) * 64 + b2.toNat % 64, 3)
  | 4, b0 :: b1 :: b2 :: b3 :: _ =>
    ((b0.toNat % 8) * 262144 + (b1.toNat % 64) * 4096 + (b2.toNat % 64) * 64 + b3.toNat % 64, 4)
  | _, b0 :: _ => (if b0.toNat < 0x80 then b0.toNat else 0xFFFD, 1)
  | _, [] => (0xFFFD, 0)

def decodeRunesFuel : Nat → Bytes → List Nat
  | 0, _ => []
  | _, [] => []
  | fuel + 1, bs => (decodeRune bs).1 :: decodeRunesFuel fuel (bs.drop (runeWidth bs))

/-- `[]rune(string)` -/
def decodeRunes (bs : Bytes) : List Nat := decodeRunesFuel bs.length bs

/-- `utf8.AppendRune` (surrogates and values beyond U+10FFFF become U+FFFD) -/
def encodeRune (r : Nat) : Bytes :=
  let b (n : Nat) : UInt8 := UInt8.ofNat n
  if r < 0x80 then [b r]
  else if r < 0x800 then [b (0xC0 + r / 64), b (0x80 + r % 64)]
  else if (0xD800 ≤ r ∧ r ≤ 0xDFFF) ∨ r > 0x10FFFF then [0xEF, 0xBF, 0xBD]
  else if r < 0x10000 then [b (0xE0 + r / 4096), b (0x80 + r / 64 % 64), b (0x80 + r % 64)]
  else [b (0xF0 + r / 262144), b (0x80 + r / 4096 % 64), b (0x80 + r / 64 % 64), b (0x80 + r % 64)]

/-- `string([]rune)` -/
def encodeRunes (rs : List Nat) : Bytes := rs.flatMap encodeRune

/-! ### the text: literal bytes and the two `%q` forms left to Go's `fmt` -/

inductive Seg where
  | lit (bs : Bytes)
  /-- `%q` of a rune ≥ U+0080 (`strconv.QuoteRune`) -/
  | qrune (cp : Nat)
  /-- `%q` of a string (`strconv.Quote`) -/
  | qstr (bs : Bytes)
  deriving Repr

abbrev Text := List Seg

def lit (s : String) : Seg := .lit (ascii s)

def hexLower (n : Nat) : UInt8 := UInt8.ofNat (if n < 10 then 48 + n else 87 + n)

/-- `%q` of a rune: ASCII is rendered here (`strconv.QuoteRune`: `'c'`, the named escapes, `\xNN`) -/
def quoteRune (r : Nat) : Seg :=
  if r ≥ 0x80 then .qrune r
  else
    let q : UInt8 := 39
    let esc (c : Char) : Seg := .lit [q, 92, UInt8.ofNat c.toNat, q]
    if r = 39 then esc '\''
    else if r = 92 then esc '\\'
    else if 0x20 ≤ r ∧ r ≤ 0x7E then .lit [q, UInt8.ofNat r, q]
    else if r = 7 then esc 'a'
    else if r = 8 then esc 'b'
    else if r = 12 then esc 'f'
    else if r = 10 then esc 'n'
    else if r = 13 then esc 'r'
    else if r = 9 then esc 't'
    else if r = 11 then esc 'v'
    else .lit [q, 92, 120, hexLower (r / 16), hexLower (r % 16), q]

/-! ### `strings.Contains` on bytes -/

def hasPrefix (p : Bytes) (s : Bytes) : Bool := s.take p.length == p

def containsFuel (p : Bytes) : Nat → Bytes → Bool
  | 0, s => hasPrefix p s
  | n + 1, s => hasPrefix p s || (match s with | [] => false | _ :: t => containsFuel p n t)

def contains (s : Bytes) (sub : String) : Bool := containsFuel (ascii sub) s.length s

/-- `expectedToken(reason)` -/
def expectedToken (reason : Bytes) : Option String :=
  if contains reason "beginning of object key string" then some "a string key or '}'"
  else if contains reason "after object key:value pair" then some "',' or '}'"
  else if contains reason "after object key" then some "':'"
  else if contains reason "after array element" then some "',' or ']'"
  else if contains reason "beginning of value" then some "a value"
  else none

def isBlank (b : UInt8) : Bool := b == 32 || b == 9 || b == 13 || b == 10

/-- `bytes.TrimRight(bs, " \t\r\n")` -/
def trimRightBlanks (bs : Bytes) : Bytes := (bs.reverse.dropWhile isBlank).reverse

/-- `precededByComma(input, offset)`; `none` = `input[:offset]` out of range -/
def precededByComma? (input : Bytes) (offset : Nat) : Option Bool :=
  if offset > input.length then none
  else
    let trimmed := trimRightBlanks (input.take offset)
    -- `len(trimmed) > 0 && trimmed[len(trimmed)-1] == ','`
    some (match trimmed.getLast? with | some b => b == 44 | none => false)

/-- what the pretty printer looks at in the error `dec.Decode` returned -/
structure ErrInfo where
  kind : DecodeErr
  /-- `err.Error()` -/
  text : Bytes
  /-- `UnmarshalTypeError.Field`, `.Type.String()`, `.Value` -/
  field : Bytes := []
  tyName : Bytes := []
  value : Bytes := []
  deriving Repr

/-- `describeTypeError` -/
def describeTypeError (e : ErrInfo) : Text :=
  if e.field ≠ [] then [lit "field ", .qstr e.field, lit " should be ", .lit e.tyName, lit ", got ", .lit e.value]
  else [lit "expected a JSON object, got ", .lit e.value]

/-- `describeSyntaxError(input, offset, err)`; `none` = a slice out of range -/
def describeSyntaxError? (input : Bytes) (offset : Nat) (e : ErrInfo) : Option Text :=
  match expectedToken e.text with
  | none => some [.lit e.text]
  | some expected =>
    if offset ≥ input.length then some [.lit e.text]
    else
      -- `utf8.DecodeRune(input[offset:])`: offset < len(input)
      let symbol := (decodeRune (input.drop offset)).1
      if symbol = 125 ∨ symbol = 93 then
        match precededByComma? input offset with
        | none => none
        | some true => some [lit "unexpected trailing comma before ", quoteRune symbol]
        | some false => some [lit "unexpected ", quoteRune symbol, lit ", expected ", lit expected]
      else some [lit "unexpected ", quoteRune symbol, lit ", expected ", lit expected]

/-- `describeError(input, offset, err)` -/
def describeError? (input : Bytes) (offset : Nat) (e : ErrInfo) : Option Text :=
  match e.kind with
  | .syntax _ => describeSyntaxError? input offset e
  | .type _ => some (describeTypeError e)
  | .eof => some [lit "unexpected end of input"]
  | .other => some [.lit e.text]

/-- `bytes.IndexByte(bs, b)` -/
def indexOfByte (b : UInt8) : Bytes → Option Nat
  | [] => none
  | x :: r => if x == b then some 0 else (indexOfByte b r).map (· + 1)

/-- `bytes.IndexByte(bs, '\n')` -/
def indexNL (bs : Bytes) : Option Nat := indexOfByte 10 bs

/-- `offendingLine(input, offset)`; `none` = `input[:offset]` / `input[offset:]` out of range -/
def offendingLine? (input : Bytes) (offset : Nat) : Option Bytes :=
  if offset > input.length then none
  else
    let start := lineStartOf (input.take offset)
    match indexNL (input.drop offset) with
    | some e =>
      -- `input[start : offset+end]`
      if start ≤ offset + e ∧ offset + e ≤ input.length then some ((input.take (offset + e)).drop start) else none
    | none => if start ≤ input.length then some (input.drop start) else none

def ellipsis : List Nat := [46, 46, 46]

/-- `truncateAround` on the runes of the line: `none` = `runes[start:end]` out of range; the result is
`(none, pivot)` when the line is returned unchanged, else the runes drawn and the new pivot -/
def truncateRunes? (runes : List Nat) (pivot : Int) : Option (Option (List Nat) × Int) :=
  match truncateAround runes.length pivot with
  | none => some (none, pivot)
  | some (s, e, mc) =>
    if 0 ≤ s ∧ s ≤ e ∧ e ≤ (runes.length : Int) then
      let left := if s > 0 then ellipsis else []
      let right := if e < (runes.length : Int) then ellipsis else []
      some (some (left ++ (runes.take e.toNat).drop s.toNat ++ right), mc)
    else none

/-- `truncateAround(line, pivot, maxLineWidth)` on bytes -/
def truncateText? (line : Bytes) (pivot : Int) : Option (Bytes × Int) :=
  match truncateRunes? (decodeRunes line) pivot with
  | none => none
  | some (none, p) => some (line, p)
  | some (some rs, p) => some (encodeRunes rs, p)

/-- the loop of `precedingLines`: the rows above the offending line, nearest first -/
def precedingLoop? (window : Bytes) (windowStart : Nat) : Nat → Nat → Option (List Bytes)
  | 0, _ => some []
  | fuel + 1, lineStart =>
    if lineStart = 0 then some []
    else
      let prevEnd := lineStart - 1
      if prevEnd > window.length then none        -- `window[:prevEnd]`
      else
        let prevStart := lineStartOf (window.take prevEnd)
        if prevStart = 0 ∧ windowStart > 0 then some []   -- the topmost line was cut off by the window
        else if prevStart > prevEnd then none             -- `window[prevStart:prevEnd]`
        else
          match truncateText? ((window.take prevEnd).drop prevStart) 1 with
          | none => none
          | some (row, _) =>
            match precedingLoop? window windowStart fuel prevStart with
            | none => none
            | some rest => some (row :: rest)

/-- `precedingLines(window, windowStart, markerPos)` (top row first) -/
def precedingLines? (window : Bytes) (windowStart markerPos : Nat) : Option (List Bytes) :=
  if markerPos > window.length then none         -- `window[:markerPos]`
  else (precedingLoop? window windowStart maxContextRows (lineStartOf (window.take markerPos))).map List.reverse

/-- `drawMarker(window, windowStart, markerPos, col, msg)` -/
def drawMarker? (window : Bytes) (windowStart markerPos : Nat) (col : Int) (msg : Text) : Option Text :=
  match precedingLines? window windowStart markerPos, offendingLine? window markerPos with
  | some rows, some ol =>
    match truncateText? ol col with
    | none => none
    | some (line, markerCol) =>
      -- `strings.Repeat(" ", markerCol-1)` panics on a negative count
      if markerCol - 1 < 0 then none
      else
        some (rows.flatMap (fun r => [Seg.lit r, Seg.lit [10]]) ++
          [.lit line, .lit [10], .lit (List.replicate (markerCol - 1).toNat 32), .lit [94, 10]] ++ msg)
  | _, _ => none

def decimal (n : Nat) : Bytes := ascii (toString n)

/-- `prettyParseError(c, err)`: the `data` of a -32700 answer. `none` = the Go code panics. -/
def prettyParseError? (c : Win) (skipped : Nat) (e : ErrInfo) : Option Text :=
  match (errorOffset (c.consumedBytes - skipped) e.kind).map (· + (skipped : Int)) with
  | none => some [.lit e.text]
  | some absOffset =>
    let windowStart : Int := (c.consumedBytes : Int) - (c.window.length : Int)
    if absOffset < windowStart then describeError? [] 0 e
    else
      let mp : Int := absOffset - windowStart
      -- `c.window[markerPos:]`, `c.window[:markerPos]` in `lineAndColumn`
      if mp < 0 ∨ mp > (c.window.length : Int) ∨ windowStart < 0 then none
      else
        match position c e.kind skipped, describeError? c.window mp.toNat e with
        | some pos, some d =>
          let msg : Text := d ++ [lit " [line ", .lit (decimal pos.line), lit ", position ", .lit (decimal pos.col), lit "]"]
          drawMarker? c.window windowStart.toNat mp.toNat (pos.col : Int) msg
        | _, _ => none

end Juno.C11.Pretty
