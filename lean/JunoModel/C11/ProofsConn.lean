import JunoModel.C11.ModelConn
/-! C11 — the response of a request is the first thing on its connection (`HandleReadWriter`). -/
namespace Juno.C11.Conn

def Inv (fin : Finish) (s : St) : Prop :=
  (s.activated = false → s.wire = [] ∧ s.refused = [] ∧ s.initialErr = false) ∧
  (s.activated = true → fin.fails = true → s.initialErr = true ∧ s.wire = []) ∧
  (s.activated = true → fin.fails = false → s.initialErr = false ∧ s.refused = [] ∧
    ∃ ps : List Nat, s.wire = (if fin.hasResponse then [Msg.response] else []) ++ ps.map Msg.pushed)

theorem inv_init (fin : Finish) : Inv fin {} := by
  refine ⟨fun _ => ⟨rfl, rfl, rfl⟩, ?_, ?_⟩ <;> intro h <;> simp at h

theorem inv_step (fin : Finish) (s t : St) (h : Inv fin s) (st : Step fin s t) : Inv fin t := by
  obtain ⟨h1, h2, h3⟩ := h
  cases st with
  | block n ha => exact ⟨fun _ => h1 ha, fun h => by simp [ha] at h, fun h => by simp [ha] at h⟩
  | unblock a n b ha hb =>
    by_cases hf : fin.fails = true
    · obtain ⟨hi, hw⟩ := h2 ha hf
      simp only [hi, if_true]
      exact ⟨fun h => by simp [ha] at h, fun _ _ => ⟨rfl, hw⟩, fun _ h => by simp [hf] at h⟩
    · have hf' : fin.fails = false := by simpa using hf
      obtain ⟨hi, hr, ps, hw⟩ := h3 ha hf'
      simp only [hi, Bool.false_eq_true, if_false]
      refine ⟨fun h => by simp [ha] at h, fun _ h => by simp [hf'] at h, fun _ _ => ⟨rfl, hr, ps ++ [n], ?_⟩⟩
      simp [hw, List.append_assoc]
  | late n ha =>
    by_cases hf : fin.fails = true
    · obtain ⟨hi, hw⟩ := h2 ha hf
      simp only [hi, if_true]
      exact ⟨fun h => by simp [ha] at h, fun _ _ => ⟨rfl, hw⟩, fun _ h => by simp [hf] at h⟩
    · have hf' : fin.fails = false := by simpa using hf
      obtain ⟨hi, hr, ps, hw⟩ := h3 ha hf'
      simp only [hi, Bool.false_eq_true, if_false]
      refine ⟨fun h => by simp [ha] at h, fun _ h => by simp [hf'] at h, fun _ _ => ⟨rfl, hr, ps ++ [n], ?_⟩⟩
      simp [hw, List.append_assoc]
  | finish ha =>
    obtain ⟨hw, hr, hi⟩ := h1 ha
    cases fin with
    | mk hasResponse handleErr writeOk =>
      cases handleErr <;> cases hasResponse <;> cases writeOk <;>
        simp [Inv, Finish.fails, hw, hr, hi] <;> exact ⟨[], rfl⟩

theorem inv_reach (fin : Finish) (s : St) (h : Reach fin s) : Inv fin s := by
  induction h with
  | init => exact inv_init fin
  | step _ st ih => exact inv_step fin _ _ ih st

/-- the limit: the semaphore counts exactly the connections that are open -/
theorem limit_connect_iff (l : Limit) : (l.step .connect).2 = true ↔ l.openConns < l.max := by
  simp only [Limit.step]
  split <;> simp_all

end Juno.C11.Conn
