import JunoModel.C11.Model
/-
C11 — the two transports in front of `HandleReader`: `jsonrpc/http.go` (`HTTP.ServeHTTP`) and
`jsonrpc/websocket.go` (`Websocket.ServeHTTP` + `Server.HandleReadWriter`), as far as they decide
what reaches the dispatcher and what goes back on the wire. Not modelled: the admission gate
(`gate.go`), request timeouts, gzip (the body is compared after decoding), connection limits,
close handshakes. Core Lean only.
-/
namespace Juno.C11

inductive HttpMethod where
  | get | post | other
  deriving Repr, DecidableEq, Inhabited

structure HttpRequest where
  method : HttpMethod
  /-- `req.URL.Path == "/"` -/
  pathIsRoot : Bool
  /-- the body as `HandleReader` sees it through `http.MaxBytesReader` (10 MB): a first JSON value
  that does not end within the limit is a read error, i.e. `parsed = none` -/
  body : Input
  deriving Repr, Inhabited

structure HttpResponse where
  status : Nat
  /-- `Content-Type: application/json` is set -/
  json : Bool
  body : Option Json
  log : List Call
  deriving Repr, Inhabited

/-- `HTTP.ServeHTTP`: GET is a liveness probe (200 on "/", 404 elsewhere), every other method but
POST is 405; POST hands the body to `HandleReader` and writes whatever comes back with status 200
(`HandleReader` only fails when a response cannot be marshalled, which the model excludes). -/
def serveHTTP (cfg : Config) (env : Env) (tbl : Table) (r : HttpRequest) : HttpResponse :=
  match r.method with
  | .get => { status := if r.pathIsRoot then 200 else 404, json := false, body := none, log := [] }
  | .other => { status := 405, json := false, body := none, log := [] }
  | .post =>
    let o := handleInput cfg env tbl r.body
    { status := 200, json := true, body := o.body, log := o.log }

/-- One WebSocket connection: the loop of `Websocket.ServeHTTP` reads one message, hands it to
`HandleReadWriter` (= `HandleReader` on the message, only its first JSON value counts, the rest of
the frame is discarded), writes the response if there is one, and only then reads the next
message. -/
def wsSession (cfg : Config) (env : Env) (tbl : Table) (msgs : List Input) : List Output :=
  msgs.map (handleInput cfg env tbl)

/-- the messages the server sends on the connection, in order -/
def wsWire (outs : List Output) : List Json := outs.filterMap (·.body)

/-- the handler invocations of the connection, in order -/
def wsLog (outs : List Output) : List Call := outs.flatMap (·.log)

end Juno.C11
