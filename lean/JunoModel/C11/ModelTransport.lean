import JunoModel.C11.Model
/-
C11 — the two transports in front of `HandleReader`: `jsonrpc/http.go` (`HTTP.ServeHTTP`) and
`jsonrpc/websocket.go` (`Websocket.ServeHTTP` + `Server.HandleReadWriter`), as far as they decide
what reaches the dispatcher and what goes back on the wire. Not modelled: the admission gate
(`gate.go`), request timeouts, gzip (the body is compared after decoding), connection limits,
close handshakes. Core Lean only.
-/
namespace Juno.C11

inductive HttpMethod where
  | get | post | other
  deriving Repr, DecidableEq, Inhabited

structure HttpRequest where
  method : HttpMethod
  /-- `req.URL.Path == "/"` -/
  pathIsRoot : Bool
  /-- the body as `HandleReader` sees it through `http.MaxBytesReader` (10 MB): a first JSON value
  that does not end within the limit is a read error, i.e. `parsed = none` -/
  body : Input
  deriving Repr, Inhabited

structure HttpResponse where
  status : Nat
  /-- `Content-Type: application/json` is set -/
  json : Bool
  body : Option Json
  log : List Call
  /-- a handler panic: net/http recovers it and closes the connection without a response -/
  dropped : Bool := false
  deriving Repr, Inhabited

/-- `HTTP.ServeHTTP`: GET is a liveness probe (200 on "/", 404 elsewhere), every other method but
POST is 405; POST hands the body to `HandleReader` and writes whatever comes back with status 200
(500 with an empty body when `HandleReader` fails because a response cannot be marshalled). -/
def serveHTTP (cfg : Config) (env : Env) (tbl : Table) (r : HttpRequest) : HttpResponse :=
  match r.method with
  | .get => { status := if r.pathIsRoot then 200 else 404, json := false, body := none, log := [] }
  | .other => { status := 405, json := false, body := none, log := [] }
  | .post =>
    let o := handleInputF cfg env tbl r.body
    -- `err != nil`: 500 and nothing is written (resp is nil); a panic drops the connection (`dropped`)
    { status := if o.goError then 500 else 200, json := true, body := o.body, log := o.log, dropped := o.panicked }

/-- One WebSocket connection: the loop of `Websocket.ServeHTTP` reads one message, hands it to
`HandleReadWriter` (= `HandleReader` on the message, only its first JSON value counts, the rest of
the frame is discarded), writes the response if there is one, and only then reads the next
message. When `HandleReader` fails (unmarshallable response) or a handler panics, the loop ends and
the connection is closed: the remaining messages are never handled. -/
def wsSession (cfg : Config) (env : Env) (tbl : Table) : List Input → List OutputF
  | [] => []
  | m :: rest =>
    let o := handleInputF cfg env tbl m
    if o.goError || o.panicked then [o] else o :: wsSession cfg env tbl rest

/-- the messages the server sends on the connection, in order -/
def wsWire (outs : List OutputF) : List Json := outs.filterMap (·.body)

/-- the handler invocations of the connection, in order -/
def wsLog (outs : List OutputF) : List Call := outs.flatMap (·.log)

/-- the server closed the connection -/
def wsClosed (outs : List OutputF) : Bool := outs.any (fun o => o.goError || o.panicked)

end Juno.C11
