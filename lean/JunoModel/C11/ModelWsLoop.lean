/-
C11 (round 6) — the read loop of `Websocket.ServeHTTP` (`jsonrpc/websocket.go`) on the level of the byte stream
of the connection, which `ModelTransport.wsSession` (a `map` over messages) cannot express:

    for {
        _, wsc.r, err = wsc.conn.Reader(wsc.ctx)          // parses a frame header AT THE CURRENT POSITION of the stream
        if err != nil { break }
        ws.listener.OnNewRequest("any")
        if err = ws.rpc.HandleReadWriter(...); err != nil { break }   // reads SOME prefix of the message
        if _, err = io.Copy(io.Discard, wsc.r); err != nil { break }  // "Read to EOF otherwise connection will hang"
    }
    if status := websocket.CloseStatus(err); status != -1 { return }  // the client closed: no close frame of ours
    errString := err.Error(); if len(errString) > closeReasonMaxBytes { errString = errString[:closeReasonMaxBytes] }
    wsc.conn.Close(websocket.StatusInternalError, errString)

`HandleReader` stops reading after the first JSON value of the message (its decoder reads ahead in chunks of the
128-byte `bufio.Reader`): how many payload bytes of a message are still unread when `HandleReadWriter` returns is
up to the decoder. The library (coder/websocket v1.8.15, `Conn.reader`) only refuses the next `Reader` while a
FRAGMENTED message is unfinished (`!msgReader.fin`); after an unfragmented message — or inside the last frame of a
fragmented one — it parses whatever bytes come next as a frame header. The drain is therefore what keeps the stream
in step. `drain` is a parameter: `drainAll` is the code (`io.Copy` to EOF); a bounded drain is the witness that the
statement has content. Core Lean only.
-/
namespace Juno.C11.WsLoop

/-- one data message as the loop meets it -/
structure Msg where
  /-- payload lengths of its frames (a fragmented message has several); `[]` stands for one empty frame -/
  frames : List Nat
  /-- payload bytes `HandleReader` has pulled from the message reader when `HandleReadWriter` returns -/
  taken : Nat
  /-- `HandleReadWriter` returned nil (false: the response could not be written / marshalled) -/
  ok : Bool := true
  deriving Repr, DecidableEq

def Msg.size (m : Msg) : Nat := m.frames.sum

/-- unread payload bytes when `HandleReadWriter` returns (`taken` beyond the end reads to EOF) -/
def Msg.unread (m : Msg) : Nat := m.size - m.taken

/-- why the loop ended -/
inductive End where
  /-- `Reader` failed with a close status: the client closed (or went away) between two messages -/
  | clientClosed
  /-- `HandleReadWriter` failed: the server closes with 1011 -/
  | handlerError
  /-- `Reader` was called in the middle of a payload: the library parses request bytes as a frame header -/
  | outOfStep (unread : Nat)
  deriving Repr, DecidableEq

/-- what happened to one message -/
structure Handled where
  /-- index of the message in the session -/
  index : Nat
  /-- `HandleReader` started at the first payload byte of the message -/
  fromStart : Bool
  deriving Repr, DecidableEq

/-- `io.Copy(io.Discard, wsc.r)`: everything that is unread -/
def drainAll (unread : Nat) : Nat := unread

/-- a drain bounded by `n` bytes (NOT the code: the counterexample) -/
def drainAtMost (n : Nat) (unread : Nat) : Nat := min n unread

/-- The loop over the messages the client sends before it closes. `drain unread` = how many of the unread payload
bytes the step after `HandleReadWriter` discards. Invariant of the recursion: the stream is at a frame boundary. -/
def run (drain : Nat → Nat) : Nat → List Msg → List Handled × End
  | _, [] => ([], .clientClosed)
  | i, m :: rest =>
    let h : Handled := { index := i, fromStart := true }
    if !m.ok then ([h], .handlerError)
    else
      let left := m.unread - drain m.unread
      if left = 0 then
        let (hs, e) := run drain (i + 1) rest
        (h :: hs, e)
      else ([h], .outOfStep left)

/-- `OnNewRequest("any")` calls of the transport listener: one per message handed to `HandleReadWriter` -/
def listenerCalls (r : List Handled × End) : Nat := r.1.length

/-- `websocket.CloseStatus(err) != -1 → return`, else `Close(StatusInternalError, reason)`: does the server send a
close frame of its own, and with which reason -/
def closeReasonMaxBytes : Nat := 125

/-- `errString[:closeReasonMaxBytes]` when longer (a BYTE slice) -/
def closeReason (err : List UInt8) : List UInt8 :=
  if err.length > closeReasonMaxBytes then err.take closeReasonMaxBytes else err

def serverSendsClose : End → Bool
  | .clientClosed => false
  | _ => true

end Juno.C11.WsLoop
