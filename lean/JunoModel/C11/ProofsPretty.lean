import JunoModel.C11.ModelPretty
/-! C11 — helper lemmas about `pretty_error.go` (index safety). -/
namespace Juno.C11.Pretty

/-- the invariant of `windowBuffer`: at most 512 bytes, never more than were consumed -/
def Win.Inv (c : Win) : Prop := c.window.length ≤ maxWindowSize ∧ c.window.length ≤ c.consumedBytes

theorem inv_init : Win.Inv {} := by simp [Win.Inv]

theorem inv_write (c : Win) (p : List UInt8) (h : c.Inv) : (c.write p).Inv := by
  obtain ⟨h1, h2⟩ := h
  unfold Win.write
  by_cases hp : p.length ≥ maxWindowSize
  · simp only [hp, if_true, Win.Inv, List.length_drop]
    constructor <;> omega
  · simp only [hp, if_false, Win.Inv, List.length_append, List.length_drop]
    simp only [maxWindowSize] at *
    constructor <;> omega

theorem inv_writes (c : Win) (chunks : List (List UInt8)) (h : c.Inv) : (c.writes chunks).Inv := by
  induction chunks generalizing c with
  | nil => exact h
  | cons p ps ih => exact ih (c.write p) (inv_write c p h)

/-- the window is always the last (at most 512) bytes of everything written so far -/
def Win.IsSuffixOf (c : Win) (all : List UInt8) : Prop :=
  c.consumedBytes = all.length ∧ c.window = all.drop (all.length - maxWindowSize)

theorem suffix_write (c : Win) (all p : List UInt8) (h : c.IsSuffixOf all) :
    (c.write p).IsSuffixOf (all ++ p) := by
  obtain ⟨hc, hw⟩ := h
  unfold Win.write
  by_cases hp : p.length ≥ maxWindowSize
  · simp only [hp, if_true, Win.IsSuffixOf, List.length_append, hc, true_and]
    have : all.length + p.length - maxWindowSize = all.length + (p.length - maxWindowSize) := by omega
    rw [this, List.drop_append]
    simp
  · simp only [hp, if_false, Win.IsSuffixOf, List.length_append, hc, true_and]
    rw [hw, List.drop_drop, List.length_drop]
    simp only [maxWindowSize] at *
    by_cases hall : all.length + p.length ≤ 512
    · have e1 : all.length - 512 + (all.length - (all.length - 512) + p.length - 512) = 0 := by omega
      have e2 : all.length + p.length - 512 = 0 := by omega
      rw [e1, e2]; simp
    · have e1 : all.length - 512 + (all.length - (all.length - 512) + p.length - 512) = all.length + p.length - 512 := by omega
      rw [e1]
      have e3 : all.length + p.length - 512 ≤ all.length := by omega
      rw [List.drop_append_of_le_length e3]

theorem suffix_writes (c : Win) (all : List UInt8) (chunks : List (List UInt8)) (h : c.IsSuffixOf all) :
    (c.writes chunks).IsSuffixOf (all ++ chunks.flatten) := by
  induction chunks generalizing c all with
  | nil => simpa [Win.writes] using h
  | cons p ps ih =>
    have := ih (c.write p) (all ++ p) (suffix_write c all p h)
    simpa [Win.writes, List.append_assoc] using this

theorem newlines_writes (c : Win) (chunks : List (List UInt8)) :
    (c.writes chunks).newlinesSeen = c.newlinesSeen + countNL chunks.flatten := by
  induction chunks generalizing c with
  | nil => simp [Win.writes, countNL]
  | cons p ps ih =>
    have := ih (c.write p)
    simp only [Win.writes, List.foldl_cons] at this ⊢
    rw [this]
    have hw : (c.write p).newlinesSeen = c.newlinesSeen + countNL p := by
      unfold Win.write; split <;> rfl
    simp [hw, countNL, List.count_append, Nat.add_assoc]

/-- what the window buffer holds depends only on the bytes read, not on how the reads were cut -/
theorem writes_segmentation_independent (a b : List (List UInt8)) (h : a.flatten = b.flatten) :
    Win.writes {} a = Win.writes {} b := by
  have ha := suffix_writes {} [] a (by simp [Win.IsSuffixOf])
  have hb := suffix_writes {} [] b (by simp [Win.IsSuffixOf])
  have na := newlines_writes {} a
  have nb := newlines_writes {} b
  simp only [List.nil_append] at ha hb
  obtain ⟨ca, wa⟩ := ha
  obtain ⟨cb, wb⟩ := hb
  cases hA : Win.writes {} a
  cases hB : Win.writes {} b
  simp only [hA, hB] at ca wa cb wb na nb
  simp [ca, cb, wa, wb, na, nb, h]

/-- no slice of `lineAndColumn` / `offendingLine` / `describeSyntaxError` is out of range -/
theorem position_in_range (c : Win) (err : DecodeErr) (pos : Pos) (h : c.Inv) (skipped : Nat)
    (hsk : skipped ≤ c.consumedBytes) (hp : position c err skipped = some pos) :
    pos.markerPos ≤ c.window.length ∧ 1 ≤ pos.line ∧ 1 ≤ pos.col := by
  obtain ⟨_, h2⟩ := h
  unfold position at hp
  cases ho : errorOffset (c.consumedBytes - skipped) err with
  | none => simp [ho] at hp
  | some off =>
    simp only [ho, Option.map_some] at hp
    have hle : off + (skipped : Int) ≤ (c.consumedBytes : Int) := by
      cases err <;> simp [errorOffset] at ho <;> omega
    generalize off + (skipped : Int) = absOffset at hp hle
    split at hp
    · simp at hp
    · rename_i hge
      simp at hp
      subst hp
      refine ⟨?_, by simp, by simp⟩
      simp only
      omega

/-- `truncateAround`: `runes[start:end]` is a valid slice and the caret column stays ≥ 1 (so
`strings.Repeat(" ", markerCol-1)` never gets a negative count) -/
theorem truncateAround_in_range (len : Nat) (pivot : Int) (hp : 1 ≤ pivot) (s e mc : Int)
    (h : truncateAround len pivot = some (s, e, mc)) :
    0 ≤ s ∧ s ≤ e ∧ e ≤ len ∧ 1 ≤ mc := by
  unfold truncateAround at h
  split at h
  · simp at h
  · rename_i hlen
    simp only [Option.some.injEq, Prod.mk.injEq] at h
    obtain ⟨rfl, rfl, rfl⟩ := h
    simp only [maxLineWidth] at *
    refine ⟨by omega, by omega, by omega, ?_⟩
    have key : ∀ (A S : Int), 0 ≤ A - S → 1 ≤ A - S + (if S > 0 then 3 else 0) + 1 := by
      intro A S h; split <;> omega
    apply key
    omega

end Juno.C11.Pretty
