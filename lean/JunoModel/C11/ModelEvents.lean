import JunoModel.C11.Model
import JunoModel.C11.ModelTransport
/-
C11 (round 5) — what `jsonrpc/server.go` and `jsonrpc/http.go` do AROUND the response: the calls on the
server's `EventListener` (`OnNewRequest`, `OnRequestHandled`, `OnRequestFailed` — the node's metrics count
requests with them), the `http.Header` a 3-value handler returns (single request: handed to the transport;
batch: `finalHeaders.Add` of every answered entry's header), and the response headers `HTTP.ServeHTTP`
assembles (`Content-Type`, `maps.Copy` of the handler's header, `Content-Encoding: gzip` or `Content-Length`).

`handleRequestX` is a line-by-line transcription of `Server.handleRequest` AS IT IS at HEAD (all fixes
applied), including `callHandler`'s recover and `marshalResponse`'s fallback; `ProofsEvents.lean` proves
that its response and invocation log are those of `handleRequest junoCfg` (Model.lean) on the sanitised
handlers, so everything proved about `handleInputF junoCfg` holds for it.  Core Lean only.
-/
namespace Juno.C11

/-- a call on `Server.listener` -/
inductive Event where
  /-- `OnNewRequest(method)` -/
  | newRequest (method : String)
  /-- `OnRequestHandled(method, took)` (deferred in `handleRequest`) -/
  | handled (method : String)
  /-- `OnRequestFailed(method, data)` -/
  | failed (method : String)
  deriving Repr, DecidableEq, Inhabited

def Event.handled? : Event → Option String
  | .handled m => some m
  | _ => none

def Event.newRequest? : Event → Option String
  | .newRequest m => some m
  | _ => none

def Event.failed? : Event → Option String
  | .failed m => some m
  | _ => none

/-! ## `http.Header`: key → values in `Add` order (keys are distinct; Go's map order is not observable) -/

abbrev Header := List (String × List String)

/-- `h[k]` (nil when absent) -/
def Header.values : Header → String → List String
  | [], _ => []
  | (k', vs) :: r, k => if k' = k then vs else Header.values r k

def Header.has (h : Header) (k : String) : Bool := h.any (fun kv => kv.1 = k)

/-- `h.Add(k, v)` -/
def Header.add : Header → String → String → Header
  | [], k, v => [(k, [v])]
  | (k', vs) :: r, k, v => if k' = k then (k', vs ++ [v]) :: r else (k', vs) :: Header.add r k v

/-- `h[k] = vs` (what `Set` and `maps.Copy` do for one key) -/
def Header.put : Header → String → List String → Header
  | [], k, vs => [(k, vs)]
  | (k', vs') :: r, k, vs => if k' = k then (k', vs) :: r else (k', vs') :: Header.put r k vs

/-- a Go map has every key once -/
def Header.WF (h : Header) : Prop := (h.map (·.1)).Nodup

/-- `maps.Copy(dst, src)`: every key of `src` overwrites the key of `dst` -/
def Header.copyFrom (dst src : Header) : Header :=
  src.foldl (fun acc kv => acc.put kv.1 kv.2) dst

/-- `for k, v := range header { for _, e := range v { finalHeaders.Add(k, e) } }` -/
def Header.addAll (dst src : Header) : Header :=
  src.foldl (fun acc kv => kv.2.foldl (fun a v => a.add kv.1 v) acc) dst

/-- the "merge headers" loop of `handleBatchRequest` -/
def mergeHeaders (hs : List Header) : Header := hs.foldl Header.addAll []

/-! ## `handleRequest`, everything it does -/

/-- what `handleRequest` returns and causes: `(*response, http.Header, error)`, the listener calls in order,
the handler invocation -/
structure ReqOutX where
  res : Except SaneErr (Option Response)
  /-- `json.Marshal` accepts `res` (false: the handler returned a NaN, an invalid RawMessage, …) -/
  marshals : Bool := true
  header : Header := []
  events : List Event := []
  log : List Call := []

/-- `Server.handleRequest` at HEAD. `hdr name args` is the header a 3-value handler returns for these
arguments (`[]` for a 2-value handler, a nil or empty header). -/
def handleRequestX (env : Env) (hdr : String → List Json → Header) (tbl : Table) (req : Request) : ReqOutX :=
  match isSane req with
  | some e => { res := .error e }                                   -- return nil, header, err
  | none =>
    match lookupMethod tbl req.method with
    | none =>
      if req.id.isNone then { res := .ok none }                     -- notification: no reply
      else { res := .ok (some { error := some (mkErr MethodNotFound none), id := idJson req.id }) }
    | some m =>
      let ev := [Event.newRequest req.method]                       -- s.listener.OnNewRequest(req.Method)
      match buildArguments env req.params m with
      | .error be =>
        if req.id.isNone then { res := .ok none, events := ev }
        else { res := .ok (some { error := some (mkErr InvalidParams (some be.data)), id := idJson req.id }),
               events := ev }
      | .ok args =>
        -- from here on `defer s.listener.OnRequestHandled(...)` runs last
        let out := env.call m.name args                             -- callHandler (recovers a panic)
        let log := [(m.name, args)]
        if out.panics then
          match req.id with
          | none => { res := .ok none, events := ev ++ [.handled req.method], log }
          | some id =>
            { res := .ok (some { error := some (mkErr InternalError (some opaqueData)), id }),
              events := ev ++ [.failed req.method, .handled req.method], log }
        else
          match req.id with
          | none => { res := .ok none, events := ev ++ [.handled req.method], log }   -- header not taken yet
          | some id =>
            let header := hdr m.name args                           -- tuple[1].(http.Header) of a 3-tuple
            match out.error with
            | some e =>
              { res := .ok (some { error := some e, id }), marshals := out.marshals, header,
                events := ev ++ (if e.code = InternalError then [.failed req.method] else []) ++ [.handled req.method],
                log }
            | none =>
              { res := .ok (some { result := some (out.result.getD .null), id }), marshals := out.marshals,
                header, events := ev ++ [.handled req.method], log }

/-- what reaches the caller of `HandleReader` / the batch's `responses` for one request value -/
structure EntryOutX where
  resp : Option Response := none
  header : Header := []
  events : List Event := []
  log : List Call := []

/-- `marshalResponse`: a response that does not marshal is replaced by an Internal error with the same id -/
def marshalFallback (r : Response) (marshals : Bool) : Response :=
  if marshals then r else { error := some (mkErr InternalError (some opaqueData)), id := r.id }

/-- the two callers of `handleRequest` (single path of `HandleReader`, the worker of `handleBatchRequest`):
an `isSane` error becomes an Invalid Request answer, then `marshalResponse` -/
def finishRequestX (req : Request) (o : ReqOutX) : EntryOutX :=
  match o.res with
  | .ok r => { resp := r.map (marshalFallback · o.marshals), header := o.header, events := o.events, log := o.log }
  | .error e =>
    let r := errResponse InvalidRequest (some (.str e.msg))
    { resp := some (if e = .id then r else { r with id := echoId junoCfg req.id }),
      header := o.header, events := o.events, log := o.log }

def handleEntryX (env : Env) (hdr : String → List Json → Header) (tbl : Table) (decodeFailCode : Int) (j : Json) :
    EntryOutX :=
  match decodeRequest j with
  | none => { resp := some (errResponse decodeFailCode (some opaqueData)) }
  | some req => finishRequestX req (handleRequestX env hdr tbl req)

/-- what `HandleReader` returns (`[]byte`, `http.Header`) and causes -/
structure OutputX where
  body : Option Json
  header : Header := []
  events : List Event := []
  log : List Call := []

/-- `HandleReader` at HEAD, entries of a batch in request order (the pool runs them in some order: the
harness compares events and header values as multisets unless the pool has one worker). -/
def handleInputX (batchDisabled : Bool) (env : Env) (hdr : String → List Json → Header) (tbl : Table)
    (inp : Input) : OutputX :=
  let single (r : Response) : OutputX := { body := some r.toJson }
  if !inp.firstIsBracket then
    match inp.parsed with
    | none => single (errResponse InvalidJSON (some opaqueData))
    | some j =>
      let o := handleEntryX env hdr tbl InvalidJSON j
      { body := o.resp.map Response.toJson, header := o.header, events := o.events, log := o.log }
  else if !batchDisabled then
    match inp.parsed with
    | none => single (errResponse InvalidJSON (some opaqueData))
    | some (.arr []) => single (errResponse InvalidRequest (some (.str "empty batch")))
    | some (.arr xs) =>
      let os := xs.map (handleEntryX env hdr tbl InvalidRequest)
      let rs := os.filterMap (·.resp)
      { body := if rs.isEmpty then none else some (.arr (rs.map Response.toJson)),
        -- `addResponse(resp, header)` only for entries that are answered
        header := mergeHeaders ((os.filter (·.resp.isSome)).map (·.header)),
        events := os.flatMap (·.events), log := os.flatMap (·.log) }
    | some _ => single (errResponse InvalidJSON (some opaqueData))
  else single (errResponse InvalidRequest (some (.str "batch requests are disabled")))

/-! ## `HTTP.ServeHTTP`: the response headers of a POST -/

/-- the headers juno sets on the `ResponseWriter` of a POST that reached `HandleReader` (net/http adds its own
`Date`, and a `Content-Length` when the handler wrote little and set none): `Content-Type`, then
`maps.Copy` of the header `HandleReader` returned (it OVERWRITES, also `Content-Type`), then — only if
there is a body — `Content-Encoding: gzip` when the client accepts gzip, else `Content-Length`
(value: the number of response bytes, written here as `#`). -/
def httpPostHeaders (acceptsGzip : Bool) (o : OutputX) : Header :=
  let h := (Header.put [] "Content-Type" ["application/json"]).copyFrom o.header
  match o.body with
  | none => h
  | some _ => if acceptsGzip then h.put "Content-Encoding" ["gzip"] else h.put "Content-Length" ["#"]

/-- calls of `OnNewRequest("any")` on the transport's `NewRequestListener`: one per POST (before the gate),
none for any other method -/
def httpTransportEvents (m : HttpMethod) : Nat :=
  match m with
  | .post => 1
  | _ => 0

/-! ## `Request.MarshalLogObject`: the members of the logged object -/

/-- `jsonrpc`, `method` always; `id` / `params` iff the interface is non-nil -/
def Request.logMembers (r : Request) : List String :=
  ["jsonrpc", "method"] ++ (if r.id.isSome then ["id"] else []) ++ (if r.params.isSome then ["params"] else [])

end Juno.C11
