/-
C11 (round 6 follow-up) — `Gate.Acquire` (`jsonrpc/gate.go`) at the granularity of its synchronisation steps, for the
race the counter model of `ModelGate.lean` abstracts from: a queued caller whose context ends at the moment another
caller's `Release()` hands it the slot.

    select {
    case g.sem <- struct{}{}:   // (granted) a receiver's `<-g.sem` moved OUR token into the buffer and woke us
        return nil              // (return) the code: we own the slot, whatever the context says by now
    case <-ctx.Done():          // (giveUp) only taken while our token is NOT in the buffer
        g.decreaseActiveReq(); return ctx.Err()
    }

A caller is `blocked` (parked in the select, token not in the buffer) or `granted` (token in the buffer, not yet
returned); its context is live or done. `Release` with a parked sender hands the slot to one of them — also to one
whose context is already done but which has not woken up yet. Core Lean only.
-/
namespace Juno.C11.GateRace

structure St where
  cap : Nat
  /-- `len(g.sem)` -/
  tokens : Nat := 0
  /-- callers that returned nil and have not called `Release` -/
  owners : Nat := 0
  blockedLive : Nat := 0
  blockedDone : Nat := 0
  grantedLive : Nat := 0
  grantedDone : Nat := 0
  deriving Repr, DecidableEq

inductive Op where
  /-- a caller reaches the select: the send succeeds at once when there is room, else it parks -/
  | acquire
  /-- `Release()` by an owner: `<-g.sem`; with parked senders the runtime moves one sender's token in (a live one) -/
  | releaseToLive
  /-- … or a parked sender whose context is already done but which has not run yet -/
  | releaseToDone
  /-- the context of a parked caller ends -/
  | cancelBlocked
  /-- the context of a caller ends AFTER its token went in and BEFORE it returned -/
  | cancelGranted
  /-- a parked caller with a done context wakes through `ctx.Done()` and returns `ctx.Err()` -/
  | giveUp
  /-- a granted caller with a live context returns nil -/
  | returnLive
  /-- a granted caller whose context is done returns -/
  | returnDone
  deriving Repr, DecidableEq

/-- `leaky = false`: the code (`return nil`). `leaky = true`: the variant that looks at `ctx.Err()` after the send
and returns the error WITHOUT taking its token out. -/
def step (leaky : Bool) (s : St) : Op → St
  | .acquire => if s.tokens < s.cap then { s with tokens := s.tokens + 1, owners := s.owners + 1 }
                else { s with blockedLive := s.blockedLive + 1 }
  | .releaseToLive =>
    if s.owners = 0 then s
    else if s.blockedLive > 0 then { s with owners := s.owners - 1, blockedLive := s.blockedLive - 1, grantedLive := s.grantedLive + 1 }
    else if s.blockedDone > 0 then s   -- not enabled: use `releaseToDone`
    else { s with owners := s.owners - 1, tokens := s.tokens - 1 }
  | .releaseToDone =>
    if s.owners = 0 ∨ s.blockedDone = 0 then s
    else { s with owners := s.owners - 1, blockedDone := s.blockedDone - 1, grantedDone := s.grantedDone + 1 }
  | .cancelBlocked => if s.blockedLive = 0 then s else { s with blockedLive := s.blockedLive - 1, blockedDone := s.blockedDone + 1 }
  | .cancelGranted => if s.grantedLive = 0 then s else { s with grantedLive := s.grantedLive - 1, grantedDone := s.grantedDone + 1 }
  | .giveUp => if s.blockedDone = 0 then s else { s with blockedDone := s.blockedDone - 1 }
  | .returnLive => if s.grantedLive = 0 then s else { s with grantedLive := s.grantedLive - 1, owners := s.owners + 1 }
  | .returnDone =>
    if s.grantedDone = 0 then s
    else if leaky then { s with grantedDone := s.grantedDone - 1 }
    else { s with grantedDone := s.grantedDone - 1, owners := s.owners + 1 }

def run (leaky : Bool) (s : St) (ops : List Op) : St := ops.foldl (step leaky) s

/-- every token in the semaphore belongs to a caller that owns a slot or is about to return with one -/
def St.Inv (s : St) : Prop := s.tokens = s.owners + s.grantedLive + s.grantedDone ∧ s.tokens ≤ s.cap

theorem step_inv (s : St) (o : Op) (h : s.Inv) : (step false s o).Inv := by
  obtain ⟨h1, h2⟩ := h
  cases o <;> simp only [step, Bool.false_eq_true, if_false] <;> (repeat' split) <;>
    (first | exact ⟨h1, h2⟩ | (constructor <;> simp only <;> omega))

theorem run_inv (s : St) (ops : List Op) (h : s.Inv) : (run false s ops).Inv := by
  induction ops generalizing s with
  | nil => exact h
  | cons o r ih => exact ih _ (step_inv s o h)

theorem step_cap (l : Bool) (s : St) (o : Op) : (step l s o).cap = s.cap := by
  cases o <;> simp only [step] <;> (repeat' split) <;> rfl

theorem run_cap (l : Bool) (s : St) (ops : List Op) : (run l s ops).cap = s.cap := by
  induction ops generalizing s with
  | nil => rfl
  | cons o r ih => exact (ih (step l s o)).trans (step_cap l s o)

end Juno.C11.GateRace
