import JunoModel.C11.ProofsSpec
import JunoModel.C11.ModelBatch
/-! C11 — every schedule of `handleBatchRequest` answers every entry exactly once. -/
namespace Juno.C11

/-- ids of the responses the entries `l` get (request order, handlers as in `env`) -/
def idsOf (cfg : Config) (env : Env) (tbl : Table) (l : List Json) : List Json :=
  (batchResponses cfg env tbl l).map (·.id)

theorem idsOf_append (cfg : Config) (env : Env) (tbl : Table) (a b : List Json) :
    idsOf cfg env tbl (a ++ b) = idsOf cfg env tbl a ++ idsOf cfg env tbl b := by
  simp [idsOf, (batchResponses_append cfg env tbl a b).1]

theorem idsOf_single (cfg : Config) (env : Env) (tbl : Table) (x : Json) :
    idsOf cfg env tbl [x] = ((handleEntry cfg env tbl InvalidRequest x).1.toList).map (·.id) := by
  simp only [idsOf, batchResponses, batchEntries, List.map_cons, List.map_nil, List.filterMap_cons, List.filterMap_nil]
  cases (handleEntry cfg env tbl InvalidRequest x).1 <;> rfl

theorem batchLog_single (cfg : Config) (env : Env) (tbl : Table) (x : Json) :
    batchLog cfg env tbl [x] = (handleEntry cfg env tbl InvalidRequest x).2 := by
  simp [batchLog, batchEntries]

theorem handleEntry_undecodable_log (cfg : Config) (env : Env) (tbl : Table) (c : Int) (x : Json)
    (h : decodeRequest x = none) : (handleEntry cfg env tbl c x).2 = [] := by
  simp [handleEntry, h]

/-- the invariant: what has been answered, what is running and what is still to do add up — as
multisets — to the ids (and handler calls) of the whole batch -/
def BatchInv (cfg : Config) (env : Env) (tbl : Table) (es : List Json) (s : BatchSt) : Prop :=
  (s.done.map (·.id) ++ idsOf cfg env tbl s.running ++ idsOf cfg env tbl s.todo).Perm (idsOf cfg env tbl es) ∧
  (s.log ++ batchLog cfg env tbl s.running ++ batchLog cfg env tbl s.todo).Perm (batchLog cfg env tbl es)

theorem batchInv_step (cfg : Config) (env envLate : Env) (tbl : Table) (pool : Nat) (es : List Json)
    (hsame : SameBinding env envLate) (s t : BatchSt)
    (hinv : BatchInv cfg env tbl es s) (hstep : BatchStep cfg env envLate tbl pool s t) :
    BatchInv cfg env tbl es t := by
  obtain ⟨hi, hl⟩ := hinv
  cases hstep with
  | undecodable x rest h hd =>
    constructor
    · refine List.Perm.trans ?_ hi
      rw [h, show x :: rest = [x] ++ rest from rfl, idsOf_append, idsOf_single]
      simp only [List.map_append]
      -- done ++ rx ++ run ++ rest  ~  done ++ run ++ (rx ++ rest)
      simp only [List.append_assoc]
      apply List.Perm.append_left
      rw [← List.append_assoc, ← List.append_assoc]
      apply List.Perm.append_right
      exact List.perm_append_comm
    · refine List.Perm.trans ?_ hl
      rw [h, show x :: rest = [x] ++ rest from rfl, (batchResponses_append cfg env tbl [x] rest).2, batchLog_single,
        handleEntry_undecodable_log cfg env tbl _ x hd]
      simp
  | dispatch x rest h hd hfree =>
    constructor
    · refine List.Perm.trans ?_ hi
      rw [h, show x :: rest = [x] ++ rest from rfl, idsOf_append, idsOf_append]
      simp [List.append_assoc]
    · refine List.Perm.trans ?_ hl
      rw [h, show x :: rest = [x] ++ rest from rfl, (batchResponses_append cfg env tbl [x] rest).2,
        (batchResponses_append cfg env tbl s.running [x]).2]
      simp [List.append_assoc]
  | finish a x b h =>
    have hcong := handleEntry_congr (e1 := (if s.expired then envLate else env)) (e2 := env)
      (by cases s.expired <;> simp [SameBinding, hsame.1, hsame.2.1, hsame.2.2]) cfg tbl InvalidRequest x
    constructor
    · refine List.Perm.trans ?_ hi
      rw [h, show a ++ x :: b = a ++ ([x] ++ b) from rfl, idsOf_append, idsOf_append, idsOf_append, idsOf_single]
      simp only [List.map_append]
      have e : ((handleEntry cfg (if s.expired then envLate else env) tbl InvalidRequest x).1.toList).map (·.id)
          = ((handleEntry cfg env tbl InvalidRequest x).1.toList).map (·.id) := by
        have := hcong.1
        cases h1 : (handleEntry cfg (if s.expired then envLate else env) tbl InvalidRequest x).1 <;>
          cases h2 : (handleEntry cfg env tbl InvalidRequest x).1 <;> simp [h1, h2] at this ⊢
        exact this
      rw [e]
      simp only [List.append_assoc]
      apply List.Perm.append_left
      -- rx ++ (A ++ (B ++ T)) ~ A ++ (rx ++ (B ++ T))
      rw [← List.append_assoc, ← List.append_assoc (idsOf cfg env tbl a)]
      apply List.Perm.append_right
      exact List.perm_append_comm
    · refine List.Perm.trans ?_ hl
      rw [h, show a ++ x :: b = a ++ ([x] ++ b) from rfl, (batchResponses_append cfg env tbl a ([x] ++ b)).2,
        (batchResponses_append cfg env tbl [x] b).2, (batchResponses_append cfg env tbl a b).2, batchLog_single, hcong.2]
      simp only [List.append_assoc]
      apply List.Perm.append_left
      rw [← List.append_assoc, ← List.append_assoc (batchLog cfg env tbl a)]
      apply List.Perm.append_right
      exact List.perm_append_comm
  | expire => exact ⟨hi, hl⟩

theorem batchInv_reach (cfg : Config) (env envLate : Env) (tbl : Table) (pool : Nat) (es : List Json)
    (hsame : SameBinding env envLate) (s : BatchSt) (h : BatchReach cfg env envLate tbl pool es s) :
    BatchInv cfg env tbl es s := by
  induction h with
  | init => simp [BatchInv, BatchSt.init, idsOf, batchResponses, batchEntries, batchLog]
  | step _ hst ih => exact batchInv_step cfg env envLate tbl pool es hsame _ _ ih hst

end Juno.C11
