import JunoModel.Common.Proto
import JunoModel.C11.Model
import JunoModel.C11.ModelGo
/-!
Line-protocol driver for the C11 model (`lake build c11drv`).

JSON values travel as space separated tokens (prefix form):
  `n` null, `t`/`f` booleans, `#<literal>` number, `s<hex of UTF-8>` string,
  `[<k>` array of the k following values, `{<k>` object of the k following (string, value) pairs.

Requests:
  `cfg <batchDisabled 0|1> <peekLimit n|-> <nullForNilResult 0|1> <silentNotificationErrors 0|1>` -> `ok`
  `tbl <k> { <name s-token> <behaviour> <nparams> { <pname s-token> <optional 0|1> <type> } }`      -> `ok`
  `in <leadWs> <firstIsBracket 0|1> x`            (first JSON value does not parse)
  `in <leadWs> <firstIsBracket 0|1> v <tokens>`   -> tokens of `[[body]?, [[name, [args]]...]]` or `dk`
  `felt <s-token>` -> `none` | `<value hex> <bitLen> <maxbits64 0|1> <version03 0|1>`
-/
open Juno.Proto Juno.C11

structure St where
  cfg : Config := {}
  tbl : Table := []
  beh : List (String × Behaviour) := []

def strOfTok (cs : List Char) : Option String :=
  match hexToBytesAux cs with
  | some bs => String.fromUTF8? (ByteArray.mk bs.toArray)
  | none => none

def natOfChars (cs : List Char) : Option Nat :=
  if cs.isEmpty then none else
  cs.foldl (fun acc c => do
    let a ← acc
    if '0' ≤ c ∧ c ≤ '9' then pure (a * 10 + (c.toNat - 48)) else none) (some 0)

mutual
partial def parseJson : List String → Option (Json × List String)
  | [] => none
  | tok :: rest =>
    match tok.toList with
    | ['n'] => some (.null, rest)
    | ['t'] => some (.bool true, rest)
    | ['f'] => some (.bool false, rest)
    | '#' :: cs => some (.num (String.ofList cs), rest)
    | 's' :: cs => (strOfTok cs).map (fun s => (.str s, rest))
    | '[' :: cs => do
      let k ← natOfChars cs
      let (xs, rest') ← parseItems k rest
      pure (.arr xs, rest')
    | '{' :: cs => do
      let k ← natOfChars cs
      let (kvs, rest') ← parseMembers k rest
      pure (.obj kvs, rest')
    | _ => none
partial def parseItems : Nat → List String → Option (List Json × List String)
  | 0, rest => some ([], rest)
  | k + 1, rest => do
    let (x, r1) ← parseJson rest
    let (xs, r2) ← parseItems k r1
    pure (x :: xs, r2)
partial def parseMembers : Nat → List String → Option (List (String × Json) × List String)
  | 0, rest => some ([], rest)
  | k + 1, rest => do
    let (key, r0) ← parseJson rest
    match key with
    | .str name =>
      let (x, r1) ← parseJson r0
      let (xs, r2) ← parseMembers k r1
      pure ((name, x) :: xs, r2)
    | _ => none
end

def strTok (s : String) : String :=
  if s.isEmpty then "s" else "s" ++ bytesToHex s.toUTF8.toList

mutual
partial def emit (j : Json) (acc : Array String) : Array String :=
  match j with
  | .null => acc.push "n"
  | .bool true => acc.push "t"
  | .bool false => acc.push "f"
  | .num t => acc.push ("#" ++ t)
  | .str s => acc.push (strTok s)
  | .arr xs => emitList xs (acc.push ("[" ++ toString xs.length))
  | .obj kvs => emitMembers kvs (acc.push ("{" ++ toString kvs.length))
partial def emitList (xs : List Json) (acc : Array String) : Array String :=
  match xs with
  | [] => acc
  | x :: r => emitList r (emit x acc)
partial def emitMembers (kvs : List (String × Json)) (acc : Array String) : Array String :=
  match kvs with
  | [] => acc
  | (k, v) :: r => emitMembers r (emit v (acc.push (strTok k)))
end

def render (j : Json) : String := " ".intercalate (emit j #[]).toList

def bool01? : String → Option Bool
  | "0" => some false
  | "1" => some true
  | _ => none

def ptype? : String → Option PType
  | "any" => some .any | "raw" => some .raw | "int" => some .int | "str" => some .str
  | "bool" => some .bool | "ptrInt" => some .ptrInt | "ints" => some .ints
  | "vstruct" => some .vstruct | "bounds" => some .bounds
  | _ => none

def behaviour? : String → Option Behaviour
  | "echo" => some .echo | "fail" => some .fail | "internal" => some .internal
  | "nilres" => some .nilres | "typednil" => some .typednil | "both" => some .both
  | _ => none

def nameTok? (t : String) : Option String :=
  match t.toList with
  | 's' :: cs => strOfTok cs
  | _ => none

partial def parseParams : Nat → List String → Option (List Param × List String)
  | 0, rest => some ([], rest)
  | k + 1, n :: o :: t :: rest => do
    let name ← nameTok? n
    let opt ← bool01? o
    let ty ← ptype? t
    let (ps, r) ← parseParams k rest
    pure ({ name, optional := opt, ty } :: ps, r)
  | _, _ => none

partial def parseMethods : Nat → List String → Option (List (Method × Behaviour) × List String)
  | 0, rest => some ([], rest)
  | k + 1, n :: b :: np :: rest => do
    let name ← nameTok? n
    let beh ← behaviour? b
    let npar ← natOfChars np.toList
    let (ps, r1) ← parseParams npar rest
    let (ms, r2) ← parseMethods k r1
    pure (({ name, params := ps }, beh) :: ms, r2)
  | _, _ => none

def answer (st : St) (inp : Input) : String :=
  let run (strict : Bool) : String :=
    let out := handleInput st.cfg (goEnv strict st.beh) st.tbl inp
    let body : Json := match out.body with | none => .arr [] | some b => .arr [b]
    let log : Json := .arr (out.log.map (fun c => .arr [.str c.1, .arr c.2]))
    render (.arr [body, log])
  let a := run true
  let b := run false
  if a == b then a else "dk"

def step (st : St) (line : String) : St × String :=
  match words line with
  | ["cfg", bd, pk, nn, sn] =>
    match bool01? bd, bool01? nn, bool01? sn with
    | some bd, some nn, some sn =>
      let peek : Option (Option Nat) := if pk == "-" then some none else (natOfChars pk.toList).map some
      match peek with
      | some p => ({ st with cfg := { batchDisabled := bd, peekLimit := p, nullForNilResult := nn,
                                      silentNotificationErrors := sn } }, "ok")
      | none => (st, "bad-op")
    | _, _, _ => (st, "bad-op")
  | "tbl" :: k :: rest =>
    match natOfChars k.toList with
    | some k =>
      match parseMethods k rest with
      | some (ms, []) => ({ st with tbl := ms.map (·.1), beh := ms.map (fun mb => (mb.1.name, mb.2)) }, "ok")
      | _ => (st, "bad-op")
    | none => (st, "bad-op")
  | ["in", lw, fb, "x"] =>
    match natOfChars lw.toList, bool01? fb with
    | some lw, some fb => (st, answer st { leadWs := lw, firstIsBracket := fb, parsed := none })
    | _, _ => (st, "bad-op")
  | "in" :: lw :: fb :: "v" :: toks =>
    match natOfChars lw.toList, bool01? fb, parseJson toks with
    | some lw, some fb, some (j, []) => (st, answer st { leadWs := lw, firstIsBracket := fb, parsed := some j })
    | _, _, _ => (st, "bad-op")
  | ["felt", t] =>
    match nameTok? t with
    | some s =>
      match feltOf s with
      | none => (st, "none")
      | some n => (st, s!"{natToHex n} {bitLen n} {if feltMaxBits n 64 then 1 else 0} {if version03 n then 1 else 0}")
    | none => (st, "bad-op")
  | _ => (st, "bad-op")

def main : IO Unit := loop step {}
