import JunoModel.Common.Proto
import JunoModel.C11.Model
import JunoModel.C11.ModelGo
import JunoModel.C11.ModelTransport
import JunoModel.C11.ModelPretty
import JunoModel.C11.ModelPrettyText
import JunoModel.C11.ModelGate
import JunoModel.C11.ModelConn
import JunoModel.C11.ModelRegister
import JunoModel.C11.ModelEvents
import JunoModel.C11.ModelWsLoop
import JunoModel.C11.ModelTxRules
import JunoModel.C11.ModelNullId
import JunoModel.C11.ModelValidateWalk
/-!
Line-protocol driver for the C11 model (`lake build c11drv`).

JSON values travel as space separated tokens (prefix form):
  `n` null, `t`/`f` booleans, `#<literal>` number, `s<hex of UTF-8>` string,
  `[<k>` array of the k following values, `{<k>` object of the k following (string, value) pairs.

Requests:
  `cfg <batchDisabled> <peekLimit n|-> <nullForNilResult> <silentNotificationErrors> <internalErrorOnHandlerFailure> <legalIdEchoOnly> <nullNotGiven>` (0|1 each) -> `ok`
  `tbl <k> { <name s-token> <behaviour> <nparams> { <pname s-token> <optional 0|1> <type> } }`      -> `ok`
  `in <leadWs> <firstIsBracket 0|1> x`            (first JSON value does not parse)
  `in <leadWs> <firstIsBracket 0|1> v <tokens>`   -> tokens of `[[body]?, [[name, [args]]...]]` or `dk`
  `http <get|post|other> <pathIsRoot 0|1> <leadWs> <firstIsBracket> (x | v <tokens>)`
        -> `<status> <json 0|1> ` + tokens of `[[body]?, log]`, or `dk`
  `ws <k> { <leadWs> <firstIsBracket> (x | v <tokens>) }` -> tokens of `[[wire...], log]` or `dk`
  `pretty <skippedBytes> <k> <chunk length>*k <hex of all bytes read> (syntax <off> | type <off> | eof | other)`
        -> `none` | `<line> <col>`  (pretty_error.go: where the caret goes)
  `ptext <skippedBytes> <k> <chunk length>*k <hex of all bytes read> (syntax <off> | type <off> | eof | other)
         <hex err.Error()> <hex Field> <hex Type.String()> <hex Value>`
        -> `panic` | segments `b<hex>` (literal bytes) `q<hex code point>` (%q of a rune) `Q<hex>` (%q of a string)
           (pretty_error.go: the whole `data` text of a -32700 answer)
  `gate <maxConcurrent> <maxQueue> <ops: letters a (Acquire, live ctx) d (Acquire, ctx done) r (Release) x (a waiter's ctx is done)>`
        -> `max=<maxRequests>` then per op `<admitted|queued|busy|ctxErr|noop>:<Running>/<Queued>/<Rejected>`  (gate.go)
  `httpg <admitted|busy|deadline|gone> <get|post|other> <pathIsRoot> <leadWs> <firstIsBracket> (x | v <tokens>)`
        -> `<status> <json 0|1> <dropped 0|1> <retryAfter 0|1> <hex of the http.Error text> ` + tokens of `[[body]?, log]`
  `conn <hasResponse 0|1> <handleErr 0|1> <writeOk 0|1> <number of pushes>`
        -> wire tokens (`r` response, `p<k>` push k) `|` refused pushes  (HandleReadWriter + connection.Write)
  `limit <max> <ops: letters c (connect) d (a connection ends) u (a request that is no websocket handshake)>` -> per op `1` (upgraded / done) or `0` (503)
  `reg <k> { <name s-token> <nparams> <isFunc 0|1> <ins: letters c (context) o (other), or -> <outs: letters e (*Error) h (http.Header) o (other), or -> }`
        -> `ok <registered>` | `err:<notFunc|paramCount|returnCount|secondNotError|thirdNotError|secondNotHeader> <registered>`
           (RegisterMethods on an empty server: how many methods are registered afterwards)
  `hdrs <k> <name s-token>*k` -> `ok`   (the methods whose handler returns `(result, http.Header, *Error)`; the harness'
        handlers return `X-Verif-Method: <name>`, `X-Verif-Argc: <number of arguments>`, and `Content-Type: text/plain`
        when the method is called `ctype`)
  `inx <acceptsGzip 0|1> <leadWs> <firstIsBracket> (x | v <tokens>)`
        -> `<listener calls: n<hex method> (OnNewRequest) h<hex> (OnRequestHandled) f<hex> (OnRequestFailed), or ->
            | <header of HandleReader: <hex key>:<hex value>,… or -> | <headers HTTP.ServeHTTP sets, same form>` or `dk`
  `logobj (x | v <tokens>)` -> members of the object `Request.MarshalLogObject` writes for this (single) request
        value (`jsonrpc method [id] [params]`), `none` when it does not decode
  `f64 <number literal>` -> what json.Marshal writes for the float64 it parses to, or `err`
  `defaults` -> `<peekLimit n|-> <nullForNilResult 0|1> <silentNotificationErrors 0|1>` of `junoCfg`
  `felt <s-token>` -> `none` | `<value hex> <bitLen> <maxbits64 0|1> <maxbits128 0|1> <version03 0|1>`
-/
open Juno.Proto Juno.C11

structure St where
  cfg : Config := {}
  tbl : Table := []
  beh : List (String × Behaviour) := []
  nullNotGiven : Bool := true
  hdrs : List String := []
  /-- the server under test has the repair of `request-with-null-id-not-answered` (probed by the harness) -/
  nullFix : Bool := false

def strOfTok (cs : List Char) : Option String :=
  match hexToBytesAux cs with
  | some bs => String.fromUTF8? (ByteArray.mk bs.toArray)
  | none => none

def natOfChars (cs : List Char) : Option Nat :=
  if cs.isEmpty then none else
  cs.foldl (fun acc c => do
    let a ← acc
    if '0' ≤ c ∧ c ≤ '9' then pure (a * 10 + (c.toNat - 48)) else none) (some 0)

mutual
partial def parseJson : List String → Option (Json × List String)
  | [] => none
  | tok :: rest =>
    match tok.toList with
    | ['n'] => some (.null, rest)
    | ['t'] => some (.bool true, rest)
    | ['f'] => some (.bool false, rest)
    | '#' :: cs => some (.num (String.ofList cs), rest)
    | 's' :: cs => (strOfTok cs).map (fun s => (.str s, rest))
    | '[' :: cs => do
      let k ← natOfChars cs
      let (xs, rest') ← parseItems k rest
      pure (.arr xs, rest')
    | '{' :: cs => do
      let k ← natOfChars cs
      let (kvs, rest') ← parseMembers k rest
      pure (.obj kvs, rest')
    | _ => none
partial def parseItems : Nat → List String → Option (List Json × List String)
  | 0, rest => some ([], rest)
  | k + 1, rest => do
    let (x, r1) ← parseJson rest
    let (xs, r2) ← parseItems k r1
    pure (x :: xs, r2)
partial def parseMembers : Nat → List String → Option (List (String × Json) × List String)
  | 0, rest => some ([], rest)
  | k + 1, rest => do
    let (key, r0) ← parseJson rest
    match key with
    | .str name =>
      let (x, r1) ← parseJson r0
      let (xs, r2) ← parseMembers k r1
      pure ((name, x) :: xs, r2)
    | _ => none
end

def strTok (s : String) : String :=
  if s.isEmpty then "s" else "s" ++ bytesToHex s.toUTF8.toList

mutual
partial def emit (j : Json) (acc : Array String) : Array String :=
  match j with
  | .null => acc.push "n"
  | .bool true => acc.push "t"
  | .bool false => acc.push "f"
  | .num t => acc.push ("#" ++ t)
  | .str s => acc.push (strTok s)
  | .arr xs => emitList xs (acc.push ("[" ++ toString xs.length))
  | .obj kvs => emitMembers kvs (acc.push ("{" ++ toString kvs.length))
partial def emitList (xs : List Json) (acc : Array String) : Array String :=
  match xs with
  | [] => acc
  | x :: r => emitList r (emit x acc)
partial def emitMembers (kvs : List (String × Json)) (acc : Array String) : Array String :=
  match kvs with
  | [] => acc
  | (k, v) :: r => emitMembers r (emit v (acc.push (strTok k)))
end

def render (j : Json) : String := " ".intercalate (emit j #[]).toList

def bool01? : String → Option Bool
  | "0" => some false
  | "1" => some true
  | _ => none

def ptype? : String → Option PType
  | "any" => some .any | "raw" => some .raw | "int" => some .int | "str" => some .str
  | "bool" => some .bool | "ptrInt" => some .ptrInt | "ints" => some .ints
  | "vstruct" => some .vstruct | "bounds" => some .bounds | "vslice" => some .vslice | "vmap" => some .vmap
  | _ => none

def behaviour? : String → Option Behaviour
  | "echo" => some .echo | "fail" => some .fail | "internal" => some .internal
  | "nilres" => some .nilres | "typednil" => some .typednil | "both" => some .both
  | "waitctx" => some .waitctx | "unmarshalable" => some .unmarshalable | "panic" => some .panic
  | "zeroint" => some .zeroint | "emptystr" => some .emptystr | "falseres" => some .falseres
  | "failzero" => some .failzero
  | _ => none

def nameTok? (t : String) : Option String :=
  match t.toList with
  | 's' :: cs => strOfTok cs
  | _ => none

partial def parseParams : Nat → List String → Option (List Param × List String)
  | 0, rest => some ([], rest)
  | k + 1, n :: o :: t :: rest => do
    let name ← nameTok? n
    let opt ← bool01? o
    let ty ← ptype? t
    let (ps, r) ← parseParams k rest
    pure ({ name, optional := opt, ty } :: ps, r)
  | _, _ => none

partial def parseMethods : Nat → List String → Option (List (Method × Behaviour) × List String)
  | 0, rest => some ([], rest)
  | k + 1, n :: b :: np :: rest => do
    let name ← nameTok? n
    let beh ← behaviour? b
    let npar ← natOfChars np.toList
    let (ps, r1) ← parseParams npar rest
    let (ms, r2) ← parseMethods k r1
    pure (({ name, params := ps }, beh) :: ms, r2)
  | _, _ => none

def logJson (log : List Call) : Json := .arr (log.map (fun c => .arr [.str c.1, .arr c.2]))

/-- run `f` with the strict and the lenient reading of unsafe numbers at `any`; `dk` if they differ -/
def both (st : St) (f : Env → String) : String :=
  let a := f (goEnv true st.beh st.nullNotGiven)
  let b := f (goEnv false st.beh st.nullNotGiven)
  if a == b then a else "dk"

def fixIn (st : St) (inp : Input) : Input := if st.nullFix then NullId.markInput inp else inp
def fixOut (st : St) (j : Json) : Json := if st.nullFix then NullId.unmark j else j

def answer (st : St) (inp : Input) : String :=
  both st fun env =>
    let out := handleInputF st.cfg env st.tbl (fixIn st inp)
    let body : Json := match out.body with | none => .arr [] | some b => .arr [b]
    render (fixOut st (.arr [body, logJson out.log, .arr [.bool out.goError, .bool out.panicked]]))

def parseInput : List String → Option (Input × List String)
  | lw :: fb :: "x" :: rest => do
    let lw ← natOfChars lw.toList
    let fb ← bool01? fb
    pure ({ leadWs := lw, firstIsBracket := fb, parsed := none }, rest)
  | lw :: fb :: "v" :: toks => do
    let lw ← natOfChars lw.toList
    let fb ← bool01? fb
    let (j, rest) ← parseJson toks
    pure ({ leadWs := lw, firstIsBracket := fb, parsed := some j }, rest)
  | _ => none

partial def parseInputs : Nat → List String → Option (List Input × List String)
  | 0, rest => some ([], rest)
  | k + 1, toks => do
    let (i, r1) ← parseInput toks
    let (is, r2) ← parseInputs k r1
    pure (i :: is, r2)

def httpMethod? : String → Option HttpMethod
  | "get" => some .get | "post" => some .post | "other" => some .other
  | _ => none

/-- `<skipped> <k> <len>*k <hex> (syntax o | type o | eof | other) rest…` -/
def parsePrettyArgs : List String → Option (Nat × Pretty.Win × Pretty.DecodeErr × List String)
  | sk :: k :: rest => do
    let skipped ← natOfChars sk.toList
    let k ← natOfChars k.toList
    if rest.length < k + 2 then none
    let ls ← (rest.take k).mapM (fun w => natOfChars w.toList)
    match rest.drop k with
    | hex :: errToks =>
      let bytes ← hexToBytes? hex
      if ls.foldl (· + ·) 0 != bytes.length then none
      let chunks : List (List UInt8) := (ls.foldl (fun (acc : List (List UInt8) × List UInt8) n =>
        (acc.1 ++ [acc.2.take n], acc.2.drop n)) ([], bytes)).1
      let win := Pretty.Win.writes {} chunks
      match errToks with
      | "syntax" :: o :: more => (o.toInt?).map (fun o => (skipped, win, Pretty.DecodeErr.syntax o, more))
      | "type" :: o :: more => (o.toInt?).map (fun o => (skipped, win, Pretty.DecodeErr.type o, more))
      | "eof" :: more => some (skipped, win, .eof, more)
      | "other" :: more => some (skipped, win, .other, more)
      | _ => none
    | [] => none
  | _ => none

def natHex (n : Nat) : String := String.ofList (Nat.toDigits 16 n)

/-- adjacent literal segments are merged -/
def renderText (t : Pretty.Text) : String :=
  let rec go : List Pretty.Seg → List UInt8 → List String → List String
    | [], cur, acc => (if cur.isEmpty then acc else ("b" ++ bytesToHex cur) :: acc)
    | .lit bs :: r, cur, acc => go r (cur ++ bs) acc
    | .qrune cp :: r, cur, acc =>
      go r [] (("q" ++ natHex cp) :: (if cur.isEmpty then acc else ("b" ++ bytesToHex cur) :: acc))
    | .qstr bs :: r, cur, acc =>
      go r [] (("Q" ++ bytesToHex bs) :: (if cur.isEmpty then acc else ("b" ++ bytesToHex cur) :: acc))
  let toks := (go t [] []).reverse
  if toks.isEmpty then "b-" else " ".intercalate toks

partial def parseDecls : Nat → List String → Option (List MethodDecl × List String)
  | 0, rest => some ([], rest)
  | k + 1, n :: np :: f :: ins :: outs :: rest => do
    let name ← nameTok? n
    let np ← natOfChars np.toList
    let f ← bool01? f
    let ins ← (if ins == "-" then some [] else ins.toList.mapM (fun c => match c with
      | 'c' => some InTy.ctx | 'o' => some InTy.other | _ => none))
    let outs ← (if outs == "-" then some [] else outs.toList.mapM (fun c => match c with
      | 'e' => some OutTy.errPtr | 'h' => some OutTy.header | 'o' => some OutTy.other | _ => none))
    let (ds, r) ← parseDecls k rest
    pure ({ method := { name, params := (List.range np).map (fun i => { name := s!"p{i}" }) },
            sig := { isFunc := f, ins, outs } } :: ds, r)
  | _, _ => none

def hexOfStr (s : String) : String := if s.isEmpty then "-" else bytesToHex s.toUTF8.toList

def renderHeader (h : Header) : String :=
  if h.isEmpty then "-" else
  " ".intercalate (h.map (fun kv => hexOfStr kv.1 ++ ":" ++ ",".intercalate (kv.2.map hexOfStr)))

def renderEvents (es : List Event) : String :=
  if es.isEmpty then "-" else
  " ".intercalate (es.map (fun e => match e with
    | .newRequest m => "n" ++ hexOfStr m | .handled m => "h" ++ hexOfStr m | .failed m => "f" ++ hexOfStr m))

/-- the header the harness' 3-value handlers return -/
def hdrFn (st : St) (name : String) (args : List Json) : Header :=
  if st.hdrs.contains name then
    [("X-Verif-Method", [name]), ("X-Verif-Argc", [toString args.length])] ++
      (if name == "ctype" then [("Content-Type", ["text/plain"])] else [])
  else []

partial def parseNames : Nat → List String → Option (List String × List String)
  | 0, rest => some ([], rest)
  | k + 1, n :: rest => do
    let name ← nameTok? n
    let (ns, r) ← parseNames k rest
    pure (name :: ns, r)
  | _, _ => none

def step (st : St) (line : String) : St × String :=
  match words line with
  | "hdrs" :: k :: rest =>
    match (natOfChars k.toList).bind (fun k => parseNames k rest) with
    | some (ns, []) => ({ st with hdrs := ns }, "ok")
    | _ => (st, "bad-op")
  | "inx" :: gz :: rest =>
    match bool01? gz, parseInput rest with
    | some gz, some (inp, []) =>
      (st, both st fun env =>
        let o := handleInputX st.cfg.batchDisabled env (hdrFn st) st.tbl (fixIn st inp)
        renderEvents o.events ++ " | " ++ renderHeader o.header ++ " | " ++ renderHeader (httpPostHeaders gz o))
    | _, _ => (st, "bad-op")
  | ["logobj", "x"] => (st, "none")
  | "logobj" :: "v" :: toks =>
    match parseJson toks with
    | some (j, []) =>
      (st, match decodeRequest j with
        | none => "none"
        | some r => " ".intercalate r.logMembers)
    | _ => (st, "bad-op")
  | ["cfg", bd, pk, nn, sn, ie, li, ng] =>
    match bool01? bd, bool01? nn, bool01? sn, bool01? ie, bool01? li, bool01? ng with
    | some bd, some nn, some sn, some ie, some li, some ng =>
      let peek : Option (Option Nat) := if pk == "-" then some none else (natOfChars pk.toList).map some
      match peek with
      | some p => ({ st with nullNotGiven := ng,
                             cfg := { batchDisabled := bd, peekLimit := p, nullForNilResult := nn,
                                      silentNotificationErrors := sn, internalErrorOnHandlerFailure := ie,
                                      legalIdEchoOnly := li } }, "ok")
      | none => (st, "bad-op")
    | _, _, _, _, _, _ => (st, "bad-op")
  | "tbl" :: k :: rest =>
    match natOfChars k.toList with
    | some k =>
      match parseMethods k rest with
      | some (ms, []) => ({ st with tbl := ms.map (·.1), beh := ms.map (fun mb => (mb.1.name, mb.2)) }, "ok")
      | _ => (st, "bad-op")
    | none => (st, "bad-op")
  | "in" :: rest =>
    match parseInput rest with
    | some (inp, []) => (st, answer st inp)
    | _ => (st, "bad-op")
  | "http" :: m :: root :: rest =>
    match httpMethod? m, bool01? root, parseInput rest with
    | some m, some root, some (inp, []) =>
      (st, both st fun env =>
        let r := serveHTTP st.cfg env st.tbl { method := m, pathIsRoot := root, body := fixIn st inp }
        let body : Json := match r.body with | none => .arr [] | some b => .arr [b]
        s!"{r.status} {if r.json then 1 else 0} {if r.dropped then 1 else 0} " ++ render (fixOut st (.arr [body, logJson r.log])))
    | _, _, _ => (st, "bad-op")
  | "ws" :: k :: rest =>
    match natOfChars k.toList with
    | some k =>
      match parseInputs k rest with
      | some (msgs, []) =>
        (st, both st fun env =>
          let outs := wsSession st.cfg env st.tbl (msgs.map (fixIn st))
          render (fixOut st (.arr [.arr (wsWire outs), logJson (wsLog outs), .bool (wsClosed outs)])))
      | _ => (st, "bad-op")
    | none => (st, "bad-op")
  | "pretty" :: rest =>
    match parsePrettyArgs rest with
    | some (skipped, win, err, []) =>
      match Pretty.position win err skipped with
      | none => (st, "none")
      | some p => (st, s!"{p.line} {p.col}")
    | _ => (st, "bad-op")
  | "ptext" :: rest =>
    match parsePrettyArgs rest with
    | some (skipped, win, err, [t, f, ty, v]) =>
      match hexToBytes? t, hexToBytes? f, hexToBytes? ty, hexToBytes? v with
      | some t, some f, some ty, some v =>
        match Pretty.prettyParseError? win skipped { kind := err, text := t, field := f, tyName := ty, value := v } with
        | none => (st, "panic")
        | some txt => (st, renderText txt)
      | _, _, _, _ => (st, "bad-op")
    | _ => (st, "bad-op")
  | ["gate", c, q, ops] =>
    match natOfChars c.toList, natOfChars q.toList,
      ops.toList.mapM (fun ch => match ch with
        | 'a' => some (Gate.Op.acquire false) | 'd' => some (Gate.Op.acquire true)
        | 'r' => some Gate.Op.release | 'x' => some Gate.Op.waiterCtxDone | _ => none) with
    | some c, some q, some ops =>
      let g := Gate.St.new c q
      let outName : Gate.Outcome → String
        | .admitted => "admitted" | .queued => "queued" | .busy => "busy" | .ctxErr => "ctxErr" | .noop => "noop"
      (st, " ".intercalate (s!"max={g.maxRequests}" ::
        (g.trace ops).map (fun (o, r, qd, rj) => s!"{outName o}:{r}/{qd}/{rj}")))
    | _, _, _ => (st, "bad-op")
  | "wsloop" :: bound :: rest =>
    -- wsloop <drain bound | -> {<frame lengths, comma separated | -> <taken> <ok 0|1>}*
    let drain? : Option (Nat → Nat) :=
      if bound = "-" then some WsLoop.drainAll else (natOfChars bound.toList).map WsLoop.drainAtMost
    let rec msgs (fuel : Nat) (ws : List String) (acc : List WsLoop.Msg) : Option (List WsLoop.Msg) :=
      match fuel, ws with
      | _, [] => some acc.reverse
      | 0, _ => none
      | fuel + 1, f :: t :: o :: more =>
        let frames? : Option (List Nat) :=
          if f = "-" then some [] else (f.splitOn ",").mapM (fun x => natOfChars x.toList)
        match frames?, natOfChars t.toList, bool01? o with
        | some fr, some t, some o => msgs fuel more ({ frames := fr, taken := t, ok := o } :: acc)
        | _, _, _ => none
      | _, _ => none
    match drain?, msgs rest.length rest [] with
    | some drain, some ms =>
      let (hs, e) := WsLoop.run drain 0 ms
      let ends : String := match e with
        | .clientClosed => "client" | .handlerError => "handler-error" | .outOfStep u => s!"out-of-step:{u}"
      (st, " ".intercalate (hs.map (fun h => s!"{h.index}{if h.fromStart then "" else "!"}") ++ ["|", ends,
        s!"listener={WsLoop.listenerCalls (hs, e)}", s!"close={if WsLoop.serverSendsClose e then 1 else 0}"]))
    | _, _ => (st, "bad-op")
  | ["txrule", ty, bits] =>
    let ty? : Option TxRules.TxType := match ty with
      | "unknown" => some .unknown | "declare" => some .declare | "deploy" => some .deploy
      | "deployAccount" => some .deployAccount | "invoke" => some .invoke | "l1Handler" => some .l1Handler | _ => none
    let bs := bits.toList
    match ty?, bs.length == TxRules.Field.all.length && bs.all (fun c => c == '0' || c == '1') with
    | some ty, true =>
      let present (f : TxRules.Field) : Bool :=
        ((TxRules.Field.all.zip bs).find? (fun p => p.1 == f)).map (fun p => p.2 == '1') |>.getD false
      (st, if TxRules.accepts ty present then "ok" else "refused")
    | _, _ => (st, "bad-op")
  | ["vwalk", shape, bits] =>
    match shape.toList.mapM (fun ch => match ch with
        | 'S' => some VWalk.Kind.slice | 'A' => some VWalk.Kind.array | 'M' => some VWalk.Kind.map
        | 'P' => some VWalk.Kind.ptr | _ => none),
      bits.toList.mapM (fun ch => match ch with | '1' => some true | '0' => some false | _ => none) with
    | some ks, some leaves => (st, if VWalk.accepted ks leaves then "ok" else "refused")
    | _, _ => (st, "bad-op")
  | ["nullfix", b] =>
    match bool01? b with
    | some b => ({ st with nullFix := b }, "ok")
    | none => (st, "bad-op")
  | ["gatepost", c, q, exits] =>
    match natOfChars c.toList, natOfChars q.toList,
      exits.toList.mapM (fun ch => match ch with
        | 'A' => some (true, PostExit.answered) | 'S' => some (true, PostExit.silent)
        | 'E' => some (true, PostExit.goError) | 'P' => some (true, PostExit.panicked)
        | 'a' => some (false, PostExit.answered) | 's' => some (false, PostExit.silent) | _ => none) with
    | some c, some q, some xs =>
      let outName : Gate.Outcome → String
        | .admitted => "admitted" | .queued => "queued" | .busy => "busy" | .ctxErr => "ctxErr" | .noop => "noop"
      (st, " ".intercalate (((Gate.St.new c q).posts xs).map (fun (o, r, qd, rj) => s!"{outName o}:{r}/{qd}/{rj}")))
    | _, _, _ => (st, "bad-op")
  | "httpg" :: adm :: m :: root :: rest =>
    let adm? : Option Admission := match adm with
      | "admitted" => some .admitted | "busy" => some .busy | "deadline" => some .deadlineWhileQueued
      | "gone" => some .clientGone | _ => none
    match adm?, httpMethod? m, bool01? root, parseInput rest with
    | some adm, some m, some root, some (inp, []) =>
      (st, both st fun env =>
        let g := serveHTTPGated adm st.cfg env st.tbl { method := m, pathIsRoot := root, body := fixIn st inp }
        let r := g.http
        let body : Json := match r.body with | none => .arr [] | some b => .arr [b]
        let txt := match g.text with | none => "-" | some t => bytesToHex t.toUTF8.toList
        s!"{r.status} {if r.json then 1 else 0} {if r.dropped then 1 else 0} {if g.retryAfter then 1 else 0} {txt} " ++
          render (fixOut st (.arr [body, logJson r.log])))
    | _, _, _, _ => (st, "bad-op")
  | ["conn", hr, he, wo, np] =>
    match bool01? hr, bool01? he, bool01? wo, natOfChars np.toList with
    | some hr, some he, some wo, some np =>
      let (wire, refused) := Conn.outcome { hasResponse := hr, handleErr := he, writeOk := wo } (List.range np)
      let w := wire.map (fun m => match m with | .response => "r" | .pushed k => s!"p{k}")
      (st, " ".intercalate (w ++ ["|"] ++ refused.map (fun k => s!"p{k}")))
    | _, _, _, _ => (st, "bad-op")
  | ["limit", mx, ops] =>
    match natOfChars mx.toList, ops.toList.mapM (fun ch => match ch with
        | 'c' => some Conn.LimitOp.connect | 'd' => some Conn.LimitOp.disconnect
        | 'u' => some Conn.LimitOp.badUpgrade | _ => none) with
    | some mx, some ops =>
      (st, " ".intercalate (((Conn.Limit.mk mx 0).trace ops).map (fun b => if b then "1" else "0")))
    | _, _ => (st, "bad-op")
  | "reg" :: k :: rest =>
    match (natOfChars k.toList).bind (fun k => parseDecls k rest) with
    | some (ds, []) =>
      let (tbl, err) := registerMethods [] ds
      let cls : RegErr → String
        | .notFunc => "notFunc" | .paramCount => "paramCount" | .returnCount => "returnCount"
        | .secondNotError => "secondNotError" | .thirdNotError => "thirdNotError" | .secondNotHeader => "secondNotHeader"
      (st, match err with | none => s!"ok {tbl.length}" | some e => s!"err:{cls e} {tbl.length}")
    | _ => (st, "bad-op")
  | ["f64", t] => (st, match F64.roundTrip t with | some r => r | none => "err")
  | ["defaults"] =>
    let b (x : Bool) : Nat := if x then 1 else 0
    (st, s!"{match junoCfg.peekLimit with | none => "-" | some n => toString n} {b junoCfg.nullForNilResult} {b junoCfg.silentNotificationErrors} {b junoCfg.internalErrorOnHandlerFailure} {b junoCfg.legalIdEchoOnly} {b (goEnv true []).nullNotGiven}")
  | ["felt", t] =>
    match nameTok? t with
    | some s =>
      match feltOf s with
      | none => (st, "none")
      | some n => (st, s!"{natToHex n} {bitLen n} {if feltMaxBits n 64 then 1 else 0} {if feltMaxBits n 128 then 1 else 0} {if version03 n then 1 else 0}")
    | none => (st, "bad-op")
  | _ => (st, "bad-op")

def main : IO Unit := loop step {}
