import JunoModel.C11.ModelWsLoop
/-! C11 (round 6) — the WebSocket read loop keeps the byte stream in step (`ModelWsLoop.lean`). -/
namespace Juno.C11.WsLoop

def okPrefix (ms : List Msg) : List Msg := ms.takeWhile (·.ok)

/-- the indices `i, i+1, …` of `n` messages, each handled from its first byte -/
def handledFrom (i n : Nat) : List Handled := (List.range' i n).map (fun j => { index := j, fromStart := true })

/-- With the drain of the code (`io.Copy` to EOF), whatever `HandleReader` left unread: every message up to and
including the first whose `HandleReadWriter` fails is handled, in order, from its first byte; the loop ends because
the client closed (all handled) or because of that failure — never out of step. -/
theorem run_drainAll (i : Nat) (ms : List Msg) :
    run drainAll i ms =
      if (okPrefix ms).length = ms.length then (handledFrom i ms.length, .clientClosed)
      else (handledFrom i ((okPrefix ms).length + 1), .handlerError) := by
  induction ms generalizing i with
  | nil => simp [run, okPrefix, handledFrom]
  | cons m rest ih =>
    unfold run
    by_cases hok : m.ok = true
    · have hleft : m.unread - drainAll m.unread = 0 := by simp [drainAll]
      simp only [hok, Bool.not_true, Bool.false_eq_true, if_false, hleft, if_true]
      rw [ih (i + 1)]
      have hp : okPrefix (m :: rest) = m :: okPrefix rest := by simp [okPrefix, List.takeWhile, hok]
      rw [hp]
      by_cases hall : (okPrefix rest).length = rest.length
      · simp [hall, handledFrom, List.range'_succ]
      · simp [hall, handledFrom, List.range'_succ]
    · have hok' : m.ok = false := by simpa using hok
      have hp : okPrefix (m :: rest) = [] := by simp [okPrefix, List.takeWhile, hok']
      simp [hok', hp, handledFrom]

theorem run_drainAll_in_step (i : Nat) (ms : List Msg) (u : Nat) : (run drainAll i ms).2 ≠ .outOfStep u := by
  rw [run_drainAll]
  split <;> simp

theorem closeReason_spec (err : List UInt8) :
    (closeReason err).length ≤ closeReasonMaxBytes ∧ closeReason err <+: err ∧
      (err.length ≤ closeReasonMaxBytes → closeReason err = err) := by
  unfold closeReason
  split
  · rename_i h
    refine ⟨by simp [List.length_take]; omega, List.take_prefix _ _, fun h' => by omega⟩
  · rename_i h
    exact ⟨by omega, List.prefix_refl _, fun _ => rfl⟩

end Juno.C11.WsLoop
