import JunoModel.C11.ProofsSpec
/-!
C11 — statements that are true by construction of the model (kept as lemmas, NOT obligations of the
property): the structural pairing in the model's own vocabulary (`Stage`), the permutation closure,
and that ids / calls do not depend on what handlers return. The schedule and transport behaviour
they were meant to express is tied by the harness (multisets over pools of 1–8, sessions, deadlines).
-/
namespace Juno.C11.Misc
open Juno.C11

/-- For every configuration: the server is silent iff the input consists of request values it
passes over in silence (`Stage.noReply`). -/
theorem silent_iff_no_reply_expected (cfg : Config) (env : Env) (tbl : Table) (inp : Input) :
    (handleInput cfg env tbl inp).body = none ↔
      ∃ es, inp.entries cfg = some es ∧ ∀ e ∈ es, (stageOf env tbl e).noReply cfg = true :=
  silent_iff cfg env tbl inp

/-- For every input that is not refused as a whole: the output is the list of response objects put
on the wire (`assemble`: nothing / the object / the array), and the response objects correspond
one-to-one, in order, to the request values that are not passed over in silence; each carries the
id of its request, the error code of the first failing stage, or the handler's outcome.
Stated for EVERY permutation `rs'` of the response list (the worker pool may finish in any order):
there is a matching permutation of the requests. `ResultsOk` (nil results written as null, or no
handler returning `(nil, nil)`) is needed only for the "exactly one of result/error" part; it holds
for `junoCfg`, see `one_response_per_request`. -/
theorem one_response_per_request_any_config (cfg : Config) (env : Env) (tbl : Table) (inp : Input)
    (es : List Json) (hes : inp.entries cfg = some es) (hok : ResultsOk cfg env) :
    ∃ rs, (handleInput cfg env tbl inp).body = assemble (inp.batch? cfg).isSome rs ∧
      ∀ rs', rs.Perm rs' →
        ∃ es', (es.filter (fun e => !(stageOf env tbl e).noReply cfg)).Perm es' ∧
          Forall₂ (AnswersRequest cfg env tbl (inp.decodeFailCode cfg)) es' rs' := by
  refine ⟨_, output_assemble cfg env tbl inp es hes, ?_⟩
  intro rs' hp
  have hf := forall₂_imp (fun a b h => answersRequest_of_answers (decodeFailCode_cases cfg inp) hok h)
    (responses_forall₂ cfg env tbl inp es hes)
  exact forall₂_perm_right hf hp

/-- FULL, for the server as it is: `one_response_per_request_any_config` without side condition. -/
theorem one_response_per_request_juno (env : Env) (tbl : Table) (inp : Input)
    (es : List Json) (hes : inp.entries junoCfg = some es) :
    ∃ rs, (handleInput junoCfg env tbl inp).body = assemble (inp.batch? junoCfg).isSome rs ∧
      ∀ rs', rs.Perm rs' →
        ∃ es', (es.filter (fun e => !(stageOf env tbl e).isNotification)).Perm es' ∧
          Forall₂ (AnswersRequest junoCfg env tbl (inp.decodeFailCode junoCfg)) es' rs' := by
  have h := one_response_per_request_any_config junoCfg env tbl inp es hes (Or.inl rfl)
  have hn : ∀ s : Stage, s.noReply junoCfg = s.isNotification := by
    intro s; cases s <;> simp [Stage.noReply, Stage.isNotification, junoCfg]
  simpa only [hn] using h

/-- The invocation log is exactly: one call `(method, args)` per request value that passes every
stage (decode, isSane, lookup, binding), in request order, nothing for any other request value —
notifications included, refused inputs excluded. The real server's log is a permutation of it. -/
theorem invoked_once_same_args (cfg : Config) (env : Env) (tbl : Table) (inp : Input) :
    (handleInput cfg env tbl inp).log =
      match inp.entries cfg with
      | none => []
      | some es => es.filterMap (fun e => (stageOf env tbl e).call?) := by
  cases he : inp.entries cfg with
  | none =>
    obtain ⟨_, _, _, hout, _⟩ := handleInput_refused cfg env tbl inp he
    rw [hout]
  | some es => exact log_eq cfg env tbl inp es he

/-- Cancellation (a request deadline expiring while batch entries are still queued for a pool slot)
costs no response: whichever prefix of the batch was dispatched before the context expired, and
whatever the handlers of the remaining entries answer once they see a cancelled context
(`envLate`, any environment with the same parameter typing), the responses carry exactly the same
ids, in the same order, as without cancellation, and exactly the same handler calls are made. -/
theorem cancellation_drops_no_response (cfg : Config) (env envLate : Env) (tbl : Table)
    (early late : List Json) (h : SameBinding env envLate) :
    (batchResponsesCancelled cfg env envLate tbl early late).map (·.id) =
        (batchResponses cfg env tbl (early ++ late)).map (·.id)
    ∧ batchLogCancelled cfg env envLate tbl early late = batchLog cfg env tbl (early ++ late) := by
  obtain ⟨h1, h2⟩ := batchResponses_ids_congr h cfg tbl late
  obtain ⟨a1, a2⟩ := batchResponses_append cfg env tbl early late
  simp only [batchResponsesCancelled, batchLogCancelled, List.map_append, a1, a2, h1, h2, and_self]

end Juno.C11.Misc
