import JunoModel.C11.ModelRegister
/-! C11 — what a successful registration guarantees to the dispatcher. -/
namespace Juno.C11

/-- an accepted handler: a function whose parameters after an optional leading context are as many
as the declared parameter names, returning `(any, *Error)` or `(any, http.Header, *Error)` -/
theorem checkMethod_none (d : MethodDecl) (h : checkMethod d = none) :
    d.sig.isFunc = true ∧
    d.sig.ins.length = d.method.params.length + (if needsContext d.sig then 1 else 0) ∧
    ((∃ a, d.sig.outs = [a, .errPtr]) ∨ (∃ a, d.sig.outs = [a, .header, .errPtr])) := by
  unfold checkMethod at h
  by_cases hf : d.sig.isFunc = true
  · simp only [hf, Bool.not_true, Bool.false_eq_true, if_false] at h
    by_cases hn : nonCtxArgs d.sig ≠ d.method.params.length
    · rw [if_pos hn] at h; simp at h
    · rw [if_neg hn] at h
      by_cases ho : d.sig.outs.length < 2 ∨ d.sig.outs.length > 3
      · rw [if_pos ho] at h; simp at h
      · rw [if_neg ho] at h
        by_cases h2 : d.sig.outs.length = 2 ∧ d.sig.outs[1]? ≠ some .errPtr
        · rw [if_pos h2] at h; simp at h
        · rw [if_neg h2] at h
          by_cases h3 : d.sig.outs.length = 3 ∧ d.sig.outs[2]? ≠ some .errPtr
          · rw [if_pos h3] at h; simp at h
          · rw [if_neg h3] at h
            by_cases h4 : d.sig.outs.length = 3 ∧ d.sig.outs[1]? ≠ some .header
            · rw [if_pos h4] at h; simp at h
            · refine ⟨hf, ?_, ?_⟩
              · have hn' : nonCtxArgs d.sig = d.method.params.length := by simpa using hn
                unfold nonCtxArgs at hn'
                have : (if needsContext d.sig then 1 else 0) ≤ d.sig.ins.length := by
                  unfold needsContext
                  split
                  · rename_i heq; simp [heq]
                  · simp
                omega
              · match hout : d.sig.outs with
                | [] => simp [hout] at ho
                | [_] => simp [hout] at ho
                | [a, b] =>
                  left
                  simp [hout] at h2
                  exact ⟨a, by rw [h2]⟩
                | [a, b, c] =>
                  right
                  simp [hout] at h3 h4
                  exact ⟨a, by rw [h3, h4]⟩
                | _ :: _ :: _ :: _ :: _ => simp [hout] at ho
  · simp [hf] at h

/-- `RegisterMethods` registers exactly the methods before the first rejected one, in order, and
reports that method's error; the earlier entries of the table are kept -/
theorem registerMethods_prefix (tbl : Table) (ds : List MethodDecl) :
    ∃ ok : List MethodDecl, ok <+: ds ∧ (registerMethods tbl ds).1 = tbl ++ ok.map (·.method) ∧
      (∀ d ∈ ok, checkMethod d = none) ∧
      (match (registerMethods tbl ds).2 with
        | none => ok = ds
        | some e => ∃ bad, (ds.drop ok.length).head? = some bad ∧ checkMethod bad = some e) := by
  induction ds generalizing tbl with
  | nil => exact ⟨[], List.prefix_refl _, by simp [registerMethods], by simp, by simp [registerMethods]⟩
  | cons d rest ih =>
    unfold registerMethods
    cases hc : checkMethod d with
    | some e => exact ⟨[], List.nil_prefix, by simp, by simp, by simp [hc]⟩
    | none =>
      obtain ⟨ok, hp, ht, hall, hm⟩ := ih (tbl ++ [d.method])
      refine ⟨d :: ok, by simpa using hp, by simp [ht, List.append_assoc], ?_, ?_⟩
      · intro x hx
        simp only [List.mem_cons] at hx
        rcases hx with rfl | hx
        · exact hc
        · exact hall x hx
      · simp only
        cases hr : (registerMethods (tbl ++ [d.method]) rest).2 with
        | none => simp [hr] at hm ⊢; exact hm
        | some e => simp [hr] at hm ⊢; exact hm

end Juno.C11
