import JunoModel.C11.Model
/-
C11 — the method table is built by `Server.RegisterMethods` / `registerMethod` (`jsonrpc/server.go`,
round 4): which handler signatures are accepted, what is derived from them (`needsContext`,
`requiredParamCount`), and what a failing registration leaves behind (`RegisterMethods` stops at the
first method it rejects; the methods before it stay registered). Core Lean only.
-/
namespace Juno.C11

/-- a parameter type of the handler function, as far as `registerMethod` looks at it -/
inductive InTy where
  /-- implements `context.Context` -/
  | ctx
  | other
  deriving Repr, DecidableEq

/-- a return type of the handler function -/
inductive OutTy where
  /-- `*jsonrpc.Error` -/
  | errPtr
  /-- `http.Header` -/
  | header
  | other
  deriving Repr, DecidableEq

/-- `reflect.TypeOf(method.Handler)` -/
structure HandlerSig where
  /-- `Kind() == reflect.Func` -/
  isFunc : Bool := true
  ins : List InTy := []
  outs : List OutTy := []
  deriving Repr, DecidableEq

inductive RegErr where
  | notFunc          -- "handler must be a function"
  | paramCount       -- "number of non-context function params and param names must match"
  | returnCount      -- "handler must return 2 or 3 values"
  | secondNotError   -- "second return value must be a *jsonrpc.Error for 2 tuple handler"
  | thirdNotError    -- "third return value must be a *jsonrpc.Error for 3 tuple handler"
  | secondNotHeader  -- "second return value must be a http.Header for 3 tuple handler"
  deriving Repr, DecidableEq

/-- a method as handed to `RegisterMethods` -/
structure MethodDecl where
  method : Method
  sig : HandlerSig
  deriving Repr

/-- what `registerMethod` derives: `needsContext` -/
def needsContext (sig : HandlerSig) : Bool :=
  match sig.ins with
  | .ctx :: _ => true
  | _ => false

/-- `numArgs` after the leading context has been taken off -/
def nonCtxArgs (sig : HandlerSig) : Nat := sig.ins.length - (if needsContext sig then 1 else 0)

/-- the checks of `registerMethod`, in its order -/
def checkMethod (d : MethodDecl) : Option RegErr :=
  if !d.sig.isFunc then some .notFunc
  else
    if nonCtxArgs d.sig ≠ d.method.params.length then some .paramCount
    else
      let outSize := d.sig.outs.length
      if outSize < 2 ∨ outSize > 3 then some .returnCount
      else if outSize = 2 ∧ d.sig.outs[1]? ≠ some .errPtr then some .secondNotError
      else if outSize = 3 ∧ d.sig.outs[2]? ≠ some .errPtr then some .thirdNotError
      else if outSize = 3 ∧ d.sig.outs[1]? ≠ some .header then some .secondNotHeader
      else none

/-- `RegisterMethods(methods...)`: the table afterwards and the error of the first rejected method -/
def registerMethods (tbl : Table) : List MethodDecl → Table × Option RegErr
  | [] => (tbl, none)
  | d :: rest =>
    match checkMethod d with
    | some e => (tbl, some e)
    | none => registerMethods (tbl ++ [d.method]) rest

end Juno.C11
