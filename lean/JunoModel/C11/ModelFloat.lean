/-
C11 — what a JSON number becomes when it reaches a handler parameter of Go type `any`:
`json.Unmarshal` stores it as a float64 (`strconv.ParseFloat(text, 64)`: correctly rounded, round
half to even, ±Inf is an error), and when the value is marshalled again (`encoding/json`
`floatEncoder`) it is written with the shortest digit string that parses back to the same float64,
in `%f` form, or in `%e` form when |x| < 1e-6 or |x| ≥ 1e21 (exponent cleaned up: e-07 → e-7).

Exact integer arithmetic on naturals (no floating point is used to model floating point).
Core Lean only (linked into `c11drv`). The tie is direct: the harness sends number literals to the
driver (`f64`) and compares with Go's `json.Marshal(float64)` of `json.Unmarshal`.
-/
namespace Juno.C11.F64

/-- decimal literal: (-1)^neg · m · 10^e -/
structure Dec where
  neg : Bool
  m : Nat
  e : Int
  deriving Repr

def isDigit (c : Char) : Bool := '0' ≤ c ∧ c ≤ '9'

def digitsToNat (cs : List Char) : Nat := cs.foldl (fun a c => a * 10 + (c.toNat - 48)) 0

/-- parse a JSON number literal (the grammar is assumed; `none` on anything else) -/
def parseDec (t : String) : Option Dec :=
  let cs := t.toList
  let (neg, cs) := match cs with
    | '-' :: r => (true, r)
    | r => (false, r)
  let ip := cs.takeWhile isDigit
  let r1 := cs.dropWhile isDigit
  if ip.isEmpty then none else
  let (fp, r2) := match r1 with
    | '.' :: r => (r.takeWhile isDigit, r.dropWhile isDigit)
    | r => ([], r)
  let ex : Option Int := match r2 with
    | [] => some 0
    | c :: r =>
      if c == 'e' || c == 'E' then
        let (eneg, ds) := match r with
          | '-' :: d => (true, d)
          | '+' :: d => (false, d)
          | d => (false, d)
        if ds.isEmpty || !ds.all isDigit then none
        else
          -- exponents beyond ±100000 behave like ±100000 (far outside the float64 range)
          let v : Nat := if ds.length > 6 then 100000 else min (digitsToNat ds) 100000
          some (if eneg then -(v : Int) else (v : Int))
      else none
  match ex with
  | none => none
  | some ex => some { neg := neg, m := digitsToNat (ip ++ fp), e := ex - (fp.length : Int) }

def bitLen (n : Nat) : Nat := if n = 0 then 0 else Nat.log2 n + 1

/-- n / d rounded to the nearest natural, ties to even -/
def divRoundEven (n d : Nat) : Nat :=
  let q := n / d
  let r := n % d
  if 2 * r < d then q else if 2 * r > d then q + 1 else if q % 2 = 0 then q else q + 1

/-- a finite non-zero float64 magnitude: mant · 2^exp with mant < 2^53, exp ≥ -1074, and
mant ≥ 2^52 unless exp = -1074 -/
structure Dbl where
  mant : Nat
  exp : Int
  deriving Repr, DecidableEq

inductive R where
  | zero
  | fin (d : Dbl)
  | inf
  deriving Repr, DecidableEq

def pow2 (k : Int) : Nat := 2 ^ k.toNat

/-- the float64 nearest to n/d (n, d > 0 expected) -/
def toDouble (n d : Nat) : R :=
  if n = 0 ∨ d = 0 then .zero else
  let k : Int := (bitLen n : Int) - (bitLen d : Int)
  let ge : Bool := if k ≥ 0 then decide (n ≥ d * pow2 k) else decide (n * pow2 (-k) ≥ d)
  let lg : Int := if ge then k else k - 1
  let s : Int := max (lg - 52) (-1074)
  let mant := if s ≥ 0 then divRoundEven n (d * pow2 s) else divRoundEven (n * pow2 (-s)) d
  let ms : Nat × Int := if mant ≥ 2 ^ 53 then (mant / 2, s + 1) else (mant, s)
  if ms.1 = 0 then .zero
  else if ms.2 > 971 then .inf
  else .fin { mant := ms.1, exp := ms.2 }

/-- m · 10^e as a fraction -/
def ratOf (m : Nat) (e : Int) : Nat × Nat :=
  if e ≥ 0 then (m * 10 ^ e.toNat, 1) else (m, 10 ^ (-e).toNat)

def decToDouble (m : Nat) (e : Int) : R :=
  if m = 0 then .zero
  else
    let nd : Int := ((Nat.toDigits 10 m).length : Int)
    if e + nd > 330 then .inf
    else if e + nd < -400 then .zero
    else
      let r := ratOf m e
      toDouble r.1 r.2

/-- the exact value of a float64 as a fraction -/
def dblRat (x : Dbl) : Nat × Nat :=
  if x.exp ≥ 0 then (x.mant * pow2 x.exp, 1) else (x.mant, pow2 (-x.exp))

/-- V ≥ 10^p for V = vn/vd -/
def ge10 (vn vd : Nat) (p : Int) : Bool :=
  if p ≥ 0 then decide (vn ≥ vd * 10 ^ p.toNat) else decide (vn * 10 ^ (-p).toNat ≥ vd)

/-- the decimal exponent dp with 10^(dp-1) ≤ V < 10^dp -/
def decExp (vn vd : Nat) : Int :=
  -- estimate from the binary magnitude, then correct (the estimate is off by at most 2)
  let lg2 : Int := (bitLen vn : Int) - (bitLen vd : Int)
  let est : Int := lg2 * 30103 / 100000
  let up (p : Int) (fuel : Nat) : Int := Id.run do
    let mut p := p
    for _ in [0:fuel] do
      if ge10 vn vd p then p := p + 1
    return p
  let down (p : Int) (fuel : Nat) : Int := Id.run do
    let mut p := p
    for _ in [0:fuel] do
      if !ge10 vn vd (p - 1) then p := p - 1
    return p
  up (down (est + 1) 6) 6

/-- floor(V / 10^q) and how the remainder compares with one half: 0 below, 1 exactly, 2 above -/
def scaleDown (vn vd : Nat) (q : Int) : Nat × Nat :=
  let num := if q ≥ 0 then vn else vn * 10 ^ (-q).toNat
  let den := if q ≥ 0 then vd * 10 ^ q.toNat else vd
  let f := num / den
  let r := num % den
  (f, if 2 * r < den then 0 else if 2 * r = den then 1 else 2)

/-- shortest digits: (c, q) with the float64 nearest to c · 10^q being x, c with as few digits as
possible (Go's `roundShortest`: drop digits as soon as truncating or rounding up stays inside the
rounding interval; if both do, round to nearest, ties to even) -/
def shortest (x : Dbl) : Nat × Int :=
  let v := dblRat x
  let dp := decExp v.1 v.2
  let same (c : Nat) (q : Int) : Bool := decide (decToDouble c q = .fin x)
  let try1 (n : Nat) : Option (Nat × Int) :=
    let q : Int := dp - (n : Int)
    let (down, half) := scaleDown v.1 v.2 q
    let up := down + 1
    let okDown := down > 0 && same down q
    let okUp := same up q
    if okDown && okUp then
      some (if half = 0 then down else if half = 2 then up else if down % 2 = 0 then down else up, q)
    else if okDown then some (down, q)
    else if okUp then some (up, q)
    else none
  ((List.range 18).drop 1).foldl (fun acc n => match acc with
    | some r => some r
    | none => try1 n) none |>.getD (x.mant, x.exp)

def stripZeros (ds : List Char) : List Char := (ds.reverse.dropWhile (· == '0')).reverse

def zeros (n : Nat) : List Char := List.replicate n '0'

/-- `strconv.AppendFloat(f, fmt, -1, 64)` + the exponent clean-up of `encoding/json`, for the
magnitude c · 10^q -/
def format (x : Dbl) : String :=
  let (c, q) := shortest x
  let all := Nat.toDigits 10 c
  let ds := stripZeros all
  let n := ds.length
  -- value = 0.d1d2…dn · 10^dp
  let dp : Int := q + (all.length : Int)
  let v := dblRat x
  let small : Bool := match decToDouble 1 (-6) with
    | .fin t => let tr := dblRat t; decide (v.1 * tr.2 < tr.1 * v.2)
    | _ => false
  let big : Bool := ge10 v.1 v.2 21
  if small || big then
    let ex : Int := dp - 1
    let mantissa := match ds with
      | [] => ['0']
      | [d] => [d]
      | d :: r => d :: '.' :: r
    let exDigits := Nat.toDigits 10 ex.natAbs
    let exStr := if ex.natAbs < 10 && ex ≥ 0 then '0' :: exDigits else exDigits   -- e+0X keeps two digits, e-0X is cleaned
    String.ofList (mantissa ++ ['e', if ex < 0 then '-' else '+'] ++ exStr)
  else if dp ≤ 0 then String.ofList (['0', '.'] ++ zeros (-dp).toNat ++ ds)
  else if dp.toNat ≥ n then String.ofList (ds ++ zeros (dp.toNat - n))
  else String.ofList (ds.take dp.toNat ++ ['.'] ++ ds.drop dp.toNat)

/-- number literal → what `json.Marshal(float64)` writes; `none` = ParseFloat overflow -/
def roundTrip (t : String) : Option String :=
  match parseDec t with
  | none => none
  | some d =>
    match decToDouble d.m d.e with
    | .inf => none
    | .zero => some (if d.neg then "-0" else "0")
    | .fin x => some ((if d.neg then "-" else "") ++ format x)

end Juno.C11.F64
