/-
C11 — executable model of juno's JSON-RPC dispatcher (`jsonrpc/server.go`).

What is transcribed (function by function, names kept):
  * `Request` + the way `encoding/json` fills it from a JSON object (`decodeRequest`: case-folded
    key matching, duplicate keys, `null` handling, type errors) — server.go:40, dec.Decode(req)
  * `Request.isSane` — server.go:105
  * `Server.buildArguments` / `isNilOrEmpty` — server.go:490, 572
  * `Server.handleRequest` — server.go:505
  * `Server.HandleReader`, `handleBatchRequest`, `isBatch` — server.go:352, 403, 475
  * `response` / `Error` marshalling (`omitempty` on result/error/data) — server.go:66
Handlers, parameter types (`reflect` + `json.Unmarshal` into the handler's Go type + validator)
are parameters of the model (`Env`): theorems hold for every choice.

Bytes -> JSON value is `encoding/json`'s job: the model starts from the parsed value (`Input`).
Core Lean only (this module is linked into `c11drv`).
-/
namespace Juno.C11

/-- A JSON value as Go sees it with `UseNumber`: numbers keep their literal text, objects keep
member order and duplicate members. -/
inductive Json where
  | null
  | bool (b : Bool)
  | num (text : String)
  | str (s : String)
  | arr (xs : List Json)
  | obj (kvs : List (String × Json))
  deriving Repr, Inhabited

/-! ## Go's generic value (`any` filled by the decoder: `map[string]any`, `[]any`, …) -/

/-- Go map semantics for object members: the last duplicate wins -/
def dedupeLast : List (String × Json) → List (String × Json)
  | [] => []
  | kv :: r => if r.any (fun x => x.1 == kv.1) then dedupeLast r else kv :: dedupeLast r

/-- `json.Marshal` writes map members sorted by key (byte order = code point order) -/
def insertMember (kv : String × Json) : List (String × Json) → List (String × Json)
  | [] => [kv]
  | x :: r => if kv.1 < x.1 then kv :: x :: r else x :: insertMember kv r

def sortMembers (kvs : List (String × Json)) : List (String × Json) :=
  kvs.foldr insertMember []

mutual
/-- A JSON value stored in a Go `any` and marshalled again: objects are `map[string]any`, so
duplicate members collapse (the last wins) and `json.Marshal` writes them sorted by key.
`Request.Params`, `Request.ID` and everything below them are such values. -/
def canon : Json → Json
  | .arr xs => .arr (canonList xs)
  | .obj kvs => .obj (sortMembers (dedupeLast (canonMembers kvs)))
  | j => j
def canonList : List Json → List Json
  | [] => []
  | x :: xs => canon x :: canonList xs
def canonMembers : List (String × Json) → List (String × Json)
  | [] => []
  | (k, v) :: r => (k, canon v) :: canonMembers r
end

/-! ## Configuration: behaviours of server.go that fixes switch(ed) -/

structure Config where
  /-- `Server.disableBatchRequests` -/
  batchDisabled : Bool := false
  /-- `isBatch` peeks through a `bufio.Reader` of `bufferSize` = 128 bytes: `Peek(n)` fails for
  n > 128, so the first non-blank byte is only seen when fewer than 128 blanks precede it.
  `none` = no limit (since fix 4590891: `isBatch` consumes the blanks instead of peeking past them). -/
  peekLimit : Option Nat := none
  /-- `true` (since fix 6b06fc7): an untyped nil result is written as `"result":null`.
  `false` (pinned commit): the `omitempty` tag drops it and the response has no `result`. -/
  nullForNilResult : Bool := true
  /-- `true` (since fix 16a67e4): a request without id whose method is unknown or whose params
  do not bind gets no reply. `false` (pinned commit): it is answered with an error, id null. -/
  silentNotificationErrors : Bool := true
  /-- `true` (since fix 6442b48): a handler that panics or returns something `json.Marshal` rejects
  is answered with -32603 Internal error. `false` (before): it costs the response (see `handleInputF`). -/
  internalErrorOnHandlerFailure : Bool := true
  /-- `true` (since fix dfb1bec): an Invalid Request answer (wrong version, no method, bad params)
  echoes the request's `id` only if it is a string or a number, anything else becomes Null.
  `false` (before): the id is echoed whatever its type — also an array, an object, a boolean. -/
  legalIdEchoOnly : Bool := true
  deriving Repr, DecidableEq

/-- The server as it is in the current tree (the harness probes the real server and refuses to
run the correspondence under any other value of the two repaired switches). -/
def junoCfg : Config := {}

/-- The server at the pinned commit 0308209, before the fixes 6b06fc7 and 16a67e4 (kept for the
regression witnesses in Props.lean; also before dfb1bec, 6442b48, 4590891). -/
def pinnedCfg : Config :=
  { nullForNilResult := false, silentNotificationErrors := false, peekLimit := some 128,
    internalErrorOnHandlerFailure := false, legalIdEchoOnly := false }

/-! ## Request decoding (what `json.Decoder.Decode(*Request)` does) -/

/-- Go value of type `jsonrpc.Request`. A nil interface (`Params`, `ID`) is `none`; JSON `null`
also produces nil. -/
structure Request where
  version : String := ""
  method : String := ""
  params : Option Json := none
  id : Option Json := none
  deriving Repr, Inhabited

inductive Field where
  | version | method | params | id
  deriving Repr, DecidableEq

/-- `encoding/json` `foldRune` restricted to what can reach an ASCII letter: ASCII lower case,
U+017F (long s) and U+212A (Kelvin sign). Every other rune folds to a non-ASCII rune or itself. -/
def foldChar (c : Char) : Char :=
  if 'a' ≤ c ∧ c ≤ 'z' then Char.ofNat (c.toNat - 32)
  else if c.toNat = 0x17F then 'S'
  else if c.toNat = 0x212A then 'K'
  else c

def foldName (s : String) : List Char := s.toList.map foldChar

/-- Field of `Request` addressed by an object key: exact match first, then case-folded match
(decode.go: `fields.byExactName`, `fields.byFoldedName`). -/
def fieldOf (key : String) : Option Field :=
  if key = "jsonrpc" then some .version
  else if key = "method" then some .method
  else if key = "params" then some .params
  else if key = "id" then some .id
  else
    let f := foldName key
    if f = "JSONRPC".toList then some .version
    else if f = "METHOD".toList then some .method
    else if f = "PARAMS".toList then some .params
    else if f = "ID".toList then some .id
    else none

structure DecState where
  req : Request := {}
  /-- an `UnmarshalTypeError` was saved (decoding continues, the error is returned at the end) -/
  err : Bool := false
  deriving Repr, Inhabited

/-- Store a JSON value into a `string` field: strings are stored, `null` is a no-op, anything
else is a type error and leaves the field unchanged. -/
def storeString (old : String) (v : Json) : String × Bool :=
  match v with
  | .str s => (s, false)
  | .null => (old, false)
  | _ => (old, true)

/-- Store a JSON value into an `any` field: `null` makes the interface nil, everything else
becomes the generic Go value. -/
def storeAny (v : Json) : Option Json :=
  match v with
  | .null => none
  | v => some (canon v)

def stepField (st : DecState) (kv : String × Json) : DecState :=
  match fieldOf kv.1 with
  | none => st
  | some .version =>
    let (s, e) := storeString st.req.version kv.2
    { req := { st.req with version := s }, err := st.err || e }
  | some .method =>
    let (s, e) := storeString st.req.method kv.2
    { req := { st.req with method := s }, err := st.err || e }
  | some .params => { st with req := { st.req with params := storeAny kv.2 } }
  | some .id => { st with req := { st.req with id := storeAny kv.2 } }

/-- `dec.Decode(req)` on a syntactically valid value. `none` = Decode returned an
`UnmarshalTypeError`. `null` leaves the zero Request. -/
def decodeRequest : Json → Option Request
  | .obj kvs =>
    let st := kvs.foldl stepField {}
    if st.err then none else some st.req
  | .null => some {}
  | _ => none

/-! ## isSane -/

inductive SaneErr where
  | version | method | params | id
  deriving Repr, DecidableEq

def SaneErr.msg : SaneErr → String
  | .version => "unsupported RPC request version"
  | .method => "no method specified"
  | .params => "params should be an array or an object"
  | .id => "id should be a string or an integer"

def paramsBad : Option Json → Bool
  | none => false
  | some (.arr _) => false
  | some (.obj _) => false
  | some _ => true

/-- `json.Number` ids are rejected iff their text contains a '.'; strings are fine; every other
kind (bool, array, object) is rejected. -/
def idBad : Option Json → Bool
  | none => false
  | some (.str _) => false
  | some (.num t) => t.toList.any (· == '.')
  | some _ => true

def isSane (r : Request) : Option SaneErr :=
  if r.version ≠ "2.0" then some .version
  else if r.method = "" then some .method
  else if paramsBad r.params then some .params
  else if idBad r.id then some .id
  else none

/-! ## Method table, handlers -/

/-- Go types of handler parameters used by the harness (the meaning is given by `Env.decode`;
theorems do not depend on it). -/
inductive PType where
  | any | raw | int | str | bool | ptrInt | ints | vstruct | bounds | vslice | vmap
  deriving Repr, DecidableEq, Inhabited

structure Param where
  name : String
  optional : Bool := false
  ty : PType := .any
  deriving Repr, Inhabited

structure Method where
  name : String
  params : List Param
  deriving Repr, Inhabited

abbrev Table := List Method

/-- `*jsonrpc.Error` -/
structure RpcError where
  code : Int
  message : String
  /-- `Data any` with `omitempty`: a nil interface is dropped -/
  data : Option Json := none
  deriving Repr, Inhabited

/-- What a handler returns: `(result any, err *Error)`. `result = none` is an untyped nil. -/
structure HResult where
  result : Option Json := none
  error : Option RpcError := none
  /-- the handler panics instead of returning -/
  panics : Bool := false
  /-- `json.Marshal` of what the handler returned succeeds (false: e.g. a NaN float, an invalid
  `json.RawMessage`, a `MarshalJSON` that fails) -/
  marshals : Bool := true
  deriving Repr, Inhabited

/-- Everything the dispatcher gets from reflection and from the handlers. -/
structure Env where
  /-- `parseParam`: `json.Unmarshal` of the value into the handler's parameter type followed by
  the validator; `none` = error. The result is the argument as the handler sees it. -/
  decode : PType → Json → Option Json
  /-- `reflect.New(t).Elem()`: the zero value used for an absent optional parameter -/
  zero : PType → Json
  /-- the handler registered under a name, as a function of its arguments -/
  call : String → List Json → HResult
  /-- `buildArguments` since fix 4d3f28e: a JSON `null` argument is never decoded — for an optional
  parameter it means "not given" (zero value), for a required one the call is refused.
  `false` = before that fix: `null` goes to `parseParam` like any other value.
  (A rule of the dispatcher; it lives here because every binding function takes `env`.) -/
  nullNotGiven : Bool := true

/-- One handler invocation: method name and argument vector (without the context). -/
abbrev Call := String × List Json

/-- `s.methods[name]`: registering a name again overwrites the entry, so the last one counts -/
def lookupMethod (tbl : Table) (name : String) : Option Method :=
  tbl.reverse.find? (fun m => m.name = name)

def requiredParamCount (m : Method) : Nat := (m.params.filter (fun p => !p.optional)).length

/-! ## buildArguments -/

inductive BindErr where
  | missingRequired (names : List String)
  | count (required total got : Nat)
  | decode
  | missingNamed (name : String)
  | unexpected (keys : List String)
  | impossible
  deriving Repr

def isNilOrEmpty : Option Json → Bool
  | none => true
  | some (.arr []) => true
  | some (.obj []) => true
  | _ => false

/-- one supplied value against one parameter -/
def decodeParam (env : Env) (p : Param) (v : Json) : Option Json :=
  match env.nullNotGiven, v with
  | true, .null => if p.optional then some (env.zero p.ty) else none
  | _, v => env.decode p.ty v

/-- Positional binding: the given values are decoded in order against the parameter types, the
remaining parameters get their zero value. -/
def bindPositional (env : Env) : List Param → List Json → Except BindErr (List Json)
  | [], _ => .ok []
  | p :: ps, [] => do
    let rest ← bindPositional env ps []
    pure (env.zero p.ty :: rest)
  | p :: ps, v :: vs =>
    match decodeParam env p v with
    | none => .error .decode
    | some a => do
      let rest ← bindPositional env ps vs
      pure (a :: rest)

/-- A Go `map[string]any` built from object members: the last duplicate wins. -/
def mapGet (kvs : List (String × Json)) (k : String) : Option Json :=
  (kvs.reverse.find? (fun kv => kv.1 = k)).map (·.2)

def mapDelete (kvs : List (String × Json)) (k : String) : List (String × Json) :=
  kvs.filter (fun kv => kv.1 ≠ k)

/-- distinct keys of the map, in first-occurrence order (Go's order is random) -/
def mapKeys (kvs : List (String × Json)) : List String :=
  kvs.foldl (fun acc kv => if acc.contains kv.1 then acc else acc ++ [kv.1]) []

/-- Named binding: loop over the configured parameters, deleting found members from the map;
returns the arguments and the remaining map. -/
def bindNamed (env : Env) : List Param → List (String × Json) → Except BindErr (List Json × List (String × Json))
  | [], m => .ok ([], m)
  | p :: ps, m =>
    match mapGet m p.name with
    | some v =>
      match decodeParam env p v with
      | none => .error .decode
      | some a => do
        let (rest, m') ← bindNamed env ps (mapDelete m p.name)
        pure (a :: rest, m')
    | none =>
      if p.optional then do
        let (rest, m') ← bindNamed env ps m
        pure (env.zero p.ty :: rest, m')
      else .error (.missingNamed p.name)

def buildArguments (env : Env) (params : Option Json) (m : Method) : Except BindErr (List Json) :=
  if isNilOrEmpty params then
    let required := (m.params.filter (fun p => !p.optional)).map (·.name)
    if required ≠ [] then .error (.missingRequired required)
    else .ok (m.params.map (fun p => env.zero p.ty))
  else
    match params with
    | some (.arr xs) =>
      if xs.length < requiredParamCount m ∨ xs.length > m.params.length then
        .error (.count (requiredParamCount m) m.params.length xs.length)
      else bindPositional env m.params xs
    | some (.obj kvs) =>
      match bindNamed env m.params kvs with
      | .error e => .error e
      | .ok (args, remaining) =>
        if mapKeys remaining ≠ [] then .error (.unexpected (mapKeys remaining)) else .ok args
    | _ => .error .impossible

/-! ## Responses -/

/-- marker for `data` strings produced by `encoding/json` / the pretty printer / the validator
(not modelled; the harness accepts any value there) -/
def opaqueData : Json := .str "\x01?"

def joinComma : List String → String
  | [] => ""
  | [a] => a
  | a :: rest => a ++ ", " ++ joinComma rest

def BindErr.data : BindErr → Json
  | .missingRequired names => .str ("missing required params: " ++ joinComma names)
  | .count r t g => .str s!"expected between {r} and {t} params, got {g}"
  | .decode => opaqueData
  | .missingNamed n => .str ("missing non-optional param: " ++ n)
  | .unexpected keys => .str ("unexpected params: " ++ joinComma keys)
  | .impossible => .str "impossible param type: check request.isSane"

/-- Go `response` struct; `id = .null` is a nil interface (marshalled as `null`). -/
structure Response where
  result : Option Json := none
  error : Option RpcError := none
  id : Json := .null
  deriving Repr, Inhabited

def InvalidJSON : Int := -32700
def InvalidRequest : Int := -32600
def MethodNotFound : Int := -32601
def InvalidParams : Int := -32602
def InternalError : Int := -32603

/-- `jsonrpc.Err(code, data)` -/
def mkErr (code : Int) (data : Option Json) : RpcError :=
  if code = InvalidJSON then { code := InvalidJSON, message := "Parse error", data }
  else if code = InvalidRequest then { code := InvalidRequest, message := "Invalid Request", data }
  else if code = MethodNotFound then { code := MethodNotFound, message := "Method Not Found", data }
  else if code = InvalidParams then { code := InvalidParams, message := "Invalid Params", data }
  else { code := InternalError, message := "Internal error", data }

/-- `errResponse(code, data)`: no id -/
def errResponse (code : Int) (data : Option Json) : Response :=
  { error := some (mkErr code data) }

def RpcError.toJson (e : RpcError) : Json :=
  .obj ([("code", .num (toString e.code)), ("message", .str e.message)] ++
    (match e.data with | none => [] | some d => [("data", d)]))

/-- `json.Marshal(response)`: field order jsonrpc, result, error, id; `omitempty` on result and
error. -/
def Response.toJson (r : Response) : Json :=
  .obj ([("jsonrpc", .str "2.0")] ++
    (match r.result with | none => [] | some v => [("result", v)]) ++
    (match r.error with | none => [] | some e => [("error", e.toJson)]) ++
    [("id", r.id)])

/-! ## handleRequest -/

/-- Result of `handleRequest`: the isSane error (returned as Go `error`), or the optional
response; plus the handler invocations performed. -/
structure ReqOut where
  res : Except SaneErr (Option Response)
  log : List Call := []

def idJson (id : Option Json) : Json := id.getD .null

/-- the id an Invalid Request answer carries -/
def echoId (cfg : Config) (id : Option Json) : Json :=
  if cfg.legalIdEchoOnly then
    match id with
    | some (.str s) => .str s
    | some (.num t) => .num t
    | _ => .null
  else idJson id

def handleRequest (cfg : Config) (env : Env) (tbl : Table) (req : Request) : ReqOut :=
  match isSane req with
  | some e => { res := .error e }
  | none =>
    match lookupMethod tbl req.method with
    | none =>
      if cfg.silentNotificationErrors ∧ req.id.isNone then { res := .ok none }
      else { res := .ok (some { error := some (mkErr MethodNotFound none), id := idJson req.id }) }
    | some m =>
      match buildArguments env req.params m with
      | .error be =>
        if cfg.silentNotificationErrors ∧ req.id.isNone then { res := .ok none }
        else { res := .ok (some { error := some (mkErr InvalidParams (some be.data)), id := idJson req.id }) }
      | .ok args =>
        let out := env.call m.name args
        let log := [(m.name, args)]
        match req.id with
        | none => { res := .ok none, log }       -- notification: the handler ran, no reply
        | some id =>
          match out.error with
          | some e => { res := .ok (some { error := some e, id := id }), log }
          | none =>
            let result := match out.result with
              | some v => some v
              | none => if cfg.nullForNilResult then some .null else none
            { res := .ok (some { result, id := id }), log }

/-- What both callers of `handleRequest` do with its error: an Invalid Request response that
carries the request's id unless the id itself was the problem. -/
def finishRequest (cfg : Config) (req : Request) (o : ReqOut) : Option Response × List Call :=
  match o.res with
  | .ok r => (r, o.log)
  | .error e =>
    let r := errResponse InvalidRequest (some (.str e.msg))
    (some (if e = .id then r else { r with id := echoId cfg req.id }), o.log)

/-- One syntactically valid JSON value handled as a request. `decodeFailCode` is what a failing
`Decode(*Request)` is answered with: -32700 for a single request, -32600 inside a batch. -/
def handleEntry (cfg : Config) (env : Env) (tbl : Table) (decodeFailCode : Int) (j : Json) :
    Option Response × List Call :=
  match decodeRequest j with
  | none => (some (errResponse decodeFailCode (some opaqueData)), [])
  | some req => finishRequest cfg req (handleRequest cfg env tbl req)

/-! ## HandleReader -/

/-- The request bytes as far as the dispatcher's own logic looks at them. -/
structure Input where
  /-- number of leading bytes among space, tab, CR, LF -/
  leadWs : Nat
  /-- the first other byte exists and is '[' -/
  firstIsBracket : Bool
  /-- the first JSON value of the stream as parsed by `encoding/json`; `none` = syntax error
  (including empty input and nesting deeper than the decoder allows) -/
  parsed : Option Json
  deriving Repr, Inhabited

structure Output where
  /-- the response bytes as a JSON value; `none` = nothing is written -/
  body : Option Json
  log : List Call
  deriving Repr, Inhabited

def isBatch (cfg : Config) (inp : Input) : Bool :=
  inp.firstIsBracket && (match cfg.peekLimit with | none => true | some n => decide (inp.leadWs < n))

/-- The entries of a batch in request order: responses (notifications give none) and calls. -/
def batchEntries (cfg : Config) (env : Env) (tbl : Table) (xs : List Json) :
    List (Option Response × List Call) :=
  xs.map (handleEntry cfg env tbl InvalidRequest)

def batchResponses (cfg : Config) (env : Env) (tbl : Table) (xs : List Json) : List Response :=
  (batchEntries cfg env tbl xs).filterMap (·.1)

def batchLog (cfg : Config) (env : Env) (tbl : Table) (xs : List Json) : List Call :=
  (batchEntries cfg env tbl xs).flatMap (·.2)

/-- A batch during which the request context expires (deadline, client gone): `handleBatchRequest`
has no cancellation check in its dispatch loop, it submits EVERY entry to the pool (waiting for a
free slot if the pool is saturated) and waits for all of them. Entries dispatched before the
expiry see `env`; entries dispatched after it see `envLate`: their handlers observe a cancelled
context and may answer differently, but they are still run and answered. -/
def batchResponsesCancelled (cfg : Config) (env envLate : Env) (tbl : Table) (early late : List Json) :
    List Response :=
  batchResponses cfg env tbl early ++ batchResponses cfg envLate tbl late

def batchLogCancelled (cfg : Config) (env envLate : Env) (tbl : Table) (early late : List Json) :
    List Call :=
  batchLog cfg env tbl early ++ batchLog cfg envLate tbl late

/-- `HandleReader`. Batch entries run concurrently in the real server, so its response array and
its invocation order are some permutation of what is computed here (request order). -/
def handleInput (cfg : Config) (env : Env) (tbl : Table) (inp : Input) : Output :=
  let single (r : Response) : Output := { body := some r.toJson, log := [] }
  if !isBatch cfg inp then
    match inp.parsed with
    | none => single (errResponse InvalidJSON (some opaqueData))
    | some j =>
      let (r, log) := handleEntry cfg env tbl InvalidJSON j
      { body := r.map Response.toJson, log }
  else if !cfg.batchDisabled then
    match inp.parsed with
    | none => single (errResponse InvalidJSON (some opaqueData))
    | some (.arr []) => single (errResponse InvalidRequest (some (.str "empty batch")))
    | some (.arr xs) =>
      let rs := batchResponses cfg env tbl xs
      { body := if rs.isEmpty then none else some (.arr (rs.map Response.toJson)),
        log := batchLog cfg env tbl xs }
    | some _ => single (errResponse InvalidJSON (some opaqueData))  -- Decode(&[]RawMessage) type error
  else single (errResponse InvalidRequest (some (.str "batch requests are disabled")))

/-! ## Handlers that fail (panic, unmarshallable return value)

Everything above describes the dispatcher for handlers that return normally a value that
`json.Marshal` accepts. `handleInputF` adds what server.go does otherwise:
  * single request, unmarshallable response: `json.Marshal(resp)` fails, `HandleReader` returns
    `(nil, header, err)` — no body; HTTP answers 500 with an empty body, the WebSocket loop closes
    the connection;
  * single request, panicking handler: the panic propagates to the transport (TODO in server.go);
  * batch entry, unmarshallable response: `addResponse` logs the error and drops the entry;
  * batch entry, panicking handler: the panic is caught by the `conc` pool (and would only be
    re-raised by a `pool.Wait()` that is never called): the entry gets no response, the others do.
With `internalErrorOnHandlerFailure` (proposed fix) the request is answered -32603 instead. -/

def HResult.faulty (o : HResult) : Bool := o.panics || !o.marshals

/-- handlers as the repaired server sees them: a failure becomes an Internal error -/
def Env.sanitize (env : Env) : Env :=
  { env with call := fun n a =>
      let o := env.call n a
      if o.faulty then { error := some (mkErr InternalError (some opaqueData)) } else o }

/-- the handler outcome of a request value, if it gets as far as the handler (`none` otherwise):
whether it has an id, and what the handler did -/
def handlerOutcome (env : Env) (tbl : Table) (j : Json) : Option (Bool × HResult) :=
  match decodeRequest j with
  | none => none
  | some req =>
    match isSane req with
    | some _ => none
    | none =>
      match lookupMethod tbl req.method with
      | none => none
      | some m =>
        match buildArguments env req.params m with
        | .error _ => none
        | .ok args => some (req.id.isSome, env.call m.name args)

/-- the response of this request value is lost: its handler panics, or its response (the request
has an id) cannot be marshalled -/
def responseLost (env : Env) (tbl : Table) (j : Json) : Bool :=
  match handlerOutcome env tbl j with
  | some (hasId, o) => o.panics || (hasId && !o.marshals)
  | none => false

def entryPanics (env : Env) (tbl : Table) (j : Json) : Bool :=
  match handlerOutcome env tbl j with
  | some (_, o) => o.panics
  | none => false

structure OutputF where
  body : Option Json
  log : List Call
  /-- `HandleReader` returns a Go error instead of a response -/
  goError : Bool := false
  /-- a handler panic reaches the caller of `HandleReader` -/
  panicked : Bool := false
  deriving Repr, Inhabited

/-- `HandleReader` for arbitrary handlers. -/
def handleInputF (cfg : Config) (env : Env) (tbl : Table) (inp : Input) : OutputF :=
  if cfg.internalErrorOnHandlerFailure then
    let o := handleInput cfg env.sanitize tbl inp
    { body := o.body, log := o.log }
  else
    let o := handleInput cfg env tbl inp
    if !isBatch cfg inp then
      match inp.parsed with
      | some j =>
        if entryPanics env tbl j then { body := none, log := o.log, panicked := true }
        else if responseLost env tbl j then { body := none, log := o.log, goError := true }
        else { body := o.body, log := o.log }
      | none => { body := o.body, log := o.log }
    else if !cfg.batchDisabled then
      match inp.parsed with
      | some (.arr (x :: xs)) =>
        let kept := (x :: xs).filter (fun e => !responseLost env tbl e)
        let rs := batchResponses cfg env tbl kept
        { body := if rs.isEmpty then none else some (.arr (rs.map Response.toJson)), log := o.log }
      | _ => { body := o.body, log := o.log }
    else { body := o.body, log := o.log }

end Juno.C11
