import JunoModel.C11.Model
/-
C11 (round 6) — the server AFTER the proposed repair `proposed-fixes/C11-null-id-is-a-request.diff` of the known
finding `request-with-null-id-not-answered`: `Request.ID` is pre-set to a sentinel before `Decode`, so that an explicit
`"id": null` (the decoder stores nil) is told from a missing id member (the sentinel survives); a request with
`"id": null` is then handled like any request and answered with id null.

The model of the repaired server is the model of the present one around two maps: `mark` gives every request value
whose deciding id member (Go: the LAST member whose name folds to `id`) is `null` a fresh string id instead
(appended, so it decides), `unmark` turns that id back into `null` in the responses. Nothing else of the dispatch
looks at the id (handlers never see it). The harness probes which server it has and switches the driver
(`nullfix 0|1`); `junoCfg` / the theorems speak about the present code. Core Lean only.
-/
namespace Juno.C11.NullId

/-- an id no client sends (starts with U+0000) -/
def placeholder : String := "\u0000verif-explicit-null-id"

/-- the value of the member that decides `Request.ID`: the last one whose name folds to `id` -/
def decidingId (kvs : List (String × Json)) : Option Json :=
  ((kvs.filter (fun kv => fieldOf kv.1 == some .id)).getLast?).map (·.2)

def isNull : Option Json → Bool
  | some .null => true
  | _ => false

def isPlaceholder : Json → Bool
  | .str s => s == placeholder
  | _ => false

def mark : Json → Json
  | .obj kvs => if isNull (decidingId kvs) then .obj (kvs ++ [("id", .str placeholder)]) else .obj kvs
  | j => j

/-- the request values of an input: the single value, or the entries of a batch -/
def markInput (inp : Input) : Input :=
  match inp.parsed with
  | none => inp
  | some j =>
    if inp.firstIsBracket then
      match j with
      | .arr xs => { inp with parsed := some (.arr (xs.map mark)) }
      | _ => inp
    else { inp with parsed := some (mark j) }

mutual
  def unmark : Json → Json
    | .obj kvs => .obj (unmarkMembers kvs)
    | .arr xs => .arr (unmarkList xs)
    | j => j
  def unmarkMembers : List (String × Json) → List (String × Json)
    | [] => []
    | (k, v) :: r =>
      (if k == "id" && isPlaceholder v then (k, Json.null) else (k, unmark v)) :: unmarkMembers r
  def unmarkList : List Json → List Json
    | [] => []
    | x :: r => unmark x :: unmarkList r
end

/-- the repaired server on one input -/
def handleInputFixed (cfg : Config) (env : Env) (tbl : Table) (inp : Input) : Output :=
  let o := handleInput cfg env tbl (markInput inp)
  { o with body := o.body.map unmark }

end Juno.C11.NullId
