import JunoModel.C11.ModelGate
/-! C11 — invariants of the admission gate (`jsonrpc/gate.go`), by induction over the operations. -/
namespace Juno.C11.Gate

/-- slots never exceed the capacity; `activeRequests` counts exactly the holders of a slot plus the
goroutines blocked in `Acquire`; it never exceeds `maxRequests`; nobody waits while a slot is free -/
def St.Inv (s : St) : Prop :=
  s.sem ≤ s.maxConcurrent ∧ s.active = s.sem + s.waiting ∧ s.active ≤ s.maxRequests ∧
    (0 < s.waiting → s.sem = s.maxConcurrent)

theorem inv_new (c q : Nat) : (St.new c q).Inv := by
  simp [St.new, St.Inv]

theorem step_params (s : St) (o : Op) :
    (s.step o).1.maxConcurrent = s.maxConcurrent ∧ (s.step o).1.maxRequests = s.maxRequests := by
  cases o with
  | acquire d => cases d <;> simp only [St.step] <;> (repeat' split) <;> simp
  | release => simp only [St.step]; (repeat' split) <;> simp
  | waiterCtxDone => simp only [St.step]; (repeat' split) <;> simp

theorem step_inv (s : St) (o : Op) (h : s.Inv) : (s.step o).1.Inv := by
  obtain ⟨h1, h2, h3, h4⟩ := h
  cases o with
  | acquire d =>
    cases d
    · simp only [St.step]
      split
      · exact ⟨h1, h2, h3, h4⟩
      · split
        · refine ⟨?_, ?_, ?_, ?_⟩ <;> simp only <;> omega
        · refine ⟨?_, ?_, ?_, ?_⟩ <;> simp only <;> omega
    · exact ⟨h1, h2, h3, h4⟩
  | release =>
    simp only [St.step]
    split
    · exact ⟨h1, h2, h3, h4⟩
    · split
      · refine ⟨?_, ?_, ?_, ?_⟩ <;> simp only <;> omega
      · refine ⟨?_, ?_, ?_, ?_⟩ <;> simp only <;> omega
  | waiterCtxDone =>
    simp only [St.step]
    split
    · exact ⟨h1, h2, h3, h4⟩
    · refine ⟨?_, ?_, ?_, ?_⟩ <;> simp only <;> omega

theorem run_inv (s : St) (ops : List Op) (h : s.Inv) : (s.run ops).Inv := by
  induction ops generalizing s with
  | nil => exact h
  | cons o r ih => exact ih _ (step_inv s o h)

theorem run_params (s : St) (ops : List Op) :
    (s.run ops).maxConcurrent = s.maxConcurrent ∧ (s.run ops).maxRequests = s.maxRequests := by
  induction ops generalizing s with
  | nil => exact ⟨rfl, rfl⟩
  | cons o r ih =>
    have := ih (s.step o).1
    have hp := step_params s o
    simp only [St.run, List.foldl_cons] at this ⊢
    exact ⟨this.1.trans hp.1, this.2.trans hp.2⟩

/-- a gate nobody holds and nobody waits at has forgotten every earlier request: the next live
`Acquire` is admitted -/
theorem quiescent_admits (s : St) (h : s.Inv) (hs : s.sem = 0) (hw : s.waiting = 0)
    (hc : 1 ≤ s.maxConcurrent) (hm : 1 ≤ s.maxRequests) :
    s.active = 0 ∧ (s.step (.acquire false)).2 = .admitted := by
  obtain ⟨_, h2, _, _⟩ := h
  have ha : s.active = 0 := by omega
  refine ⟨ha, ?_⟩
  simp only [St.step]
  have : ¬ (s.active + 1 > s.maxRequests) := by omega
  simp only [this, if_false]
  have : s.sem < s.maxConcurrent := by omega
  simp [this]

/-- `ErrServerBusy` exactly when processing + queued requests have reached `maxRequests` -/
theorem busy_iff_full (s : St) (h : s.Inv) :
    (s.step (.acquire false)).2 = .busy ↔ s.active = s.maxRequests := by
  obtain ⟨_, _, h3, _⟩ := h
  simp only [St.step]
  constructor
  · intro hb
    split at hb
    · omega
    · split at hb <;> simp at hb
  · intro he
    have : s.active + 1 > s.maxRequests := by omega
    simp [this]

/-- a live `Acquire` is admitted at once exactly when a slot is free (and the gate is not full) -/
theorem admitted_iff_free_slot (s : St) :
    (s.step (.acquire false)).2 = .admitted ↔ s.sem < s.maxConcurrent ∧ s.active < s.maxRequests := by
  simp only [St.step]
  constructor
  · intro ha
    split at ha
    · simp at ha
    · split at ha
      · omega
      · simp at ha
  · intro ⟨h1, h2⟩
    have : ¬ (s.active + 1 > s.maxRequests) := by omega
    simp [this, h1]

/-- `NewGate`: the sum of the two limits, saturated at `math.MaxUint64` instead of wrapping -/
theorem newMax_spec (c q : Nat) (hc : c < two64) (hq : q < two64) :
    newMax c q = min (c + q) (two64 - 1) := by
  unfold newMax
  simp only [two64] at *
  by_cases h : q + c < 18446744073709551616
  · have hm : (q + c) % 18446744073709551616 = q + c := Nat.mod_eq_of_lt h
    simp only [hm]
    split <;> omega
  · have hm : (q + c) % 18446744073709551616 = q + c - 18446744073709551616 := by
      rw [Nat.mod_eq_sub_mod (by omega), Nat.mod_eq_of_lt (by omega)]
    simp only [hm]
    split <;> omega

end Juno.C11.Gate

namespace Juno.C11
open Gate

/-- A request that finds a free slot and room (whatever else is in flight: the state is any state with the gate's
invariant) and leaves again restores the gate exactly: `Acquire; Release` is the identity on the counters. -/
theorem acquire_release_restores (s : St) (h : s.Inv) (hfree : s.sem < s.maxConcurrent)
    (hroom : s.active < s.maxRequests) :
    s.run [.acquire false, .release] = s ∧ (s.step (.acquire false)).2 = .admitted := by
  obtain ⟨h1, h2, h3, h4⟩ := h
  have hw : s.waiting = 0 := by
    rcases Nat.eq_zero_or_pos s.waiting with h0 | hp
    · exact h0
    · have := h4 hp; omega
  have hnf : ¬ (s.active + 1 > s.maxRequests) := by omega
  refine ⟨?_, ?_⟩
  · cases s with
    | mk mc mr a se rj w =>
      simp only at hfree hroom hw hnf h2
      subst hw
      simp [St.run, St.step, hnf, hfree]
  · simp [St.step, hnf, hfree]

theorem postGateOps_restores (s : St) (h : s.Inv) (hfree : s.sem < s.maxConcurrent)
    (hroom : s.active < s.maxRequests) (live : Bool) (e : PostExit) : s.run (postGateOps live e) = s := by
  cases live
  · simp [postGateOps, St.run, St.step]
  · simpa [postGateOps] using (acquire_release_restores s h hfree hroom).1

theorem posts_flatMap_restores (s : St) (h : s.Inv) (hfree : s.sem < s.maxConcurrent)
    (hroom : s.active < s.maxRequests) (xs : List (Bool × PostExit)) :
    s.run (xs.flatMap (fun x => postGateOps x.1 x.2)) = s := by
  induction xs with
  | nil => rfl
  | cons x r ih =>
    have hx := postGateOps_restores s h hfree hroom x.1 x.2
    simp only [List.flatMap_cons, St.run, List.foldl_append] at hx ⊢
    rw [hx]
    exact ih

/-- the observable trace of a sequence of POSTs that are alone at the gate: every live one is admitted, every
dead one gets its `ctx.Err()`, and the counters after each are the counters before the first -/
theorem posts_trace (s : St) (h : s.Inv) (hfree : s.sem < s.maxConcurrent)
    (hroom : s.active < s.maxRequests) (xs : List (Bool × PostExit)) :
    s.posts xs = xs.map (fun x => (if x.1 then Outcome.admitted else Outcome.ctxErr, s.sem, s.queued, s.rejected)) := by
  induction xs with
  | nil => rfl
  | cons x r ih =>
    obtain ⟨live, e⟩ := x
    have hx := postGateOps_restores s h hfree hroom live e
    simp only [St.posts, hx, ih, List.map_cons, List.cons.injEq, and_true, Prod.mk.injEq]
    cases live
    · simp [postGateOps, St.step]
    · simpa [postGateOps] using (acquire_release_restores s h hfree hroom).2

theorem newMax_pos (c q : Nat) (hc : 1 ≤ c) (hc' : c < two64) (hq : q < two64) : 1 ≤ newMax c q := by
  rw [newMax_spec c q hc' hq]
  simp only [two64]
  omega

end Juno.C11
