import JunoModel.C11.Model
/-
C11 — `handleBatchRequest` step by step: the dispatch loop, the bounded worker pool, the workers
appending responses under the mutex in the order they finish, and the request context expiring at
any moment. `Model.lean` computes the batch in request order; this small-step model is what gives
"for every schedule and every deadline" a meaning. Core Lean only.
-/
namespace Juno.C11

structure BatchSt where
  /-- entries the dispatch loop has not looked at yet -/
  todo : List Json
  /-- entries handed to the pool (`s.pool.Go`) whose worker has not finished -/
  running : List Json
  /-- `responses`, in the order `addResponse` was called -/
  done : List Response
  /-- handler invocations, in the order they happened -/
  log : List Call
  /-- `ctx.Err() != nil` (deadline, client gone) -/
  expired : Bool

def BatchSt.init (es : List Json) : BatchSt :=
  { todo := es, running := [], done := [], log := [], expired := false }

def BatchSt.final (s : BatchSt) : Prop := s.todo = [] ∧ s.running = []

/-- One step of `handleBatchRequest` with a pool of `pool` workers. Handlers that run after the
context expired see `envLate` (they observe a cancelled context and may answer differently). -/
inductive BatchStep (cfg : Config) (env envLate : Env) (tbl : Table) (pool : Nat) : BatchSt → BatchSt → Prop
  /-- an entry `Decode(*Request)` rejects is answered synchronously by the loop itself -/
  | undecodable (s : BatchSt) (x : Json) (rest : List Json) (h : s.todo = x :: rest)
      (hd : decodeRequest x = none) :
      BatchStep cfg env envLate tbl pool s
        { s with todo := rest, done := s.done ++ (handleEntry cfg env tbl InvalidRequest x).1.toList }
  /-- a decodable entry is submitted to the pool as soon as a worker is free — whether or not the
  context has expired (there is no cancellation check in the loop) -/
  | dispatch (s : BatchSt) (x : Json) (rest : List Json) (h : s.todo = x :: rest)
      (hd : decodeRequest x ≠ none) (hfree : s.running.length < pool) :
      BatchStep cfg env envLate tbl pool s { s with todo := rest, running := s.running ++ [x] }
  /-- some worker finishes: its response (if any) is appended, its handler call recorded -/
  | finish (s : BatchSt) (a : List Json) (x : Json) (b : List Json) (h : s.running = a ++ x :: b) :
      BatchStep cfg env envLate tbl pool s
        { s with running := a ++ b,
                 done := s.done ++ (handleEntry cfg (if s.expired then envLate else env) tbl InvalidRequest x).1.toList,
                 log := s.log ++ (handleEntry cfg (if s.expired then envLate else env) tbl InvalidRequest x).2 }
  /-- the request context expires -/
  | expire (s : BatchSt) : BatchStep cfg env envLate tbl pool s { s with expired := true }

/-- the states `handleBatchRequest` can be in for the batch `es` -/
inductive BatchReach (cfg : Config) (env envLate : Env) (tbl : Table) (pool : Nat) (es : List Json) : BatchSt → Prop
  | init : BatchReach cfg env envLate tbl pool es (BatchSt.init es)
  | step {s t : BatchSt} : BatchReach cfg env envLate tbl pool es s → BatchStep cfg env envLate tbl pool s t →
      BatchReach cfg env envLate tbl pool es t

end Juno.C11
