import JunoModel.C11.Model
import JunoModel.C11.ModelSpec
import JunoModel.C11.ModelGo
import JunoModel.C11.ModelTransport
/-! C11 — helper lemmas for Props.lean. -/
namespace Juno.C11

/-- the answer and the invocations of a request value, as a function of its stage -/
def entrySpec (cfg : Config) (env : Env) (c : Int) : Stage → Option Response × List Call
  | .undecodable => (some (errResponse c (some opaqueData)), [])
  | .insane e req =>
    (some { error := some (mkErr InvalidRequest (some (.str e.msg))),
            id := if e = .id then .null else echoId cfg req.id }, [])
  | .unknownMethod req =>
    (if cfg.silentNotificationErrors ∧ req.id.isNone then none
     else some { error := some (mkErr MethodNotFound none), id := idJson req.id }, [])
  | .badParams req _ e =>
    (if cfg.silentNotificationErrors ∧ req.id.isNone then none
     else some { error := some (mkErr InvalidParams (some e.data)), id := idJson req.id }, [])
  | .run req m args =>
    (req.id.map (handlerResponse cfg (env.call m.name args)), [(m.name, args)])

theorem handleEntry_eq (cfg : Config) (env : Env) (tbl : Table) (c : Int) (j : Json) :
    handleEntry cfg env tbl c j = entrySpec cfg env c (stageOf env tbl j) := by
  unfold handleEntry stageOf
  cases hd : decodeRequest j with
  | none => simp [entrySpec]
  | some req =>
    simp only
    unfold handleRequest
    cases hs : isSane req with
    | some e =>
      simp only [finishRequest, entrySpec, errResponse]
      by_cases he : e = .id <;> simp [he]
    | none =>
      simp only
      cases hl : lookupMethod tbl req.method with
      | none =>
        simp only [entrySpec, Option.isNone_iff_eq_none]
        by_cases h : cfg.silentNotificationErrors = true ∧ req.id = none <;> simp [h, finishRequest]
      | some m =>
        simp only
        cases hb : buildArguments env req.params m with
        | error e =>
          simp only [entrySpec, Option.isNone_iff_eq_none]
          by_cases h : cfg.silentNotificationErrors = true ∧ req.id = none <;> simp [h, finishRequest]
        | ok args =>
          simp only [entrySpec]
          cases hid : req.id with
          | none => simp [finishRequest]
          | some id =>
            simp only [Option.map, handlerResponse]
            cases he : (env.call m.name args).error <;> simp [finishRequest]
            cases (env.call m.name args).result <;> rfl

/-! ### marshalled shape of responses -/

theorem toJson_error (e : RpcError) (i : Json) :
    ({ error := some e, id := i } : Response).toJson =
      .obj [("jsonrpc", .str "2.0"), ("error", e.toJson), ("id", i)] := by
  simp [Response.toJson]

theorem toJson_result (v : Json) (i : Json) :
    ({ result := some v, id := i } : Response).toJson =
      .obj [("jsonrpc", .str "2.0"), ("result", v), ("id", i)] := by
  simp [Response.toJson]

theorem mkErr_code (code : Int) (d : Option Json)
    (h : code = -32700 ∨ code = -32600 ∨ code = -32601 ∨ code = -32602) :
    ∃ msg, mkErr code d = { code := code, message := msg, data := d } := by
  rcases h with h | h | h | h <;> subst h <;> simp [mkErr, InvalidJSON, InvalidRequest, MethodNotFound, InvalidParams]

theorem errResponse_isError (code : Int) (d : Option Json)
    (h : code = -32700 ∨ code = -32600 ∨ code = -32601 ∨ code = -32602) :
    IsErrorResponse code .null (errResponse code d).toJson := by
  obtain ⟨msg, hm⟩ := mkErr_code code d h
  refine ⟨msg, d, ?_⟩
  simp [errResponse, hm, Response.toJson]

theorem IsErrorResponse.isResponse {code : Int} {id j : Json} (h : IsErrorResponse code id j) :
    IsResponse id j := by
  obtain ⟨msg, data, rfl⟩ := h
  exact IsResponse.error _

/-- the handler's outcome is a well-formed response unless it returned `(nil, nil)` and the
server drops nil results -/
theorem handlerResponse_wellformed (cfg : Config) (out : HResult) (id : Json)
    (h : cfg.nullForNilResult = true ∨ out.result.isSome = true ∨ out.error.isSome = true) :
    IsResponse id (handlerResponse cfg out id).toJson := by
  unfold handlerResponse
  cases he : out.error with
  | some e => simp only [toJson_error]; exact IsResponse.error e
  | none =>
    cases hr : out.result with
    | some v => simp only [toJson_result]; exact IsResponse.result v
    | none =>
      rcases h with h | h | h
      · simp only [h, if_true, toJson_result]; exact IsResponse.result _
      · simp [hr] at h
      · simp [he] at h

theorem isResponse_members {id : Json} {kvs : List (String × Json)} (h : IsResponse id (.obj kvs)) :
    kvs.length = 3 := by
  cases h <;> rfl

/-! ### properties of `entrySpec` -/

theorem entrySpec_noReply (cfg : Config) (env : Env) (c : Int) (s : Stage) :
    (entrySpec cfg env c s).1 = none ↔ s.noReply cfg = true := by
  cases s with
  | undecodable => simp [entrySpec, Stage.noReply]
  | insane e req => simp [entrySpec, Stage.noReply]
  | unknownMethod req =>
    simp only [entrySpec, Stage.noReply, Option.isNone_iff_eq_none, Bool.and_eq_true]
    by_cases h : cfg.silentNotificationErrors = true ∧ req.id = none <;> simp [h]
  | badParams req m e =>
    simp only [entrySpec, Stage.noReply, Option.isNone_iff_eq_none, Bool.and_eq_true]
    by_cases h : cfg.silentNotificationErrors = true ∧ req.id = none <;> simp [h]
  | run req m args =>
    simp only [entrySpec, Stage.noReply]
    cases req.id <;> simp

theorem entrySpec_log (cfg : Config) (env : Env) (c : Int) (s : Stage) :
    (entrySpec cfg env c s).2 = s.call?.toList := by
  cases s <;> simp [entrySpec, Stage.call?]

/-- the id of a response is the id of the request value it answers -/
theorem entrySpec_id (cfg : Config) (env : Env) (c : Int) (s : Stage) (r : Response)
    (h : (entrySpec cfg env c s).1 = some r) : r.id = s.id cfg := by
  cases s with
  | undecodable => simp [entrySpec, errResponse] at h; subst h; rfl
  | insane e req => simp [entrySpec] at h; subst h; rfl
  | unknownMethod req =>
    simp only [entrySpec] at h
    split at h <;> simp at h
    subst h; rfl
  | badParams req m e =>
    simp only [entrySpec] at h
    split at h <;> simp at h
    subst h; rfl
  | run req m args =>
    simp only [entrySpec] at h
    cases hid : req.id with
    | none => simp [hid] at h
    | some id =>
      simp [hid] at h
      subst h
      simp only [Stage.id, hid, idJson, Option.getD]
      unfold handlerResponse
      cases (env.call m.name args).error <;> rfl

theorem entrySpec_wellformed (cfg : Config) (env : Env) (c : Int) (s : Stage) (r : Response)
    (hc : c = -32700 ∨ c = -32600) (hok : ResultsOk cfg env)
    (h : (entrySpec cfg env c s).1 = some r) : IsResponse (s.id cfg) r.toJson := by
  cases s with
  | undecodable =>
    simp [entrySpec] at h; subst h
    exact (errResponse_isError c _ (by rcases hc with h | h <;> simp [h])).isResponse
  | insane e req =>
    simp [entrySpec] at h; subst h
    simp only [toJson_error]; exact IsResponse.error _
  | unknownMethod req =>
    simp only [entrySpec] at h
    split at h <;> simp at h
    subst h; simp only [toJson_error]; exact IsResponse.error _
  | badParams req m e =>
    simp only [entrySpec] at h
    split at h <;> simp at h
    subst h; simp only [toJson_error]; exact IsResponse.error _
  | run req m args =>
    simp only [entrySpec] at h
    cases hid : req.id with
    | none => simp [hid] at h
    | some id =>
      simp [hid] at h
      subst h
      simp only [Stage.id, hid, idJson, Option.getD]
      apply handlerResponse_wellformed
      rcases hok with h | h
      · exact Or.inl h
      · exact Or.inr (h m.name args)

/-- the error code is the one of the first failing stage -/
theorem entrySpec_code (cfg : Config) (env : Env) (c : Int) (s : Stage) (r : Response) (code : Int)
    (hc : c = -32700 ∨ c = -32600)
    (hcode : s.errorCode? c = some code)
    (h : (entrySpec cfg env c s).1 = some r) : IsErrorResponse code (s.id cfg) r.toJson := by
  cases s with
  | undecodable =>
    simp [entrySpec] at h; subst h
    simp [Stage.errorCode?] at hcode; subst hcode
    exact errResponse_isError c _ (by rcases hc with h | h <;> simp [h])
  | insane e req =>
    simp [entrySpec] at h; subst h
    simp [Stage.errorCode?] at hcode; subst hcode
    obtain ⟨msg, hm⟩ := mkErr_code (-32600) (some (.str e.msg)) (by simp)
    refine ⟨msg, some (.str e.msg), ?_⟩
    simp only [toJson_error, Stage.id]
    rw [show InvalidRequest = (-32600 : Int) from rfl, hm]
  | unknownMethod req =>
    simp only [entrySpec] at h
    split at h <;> simp at h
    subst h
    simp [Stage.errorCode?] at hcode; subst hcode
    obtain ⟨msg, hm⟩ := mkErr_code (-32601) none (by simp)
    refine ⟨msg, none, ?_⟩
    simp only [toJson_error, Stage.id]
    rw [show MethodNotFound = (-32601 : Int) from rfl, hm]
  | badParams req m e =>
    simp only [entrySpec] at h
    split at h <;> simp at h
    subst h
    simp [Stage.errorCode?] at hcode; subst hcode
    obtain ⟨msg, hm⟩ := mkErr_code (-32602) (some e.data) (by simp)
    refine ⟨msg, some e.data, ?_⟩
    simp only [toJson_error, Stage.id]
    rw [show InvalidParams = (-32602 : Int) from rfl, hm]
  | run req m args => simp [Stage.errorCode?] at hcode

/-! ### list lemmas -/

theorem forall₂_filter_filterMap {α β : Type} (f : α → Option β) (l : List α) :
    Forall₂ (fun a b => f a = some b) (l.filter (fun a => (f a).isSome)) (l.filterMap f) := by
  induction l with
  | nil => exact Forall₂.nil
  | cons a l ih =>
    cases h : f a with
    | none => simpa [List.filter, List.filterMap, h] using ih
    | some b =>
      simp only [List.filter, List.filterMap, h, Option.isSome_some]
      exact Forall₂.cons h ih

theorem forall₂_map_right {α β γ : Type} {R : α → β → Prop} (g : β → γ) {l1 : List α} {l2 : List β}
    (h : Forall₂ R l1 l2) : Forall₂ (fun a c => ∃ b, R a b ∧ c = g b) l1 (l2.map g) := by
  induction h with
  | nil => exact Forall₂.nil
  | cons hab _ ih => exact Forall₂.cons ⟨_, hab, rfl⟩ ih

theorem forall₂_imp {α β : Type} {R S : α → β → Prop} (hRS : ∀ a b, R a b → S a b)
    {l1 : List α} {l2 : List β} (h : Forall₂ R l1 l2) : Forall₂ S l1 l2 := by
  induction h with
  | nil => exact Forall₂.nil
  | cons hab _ ih => exact Forall₂.cons (hRS _ _ hab) ih

theorem filterMap_eq_flatMap_toList {α β : Type} (f : α → Option β) (l : List α) :
    l.filterMap f = l.flatMap (fun a => (f a).toList) := by
  induction l with
  | nil => rfl
  | cons a l ih => cases h : f a <;> simp [List.filterMap, h, ih]

/-- the order in which a worker pool finishes is a permutation: a pairing survives it -/
theorem forall₂_perm_right {α β : Type} {R : α → β → Prop} {l1 : List α} {l2 l2' : List β}
    (h : Forall₂ R l1 l2) (hp : l2.Perm l2') :
    ∃ l1', l1.Perm l1' ∧ Forall₂ R l1' l2' := by
  induction hp generalizing l1 with
  | nil => exact ⟨l1, List.Perm.refl _, h⟩
  | cons x _ ih =>
    cases h with
    | cons hab ht =>
      obtain ⟨l1', hp', hf'⟩ := ih ht
      exact ⟨_ :: l1', List.Perm.cons _ hp', Forall₂.cons hab hf'⟩
  | swap x y l =>
    cases h with
    | cons hab ht =>
      cases ht with
      | cons hab' ht' =>
        exact ⟨_, List.Perm.swap _ _ _, Forall₂.cons hab' (Forall₂.cons hab ht')⟩
  | trans _ _ ih1 ih2 =>
    obtain ⟨m1, hp1, hf1⟩ := ih1 h
    obtain ⟨m2, hp2, hf2⟩ := ih2 hf1
    exact ⟨m2, hp1.trans hp2, hf2⟩

/-! ### HandleReader -/

theorem batch?_some {cfg : Config} {inp : Input} {xs : List Json} (h : inp.batch? cfg = some xs) :
    isBatch cfg inp = true ∧ cfg.batchDisabled = false ∧ inp.parsed = some (.arr xs) ∧ xs ≠ [] := by
  unfold Input.batch? at h
  split at h
  · rename_i hc
    simp only [Bool.and_eq_true, Bool.not_eq_true'] at hc
    split at h
    · rename_i x xs' hp
      simp at h; subst h
      exact ⟨hc.1, hc.2, hp, by simp⟩
    · simp at h
  · simp at h

theorem handleInput_batch (cfg : Config) (env : Env) (tbl : Table) (inp : Input) (xs : List Json)
    (h : inp.batch? cfg = some xs) :
    handleInput cfg env tbl inp =
      { body := if (batchResponses cfg env tbl xs).isEmpty then none
                else some (.arr ((batchResponses cfg env tbl xs).map Response.toJson)),
        log := batchLog cfg env tbl xs } := by
  obtain ⟨hb, hd, hp, hne⟩ := batch?_some h
  cases xs with
  | nil => exact absurd rfl hne
  | cons x xs => simp [handleInput, hb, hd, hp]

theorem handleInput_single (cfg : Config) (env : Env) (tbl : Table) (inp : Input) (j : Json)
    (h : inp.single? cfg = some j) :
    handleInput cfg env tbl inp =
      { body := (handleEntry cfg env tbl InvalidJSON j).1.map Response.toJson,
        log := (handleEntry cfg env tbl InvalidJSON j).2 } := by
  unfold Input.single? at h
  split at h
  · simp at h
  · rename_i hb
    simp only [Bool.not_eq_true] at hb
    simp [handleInput, hb, h]

theorem entries_none {cfg : Config} {inp : Input} (h : inp.entries cfg = none) :
    inp.batch? cfg = none ∧ inp.single? cfg = none := by
  unfold Input.entries at h
  cases hb : inp.batch? cfg with
  | some xs => simp [hb] at h
  | none =>
    simp [hb] at h
    exact ⟨rfl, h⟩

/-- an input that is refused as a whole gets one error object with id null and code -32700
(not JSON / not a request list) or -32600 (empty batch, batches disabled); no handler runs -/
theorem handleInput_refused (cfg : Config) (env : Env) (tbl : Table) (inp : Input)
    (h : inp.entries cfg = none) :
    ∃ code j, (code = -32700 ∨ code = -32600) ∧
      handleInput cfg env tbl inp = { body := some j, log := [] } ∧ IsErrorResponse code .null j := by
  obtain ⟨hb, hs⟩ := entries_none h
  have e700 : ∀ d, IsErrorResponse (-32700) .null (errResponse InvalidJSON d).toJson :=
    fun d => errResponse_isError (-32700) d (by simp)
  have e600 : ∀ d, IsErrorResponse (-32600) .null (errResponse InvalidRequest d).toJson :=
    fun d => errResponse_isError (-32600) d (by simp)
  unfold Input.single? at hs
  unfold Input.batch? at hb
  cases hB : isBatch cfg inp with
  | false =>
    simp [hB] at hs
    exact ⟨-32700, _, Or.inl rfl, by simp [handleInput, hB, hs], e700 (some opaqueData)⟩
  | true =>
    cases hD : cfg.batchDisabled with
    | true => exact ⟨-32600, _, Or.inr rfl, by simp [handleInput, hB, hD], e600 (some (.str "batch requests are disabled"))⟩
    | false =>
      simp [hB, hD] at hb
      cases hp : inp.parsed with
      | none => exact ⟨-32700, _, Or.inl rfl, by simp [handleInput, hB, hD, hp], e700 (some opaqueData)⟩
      | some v =>
        cases v with
        | arr ys =>
          cases ys with
          | nil => exact ⟨-32600, _, Or.inr rfl, by simp [handleInput, hB, hD, hp], e600 (some (.str "empty batch"))⟩
          | cons y ys => simp [hp] at hb
        | null => exact ⟨-32700, _, Or.inl rfl, by simp [handleInput, hB, hD, hp], e700 (some opaqueData)⟩
        | bool b => exact ⟨-32700, _, Or.inl rfl, by simp [handleInput, hB, hD, hp], e700 (some opaqueData)⟩
        | num t => exact ⟨-32700, _, Or.inl rfl, by simp [handleInput, hB, hD, hp], e700 (some opaqueData)⟩
        | str t => exact ⟨-32700, _, Or.inl rfl, by simp [handleInput, hB, hD, hp], e700 (some opaqueData)⟩
        | obj kvs => exact ⟨-32700, _, Or.inl rfl, by simp [handleInput, hB, hD, hp], e700 (some opaqueData)⟩

/-- `r` is the marshalled answer of the server to request value `e` -/
def Answers (cfg : Config) (env : Env) (tbl : Table) (c : Int) (e : Json) (r : Json) : Prop :=
  ∃ resp, (entrySpec cfg env c (stageOf env tbl e)).1 = some resp ∧ r = resp.toJson

theorem entries_cases {cfg : Config} {inp : Input} {es : List Json} (h : inp.entries cfg = some es) :
    (inp.batch? cfg = some es) ∨ (inp.batch? cfg = none ∧ ∃ j, inp.single? cfg = some j ∧ es = [j]) := by
  unfold Input.entries at h
  cases hb : inp.batch? cfg with
  | some xs => simp [hb] at h; exact Or.inl (by rw [h])
  | none =>
    simp [hb] at h
    obtain ⟨j, hj, rfl⟩ := h
    exact Or.inr ⟨rfl, j, hj, rfl⟩

/-- the pairing of requests that expect a reply with the response objects, in request order -/
theorem responses_forall₂ (cfg : Config) (env : Env) (tbl : Table) (inp : Input) (es : List Json)
    (h : inp.entries cfg = some es) :
    Forall₂ (Answers cfg env tbl (inp.decodeFailCode cfg))
      (es.filter (fun e => !(stageOf env tbl e).noReply cfg))
      ((handleInput cfg env tbl inp).responses (inp.batch? cfg).isSome) := by
  rcases entries_cases h with hb | ⟨hb, j, hj, rfl⟩
  · -- batch
    rw [handleInput_batch cfg env tbl inp es hb]
    have hc : inp.decodeFailCode cfg = InvalidRequest := by simp [Input.decodeFailCode, hb, InvalidRequest]
    rw [hc]
    let f : Json → Option Response := fun e => (handleEntry cfg env tbl InvalidRequest e).1
    have hrs : batchResponses cfg env tbl es = es.filterMap f := by
      simp [batchResponses, batchEntries, List.filterMap_map, f, Function.comp_def]
    have hfilter : es.filter (fun e => !(stageOf env tbl e).noReply cfg) = es.filter (fun e => (f e).isSome) := by
      apply List.filter_congr
      intro e _
      simp only [f, handleEntry_eq]
      cases hn : (entrySpec cfg env InvalidRequest (stageOf env tbl e)).1 with
      | none => simp [(entrySpec_noReply cfg env InvalidRequest _).mp hn]
      | some r =>
        have : ¬ ((stageOf env tbl e).noReply cfg = true) := by
          intro hh
          rw [(entrySpec_noReply cfg env InvalidRequest _).mpr hh] at hn
          cases hn
        simp [this]
    rw [hfilter]
    have base := forall₂_map_right Response.toJson (forall₂_filter_filterMap f es)
    have goal_eq : Forall₂ (Answers cfg env tbl InvalidRequest) (es.filter (fun e => (f e).isSome))
        ((es.filterMap f).map Response.toJson) := by
      refine forall₂_imp ?_ base
      rintro a c ⟨b, hab, rfl⟩
      exact ⟨b, by simpa [f, handleEntry_eq] using hab, rfl⟩
    simp only [Output.responses, hb, Option.isSome_some, if_true, hrs]
    cases hfm : es.filterMap f with
    | nil => simpa [hfm] using goal_eq
    | cons a l => simpa [hfm] using goal_eq
  · -- single request
    rw [handleInput_single cfg env tbl inp j hj]
    have hc : inp.decodeFailCode cfg = InvalidJSON := by simp [Input.decodeFailCode, hb, InvalidJSON]
    rw [hc, handleEntry_eq, hb]
    cases hn : (entrySpec cfg env InvalidJSON (stageOf env tbl j)).1 with
    | none =>
      have := (entrySpec_noReply cfg env InvalidJSON _).mp hn
      simp only [Output.responses, List.filter, this, Option.map_none, Bool.not_true]
      exact Forall₂.nil
    | some r =>
      have : ¬ ((stageOf env tbl j).noReply cfg = true) := by
        intro hh
        rw [(entrySpec_noReply cfg env InvalidJSON _).mpr hh] at hn
        cases hn
      simp only [Output.responses, Option.map_some, Option.isSome_none, Bool.false_eq_true, if_false,
        List.filter, this, Bool.not_false]
      exact Forall₂.cons ⟨r, hn, rfl⟩ Forall₂.nil

/-- the handler invocations are exactly those of the request values that pass every stage -/
theorem log_eq (cfg : Config) (env : Env) (tbl : Table) (inp : Input) (es : List Json)
    (h : inp.entries cfg = some es) :
    (handleInput cfg env tbl inp).log = es.filterMap (fun e => (stageOf env tbl e).call?) := by
  rcases entries_cases h with hb | ⟨hb, j, hj, rfl⟩
  · rw [handleInput_batch cfg env tbl inp es hb, filterMap_eq_flatMap_toList]
    simp only [batchLog, batchEntries, List.flatMap_map]
    congr 1
    funext e
    rw [handleEntry_eq, entrySpec_log]
  · rw [handleInput_single cfg env tbl inp j hj, handleEntry_eq, entrySpec_log]
    cases hcall : (stageOf env tbl j).call? <;> simp [hcall]

theorem forall₂_mem_right {α β : Type} {R : α → β → Prop} {l1 : List α} {l2 : List β}
    (h : Forall₂ R l1 l2) : ∀ b ∈ l2, ∃ a ∈ l1, R a b := by
  induction h with
  | nil => intro b hb; cases hb
  | cons hab _ ih =>
    intro b hb
    cases hb with
    | head => exact ⟨_, List.mem_cons_self, hab⟩
    | tail _ hb' =>
      obtain ⟨a, ha, hr⟩ := ih b hb'
      exact ⟨a, List.mem_cons_of_mem _ ha, hr⟩

theorem forall₂_nil_left {α β : Type} {R : α → β → Prop} {l2 : List β} (h : Forall₂ R [] l2) : l2 = [] := by
  cases h; rfl

theorem forall₂_nil_right {α β : Type} {R : α → β → Prop} {l1 : List α} (h : Forall₂ R l1 []) : l1 = [] := by
  cases h; rfl

/-- the body is the response list put on the wire -/
theorem output_assemble (cfg : Config) (env : Env) (tbl : Table) (inp : Input) (es : List Json)
    (h : inp.entries cfg = some es) :
    (handleInput cfg env tbl inp).body =
      assemble (inp.batch? cfg).isSome ((handleInput cfg env tbl inp).responses (inp.batch? cfg).isSome) := by
  rcases entries_cases h with hb | ⟨hb, j, hj, rfl⟩
  · rw [handleInput_batch cfg env tbl inp es hb]
    simp only [hb, Option.isSome_some, assemble, if_true, Output.responses]
    cases hr : batchResponses cfg env tbl es with
    | nil => simp
    | cons a l => simp
  · rw [handleInput_single cfg env tbl inp j hj]
    simp only [hb, Option.isSome_none, assemble, Output.responses]
    cases (handleEntry cfg env tbl InvalidJSON j).1 <;> simp

theorem decodeFailCode_cases (cfg : Config) (inp : Input) :
    inp.decodeFailCode cfg = -32700 ∨ inp.decodeFailCode cfg = -32600 := by
  unfold Input.decodeFailCode
  split
  · exact Or.inr rfl
  · exact Or.inl rfl

theorem answers_isResponse {cfg : Config} {env : Env} {tbl : Table} {c : Int} {e r : Json}
    (hc : c = -32700 ∨ c = -32600) (hok : ResultsOk cfg env) (h : Answers cfg env tbl c e r) :
    IsResponse ((stageOf env tbl e).id cfg) r := by
  obtain ⟨resp, hs, rfl⟩ := h
  exact entrySpec_wellformed cfg env c _ resp hc hok hs

theorem wellformed (cfg : Config) (env : Env) (tbl : Table) (inp : Input) (hok : ResultsOk cfg env) :
    WellFormedBody (inp.batch? cfg).isSome (handleInput cfg env tbl inp).body := by
  cases he : inp.entries cfg with
  | none =>
    obtain ⟨code, j, _, hout, herr⟩ := handleInput_refused cfg env tbl inp he
    obtain ⟨hb, _⟩ := entries_none he
    rw [hout, hb]
    simp only [WellFormedBody, Option.isSome_none, Bool.false_eq_true, if_false]
    exact ⟨.null, herr.isResponse⟩
  | some es =>
    have hf := responses_forall₂ cfg env tbl inp es he
    have ha := output_assemble cfg env tbl inp es he
    have hall : ∀ r ∈ (handleInput cfg env tbl inp).responses (inp.batch? cfg).isSome, ∃ id, IsResponse id r := by
      intro r hr
      obtain ⟨e, _, hans⟩ := forall₂_mem_right hf r hr
      exact ⟨_, answers_isResponse (decodeFailCode_cases cfg inp) hok hans⟩
    rw [ha]
    generalize (handleInput cfg env tbl inp).responses (inp.batch? cfg).isSome = rs at hall
    cases hB : (inp.batch? cfg).isSome with
    | true =>
      cases rs with
      | nil => simp [assemble, WellFormedBody]
      | cons a l =>
        simp only [assemble, if_true, List.isEmpty_cons, Bool.false_eq_true, if_false, WellFormedBody]
        exact ⟨a :: l, by simp, rfl, hall⟩
    | false =>
      cases rs with
      | nil => simp [assemble, WellFormedBody]
      | cons a l =>
        simp only [assemble, Bool.false_eq_true, if_false, List.head?_cons, WellFormedBody]
        exact hall a List.mem_cons_self

theorem silent_iff (cfg : Config) (env : Env) (tbl : Table) (inp : Input) :
    (handleInput cfg env tbl inp).body = none ↔
      ∃ es, inp.entries cfg = some es ∧ ∀ e ∈ es, (stageOf env tbl e).noReply cfg = true := by
  cases he : inp.entries cfg with
  | none =>
    obtain ⟨code, j, _, hout, _⟩ := handleInput_refused cfg env tbl inp he
    rw [hout]; simp
  | some es =>
    have hf := responses_forall₂ cfg env tbl inp es he
    have ha := output_assemble cfg env tbl inp es he
    constructor
    · intro hnone
      refine ⟨es, rfl, ?_⟩
      have hrs : (handleInput cfg env tbl inp).responses (inp.batch? cfg).isSome = [] := by
        simp [Output.responses, hnone]
      rw [hrs] at hf
      have := forall₂_nil_right hf
      intro e hemem
      have hnot : e ∉ es.filter (fun e => !(stageOf env tbl e).noReply cfg) := by rw [this]; simp
      simp only [List.mem_filter, hemem, true_and, Bool.not_eq_true', Bool.not_eq_false] at hnot
      exact hnot
    · rintro ⟨es', hes', hall⟩
      simp at hes'; subst hes'
      have hfil : es.filter (fun e => !(stageOf env tbl e).noReply cfg) = [] := by
        simp only [List.filter_eq_nil_iff]
        intro e he'
        simp [hall e he']
      rw [hfil] at hf
      rw [ha, forall₂_nil_left hf]
      cases (inp.batch? cfg).isSome <;> simp [assemble]

theorem answersRequest_of_answers {cfg : Config} {env : Env} {tbl : Table} {c : Int} {e r : Json}
    (hc : c = -32700 ∨ c = -32600) (hok : ResultsOk cfg env) (h : Answers cfg env tbl c e r) :
    AnswersRequest cfg env tbl c e r := by
  refine ⟨answers_isResponse hc hok h, ?_, ?_⟩
  · intro code hcode
    obtain ⟨resp, hs, rfl⟩ := h
    exact entrySpec_code cfg env c _ resp code hc hcode hs
  · intro req m args id hst hid
    obtain ⟨resp, hs, rfl⟩ := h
    rw [hst] at hs
    simp [entrySpec, hid] at hs
    rw [← hs]

/-! ### decoding a plainly written Request object -/

def updStr (old : String) : Option Json → String
  | some (.str s) => s
  | _ => old

def updAny (old : Option Json) : Option Json → Option Json
  | none => old
  | some v => storeAny v

def badStr : Option Json → Bool
  | none => false
  | some (.str _) => false
  | some .null => false
  | some _ => true

theorem member_cons_ne {k : String} {kv : String × Json} {rest : List (String × Json)} (h : kv.1 ≠ k) :
    member (kv :: rest) k = member rest k := by
  simp [member, h]

theorem member_cons_eq {k : String} {v : Json} {rest : List (String × Json)} :
    member ((k, v) :: rest) k = some v := by
  simp [member]

theorem member_none_of_not_mem {k : String} {rest : List (String × Json)} (h : k ∉ rest.map (·.1)) :
    member rest k = none := by
  simp only [member, Option.map_eq_none_iff, List.find?_eq_none, decide_eq_true_eq]
  intro x hx hk
  exact h (List.mem_map.mpr ⟨x, hx, hk⟩)

theorem fold_plain (kvs : List (String × Json)) (st : DecState) (hp : PlainMembers kvs) :
    kvs.foldl stepField st =
      { req := { version := updStr st.req.version (member kvs "jsonrpc"),
                 method := updStr st.req.method (member kvs "method"),
                 params := updAny st.req.params (member kvs "params"),
                 id := updAny st.req.id (member kvs "id") },
        err := st.err || badStr (member kvs "jsonrpc") || badStr (member kvs "method") } := by
  induction kvs generalizing st with
  | nil => simp [member, updStr, updAny, badStr]
  | cons kv rest ih =>
    obtain ⟨hnd, hall⟩ := hp
    have hnd' : (rest.map (·.1)).Nodup := (List.nodup_cons.mp hnd).2
    have hnot : kv.1 ∉ rest.map (·.1) := (List.nodup_cons.mp hnd).1
    have hp' : PlainMembers rest := ⟨hnd', fun x hx => hall x (List.mem_cons_of_mem _ hx)⟩
    rw [List.foldl_cons, ih _ hp']
    cases hf : fieldOf kv.1 with
    | none =>
      have h1 : kv.1 ≠ "jsonrpc" := by intro h; rw [h] at hf; exact absurd hf (by decide)
      have h2 : kv.1 ≠ "method" := by intro h; rw [h] at hf; exact absurd hf (by decide)
      have h3 : kv.1 ≠ "params" := by intro h; rw [h] at hf; exact absurd hf (by decide)
      have h4 : kv.1 ≠ "id" := by intro h; rw [h] at hf; exact absurd hf (by decide)
      simp [stepField, hf, member_cons_ne h1, member_cons_ne h2, member_cons_ne h3, member_cons_ne h4]
    | some f =>
      have hmem := hall kv List.mem_cons_self (by simp [hf])
      obtain ⟨k, v⟩ := kv
      simp only [List.mem_cons, List.mem_nil_iff, or_false] at hmem
      simp only at hnot hf
      rcases hmem with rfl | rfl | rfl | rfl
      · have hf' : f = .version := by have : fieldOf "jsonrpc" = some .version := by decide
                                      rw [this] at hf; exact (Option.some.inj hf).symm
        subst hf'
        have e1 := member_none_of_not_mem hnot
        rw [member_cons_eq, member_cons_ne (k := "method") (by simp), member_cons_ne (k := "params") (by simp),
          member_cons_ne (k := "id") (by simp), e1]
        cases v <;> simp [stepField, hf, storeString, updStr, updAny, badStr, Bool.or_comm]
      · have hf' : f = .method := by have : fieldOf "method" = some .method := by decide
                                     rw [this] at hf; exact (Option.some.inj hf).symm
        subst hf'
        have e1 := member_none_of_not_mem hnot
        rw [member_cons_eq, member_cons_ne (k := "jsonrpc") (by simp), member_cons_ne (k := "params") (by simp),
          member_cons_ne (k := "id") (by simp), e1]
        cases v <;> simp [stepField, hf, storeString, updStr, updAny, badStr, Bool.or_comm]
      · have hf' : f = .params := by have : fieldOf "params" = some .params := by decide
                                     rw [this] at hf; exact (Option.some.inj hf).symm
        subst hf'
        have e1 := member_none_of_not_mem hnot
        rw [member_cons_eq, member_cons_ne (k := "jsonrpc") (by simp), member_cons_ne (k := "method") (by simp),
          member_cons_ne (k := "id") (by simp), e1]
        simp [stepField, hf, updStr, updAny, badStr]
      · have hf' : f = .id := by have : fieldOf "id" = some .id := by decide
                                 rw [this] at hf; exact (Option.some.inj hf).symm
        subst hf'
        have e1 := member_none_of_not_mem hnot
        rw [member_cons_eq, member_cons_ne (k := "jsonrpc") (by simp), member_cons_ne (k := "method") (by simp),
          member_cons_ne (k := "params") (by simp), e1]
        simp [stepField, hf, updStr, updAny, badStr]

theorem decodeRequest_plain (kvs : List (String × Json)) (hp : PlainMembers kvs) :
    decodeRequest (.obj kvs) =
      match stringField (member kvs "jsonrpc"), stringField (member kvs "method") with
      | some v, some m =>
        some { version := v, method := m,
               params := (member kvs "params").bind storeAny, id := (member kvs "id").bind storeAny }
      | _, _ => none := by
  unfold decodeRequest
  simp only [fold_plain kvs {} hp]
  have hs : ∀ o : Option Json, (stringField o = none ↔ badStr o = true) ∧
      (∀ s, stringField o = some s → updStr "" o = s) := by
    intro o
    cases o with
    | none => simp [stringField, badStr, updStr]
    | some v => cases v <;> simp [stringField, badStr, updStr]
  have ha : ∀ o : Option Json, updAny none o = o.bind storeAny := by
    intro o; cases o <;> simp [updAny]
  cases h1 : stringField (member kvs "jsonrpc") with
  | none => simp [(hs _).1.mp h1]
  | some v =>
    cases h2 : stringField (member kvs "method") with
    | none => simp [(hs _).1.mp h2]
    | some m =>
      have b1 : badStr (member kvs "jsonrpc") = false := by
        cases hb : badStr (member kvs "jsonrpc") with
        | false => rfl
        | true => rw [(hs _).1.mpr hb] at h1; cases h1
      have b2 : badStr (member kvs "method") = false := by
        cases hb : badStr (member kvs "method") with
        | false => rfl
        | true => rw [(hs _).1.mpr hb] at h2; cases h2
      simp [b1, b2, (hs _).2 v h1, (hs _).2 m h2, ha]

/-! ### argument binding -/

theorem mapGet_head {k : String} {v : Json} {rest : List (String × Json)}
    (h : k ∉ rest.map (·.1)) : mapGet ((k, v) :: rest) k = some v := by
  unfold mapGet
  rw [List.reverse_cons, List.find?_append]
  have : rest.reverse.find? (fun kv => decide (kv.1 = k)) = none := by
    rw [List.find?_eq_none]
    intro x hx
    have hx' : x ∈ rest := List.mem_reverse.mp hx
    simp only [decide_eq_true_eq]
    intro hk
    exact h (List.mem_map.mpr ⟨x, hx', hk⟩)
  simp [this]

theorem mapGet_nil (k : String) : mapGet [] k = none := by simp [mapGet]

theorem mapDelete_head {k : String} {v : Json} {rest : List (String × Json)}
    (h : k ∉ rest.map (·.1)) : mapDelete ((k, v) :: rest) k = rest := by
  unfold mapDelete
  simp only [List.filter_cons, ne_eq, not_true_eq_false, decide_false, Bool.false_eq_true, if_false]
  rw [List.filter_eq_self]
  intro x hx
  simp only [decide_eq_true_eq]
  intro hk
  exact h (List.mem_map.mpr ⟨x, hx, hk⟩)

theorem keys_zip_subset {names : List String} {vs : List Json} {k : String}
    (h : k ∉ names) : k ∉ (names.zip vs).map (·.1) := by
  intro hk
  obtain ⟨x, hx, rfl⟩ := List.mem_map.mp hk
  exact h (List.of_mem_zip (a := x.1) (b := x.2) hx).1

/-- named binding of `name_i := v_i` for the first parameters equals positional binding -/
theorem bindNamed_zip (env : Env) (ps : List Param) (vs : List Json)
    (hnd : (ps.map (·.name)).Nodup) (hlen : vs.length ≤ ps.length)
    (hopt : ∀ q ∈ ps.drop vs.length, q.optional = true) :
    bindNamed env ps ((ps.map (·.name)).zip vs) = (bindPositional env ps vs).map (fun args => (args, [])) := by
  induction ps generalizing vs with
  | nil =>
    cases vs with
    | nil => rfl
    | cons v vs => simp at hlen
  | cons p ps ih =>
    have hnd' : (ps.map (·.name)).Nodup := (List.nodup_cons.mp hnd).2
    have hp : p.name ∉ ps.map (·.name) := (List.nodup_cons.mp hnd).1
    cases vs with
    | nil =>
      have hpo : p.optional = true := hopt p (by simp)
      have ih' := ih [] hnd' (by simp) (fun q hq => hopt q (by simp at hq ⊢; exact Or.inr hq))
      simp only [List.zip_nil_right] at ih' ⊢
      simp only [bindNamed, mapGet_nil, hpo, if_true, bindPositional, ih']
      cases bindPositional env ps [] <;> rfl
    | cons v vs =>
      have hk : p.name ∉ ((ps.map (·.name)).zip vs).map (·.1) := keys_zip_subset hp
      have ih' := ih vs hnd' (by simpa using hlen) (fun q hq => hopt q (by simpa using hq))
      simp only [List.map_cons, List.zip_cons_cons, bindNamed, mapGet_head hk, mapDelete_head hk, bindPositional]
      cases decodeParam env p v with
      | none => rfl
      | some a =>
        simp only [ih']
        cases bindPositional env ps vs <;> rfl

theorem required_zero_all_optional (ps : List Param)
    (h : (ps.filter (fun p => !p.optional)).length = 0) : ∀ q ∈ ps, q.optional = true := by
  intro q hq
  have hnil : ps.filter (fun p => !p.optional) = [] := List.eq_nil_of_length_eq_zero h
  rw [List.filter_eq_nil_iff] at hnil
  have := hnil q hq
  simpa using this

/-- with an optional tail, the parameters beyond the required ones are all optional -/
theorem drop_optional (ps : List Param) (n : Nat) (htail : OptionalTail ps)
    (hreq : (ps.filter (fun p => !p.optional)).length ≤ n) : ∀ q ∈ ps.drop n, q.optional = true := by
  induction ps generalizing n with
  | nil => intro q hq; simp at hq
  | cons p ps ih =>
    cases n with
    | zero =>
      intro q hq
      exact required_zero_all_optional (p :: ps) (Nat.le_zero.mp hreq) q (by simpa using hq)
    | succ k =>
      intro q hq
      simp only [List.drop_succ_cons] at hq
      cases hpo : p.optional with
      | true => exact htail.1 hpo q (List.mem_of_mem_drop hq)
      | false =>
        apply ih k htail.2 _ q hq
        simp only [List.filter_cons, hpo, Bool.not_false, if_true, List.length_cons] at hreq
        omega

theorem positional_named (env : Env) (m : Method) (vs : List Json)
    (hnd : (m.params.map (·.name)).Nodup) (htail : OptionalTail m.params)
    (hmin : requiredParamCount m ≤ vs.length) (hmax : vs.length ≤ m.params.length) :
    buildArguments env (some (.arr vs)) m =
      buildArguments env (some (.obj ((m.params.map (·.name)).zip vs))) m := by
  cases vs with
  | nil => simp [buildArguments, isNilOrEmpty]
  | cons v vs =>
    have hopt := drop_optional m.params (v :: vs).length htail hmin
    have hz := bindNamed_zip env m.params (v :: vs) hnd hmax hopt
    cases hps : m.params with
    | nil => simp [hps] at hmax
    | cons p ps =>
      rw [hps] at hz
      have hcount : ¬ ((v :: vs).length < requiredParamCount m ∨ (v :: vs).length > m.params.length) := by
        omega
      simp only [buildArguments, isNilOrEmpty, hps, List.map_cons, List.zip_cons_cons, Bool.false_eq_true, if_false]
      rw [hps] at hcount
      simp only [hcount, if_false]
      simp only [List.map_cons, List.zip_cons_cons] at hz
      rw [hz]
      cases bindPositional env (p :: ps) (v :: vs) with
      | error e => rfl
      | ok args => simp [Except.map, mapKeys]

/-- positional binding: the supplied values are decoded in order, the rest are zero values -/
theorem bindPositional_spec (env : Env) (ps : List Param) (vs : List Json) (args : List Json)
    (hlen : vs.length ≤ ps.length) (h : bindPositional env ps vs = .ok args) :
    args.length = ps.length ∧
    Forall₂ (fun (pv : Param × Json) a => decodeParam env pv.1 pv.2 = some a) (ps.zip vs) (args.take vs.length) ∧
    args.drop vs.length = (ps.drop vs.length).map (fun p => env.zero p.ty) := by
  induction ps generalizing vs args with
  | nil =>
    cases vs with
    | nil => simp [bindPositional] at h; subst h; exact ⟨rfl, Forall₂.nil, rfl⟩
    | cons v vs => simp at hlen
  | cons p ps ih =>
    cases vs with
    | nil =>
      simp only [bindPositional] at h
      cases hr : bindPositional env ps [] with
      | error e => simp [hr, bind, Except.bind] at h
      | ok rest =>
        simp [hr, bind, Except.bind, pure, Except.pure] at h
        subst h
        obtain ⟨h1, _, h3⟩ := ih [] rest (by simp) hr
        refine ⟨by simp [h1], by simpa using Forall₂.nil, ?_⟩
        simpa using h3
    | cons v vs =>
      simp only [bindPositional] at h
      cases hd : decodeParam env p v with
      | none => simp [hd] at h
      | some a =>
        simp only [hd] at h
        cases hr : bindPositional env ps vs with
        | error e => simp [hr, bind, Except.bind] at h
        | ok rest =>
          simp [hr, bind, Except.bind, pure, Except.pure] at h
          subst h
          obtain ⟨h1, h2, h3⟩ := ih vs rest (by simpa using hlen) hr
          refine ⟨by simp [h1], ?_, by simpa using h3⟩
          simp only [List.zip_cons_cons, List.length_cons, List.take_succ_cons]
          exact Forall₂.cons hd h2

/-! ### validator arithmetic -/

theorem bitLen_le_iff (n b : Nat) : bitLen n ≤ b ↔ n < 2 ^ b := by
  induction b generalizing n with
  | zero =>
    cases n with
    | zero => simp [bitLen]
    | succ k => rw [bitLen]; simp
  | succ b ih =>
    cases n with
    | zero => rw [bitLen]; simp [Nat.two_pow_pos]
    | succ k =>
      rw [bitLen]
      have := ih ((k + 1) / 2)
      rw [Nat.pow_succ]
      constructor
      · intro h
        have h' : bitLen ((k + 1) / 2) ≤ b := by omega
        have := this.mp h'
        omega
      · intro h
        have h' : (k + 1) / 2 < 2 ^ b := by omega
        have := this.mpr h'
        omega

/-! ### isBatch -/

theorem isBatch_iff (cfg : Config) (inp : Input) :
    isBatch cfg inp = true ↔
      inp.firstIsBracket = true ∧ ∀ n, cfg.peekLimit = some n → inp.leadWs < n := by
  unfold isBatch
  cases cfg.peekLimit with
  | none => simp
  | some n => simp

/-! ### cancellation: handlers may answer differently, the dispatcher does the same -/

/-- two environments that differ at most in what the handlers return -/
def SameBinding (e1 e2 : Env) : Prop := e1.decode = e2.decode ∧ e1.zero = e2.zero ∧ e1.nullNotGiven = e2.nullNotGiven

theorem decodeParam_congr {e1 e2 : Env} (h : SameBinding e1 e2) (p : Param) (v : Json) :
    decodeParam e1 p v = decodeParam e2 p v := by
  simp only [decodeParam, h.1, h.2.1, h.2.2]

theorem bindPositional_congr {e1 e2 : Env} (h : SameBinding e1 e2) (ps : List Param) (vs : List Json) :
    bindPositional e1 ps vs = bindPositional e2 ps vs := by
  induction ps generalizing vs with
  | nil => cases vs <;> rfl
  | cons p ps ih =>
    cases vs with
    | nil => simp only [bindPositional, ih, h.2.1]
    | cons v vs => simp only [bindPositional, ih, decodeParam_congr h]

theorem bindNamed_congr {e1 e2 : Env} (h : SameBinding e1 e2) (ps : List Param) (m : List (String × Json)) :
    bindNamed e1 ps m = bindNamed e2 ps m := by
  induction ps generalizing m with
  | nil => rfl
  | cons p ps ih => simp only [bindNamed, ih, decodeParam_congr h, h.2.1]

theorem stageOf_congr {e1 e2 : Env} (h : SameBinding e1 e2) (tbl : Table) (j : Json) :
    stageOf e1 tbl j = stageOf e2 tbl j := by
  have hb : ∀ params m, buildArguments e1 params m = buildArguments e2 params m := by
    intro params m
    simp only [buildArguments, bindPositional_congr h, bindNamed_congr h, h.2.1]
  simp only [stageOf, hb]

/-- whether a request value is answered, with which id, and which handler call it causes does not
depend on what handlers return -/
theorem handleEntry_congr {e1 e2 : Env} (h : SameBinding e1 e2) (cfg : Config) (tbl : Table) (c : Int) (j : Json) :
    (handleEntry cfg e1 tbl c j).1.map (·.id) = (handleEntry cfg e2 tbl c j).1.map (·.id) ∧
    (handleEntry cfg e1 tbl c j).2 = (handleEntry cfg e2 tbl c j).2 := by
  rw [handleEntry_eq, handleEntry_eq, stageOf_congr h]
  refine ⟨?_, by rw [entrySpec_log, entrySpec_log]⟩
  cases h1 : (entrySpec cfg e1 c (stageOf e2 tbl j)).1 with
  | none =>
    have hn := (entrySpec_noReply cfg e1 c _).mp h1
    rw [(entrySpec_noReply cfg e2 c _).mpr hn]
  | some r1 =>
    cases h2 : (entrySpec cfg e2 c (stageOf e2 tbl j)).1 with
    | none =>
      have hn := (entrySpec_noReply cfg e2 c _).mp h2
      rw [(entrySpec_noReply cfg e1 c _).mpr hn] at h1
      cases h1
    | some r2 =>
      simp only [Option.map_some]
      rw [entrySpec_id cfg e1 c _ r1 h1, entrySpec_id cfg e2 c _ r2 h2]

theorem batchResponses_ids_congr {e1 e2 : Env} (h : SameBinding e1 e2) (cfg : Config) (tbl : Table) (xs : List Json) :
    (batchResponses cfg e1 tbl xs).map (·.id) = (batchResponses cfg e2 tbl xs).map (·.id) ∧
    batchLog cfg e1 tbl xs = batchLog cfg e2 tbl xs := by
  induction xs with
  | nil => exact ⟨rfl, rfl⟩
  | cons x xs ih =>
    obtain ⟨hid, hlog⟩ := handleEntry_congr h cfg tbl InvalidRequest x
    obtain ⟨ih1, ih2⟩ := ih
    simp only [batchResponses, batchEntries, batchLog, List.map_cons, List.filterMap_cons, List.flatMap_cons] at ih1 ih2 ⊢
    refine ⟨?_, by rw [hlog, ih2]⟩
    cases h1 : (handleEntry cfg e1 tbl InvalidRequest x).1 <;>
      cases h2 : (handleEntry cfg e2 tbl InvalidRequest x).1 <;>
      simp [h1, h2] at hid ⊢
    · simpa [List.filterMap_map] using ih1
    · exact ⟨hid, by simpa [List.filterMap_map] using ih1⟩

theorem batchResponses_append (cfg : Config) (env : Env) (tbl : Table) (a b : List Json) :
    batchResponses cfg env tbl (a ++ b) = batchResponses cfg env tbl a ++ batchResponses cfg env tbl b ∧
    batchLog cfg env tbl (a ++ b) = batchLog cfg env tbl a ++ batchLog cfg env tbl b := by
  simp [batchResponses, batchEntries, batchLog]

/-! ### transports -/

/-! ### positional vs named without an optional tail -/

end Juno.C11
