import JunoModel.C11.Model
import JunoModel.C11.ModelGo
namespace Juno.C11
end Juno.C11
