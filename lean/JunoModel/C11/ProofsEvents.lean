import JunoModel.C11.ProofsSpec
import JunoModel.C11.ModelEvents
/-! C11 (round 5) — the listener calls and the headers of `handleRequest` / `handleBatchRequest` /
`HTTP.ServeHTTP` (`ModelEvents.lean`): the extended transcription answers and invokes exactly as
`handleInputF junoCfg`; `OnRequestHandled` fires once per handler invocation; header merging. -/
namespace Juno.C11

theorem lookupMethod_name {tbl : Table} {name : String} {m : Method} (h : lookupMethod tbl name = some m) :
    m.name = name := by
  unfold lookupMethod at h
  simpa using List.find?_some h

/-! ### the extended transcription is the server of `Model.lean` -/

theorem sanitize_buildArguments (env : Env) (params : Option Json) (m : Method) :
    buildArguments env.sanitize params m = buildArguments env params m := by
  have h : SameBinding env.sanitize env := ⟨rfl, rfl, rfl⟩
  simp only [buildArguments, bindPositional_congr h, bindNamed_congr h]
  rfl

theorem handleEntryX_resp_log (env : Env) (hdr : String → List Json → Header) (tbl : Table) (c : Int) (j : Json) :
    (handleEntryX env hdr tbl c j).resp = (handleEntry junoCfg env.sanitize tbl c j).1 ∧
    (handleEntryX env hdr tbl c j).log = (handleEntry junoCfg env.sanitize tbl c j).2 := by
  unfold handleEntryX handleEntry
  cases hd : decodeRequest j with
  | none => exact ⟨rfl, rfl⟩
  | some req =>
    simp only
    unfold handleRequestX handleRequest
    cases hs : isSane req with
    | some e => simp [finishRequestX, finishRequest]
    | none =>
      simp only
      cases hl : lookupMethod tbl req.method with
      | none =>
        by_cases hid : req.id.isNone = true <;> simp [finishRequestX, finishRequest, junoCfg, hid, marshalFallback]
      | some m =>
        simp only [sanitize_buildArguments]
        cases hb : buildArguments env req.params m with
        | error be =>
          by_cases hid : req.id.isNone = true <;> simp [finishRequestX, finishRequest, junoCfg, hid, marshalFallback]
        | ok args =>
          simp only [Env.sanitize, HResult.faulty]
          generalize env.call m.name args = out
          obtain ⟨res, err, pan, mar⟩ := out
          cases pan <;> cases hid : req.id <;> cases mar <;> cases err <;> cases res <;>
            simp [finishRequestX, finishRequest, marshalFallback, junoCfg]

theorem isBatch_junoCfg (bd : Bool) (inp : Input) : isBatch { junoCfg with batchDisabled := bd } inp = inp.firstIsBracket := by
  simp [isBatch, junoCfg]

theorem filterMap_resp_eq (env : Env) (hdr : String → List Json → Header) (tbl : Table) (cfg : Config)
    (hc : cfg = junoCfg ∨ ∃ bd, cfg = { junoCfg with batchDisabled := bd }) (xs : List Json) :
    (xs.map (handleEntryX env hdr tbl InvalidRequest)).filterMap (·.resp) = batchResponses cfg env.sanitize tbl xs ∧
    (xs.map (handleEntryX env hdr tbl InvalidRequest)).flatMap (·.log) = batchLog cfg env.sanitize tbl xs := by
  have hcfg : ∀ x, handleEntry cfg env.sanitize tbl InvalidRequest x = handleEntry junoCfg env.sanitize tbl InvalidRequest x := by
    intro x
    rcases hc with rfl | ⟨bd, rfl⟩
    · rfl
    · rfl
  induction xs with
  | nil => exact ⟨rfl, rfl⟩
  | cons x xs ih =>
    obtain ⟨h1, h2⟩ := handleEntryX_resp_log env hdr tbl InvalidRequest x
    simp only [batchResponses, batchEntries, batchLog, List.map_cons, List.filterMap_cons, List.flatMap_cons] at ih ⊢
    rw [h1, h2, hcfg x]
    refine ⟨?_, by rw [ih.2]⟩
    cases (handleEntry junoCfg env.sanitize tbl InvalidRequest x).1 <;> simp [ih.1]

/-- `handleInputX` — the transcription that also produces headers and listener calls — writes the same body
and makes the same handler calls as `handleInputF junoCfg` (for which the property theorems are proved). -/
theorem handleInputX_body_log (bd : Bool) (env : Env) (hdr : String → List Json → Header) (tbl : Table) (inp : Input) :
    (handleInputX bd env hdr tbl inp).body = (handleInputF { junoCfg with batchDisabled := bd } env tbl inp).body ∧
    (handleInputX bd env hdr tbl inp).log = (handleInputF { junoCfg with batchDisabled := bd } env tbl inp).log := by
  have hF : handleInputF { junoCfg with batchDisabled := bd } env tbl inp =
      { body := (handleInput { junoCfg with batchDisabled := bd } env.sanitize tbl inp).body,
        log := (handleInput { junoCfg with batchDisabled := bd } env.sanitize tbl inp).log } := by
    simp [handleInputF, junoCfg]
  rw [hF]
  simp only
  unfold handleInputX handleInput
  rw [isBatch_junoCfg]
  cases hfb : inp.firstIsBracket with
  | false =>
    cases hp : inp.parsed with
    | none => exact ⟨rfl, rfl⟩
    | some j =>
      obtain ⟨h1, h2⟩ := handleEntryX_resp_log env hdr tbl InvalidJSON j
      have hc : handleEntry { junoCfg with batchDisabled := bd } env.sanitize tbl InvalidJSON j
          = handleEntry junoCfg env.sanitize tbl InvalidJSON j := rfl
      simp [h1, h2, hc]
  | true =>
    cases bd with
    | true => exact ⟨rfl, rfl⟩
    | false =>
      cases hp : inp.parsed with
      | none => exact ⟨rfl, rfl⟩
      | some j =>
        cases j with
        | arr xs =>
          cases xs with
          | nil => exact ⟨rfl, rfl⟩
          | cons x xs =>
            obtain ⟨h1, h2⟩ := filterMap_resp_eq env hdr tbl { junoCfg with batchDisabled := false } (Or.inr ⟨false, rfl⟩) (x :: xs)
            simp only [Bool.not_true, Bool.not_false, if_true, Bool.false_eq_true, if_false]
            exact ⟨by rw [h1], by rw [h2]⟩
        | null => exact ⟨rfl, rfl⟩
        | bool b => exact ⟨rfl, rfl⟩
        | num t => exact ⟨rfl, rfl⟩
        | str s => exact ⟨rfl, rfl⟩
        | obj kvs => exact ⟨rfl, rfl⟩

/-! ### the listener -/

@[simp] theorem handled?_new (m : String) : Event.handled? (.newRequest m) = none := rfl
@[simp] theorem handled?_handled (m : String) : Event.handled? (.handled m) = some m := rfl
@[simp] theorem handled?_failed (m : String) : Event.handled? (.failed m) = none := rfl
@[simp] theorem newRequest?_new (m : String) : Event.newRequest? (.newRequest m) = some m := rfl
@[simp] theorem newRequest?_handled (m : String) : Event.newRequest? (.handled m) = none := rfl
@[simp] theorem newRequest?_failed (m : String) : Event.newRequest? (.failed m) = none := rfl
@[simp] theorem failed?_new (m : String) : Event.failed? (.newRequest m) = none := rfl
@[simp] theorem failed?_handled (m : String) : Event.failed? (.handled m) = none := rfl
@[simp] theorem failed?_failed (m : String) : Event.failed? (.failed m) = some m := rfl

attribute [local simp] List.filterMap_cons

/-- the four shapes of the listener calls of one request value -/
inductive EventsShape : List Event → Prop
  | none : EventsShape []
  | refused (m : String) : EventsShape [.newRequest m]
  | ran (m : String) : EventsShape [.newRequest m, .handled m]
  | failed (m : String) : EventsShape [.newRequest m, .failed m, .handled m]

theorem handleRequestX_events (env : Env) (hdr : String → List Json → Header) (tbl : Table) (req : Request)
    (o : ReqOutX) (ho : o = handleRequestX env hdr tbl req) :
    EventsShape o.events ∧
    o.events.filterMap Event.handled? = o.log.map (·.1) ∧
    (o.events.filterMap Event.newRequest? = [req.method] ↔ isSane req = none ∧ (lookupMethod tbl req.method).isSome = true) ∧
    (o.events.filterMap Event.failed? ≠ [] →
      ∃ r e, o.res = .ok (some r) ∧ r.error = some e ∧ e.code = InternalError ∧ r.id = idJson req.id ∧ req.id.isSome = true) ∧
    (o.header ≠ [] → ∃ r, o.res = .ok (some r) ∧ o.log ≠ []) := by
  subst ho
  unfold handleRequestX
  cases hs : isSane req with
  | some e => simp [EventsShape.none]
  | none =>
    simp only
    cases hl : lookupMethod tbl req.method with
    | none => by_cases hid : req.id.isNone = true <;> simp [hid, EventsShape.none]
    | some m =>
      have hn := lookupMethod_name hl
      simp only
      cases hb : buildArguments env req.params m with
      | error be =>
        by_cases hid : req.id.isNone = true <;>
          simp [hid, EventsShape.refused]
      | ok args =>
        simp only
        cases hp : (env.call m.name args).panics with
        | true =>
          cases hid : req.id with
          | none => simp [EventsShape.ran, hn]
          | some id => simp [EventsShape.failed, hn, mkErr, InternalError, InvalidJSON, InvalidRequest, MethodNotFound, InvalidParams, idJson]
        | false =>
          cases hid : req.id with
          | none => simp [EventsShape.ran, hn]
          | some id =>
            cases he : (env.call m.name args).error with
            | none => simp [EventsShape.ran, hn]
            | some e =>
              by_cases hc : e.code = InternalError <;>
                simp [hc, EventsShape.ran, EventsShape.failed, hn, idJson]

theorem handleEntryX_events (env : Env) (hdr : String → List Json → Header) (tbl : Table) (c : Int) (j : Json)
    (o : EntryOutX) (ho : o = handleEntryX env hdr tbl c j) :
    EventsShape o.events ∧
    o.events.filterMap Event.handled? = o.log.map (·.1) ∧
    (o.events.filterMap Event.failed? ≠ [] →
      ∃ r e, o.resp = some r ∧ r.error = some e ∧ e.code = InternalError) ∧
    (o.header ≠ [] → o.resp.isSome = true ∧ o.log ≠ []) := by
  subst ho
  unfold handleEntryX
  cases hd : decodeRequest j with
  | none => simp [EventsShape.none]
  | some req =>
    obtain ⟨h1, h2, _, h4, h5⟩ := handleRequestX_events env hdr tbl req _ rfl
    simp only
    cases hr : (handleRequestX env hdr tbl req).res with
    | error e =>
      simp only [finishRequestX, hr]
      refine ⟨h1, h2, ?_, ?_⟩
      · intro hf
        obtain ⟨r, e', hres, _⟩ := h4 hf
        rw [hr] at hres
        cases hres
      · intro hh
        obtain ⟨r, hres, _⟩ := h5 hh
        rw [hr] at hres
        cases hres
    | ok r? =>
      simp only [finishRequestX, hr]
      refine ⟨h1, h2, ?_, ?_⟩
      · intro hf
        obtain ⟨r, e', hres, herr, hcode, _⟩ := h4 hf
        rw [hr] at hres
        cases hres
        by_cases hm : (handleRequestX env hdr tbl req).marshals = true
        · exact ⟨r, e', by simp [marshalFallback, hm], herr, hcode⟩
        · refine ⟨_, mkErr InternalError (some opaqueData), by simp [marshalFallback, hm]; rfl, rfl, by decide⟩
      · intro hh
        obtain ⟨r, hres, hlog⟩ := h5 hh
        rw [hr] at hres
        cases hres
        exact ⟨by simp, hlog⟩

/-- `OnRequestHandled` fires exactly once per handler invocation, for the invoked method, in invocation order
(request order of the in-order model) — for every input, every table, every handler behaviour. -/
theorem handleInputX_handled (bd : Bool) (env : Env) (hdr : String → List Json → Header) (tbl : Table) (inp : Input) :
    (handleInputX bd env hdr tbl inp).events.filterMap Event.handled? = (handleInputX bd env hdr tbl inp).log.map (·.1) := by
  unfold handleInputX
  cases inp.firstIsBracket with
  | false =>
    cases inp.parsed with
    | none => rfl
    | some j => exact (handleEntryX_events env hdr tbl InvalidJSON j _ rfl).2.1
  | true =>
    cases bd with
    | true => rfl
    | false =>
      cases inp.parsed with
      | none => rfl
      | some j =>
        cases j with
        | arr xs =>
          cases xs with
          | nil => rfl
          | cons x xs =>
            simp only [Bool.not_true, Bool.not_false, if_true, Bool.false_eq_true, if_false]
            generalize x :: xs = l
            induction l with
            | nil => rfl
            | cons y ys ih =>
              simp only [List.map_cons, List.flatMap_cons, List.filterMap_append, List.map_append]
              rw [(handleEntryX_events env hdr tbl InvalidRequest y _ rfl).2.1, ih]
        | null => rfl
        | bool b => rfl
        | num t => rfl
        | str s => rfl
        | obj kvs => rfl

/-! ### headers -/

theorem Header.values_add (h : Header) (k v k' : String) :
    (h.add k v).values k' = if k' = k then h.values k ++ [v] else h.values k' := by
  induction h with
  | nil =>
    by_cases hk : k' = k
    · subst hk; simp [Header.add, Header.values]
    · have : ¬ k = k' := fun h => hk h.symm
      simp [Header.add, Header.values, hk, this]
  | cons kv r ih =>
    obtain ⟨k0, vs⟩ := kv
    by_cases h0 : k0 = k
    · subst h0
      by_cases hk : k' = k0
      · subst hk; simp [Header.add, Header.values]
      · have : ¬ k0 = k' := fun h => hk h.symm
        simp [Header.add, Header.values, hk, this]
    · by_cases hk : k' = k
      · subst hk
        simp [Header.add, Header.values, h0, ih]
      · by_cases h1 : k0 = k' <;> simp [Header.add, Header.values, h0, hk, h1, ih]

theorem Header.values_put (h : Header) (k : String) (vs : List String) (k' : String) :
    (h.put k vs).values k' = if k' = k then vs else h.values k' := by
  induction h with
  | nil =>
    by_cases hk : k' = k
    · subst hk; simp [Header.put, Header.values]
    · have : ¬ k = k' := fun h => hk h.symm
      simp [Header.put, Header.values, hk, this]
  | cons kv r ih =>
    obtain ⟨k0, vs0⟩ := kv
    by_cases h0 : k0 = k
    · subst h0
      by_cases hk : k' = k0
      · subst hk; simp [Header.put, Header.values]
      · have : ¬ k0 = k' := fun h => hk h.symm
        simp [Header.put, Header.values, hk, this]
    · by_cases hk : k' = k
      · subst hk
        simp [Header.put, Header.values, h0, ih]
      · by_cases h1 : k0 = k' <;> simp [Header.put, Header.values, h0, hk, h1, ih]

theorem Header.values_of_not_mem (h : Header) (k : String) (hk : k ∉ h.map (·.1)) : h.values k = [] := by
  induction h with
  | nil => rfl
  | cons kv r ih =>
    obtain ⟨k0, vs⟩ := kv
    simp only [List.map_cons, List.mem_cons, not_or] at hk
    have : ¬ k0 = k := fun h => hk.1 h.symm
    simp [Header.values, this, ih hk.2]

theorem Header.has_iff (h : Header) (k : String) : h.has k = true ↔ k ∈ h.map (·.1) := by
  induction h with
  | nil => simp [Header.has]
  | cons kv r ih =>
    have ih' : (r.any fun kv => decide (kv.1 = k)) = true ↔ k ∈ r.map (·.1) := ih
    simp only [Header.has, List.any_cons, Bool.or_eq_true, decide_eq_true_eq, List.map_cons, List.mem_cons]
    rw [ih']
    constructor
    · rintro (h | h)
      · exact Or.inl h.symm
      · exact Or.inr h
    · rintro (h | h)
      · exact Or.inl h.symm
      · exact Or.inr h

theorem Header.values_addValues (acc : Header) (k0 : String) (vs : List String) (k : String) :
    (vs.foldl (fun a v => a.add k0 v) acc).values k = if k = k0 then acc.values k0 ++ vs else acc.values k := by
  induction vs generalizing acc with
  | nil => by_cases hk : k = k0 <;> simp [hk]
  | cons v vs ih =>
    simp only [List.foldl_cons]
    rw [ih, Header.values_add, Header.values_add]
    by_cases hk : k = k0 <;> simp [hk]

/-- `finalHeaders.Add` of every value of `src`: per key, the values of `src` are appended -/
theorem Header.values_addAll (dst src : Header) (hs : src.WF) (k : String) :
    (dst.addAll src).values k = dst.values k ++ src.values k := by
  unfold Header.addAll
  induction src generalizing dst with
  | nil => simp [Header.values]
  | cons kv r ih =>
    obtain ⟨k0, vs⟩ := kv
    have hnd : k0 ∉ r.map (·.1) ∧ (r.map (·.1)).Nodup := by simpa [Header.WF] using hs
    simp only [List.foldl_cons]
    rw [ih _ hnd.2, Header.values_addValues]
    by_cases hk : k = k0
    · subst hk
      simp [Header.values, Header.values_of_not_mem r k hnd.1]
    · have : ¬ k0 = k := fun h => hk h.symm
      simp [Header.values, hk, this]

/-- the merged header of a batch: per key, the values of the headers in the order they were collected -/
theorem mergeHeaders_values (hs : List Header) (hwf : ∀ h ∈ hs, h.WF) (k : String) :
    (mergeHeaders hs).values k = hs.flatMap (·.values k) := by
  unfold mergeHeaders
  suffices h : ∀ acc : Header, (hs.foldl Header.addAll acc).values k = acc.values k ++ hs.flatMap (·.values k) by
    simpa [Header.values] using h []
  induction hs with
  | nil => intro acc; simp
  | cons x xs ih =>
    intro acc
    simp only [List.foldl_cons, List.flatMap_cons]
    rw [ih (fun h hh => hwf h (List.mem_cons_of_mem _ hh)), Header.values_addAll _ _ (hwf x List.mem_cons_self)]
    simp

/-- `maps.Copy`: a key of the source replaces the key of the destination -/
theorem Header.values_copyFrom (dst src : Header) (hs : src.WF) (k : String) :
    (dst.copyFrom src).values k = if src.has k then src.values k else dst.values k := by
  unfold Header.copyFrom
  induction src generalizing dst with
  | nil => simp [Header.has]
  | cons kv r ih =>
    obtain ⟨k0, vs⟩ := kv
    have hnd : k0 ∉ r.map (·.1) ∧ (r.map (·.1)).Nodup := by simpa [Header.WF] using hs
    simp only [List.foldl_cons]
    rw [ih _ hnd.2, Header.values_put]
    have hr : Header.has ((k0, vs) :: r) k = (decide (k0 = k) || Header.has r k) := rfl
    rw [hr]
    by_cases hk : k = k0
    · subst hk
      have : Header.has r k = false := by
        rw [Bool.eq_false_iff, Ne, Header.has_iff]; exact hnd.1
      simp [this, Header.values]
    · have h1 : ¬ k0 = k := fun h => hk h.symm
      simp [Header.values, hk, h1]

theorem handleEntryX_header_wf (env : Env) (hdr : String → List Json → Header) (hwf : ∀ n a, (hdr n a).WF)
    (tbl : Table) (c : Int) (j : Json) : (handleEntryX env hdr tbl c j).header.WF := by
  have hnil : Header.WF [] := by simp [Header.WF]
  unfold handleEntryX
  cases decodeRequest j with
  | none => exact hnil
  | some req =>
    simp only
    have hreq : (handleRequestX env hdr tbl req).header.WF := by
      unfold handleRequestX
      cases isSane req with
      | some e => exact hnil
      | none =>
        simp only
        cases lookupMethod tbl req.method with
        | none => by_cases hid : req.id.isNone = true <;> simp [hid, hnil]
        | some m =>
          simp only
          cases buildArguments env req.params m with
          | error be => by_cases hid : req.id.isNone = true <;> simp [hid, hnil]
          | ok args =>
            simp only
            cases (env.call m.name args).panics <;> cases req.id <;> simp [hnil]
            cases (env.call m.name args).error <;> simp [hwf]
    cases hr : (handleRequestX env hdr tbl req).res <;> simp [finishRequestX, hr, hreq]

/-- the header of a batch: per key, the values of the headers of its entries in request order (entries that
are not answered — notifications, whatever their handler returned — contribute nothing) -/
theorem batch_header_values (env : Env) (hdr : String → List Json → Header) (hwf : ∀ n a, (hdr n a).WF)
    (tbl : Table) (inp : Input) (x : Json) (xs : List Json)
    (hb : inp.firstIsBracket = true) (hp : inp.parsed = some (.arr (x :: xs))) (k : String) :
    (handleInputX false env hdr tbl inp).header.values k =
      (x :: xs).flatMap (fun e => (handleEntryX env hdr tbl InvalidRequest e).header.values k) := by
  unfold handleInputX
  simp only [hb, hp, Bool.not_true, Bool.not_false, if_true, Bool.false_eq_true, if_false]
  rw [mergeHeaders_values]
  · generalize x :: xs = l
    induction l with
    | nil => rfl
    | cons y ys ih =>
      simp only [List.map_cons, List.filter_cons, List.flatMap_cons]
      cases hr : (handleEntryX env hdr tbl InvalidRequest y).resp with
      | some r => simp [ih]
      | none =>
        have hh : (handleEntryX env hdr tbl InvalidRequest y).header = [] := by
          by_cases hne : (handleEntryX env hdr tbl InvalidRequest y).header = []
          · exact hne
          · have := ((handleEntryX_events env hdr tbl InvalidRequest y _ rfl).2.2.2 hne).1
            simp [hr] at this
        simp [hh, Header.values, ih]
  · intro h hh
    obtain ⟨o, ho, rfl⟩ := List.mem_map.mp hh
    obtain ⟨e, _, rfl⟩ := List.mem_map.mp (List.mem_filter.mp ho).1
    exact handleEntryX_header_wf env hdr hwf tbl _ e

/-- whatever order the workers finish in, the merged header has, per key, the same values (as a multiset) -/
theorem mergeHeaders_perm (hs hs' : List Header) (hwf : ∀ h ∈ hs, h.WF) (hp : hs.Perm hs') (k : String) :
    ((mergeHeaders hs).values k).Perm ((mergeHeaders hs').values k) := by
  rw [mergeHeaders_values hs hwf, mergeHeaders_values hs' (fun h hh => hwf h (hp.mem_iff.mpr hh))]
  exact hp.flatMap_right _

theorem http_content_type (g : Bool) (o : OutputX) (hwf : o.header.WF) :
    (httpPostHeaders g o).values "Content-Type" =
      if o.header.has "Content-Type" then o.header.values "Content-Type" else ["application/json"] := by
  have h0 : ((Header.put [] "Content-Type" ["application/json"]).copyFrom o.header).values "Content-Type" =
      if o.header.has "Content-Type" then o.header.values "Content-Type" else ["application/json"] := by
    rw [Header.values_copyFrom _ _ hwf, Header.values_put]
    simp
  unfold httpPostHeaders
  cases o.body with
  | none => exact h0
  | some b =>
    cases g <;> simp only [Bool.false_eq_true, if_false, if_true] <;> rw [Header.values_put] <;> simp [h0]

theorem http_body_framing (g : Bool) (o : OutputX) (b : Json) (hb : o.body = some b) :
    (httpPostHeaders g o).values "Content-Encoding" = (if g then ["gzip"] else
        ((Header.put [] "Content-Type" ["application/json"]).copyFrom o.header).values "Content-Encoding") ∧
    (g = false → (httpPostHeaders g o).values "Content-Length" = ["#"]) := by
  unfold httpPostHeaders
  simp only [hb]
  cases g
  · simp only [Bool.false_eq_true, if_false]
    rw [Header.values_put, Header.values_put]
    simp
  · simp only [if_true]
    rw [Header.values_put]
    simp

end Juno.C11
