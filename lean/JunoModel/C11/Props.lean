import JunoModel.C11.Proofs
namespace Juno.C11.Props
open Juno.C11
theorem placeholder_partial : isSane {} = some .version := by decide
end Juno.C11.Props
