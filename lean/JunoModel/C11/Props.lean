import JunoModel.C11.ProofsSpec
import JunoModel.C11.ProofsPretty
import JunoModel.C11.ProofsPrettyText
import JunoModel.C11.ProofsGate
import JunoModel.C11.ProofsConn
import JunoModel.C11.ProofsRegister
import JunoModel.C11.ProofsBatch
import JunoModel.C11.ProofsEvents
import JunoModel.C11.ProofsWsLoop
import JunoModel.C11.ProofsTxRules
import JunoModel.C11.ModelNullId
import JunoModel.C11.ModelValidateWalk
import JunoModel.C11.ModelGateRace
/-!
C11 — property theorems (statements only; proofs in `Proofs*.lean`, vocabulary in `ModelSpec.lean`,
model of the code in `Model*.lean`).

The property is stated against an INDEPENDENT reading of JSON-RPC 2.0 (`specKind`, `specBind`,
`MeetsSpec` in ModelSpec.lean — defined from the JSON text, without `decodeRequest`, `isSane`,
`buildArguments` or `handleRequest`): a notification is a Request object WITHOUT an `id` member;
a value that parses but is not a Request object is answered -32600; a response id is a String, a
Number or Null. Where the server as it is (`junoCfg`, `handleInputF`) deviates, the theorem is
`_partial` (the deviation is an explicit hypothesis) and a proved counterexample stands next to it:

  * `"id": null` is treated as a notification                      → `request_with_null_id_not_answered`
  * a single valid-JSON non-request is answered -32700             → `single_invalid_request_answered_with_parse_error`

`*_before_<commit>` theorems are regression witnesses for defects already repaired in /repo.
Statements that are true by construction of the model are in ProofsMisc.lean, not here.
-/
namespace Juno.C11.Props
open Juno.C11

/-! ## 1. Well-formed output -/

/-- every handler returns `(nil, nil)`; one method `m` without parameters -/
def nilEnv : Env := { decode := fun _ v => some v, zero := fun _ => .null, call := fun _ _ => {} }
def oneMethod : Table := [{ name := "m", params := [] }]
def request (method : String) (rest : List (String × Json)) : Json :=
  .obj ([("jsonrpc", .str "2.0"), ("method", .str method)] ++ rest)
def singleInput (j : Json) : Input := { leadWs := 0, firstIsBracket := false, parsed := some j }
def batchInput (es : List Json) : Input := { leadWs := 0, firstIsBracket := true, parsed := some (.arr es) }
/-- every handler echoes its arguments -/
def echoEnv : Env :=
  { decode := fun _ v => some v, zero := fun _ => .null, call := fun _ args => { result := some (.arr args) } }

/-- FULL, for the server as it is and for ARBITRARY handlers (also panicking ones and ones returning
unmarshallable values): the output is nothing, or one JSON-RPC 2.0 response object (`jsonrpc:"2.0"`,
exactly one of result / error, an id) for a single request or a refused input, or a non-empty array
of such objects for a batch. -/
theorem wellformed_response (env : Env) (tbl : Table) (inp : Input) :
    WellFormedBody (inp.batch? junoCfg).isSome (handleInputF junoCfg env tbl inp).body :=
  wellformedF junoCfg env tbl inp rfl

/-- REGRESSION WITNESS (pinned commit, repaired by 6b06fc7): `{"jsonrpc":"2.0","method":"m","id":1}`
with a handler returning `(nil, nil)` was answered with `{"jsonrpc":"2.0","id":1}` — neither result
nor error; the current server answers `"result":null`. -/
theorem nil_result_defect_before_6b06fc7 :
    (handleInput pinnedCfg nilEnv oneMethod (singleInput (request "m" [("id", .num "1")]))).body
        = some (.obj [("jsonrpc", .str "2.0"), ("id", .num "1")])
    ∧ ¬ WellFormedBody false
        (handleInput pinnedCfg nilEnv oneMethod (singleInput (request "m" [("id", .num "1")]))).body
    ∧ (handleInput junoCfg nilEnv oneMethod (singleInput (request "m" [("id", .num "1")]))).body
        = some (.obj [("jsonrpc", .str "2.0"), ("result", .null), ("id", .num "1")]) := by
  have h : (handleInput pinnedCfg nilEnv oneMethod (singleInput (request "m" [("id", .num "1")]))).body
      = some (.obj [("jsonrpc", .str "2.0"), ("id", .num "1")]) := by rfl
  refine ⟨h, ?_, by rfl⟩
  rw [h]
  rintro ⟨id, hr⟩
  have := isResponse_members hr
  simp at this

/-- FULL, for the server as it is (since dfb1bec): every response, to any JSON value whatsoever, in a batch or
alone, carries a String, a Number or Null as id. -/
theorem response_id_is_legal (env : Env) (tbl : Table) (c : Int) (j : Json) (r : Response)
    (h : (handleEntry junoCfg env tbl c j).1 = some r) : LegalId r.id := by
  rw [handleEntry_eq] at h
  rw [entrySpec_id junoCfg env c _ r h]
  exact stage_id_legal_repaired junoCfg rfl env tbl j

/-- REGRESSION WITNESS (repaired by dfb1bec): `{"jsonrpc":"1.0","id":[1]}` was answered with `"id":[1]` — not a
legal response id; the current server answers with id Null. -/
theorem structured_id_echo_defect_before_dfb1bec :
    (handleInput { junoCfg with legalIdEchoOnly := false } nilEnv oneMethod
        (singleInput (.obj [("jsonrpc", .str "1.0"), ("id", .arr [.num "1"])]))).body
      = some (.obj [("jsonrpc", .str "2.0"),
                    ("error", .obj [("code", .num "-32600"), ("message", .str "Invalid Request"),
                                    ("data", .str "unsupported RPC request version")]),
                    ("id", .arr [.num "1"])])
    ∧ ¬ LegalId (.arr [.num "1"])
    ∧ (handleEntry junoCfg nilEnv oneMethod (-32700)
        (.obj [("jsonrpc", .str "1.0"), ("id", .arr [.num "1"])])).1.map (·.id) = some .null := by
  exact ⟨by rfl, by simp [LegalId], by rfl⟩

/-! ## 2. Every request value is answered as JSON-RPC 2.0 says -/

/-- PARTIAL (server as it is), per request value, against the independent specification `MeetsSpec`:
a value that is not a Request object is answered -32600 with id Null or its own id, and runs nothing;
a notification (no `id` member) is never answered and runs its handler once iff its method exists
and its parameters are bindable (`specBind`); a request is answered exactly once, with its own id:
-32601 for an unknown method, -32602 iff the parameters are not bindable, else what the handler
returned for exactly the argument vector the caller supplied (`specBind`), the handler having run
once. Excluded (`hnotnull`, `hdec`): `"id": null`, and — for a single request (`c = -32700`) — values that
`Decode(*Request)` rejects; both are deviations with counterexamples below. `hplain`/`hdefinite`
restrict to plainly written objects on which the text of the specification is definite. -/
theorem request_meets_spec_partial (env : Env) (tbl : Table) (c : Int) (j : Json) (htbl : TableOk tbl)
    (hplain : PlainEntry j)
    (hdefinite : ∀ kvs, j = .obj kvs → SpecDefinite kvs ∧ IdScalarOrAbsent kvs)
    (hnotnull : ∀ kvs, j = .obj kvs → member kvs "id" ≠ some .null)
    (hdec : c = -32600 ∨ decodeRequest j ≠ none) :
    MeetsSpec junoCfg env tbl j (handleEntry junoCfg env tbl c j) :=
  entry_meets_spec env tbl c j htbl hplain hdefinite hnotnull hdec

/-- PARTIAL (only because of the two deviations in `Judged`), for whole inputs (single request or batch of any
length) and ARBITRARY handlers — also ones that panic or return values `json.Marshal` rejects, which the server
(since 6442b48) turns into -32603 Internal error (`Env.sanitize`): every request value meets the
specification (`MeetsSpec`), the body is exactly the responses of the request values, in request order, put on
the wire (`assemble`: nothing / the object / the array), the invocation log is exactly the calls the
specification demands, in order, and `HandleReader` neither fails nor panics. (The real server answers a
batch in the order its workers finish: `every_schedule_answers_every_entry`, and multisets in the harness.) -/
theorem input_meets_spec_partial (env : Env) (tbl : Table) (inp : Input) (es : List Json)
    (hes : inp.entries junoCfg = some es) (htbl : TableOk tbl)
    (hj : ∀ e ∈ es, Judged (!(inp.batch? junoCfg).isSome) e) :
    (∀ e ∈ es, MeetsSpec junoCfg env.sanitize tbl e (handleEntry junoCfg env.sanitize tbl (inp.decodeFailCode junoCfg) e)) ∧
    (handleInputF junoCfg env tbl inp).body =
      assemble (inp.batch? junoCfg).isSome
        ((es.filterMap (fun e => (handleEntry junoCfg env.sanitize tbl (inp.decodeFailCode junoCfg) e).1)).map Response.toJson) ∧
    (handleInputF junoCfg env tbl inp).log =
      es.flatMap (fun e => (handleEntry junoCfg env.sanitize tbl (inp.decodeFailCode junoCfg) e).2) ∧
    (handleInputF junoCfg env tbl inp).goError = false ∧ (handleInputF junoCfg env tbl inp).panicked = false :=
  input_meets_spec_all env tbl inp es hes htbl hj

/-- … and what a request gets when its handler fails: -32603 Internal error carrying the request's id
(so, by `input_meets_spec_partial`, every request with an id is answered even when its handler panics or
returns an unmarshallable value). -/
theorem failing_handler_is_answered_internal_error (env : Env) (n : String) (a : List Json) (id : Json)
    (h : (env.call n a).faulty = true) :
    IsErrorResponse (-32603) id (handlerResponse junoCfg (env.sanitize.call n a) id).toJson :=
  failing_handler_answer junoCfg env n a id h

/-- PARTIAL: no output ⇔ the input is not refused as a whole and every request value in it is a
notification in the sense of the specification (a Request object without `id` member) — for inputs
whose request values are `Judged` (in particular none has `"id": null`), arbitrary handlers. -/
theorem silent_iff_all_notifications_partial (env : Env) (tbl : Table) (inp : Input) (htbl : TableOk tbl)
    (hj : ∀ es, inp.entries junoCfg = some es → ∀ e ∈ es, Judged (!(inp.batch? junoCfg).isSome) e) :
    (handleInputF junoCfg env tbl inp).body = none ↔
      ∃ es, inp.entries junoCfg = some es ∧ ∀ e ∈ es, (specKind e).isNotification = true :=
  silent_iff_spec_all env tbl inp htbl hj

/-- DEFECT (server as it is): `{"jsonrpc":"2.0","method":"m","id":null}` is a request by the
specification (`specKind` = request with id Null, to be answered with id null); the server runs the
handler and answers nothing. -/
theorem request_with_null_id_not_answered :
    (specKind (request "m" [("id", .null)])).isNotification = false
    ∧ (handleInputF junoCfg echoEnv oneMethod (singleInput (request "m" [("id", .null)]))).body = none
    ∧ (handleInputF junoCfg echoEnv oneMethod (singleInput (request "m" [("id", .null)]))).log = [("m", [])] := by
  exact ⟨by rfl, by rfl, by rfl⟩

/-- DEFECT (server as it is; pinned by juno's own tests): the valid JSON text `42` sent as a single request
is answered "-32700 Parse error"; the specification (and the same server for the same value inside a
batch) says -32600 Invalid Request. Likewise `{"jsonrpc":2,"method":"m","id":1}`. -/
theorem single_invalid_request_answered_with_parse_error :
    IsErrorResponse (-32700) .null
      ((handleInputF junoCfg echoEnv oneMethod (singleInput (.num "42"))).body.getD .null)
    ∧ IsErrorResponse (-32700) .null
      ((handleInputF junoCfg echoEnv oneMethod
          (singleInput (.obj [("jsonrpc", .num "2"), ("method", .str "m"), ("id", .num "1")]))).body.getD .null)
    ∧ (handleInputF junoCfg echoEnv oneMethod (batchInput [.num "42"])).body
        = some (.arr [(errResponse (-32600) (some opaqueData)).toJson]) := by
  exact ⟨⟨"Parse error", some opaqueData, by rfl⟩, ⟨"Parse error", some opaqueData, by rfl⟩, by rfl⟩

/-- REGRESSION WITNESS (pinned commit, repaired by 16a67e4): the notification
`{"jsonrpc":"2.0","method":"nope"}` was answered with a -32601 error object; the current server is
silent. -/
theorem notification_defect_before_16a67e4 :
    (stageOf nilEnv oneMethod (request "nope" [])).isNotification = true
    ∧ IsErrorResponse (-32601) .null
        ((handleInput pinnedCfg nilEnv oneMethod (singleInput (request "nope" []))).body.getD .null)
    ∧ (handleInput junoCfg nilEnv oneMethod (singleInput (request "nope" []))).body = none := by
  refine ⟨by rfl, ⟨"Method Not Found", none, by rfl⟩, by rfl⟩

/-! ## 3. Inputs refused as a whole -/

/-- `error_codes`: an input that is refused as a whole (no parsable JSON value; an empty batch;
batches disabled) gets exactly one error object with id null and code -32700 resp. -32600, and no
handler runs. (The codes of individual requests are part of `one_response_per_request`.) -/
theorem error_codes_refused_input (cfg : Config) (env : Env) (tbl : Table) (inp : Input)
    (h : inp.entries cfg = none) :
    ∃ code j, (code = -32700 ∨ code = -32600) ∧
      handleInput cfg env tbl inp = { body := some j, log := [] } ∧ IsErrorResponse code .null j :=
  handleInput_refused cfg env tbl inp h

/-- unparsable input is answered with -32700 whatever the configuration, unless it starts like a
batch while batches are disabled (then -32600 without looking further) -/
theorem error_codes_unparsable (cfg : Config) (env : Env) (tbl : Table) (inp : Input)
    (hp : inp.parsed = none) (hb : isBatch cfg inp = false ∨ cfg.batchDisabled = false) :
    ∃ j, handleInput cfg env tbl inp = { body := some j, log := [] } ∧ IsErrorResponse (-32700) .null j := by
  refine ⟨(errResponse InvalidJSON (some opaqueData)).toJson, ?_, errResponse_isError (-32700) _ (by simp)⟩
  rcases hb with hb | hb
  · simp [handleInput, hb, hp]
  · cases hB : isBatch cfg inp <;> simp [handleInput, hB, hb, hp]

/-! ## 4. Binding: the arguments the caller supplied, identically by position and by name -/

/-- **Bindability.** For a method with distinct parameter names and optional parameters last, and
parameters that are absent, an array, or an object with distinct member names: `buildArguments`
succeeds exactly when the parameters are bindable by §4.2 as spelled out in `specBind` (by position:
not more values than parameters, every parameter left out optional; by name, in ANY member order:
every member names a parameter, every required parameter is named; a `null` argument is "not given"),
and then yields exactly the supplied argument vector (absent optional parameters zero). So the code
-32602 is answered iff the call is not bindable. -/
theorem params_bound_iff_bindable (env : Env) (m : Method) (params : Option Json)
    (hnd : (m.params.map (·.name)).Nodup) (htail : OptionalTail m.params)
    (hkeys : ∀ o, params = some (.obj o) → (o.map (·.1)).Nodup)
    (hshape : params = none ∨ (∃ xs, params = some (.arr xs)) ∨ (∃ o, params = some (.obj o))) :
    (buildArguments env params m).toOption = specBind env m.params params :=
  buildArguments_eq_specBind env m params hnd htail hkeys hshape

/-- The arguments of a positional call: the supplied values decoded in order against the parameter
types, followed by the zero values of the omitted (optional) parameters. -/
theorem positional_args_as_supplied (env : Env) (ps : List Param) (vs args : List Json)
    (hlen : vs.length ≤ ps.length) (h : bindPositional env ps vs = .ok args) :
    args.length = ps.length ∧
    Forall₂ (fun (pv : Param × Json) a => decodeParam env pv.1 pv.2 = some a) (ps.zip vs) (args.take vs.length) ∧
    args.drop vs.length = (ps.drop vs.length).map (fun p => env.zero p.ty) :=
  bindPositional_spec env ps vs args hlen h

/-- Positional and named parameters bind identically: for a method with distinct parameter names
whose optional parameters form a tail, `[v1..vk]` and `{"name1":v1, .., "namek":vk}` give the same
argument vector (or the same error). -/
theorem positional_named_same_args (env : Env) (m : Method) (vs : List Json)
    (hnd : (m.params.map (·.name)).Nodup) (htail : OptionalTail m.params)
    (hmin : requiredParamCount m ≤ vs.length) (hmax : vs.length ≤ m.params.length) :
    buildArguments env (some (.arr vs)) m =
      buildArguments env (some (.obj ((m.params.map (·.name)).zip vs))) m :=
  positional_named env m vs hnd htail hmin hmax

/-! ## 4b. What a plainly written Request object decodes to -/

/-- Go's struct decoding (case-folded names, duplicates, `null`, type errors) collapses to the
obvious reading for a Request object written the ordinary way (no member name twice, none that
merely case-folds onto jsonrpc/method/params/id): the four members are looked up by name; an
ill-typed `jsonrpc` or `method` makes the value undecodable; absent members and `null` are zero. -/
theorem decodeRequest_plain_object (kvs : List (String × Json)) (hp : PlainMembers kvs) :
    decodeRequest (.obj kvs) =
      match stringField (member kvs "jsonrpc"), stringField (member kvs "method") with
      | some v, some m =>
        some { version := v, method := m,
               params := (member kvs "params").bind storeAny, id := (member kvs "id").bind storeAny }
      | _, _ => none :=
  decodeRequest_plain kvs hp

/-! ## 5. Handlers that fail -/

/-- `m` returns something `json.Marshal` rejects, `p` panics -/
def faultyEnv : Env :=
  { decode := fun _ v => some v, zero := fun _ => .null,
    call := fun n args => if n = "p" then { panics := true } else if n = "m" then { result := some .null, marshals := false }
                          else { result := some (.arr args) } }
def faultyTable : Table := [{ name := "m", params := [] }, { name := "p", params := [] }, { name := "ok", params := [] }]

/-- REGRESSION WITNESS (repaired by 6442b48): a request whose handler returned an unmarshallable value got no answer —
single: `HandleReader` fails (HTTP: 500 with an empty body, WebSocket: connection closed); in a batch
the entry is silently missing (`[m#1, ok#2]` → only #2 answered), and a batch of such entries gives no
output at all. A panicking handler in a batch is swallowed by the worker pool: its entry is missing,
the caller sees no panic. The current server answers each with -32603. -/
theorem handler_failure_defect_before_6442b48 :
    let oldCfg : Config := { junoCfg with internalErrorOnHandlerFailure := false }
    let single : Input := singleInput (request "m" [("id", .num "1")])
    let batch : Input :=
      batchInput [request "m" [("id", .num "1")], request "ok" [("id", .num "2")], request "p" [("id", .num "3")]]
    let allLost : Input := batchInput [request "m" [("id", .num "1")]]
    (handleInputF oldCfg faultyEnv faultyTable single).body = none
    ∧ (handleInputF oldCfg faultyEnv faultyTable single).goError = true
    ∧ (handleInputF oldCfg faultyEnv faultyTable batch).body
        = some (.arr [.obj [("jsonrpc", .str "2.0"), ("result", .arr []), ("id", .num "2")]])
    ∧ (handleInputF oldCfg faultyEnv faultyTable batch).panicked = false
    ∧ (handleInputF oldCfg faultyEnv faultyTable batch).log = [("m", []), ("ok", []), ("p", [])]
    ∧ (handleInputF oldCfg faultyEnv faultyTable allLost).body = none
    ∧ IsErrorResponse (-32603) (.num "1")
        ((handleInputF junoCfg faultyEnv faultyTable single).body.getD .null) := by
  exact ⟨by rfl, by rfl, by rfl, by rfl, by rfl, by rfl, ⟨"Internal error", some opaqueData, by rfl⟩⟩

/-! ## 5b. A batch under every schedule and every deadline (`ModelBatch.lean`) -/

/-- For every pool size, every interleaving of the dispatch loop with the workers, and every moment at which
the request context expires (handlers that run afterwards may answer differently: `envLate`): when
`handleBatchRequest` is through, the responses it collected carry — as a multiset, in completion order —
exactly the ids of the in-order computation of `Model.lean`, and exactly the same handler calls were made:
no entry is lost, none is answered or invoked twice, a deadline costs no response. (Invariant over the
reachable states, by induction over the steps. A `break` on `ctx.Err()` in the dispatch loop is a different
transition system: the harness' deadline family tests that the code has none.) -/
theorem every_schedule_answers_every_entry (cfg : Config) (env envLate : Env) (tbl : Table) (pool : Nat)
    (es : List Json) (hsame : SameBinding env envLate) (s : BatchSt)
    (hreach : BatchReach cfg env envLate tbl pool es s) (hfin : s.final) :
    (s.done.map (·.id)).Perm ((batchResponses cfg env tbl es).map (·.id)) ∧
    s.log.Perm (batchLog cfg env tbl es) := by
  obtain ⟨hi, hl⟩ := batchInv_reach cfg env envLate tbl pool es hsame s hreach
  obtain ⟨ht, hr⟩ := hfin
  simp only [ht, hr, idsOf, batchResponses, batchEntries, batchLog, List.map_nil, List.filterMap_nil,
    List.flatMap_nil, List.append_nil] at hi hl
  exact ⟨hi, hl⟩

/-- … and with at least one worker the batch can always make progress until it is through (no state in which
the loop waits for a slot that never frees). -/
theorem batch_never_stuck (cfg : Config) (env envLate : Env) (tbl : Table) (pool : Nat) (hpool : 1 ≤ pool)
    (s : BatchSt) (hnot : ¬ s.final) :
    ∃ t, BatchStep cfg env envLate tbl pool s t ∧ (t.todo.length + t.running.length < s.todo.length + s.running.length
      ∨ (t.todo.length < s.todo.length)) := by
  cases hr : s.running with
  | cons x b =>
    exact ⟨_, BatchStep.finish s [] x b (by simpa using hr), by simp⟩
  | nil =>
    cases ht : s.todo with
    | nil => exact absurd ⟨ht, hr⟩ hnot
    | cons x rest =>
      by_cases hd : decodeRequest x = none
      · exact ⟨_, BatchStep.undecodable s x rest ht hd, by simp [hr]⟩
      · exact ⟨_, BatchStep.dispatch s x rest ht hd (by simp [hr]; omega), by simp [hr]⟩

/-! ## 6. Batch recognition -/

/-- FULL, for the server as it is (since 4590891): every input whose first non-blank byte is `[` is handled as a
batch, however many blanks precede it. -/
theorem array_input_is_batch (inp : Input) (h : inp.firstIsBracket = true) : isBatch junoCfg inp = true := by
  rw [isBatch_iff]; exact ⟨h, by simp [junoCfg]⟩

/-- REGRESSION WITNESS (repaired by 4590891): 128 blanks followed by a valid one-element batch got one -32700
error object instead of the array of responses, and the handler did not run; the current server runs it. -/
theorem batch_after_128_blanks_defect_before_4590891 :
    let inp : Input := { leadWs := 128, firstIsBracket := true,
                         parsed := some (.arr [request "m" [("id", .num "1")]]) }
    let oldCfg : Config := { junoCfg with peekLimit := some 128 }
    IsErrorResponse (-32700) .null ((handleInput oldCfg nilEnv oneMethod inp).body.getD .null)
    ∧ (handleInput oldCfg nilEnv oneMethod inp).log = []
    ∧ (handleInput junoCfg nilEnv oneMethod inp).log = [("m", [])] := by
  refine ⟨⟨"Parse error", some opaqueData, by rfl⟩, by rfl, by rfl⟩

/-- The optional-tail hypothesis of `positional_named_same_args` is necessary: with an optional
parameter BEFORE a required one, the positional call `[7]` zero-fills the required parameter and
runs the handler, while the named call `{"a":7}` is rejected. (No table juno serves has this shape:
checked by the harness on `rpc.Handler.MethodsV0_8/9/10` at every run.) -/
theorem positional_named_differ_without_optional_tail :
    let m : Method := { name := "m", params := [{ name := "a", optional := true }, { name := "b" }] }
    buildArguments echoEnv (some (.arr [.num "7"])) m = .ok [.num "7", .null]
    ∧ (∃ e, buildArguments echoEnv (some (.obj [("a", .num "7")])) m = .error e) := by
  exact ⟨by rfl, ⟨_, by rfl⟩⟩

/-- The window behind the `TeeReader` — and with it everything the pretty printer computes — depends
only on the bytes that were read, not on how the reads were segmented. (That the dispatcher's answer
does not depend on the segmentation is built into the model: it is a function of the parsed value.
That `Write` copies instead of keeping its argument, whose storage belongs to the JSON decoder, is
tied by the harness: every request is also fed through segmenting readers.) -/
theorem pretty_window_independent_of_segmentation (a b : List (List UInt8)) (h : a.flatten = b.flatten) :
    Pretty.Win.writes {} a = Pretty.Win.writes {} b :=
  Pretty.writes_segmentation_independent a b h

/-! ## 7. The parse-error pretty printer never indexes out of range (`pretty_error.go`) -/

/-- After any sequence of reads (the chunks the JSON decoder pulls through the `TeeReader`), the
window buffer holds at most 512 bytes, not more than were consumed, and they are exactly the last
bytes of everything read so far (invariant proved by induction over the reads). -/
theorem pretty_window_invariant (chunks : List (List UInt8)) :
    (Pretty.Win.writes {} chunks).Inv ∧ (Pretty.Win.writes {} chunks).IsSuffixOf chunks.flatten := by
  refine ⟨Pretty.inv_writes _ _ Pretty.inv_init, ?_⟩
  have := Pretty.suffix_writes {} [] chunks (by simp [Pretty.Win.IsSuffixOf])
  simpa using this

/-- For every sequence of reads, every number of leading blanks `isBatch` consumed before the decoder started
(`skippedBytes`, at most what was read) and every decode error (any offset, also 0 or negative): if a caret
is drawn, its position lies inside the window — so none of the
slices `window[markerPos:]`, `window[:markerPos]`, `input[offset:]` in `lineAndColumn`,
`offendingLine`, `describeSyntaxError`, `precedingLines` can panic. -/
theorem pretty_error_indices_in_range (chunks : List (List UInt8)) (err : Pretty.DecodeErr) (skipped : Nat)
    (hsk : skipped ≤ (Pretty.Win.writes {} chunks).consumedBytes)
    (pos : Pretty.Pos) (h : Pretty.position (Pretty.Win.writes {} chunks) err skipped = some pos) :
    pos.markerPos ≤ (Pretty.Win.writes {} chunks).window.length :=
  (Pretty.position_in_range _ err pos (Pretty.inv_writes _ _ Pretty.inv_init) skipped hsk h).1

/-- `truncateAround` for a line of any length and any column ≥ 1: the rune slice `[start:end]` is
valid and the caret column stays ≥ 1 (`strings.Repeat(" ", markerCol-1)` gets no negative count). -/
theorem pretty_truncate_in_range (len : Nat) (pivot : Int) (hp : 1 ≤ pivot) (s e mc : Int)
    (h : Pretty.truncateAround len pivot = some (s, e, mc)) :
    0 ≤ s ∧ s ≤ e ∧ e ≤ len ∧ 1 ≤ mc :=
  Pretty.truncateAround_in_range len pivot hp s e mc h

/-- (round 4) The WHOLE of `prettyParseError` — `describeError` / `describeSyntaxError` / `precededByComma`,
`lineAndColumn`, `offendingLine`, `truncateAround` on the real runes, `precedingLines`, `drawMarker` — in the
checked transcription `Pretty.prettyParseError?` (every Go slice expression and the `strings.Repeat` count
return `none` where Go would panic): for every sequence of reads, every number of skipped leading blanks
(at most what was read) and every decode error (any kind, any offset, any error text) the text of the
-32700 answer is produced; no index is out of range, no repeat count negative. -/
theorem pretty_text_never_panics (chunks : List (List UInt8)) (skipped : Nat) (e : Pretty.ErrInfo)
    (hsk : skipped ≤ (Pretty.Win.writes {} chunks).consumedBytes) :
    ∃ t, Pretty.prettyParseError? (Pretty.Win.writes {} chunks) skipped e = some t :=
  Pretty.prettyParseError_ok _ skipped e (Pretty.inv_writes _ _ Pretty.inv_init) hsk

/-- (round 4) What is drawn is bounded: a line that went through `truncateAround` has at most
`maxLineWidth` = 80 runes (for every line and every pivot, also out-of-range ones), and at most
`maxContextRows` = 3 rows are drawn above the offending line. -/
theorem pretty_text_bounded (runes : List Nat) (pivot : Int) (r : Option (List Nat)) (p : Int)
    (window : List UInt8) (windowStart markerPos : Nat) (rows : List (List UInt8))
    (h : Pretty.truncateRunes? runes pivot = some (r, p))
    (hr : Pretty.precedingLines? window windowStart markerPos = some rows) :
    Pretty.drawnLength runes r ≤ 80 ∧ rows.length ≤ 3 := by
  refine ⟨Pretty.truncateRunes_width runes pivot r p h, ?_⟩
  by_cases hm : markerPos ≤ window.length
  · obtain ⟨rows', hr', hl⟩ := Pretty.precedingLines_ok window windowStart markerPos hm
    rw [hr] at hr'
    cases hr'
    exact hl
  · unfold Pretty.precedingLines? at hr
    have : markerPos > window.length := by omega
    simp [this] at hr

/-- (round 4) Cutting a long line keeps the caret on the rune it named: if column `pivot` names a rune of the
line (1 ≤ pivot ≤ number of runes) and `truncateAround` cuts the line, the rune at the new column of what
is drawn is the rune at the old column of the line. -/
theorem pretty_caret_names_same_rune (runes : List Nat) (pivot : Int) (h1 : 1 ≤ pivot)
    (hlt : pivot - 1 < (runes.length : Int)) (rs : List Nat) (p : Int)
    (h : Pretty.truncateRunes? runes pivot = some (some rs, p)) :
    rs[(p - 1).toNat]? = runes[(pivot - 1).toNat]? :=
  Pretty.truncateRunes_caret runes pivot h1 hlt rs p h

/-! ## 8. The validator of rpc/v10 (arithmetic) -/

/-- `felt_max_bits=b` accepts exactly the values below 2^b -/
theorem feltMaxBits_spec (n b : Nat) : feltMaxBits n b = true ↔ n < 2 ^ b := by
  simp [feltMaxBits, bitLen_le_iff]

/-- `version_0x3` accepts exactly the two version felts 3 and 2^128 + 3 (the query bit) -/
theorem version03_spec (n : Nat) : version03 n = true ↔ n = 3 ∨ n = 2 ^ 128 + 3 := by
  simp [version03]

/-- the validator on a resource-bounds-like struct: amount below 2^64, price below 2^128, version 3
with or without the query bit -/
theorem boundsValid_spec (ma mp ver : Nat) :
    boundsValid ma mp ver = true ↔ ma < 2 ^ 64 ∧ mp < 2 ^ 128 ∧ (ver = 3 ∨ ver = 2 ^ 128 + 3) := by
  simp [boundsValid, feltMaxBits, bitLen_le_iff, version03, and_assoc]

/-! ## 9. The admission gate of the HTTP transport (`jsonrpc/gate.go`, round 4)

An overloaded server may refuse a request with 503 (by design: outside the property). What the property
needs from the gate is that it does not refuse for ever: its counters describe exactly the requests
that are still there. -/

/-- In every state the gate can reach from `NewGate(c, q)` by any sequence of `Acquire` (with a live or
an already cancelled context), `Release`, and contexts of queued requests ending: slots in use never
exceed `c`, `activeRequests` is exactly slots in use + goroutines queued in `Acquire` and never exceeds
`maxRequests`, and nobody is queued while a slot is free. -/
theorem gate_invariant (c q : Nat) (ops : List Gate.Op) : ((Gate.St.new c q).run ops).Inv :=
  Gate.run_inv _ ops (Gate.inv_new c q)

/-- After ANY history (requests refused, clients gone while queued, deadlines expired in the queue …), once
no request holds a slot and none is queued, the gate counts nothing (`activeRequests = 0`) and admits the
next request at once: no history makes an idle server refuse for ever. -/
theorem gate_idle_server_admits (c q : Nat) (hc : 1 ≤ c) (hc' : c < Gate.two64) (hq : q < Gate.two64)
    (ops : List Gate.Op)
    (hs : ((Gate.St.new c q).run ops).sem = 0) (hw : ((Gate.St.new c q).run ops).waiting = 0) :
    ((Gate.St.new c q).run ops).active = 0 ∧
      (((Gate.St.new c q).run ops).step (.acquire false)).2 = .admitted := by
  have hp := Gate.run_params (Gate.St.new c q) ops
  refine Gate.quiescent_admits _ (gate_invariant c q ops) hs hw ?_ ?_
  · rw [hp.1]; exact hc
  · rw [hp.2]
    show 1 ≤ Gate.newMax c q
    rw [Gate.newMax_spec c q hc' hq]
    simp only [Gate.two64] at *
    omega

/-- In every reachable state a live `Acquire` is refused (`ErrServerBusy`) exactly when requests in
progress + queued have reached `maxRequests`, and admitted at once exactly when a slot is free and the
gate is not full (otherwise it queues). -/
theorem gate_refuses_iff_full (c q : Nat) (ops : List Gate.Op) :
    let s := (Gate.St.new c q).run ops
    ((s.step (.acquire false)).2 = .busy ↔ s.active = s.maxRequests) ∧
    ((s.step (.acquire false)).2 = .admitted ↔ s.sem < s.maxConcurrent ∧ s.active < s.maxRequests) :=
  ⟨Gate.busy_iff_full _ (gate_invariant c q ops), Gate.admitted_iff_free_slot _⟩

/-- `NewGate`: `maxRequests` is the sum of the two limits in `uint64`, saturated at `math.MaxUint64` — the
overflow guard never yields a small (wrapped) limit. -/
theorem gate_max_requests_saturates (c q : Nat) (hc : c < Gate.two64) (hq : q < Gate.two64) :
    Gate.newMax c q = min (c + q) (Gate.two64 - 1) :=
  Gate.newMax_spec c q hc hq

/-- Round 6 — `HTTP.ServeHTTP` with a gate, one POST from arrival to return (`postGateOps`: `Acquire`, then the
deferred `Release` on every way out — answer written, nothing to write for notifications, Go error, panic; a request
whose context is already done holds nothing). In ANY reachable state of the gate (whatever other requests hold slots
or wait) with a free slot and room, such a POST is admitted and leaves the gate exactly as it found it: no kind of
request, answered or not, costs capacity. -/
theorem gate_post_leaves_no_trace (c q : Nat) (ops : List Gate.Op) (live : Bool) (e : PostExit)
    (hfree : ((Gate.St.new c q).run ops).sem < ((Gate.St.new c q).run ops).maxConcurrent)
    (hroom : ((Gate.St.new c q).run ops).active < ((Gate.St.new c q).run ops).maxRequests) :
    ((Gate.St.new c q).run ops).run (postGateOps live e) = (Gate.St.new c q).run ops ∧
      (live = true → (((Gate.St.new c q).run ops).step (.acquire false)).2 = .admitted) :=
  ⟨postGateOps_restores _ (gate_invariant c q ops) hfree hroom live e,
   fun _ => (acquire_release_restores _ (gate_invariant c q ops) hfree hroom).2⟩

/-- Sequential traffic of any length and any mix (requests, notifications, batches of notifications, failing
handlers, requests that arrive with an expired deadline) on `NewGate(c, q)`, `c ≥ 1`: every live POST is admitted,
every dead one gets its context error, and after each of them `Running() = 0`, `Queued() = 0`, `Rejected() = 0`. -/
theorem gate_sequential_posts_all_admitted (c q : Nat) (hc : 1 ≤ c) (hc' : c < Gate.two64) (hq : q < Gate.two64)
    (xs : List (Bool × PostExit)) :
    (Gate.St.new c q).posts xs = xs.map (fun x => (if x.1 then Gate.Outcome.admitted else .ctxErr, 0, 0, 0)) ∧
      (Gate.St.new c q).run (xs.flatMap (fun x => postGateOps x.1 x.2)) = Gate.St.new c q := by
  have hroom : (Gate.St.new c q).active < (Gate.St.new c q).maxRequests := by
    have := newMax_pos c q hc hc' hq
    simp only [Gate.St.new]; omega
  have hfree : (Gate.St.new c q).sem < (Gate.St.new c q).maxConcurrent := by simp only [Gate.St.new]; omega
  exact ⟨posts_trace _ (Gate.inv_new c q) hfree hroom xs, posts_flatMap_restores _ (Gate.inv_new c q) hfree hroom xs⟩

/-! ## 10. The response comes first on its connection (`HandleReadWriter`, `connection.Write`, round 4) -/

/-- Handlers may hand the connection of their request to goroutines that write further messages
(subscriptions). For every interleaving of those writes with `HandleReadWriter` — any number of goroutines,
calling `connection.Write` before or after the request finishes, unblocked in any order: nothing reaches the
wire before the request is finished; afterwards the wire is what `Conn.outcome` says — the request's
response first (none for a notification), then only pushed messages; and if the response could not be
written (or `HandleReader` failed) nothing is ever written and every push is refused. -/
theorem conn_response_precedes_pushes (fin : Conn.Finish) (s : Conn.St) (h : Conn.Reach fin s) :
    (s.activated = false → s.wire = []) ∧
    (s.activated = true → ∃ ps, s.wire = (Conn.outcome fin ps).1 ∧ (fin.fails = false → s.refused = [])) := by
  obtain ⟨h1, h2, h3⟩ := Conn.inv_reach fin s h
  refine ⟨fun ha => (h1 ha).1, fun ha => ?_⟩
  by_cases hf : fin.fails = true
  · exact ⟨[], by simp [Conn.outcome, hf, (h2 ha hf).2], fun h => by simp [hf] at h⟩
  · have hf' : fin.fails = false := by simpa using hf
    obtain ⟨_, hr, ps, hw⟩ := h3 ha hf'
    exact ⟨ps, by simp [Conn.outcome, hf', hw], fun _ => hr⟩

/-- The WebSocket connection limit admits a client exactly when fewer than `max` connections hold the
semaphore. -/
theorem ws_limit_connect_iff (l : Conn.Limit) : (l.step .connect).2 = true ↔ l.openConns < l.max :=
  Conn.limit_connect_iff l

/-! ## 11. The method table (`RegisterMethods` / `registerMethod`, round 4) -/

/-- A handler `registerMethod` accepts is a function whose parameters — after an optional leading
`context.Context` — are exactly as many as the declared parameter names, and which returns `(result, *Error)`
or `(result, http.Header, *Error)`: what `buildArguments` (`handlerType.In(i+addContext)` for every declared
parameter) and `handleRequest` (`tuple[1].(http.Header)`, `tuple[errorIndex].(*Error)`) rely on. -/
theorem registered_handler_shape (d : MethodDecl) (h : checkMethod d = none) :
    d.sig.isFunc = true ∧
    d.sig.ins.length = d.method.params.length + (if needsContext d.sig then 1 else 0) ∧
    ((∃ a, d.sig.outs = [a, .errPtr]) ∨ (∃ a, d.sig.outs = [a, .header, .errPtr])) :=
  checkMethod_none d h

/-- `RegisterMethods` registers exactly the methods before the first one it rejects (in order, after what
the table held before) and returns that method's error; with no rejection all are registered. -/
theorem register_methods_registers_prefix (tbl : Table) (ds : List MethodDecl) :
    ∃ ok : List MethodDecl, ok <+: ds ∧ (registerMethods tbl ds).1 = tbl ++ ok.map (·.method) ∧
      (∀ d ∈ ok, checkMethod d = none) ∧
      (match (registerMethods tbl ds).2 with
        | none => ok = ds
        | some e => ∃ bad, (ds.drop ok.length).head? = some bad ∧ checkMethod bad = some e) :=
  registerMethods_prefix tbl ds

/-! ## 12. Around the response: listener calls and headers (`ModelEvents.lean`, round 5)

`handleInputX` transcribes `HandleReader` / `handleBatchRequest` / `handleRequest` at HEAD with everything they
do besides answering: the calls on the `EventListener` (the node's request metrics), the `http.Header` of
3-value handlers, `marshalResponse`'s fallback. -/

/-- The extended transcription IS the server the other theorems speak about: for every input, table, handler
behaviour (also panicking / unmarshallable) it writes the body and makes the handler calls of
`handleInputF junoCfg` (batches enabled or disabled). -/
theorem extended_model_answers_like_server (bd : Bool) (env : Env) (hdr : String → List Json → Header) (tbl : Table)
    (inp : Input) :
    (handleInputX bd env hdr tbl inp).body = (handleInputF { junoCfg with batchDisabled := bd } env tbl inp).body ∧
    (handleInputX bd env hdr tbl inp).log = (handleInputF { junoCfg with batchDisabled := bd } env tbl inp).log :=
  handleInputX_body_log bd env hdr tbl inp

/-- "invokes its handler exactly once", as the listener sees it: the `OnRequestHandled` calls of an input are —
one for one, same method, same order — the handler invocations of the server (`handleInputF`), whatever the
handlers do (return, fail, panic). -/
theorem listener_handled_once_per_invocation (bd : Bool) (env : Env) (hdr : String → List Json → Header) (tbl : Table)
    (inp : Input) :
    (handleInputX bd env hdr tbl inp).events.filterMap Event.handled? =
      (handleInputF { junoCfg with batchDisabled := bd } env tbl inp).log.map (·.1) := by
  rw [handleInputX_handled, (handleInputX_body_log bd env hdr tbl inp).2]

/-- The listener calls of ONE request value have one of four shapes — nothing (invalid request, unknown method),
`OnNewRequest` alone (parameters do not bind), `OnNewRequest, OnRequestHandled` (the handler ran), or
`OnNewRequest, OnRequestFailed, OnRequestHandled` — and `OnRequestFailed` is only called for a request that is
answered with -32603 Internal error; a handler's header is only kept for a request that is answered and whose
handler ran (never for a notification). -/
theorem listener_calls_of_a_request (env : Env) (hdr : String → List Json → Header) (tbl : Table) (c : Int) (j : Json) :
    EventsShape (handleEntryX env hdr tbl c j).events ∧
    ((handleEntryX env hdr tbl c j).events.filterMap Event.failed? ≠ [] →
      ∃ r e, (handleEntryX env hdr tbl c j).resp = some r ∧ r.error = some e ∧ e.code = -32603) ∧
    ((handleEntryX env hdr tbl c j).header ≠ [] →
      (handleEntryX env hdr tbl c j).resp.isSome = true ∧ (handleEntryX env hdr tbl c j).log ≠ []) :=
  let h := handleEntryX_events env hdr tbl c j _ rfl
  ⟨h.1, h.2.2.1, h.2.2.2⟩

/-- `OnNewRequest(method)` is called exactly for sane requests whose method is registered (before the
parameters are looked at). -/
theorem listener_new_request_iff_method_known (env : Env) (hdr : String → List Json → Header) (tbl : Table)
    (req : Request) :
    (handleRequestX env hdr tbl req).events.filterMap Event.newRequest? = [req.method] ↔
      isSane req = none ∧ (lookupMethod tbl req.method).isSome = true :=
  (handleRequestX_events env hdr tbl req _ rfl).2.2.1

/-- The header `handleBatchRequest` returns: per key, exactly the values of the headers of the batch's entries,
in request order in the in-order model (unanswered entries contribute nothing) … -/
theorem batch_header_is_union_of_entry_headers (env : Env) (hdr : String → List Json → Header)
    (hwf : ∀ n a, (hdr n a).WF) (tbl : Table) (inp : Input) (x : Json) (xs : List Json)
    (hb : inp.firstIsBracket = true) (hp : inp.parsed = some (.arr (x :: xs))) (k : String) :
    (handleInputX false env hdr tbl inp).header.values k =
      (x :: xs).flatMap (fun e => (handleEntryX env hdr tbl InvalidRequest e).header.values k) :=
  batch_header_values env hdr hwf tbl inp x xs hb hp k

/-- … and in whatever order the workers finish (`headers` is appended to under the mutex in completion
order), the merged header has per key the same values as a multiset: none lost, none duplicated. -/
theorem batch_header_independent_of_schedule (hs hs' : List Header) (hwf : ∀ h ∈ hs, h.WF) (hp : hs.Perm hs')
    (k : String) : ((mergeHeaders hs).values k).Perm ((mergeHeaders hs').values k) :=
  mergeHeaders_perm hs hs' hwf hp k

/-- `HTTP.ServeHTTP`: the `Content-Type` of a POST answer is `application/json` unless the header returned by
`HandleReader` (a 3-value handler's) itself has a `Content-Type` — `maps.Copy` overwrites; with a body the
answer is framed by `Content-Encoding: gzip` (client accepts gzip) or else by `Content-Length`. -/
theorem http_post_headers (g : Bool) (o : OutputX) (hwf : o.header.WF) :
    (httpPostHeaders g o).values "Content-Type" =
      (if o.header.has "Content-Type" then o.header.values "Content-Type" else ["application/json"]) ∧
    (∀ b, o.body = some b → g = true → (httpPostHeaders g o).values "Content-Encoding" = ["gzip"]) ∧
    (∀ b, o.body = some b → g = false → (httpPostHeaders g o).values "Content-Length" = ["#"]) := by
  refine ⟨http_content_type g o hwf, fun b hb hg => ?_, fun b hb hg => (http_body_framing g o b hb).2 hg⟩
  have := (http_body_framing g o b hb).1
  simpa [hg] using this

/-! ## 13. The WebSocket read loop keeps the connection's byte stream in step (`ModelWsLoop.lean`, round 6)

`ModelTransport.wsSession` is a `map` over messages and cannot say that bytes of one frame never reach the handling
of the next message. `WsLoop.run` has the reader position: after `HandleReadWriter` some payload bytes of the
message are unread (the JSON decoder stops after the first value), the library parses whatever comes next as a frame
header, and only the drain step (`io.Copy(io.Discard, wsc.r)`) puts the stream back on a frame boundary. -/

/-- For every session (any number of messages, fragmented or not, of any size) and for EVERY amount of payload the
decoder happened to read: each message up to and including the first whose `HandleReadWriter` fails is handed over
exactly once, in the order sent, starting at its first byte; the loop ends only because the client closed or
because of that failure, and `OnNewRequest("any")` is called once per handled message. -/
theorem ws_loop_handles_every_message_from_its_start (ms : List WsLoop.Msg) :
    WsLoop.run WsLoop.drainAll 0 ms =
      (if (WsLoop.okPrefix ms).length = ms.length then (WsLoop.handledFrom 0 ms.length, .clientClosed)
       else (WsLoop.handledFrom 0 ((WsLoop.okPrefix ms).length + 1), .handlerError)) ∧
    (∀ u, (WsLoop.run WsLoop.drainAll 0 ms).2 ≠ .outOfStep u) :=
  ⟨WsLoop.run_drainAll 0 ms, WsLoop.run_drainAll_in_step 0 ms⟩

/-- The statement has content: a drain bounded by one buffer (128 bytes) loses step on a 300-byte frame of which the
decoder read 40 bytes — the second message is never handled. (The change `io.CopyN(io.Discard, wsc.r, bufferSize)`
was seeded against an earlier round; this is its witness on the model.) -/
theorem ws_loop_bounded_drain_loses_step :
    WsLoop.run (WsLoop.drainAtMost 128) 0 [{ frames := [300], taken := 40 }, { frames := [10], taken := 10 }]
      = ([{ index := 0, fromStart := true }], .outOfStep 132) := by decide

/-- The close reason the server sends after a failure is a prefix of the error text of at most 125 bytes, the whole
text when it fits. (The library accepts 123: see notes, not part of the property.) -/
theorem ws_close_reason_bounded (err : List UInt8) :
    (WsLoop.closeReason err).length ≤ 125 ∧ WsLoop.closeReason err <+: err ∧
      (err.length ≤ 125 → WsLoop.closeReason err = err) :=
  WsLoop.closeReason_spec err

/-! ## 14. "bad parameters" for the broadcasted transaction: the conditional rules of `rpcv10.Validator()` (round 6)

`ModelTxRules.lean` transcribes the `validate:` tags of `rpcv10.Transaction` / `BroadcastedTransaction` as the
validator evaluates them with the custom type function `Validator()` registers for `TransactionType`. -/

/-- For every transaction type and every set of members present: the parameter passes validation iff it carries
every member its type needs — the eight common ones, plus `sender_address`, `calldata`, `account_deployment_data`
(INVOKE), `sender_address`, `account_deployment_data`, `contract_class` (DECLARE), `contract_address_salt`,
`class_hash`, `constructor_calldata` (DEPLOY_ACCOUNT / DEPLOY) — and, unless it is an INVOKE, neither `proof_facts`
nor `proof`. A request whose parameter does not pass is answered -32602 and its handler does not run
(`request_meets_spec_partial`, through `Env.decode`). -/
theorem broadcasted_tx_accepted_iff_required_members (ty : TxRules.TxType) (present : TxRules.Field → Bool) :
    TxRules.accepts ty present = true ↔
      (∀ f ∈ TxRules.requiredFor ty, present f = true) ∧
      (ty ≠ .invoke → present .proofFacts = false ∧ present .proof = false) :=
  TxRules.accepts_iff ty present

/-- What the tag `validate:"required"` on `Type` does NOT do (the code as it is): a parameter without a `type` member
passes validation when the eight common members are there — the custom type function turns the zero value into the
non-empty string "<unknown>". -/
theorem broadcasted_tx_without_type_passes_validation :
    TxRules.accepts .unknown (fun f => f ∈ TxRules.requiredFor .unknown) = true := by decide

/-! ## Non-vacuity: the hypotheses are satisfiable, the model does what the examples of the
specification say -/

def subTable : Table :=
  [{ name := "subtract", params := [{ name := "minuend" }, { name := "subtrahend" }] },
   { name := "opt", params := [{ name := "a" }, { name := "b", optional := true }] }]

example : PlainMembers [("jsonrpc", .str "2.0"), ("method", .str "m"), ("extra", .null), ("id", .num "1")] := by
  refine ⟨by decide, ?_⟩
  intro kv hkv
  simp only [List.mem_cons, List.mem_nil_iff, or_false] at hkv
  rcases hkv with rfl | rfl | rfl | rfl <;> simp <;> decide
example : NoNilResult echoEnv := fun _ _ => Or.inl rfl
example : ResultsOk { junoCfg with nullForNilResult := true } nilEnv := Or.inl rfl
example : OptionalTail [{ name := "a" }, { name := "b", optional := true }] := by simp [OptionalTail]
-- a positional and a named call of the specification, a notification, an unknown method in a batch
example : (handleInput junoCfg echoEnv subTable
    (singleInput (request "subtract" [("params", .arr [.num "42", .num "23"]), ("id", .num "1")]))).body
    = some (.obj [("jsonrpc", .str "2.0"), ("result", .arr [.num "42", .num "23"]), ("id", .num "1")]) := by rfl
example : (handleInput junoCfg echoEnv subTable
    (singleInput (request "subtract" [("params", .obj [("subtrahend", .num "23"), ("minuend", .num "42")]), ("id", .num "3")]))).body
    = some (.obj [("jsonrpc", .str "2.0"), ("result", .arr [.num "42", .num "23"]), ("id", .num "3")]) := by rfl
example : (handleInput junoCfg echoEnv subTable (singleInput (request "opt" [("params", .arr [.num "7"])]))).body = none
    ∧ (handleInput junoCfg echoEnv subTable (singleInput (request "opt" [("params", .arr [.num "7"])]))).log
        = [("opt", [.num "7", .null])] := ⟨by rfl, by rfl⟩
example : ({ leadWs := 0, firstIsBracket := true,
             parsed := some (.arr [request "nope" [("id", .str "a")], .num "1"]) } : Input).entries junoCfg
    = some [request "nope" [("id", .str "a")], .num "1"] := by rfl
-- the pretty printer: a line of 100 runes is cut around column 60, a short one is not; `[1,]` read in one chunk
set_option maxRecDepth 8000 in
example : (Pretty.truncateRunes? (List.replicate 100 97) 60).map (fun x => (x.1.map List.length, x.2)) = some (some 80, 41) := by
  decide
example : Pretty.truncateRunes? [91, 49, 44, 93] 4 = some (none, 4) := by decide
example : ∃ rows, Pretty.precedingLines? [91, 10, 49, 44, 10, 93] 0 5 = some rows ∧ rows.length = 2 := ⟨_, rfl, by decide⟩
example : (0 : Nat) ≤ (Pretty.Win.writes {} [[91, 49, 44, 93]]).consumedBytes := by decide
-- the gate: Gate(1,1) — admitted, queued, refused, the queued client leaves, release: idle again, admitted
example : ((Gate.St.new 1 1).trace [.acquire false, .acquire false, .acquire false, .waiterCtxDone, .release, .acquire false]).map (·.1)
    = [.admitted, .queued, .busy, .ctxErr, .noop, .admitted] := by decide
example : ((Gate.St.new 1 1).run [.acquire false, .acquire false, .waiterCtxDone, .release]).sem = 0
    ∧ ((Gate.St.new 1 1).run [.acquire false, .acquire false, .waiterCtxDone, .release]).waiting = 0 := by decide
example : Gate.newMax 2 (Gate.two64 - 1) = Gate.two64 - 1 ∧ Gate.newMax 2 (Gate.two64 - 3) = Gate.two64 - 1
    ∧ Gate.newMax 2 (Gate.two64 - 4) = Gate.two64 - 2 := by decide
-- round 6: three POSTs alone at Gate(1,0) — a request, a notification, one with an expired deadline
example : (Gate.St.new 1 0).posts [(true, .answered), (true, .silent), (false, .answered), (true, .panicked)]
    = [(.admitted, 0, 0, 0), (.admitted, 0, 0, 0), (.ctxErr, 0, 0, 0), (.admitted, 0, 0, 0)] := by decide
-- a POST beside a held slot: Gate(2,0), one slot held, free slot and room
example : ((Gate.St.new 2 0).run [.acquire false]).sem < ((Gate.St.new 2 0).run [.acquire false]).maxConcurrent
    ∧ ((Gate.St.new 2 0).run [.acquire false]).active < ((Gate.St.new 2 0).run [.acquire false]).maxRequests := by decide
-- the connection: a goroutine tries to push before the response is out, another afterwards
example : Conn.Reach { hasResponse := true } { wire := [.response, .pushed 0, .pushed 1], activated := true } := by
  have s1 := Conn.Reach.step Conn.Reach.init (Conn.Step.block (fin := { hasResponse := true }) {} 0 rfl)
  have s2 := Conn.Reach.step s1 (Conn.Step.finish _ rfl)
  have s3 := Conn.Reach.step s2 (Conn.Step.unblock _ [] 0 [] rfl rfl)
  exact Conn.Reach.step s3 (Conn.Step.late _ 1 rfl)
example : (Conn.Limit.mk 2 0).trace [.connect, .connect, .connect, .disconnect, .connect] = [true, true, false, true, true] := by decide
-- registration: (ctx, x) -> (any, *Error) with one declared parameter is accepted; a header in second place of two is not
def declAccepted : MethodDecl :=
  { method := { name := "m", params := [{ name := "a" }] }, sig := { ins := [.ctx, .other], outs := [.other, .errPtr] } }
def declRejected : MethodDecl :=
  { method := { name := "m", params := [] }, sig := { ins := [], outs := [.other, .header] } }
example : checkMethod declAccepted = none := by decide
example : checkMethod declRejected = some .secondNotError := by decide
example : (registerMethods [] [declAccepted, declRejected, declAccepted]).2 = some .secondNotError
    ∧ (registerMethods [] [declAccepted, declRejected, declAccepted]).1.length = 1 := by decide
example : feltMaxBits (2 ^ 64 - 1) 64 = true ∧ feltMaxBits (2 ^ 64) 64 = false := by
  refine ⟨(feltMaxBits_spec _ _).mpr (by decide), ?_⟩
  rw [Bool.eq_false_iff, Ne, feltMaxBits_spec]
  decide
-- round 6: a session of three messages (fragmented, with unread remainders), the second fails to write its answer
example : WsLoop.run WsLoop.drainAll 0
    [{ frames := [100, 200], taken := 128 }, { frames := [70000], taken := 64, ok := false }, { frames := [5], taken := 5 }]
    = ([{ index := 0, fromStart := true }, { index := 1, fromStart := true }], .handlerError) := by decide
example : (WsLoop.run WsLoop.drainAll 0 [{ frames := [300], taken := 40 }, { frames := [], taken := 0 }]).2 = .clientClosed := by
  decide
-- round 6: an INVOKE with exactly its members passes; without `calldata` it does not; a DECLARE with `proof` does not
example : TxRules.accepts .invoke (fun f => f ∈ TxRules.requiredFor .invoke) = true := by decide
example : TxRules.accepts .invoke (fun f => f ∈ TxRules.requiredFor .invoke && f != .calldata) = false := by decide
example : TxRules.accepts .declare (fun f => f ∈ TxRules.requiredFor .declare || f == .proof) = false := by decide
-- round 5: the listener and the headers. `h` returns a header, `p` panics, `m` returns an unmarshallable value
def hdrOf : String → List Json → Header := fun n _ => if n = "ok" then [("X-Verif-Method", [n])] else []
example : (handleInputX false faultyEnv hdrOf faultyTable
    (batchInput [request "ok" [("id", .num "1")], request "p" [("id", .num "2")], request "m" [("id", .num "3")],
                 request "ok" [], request "nope" [("id", .num "4")]])).events
    = [.newRequest "ok", .handled "ok", .newRequest "p", .failed "p", .handled "p", .newRequest "m", .handled "m",
       .newRequest "ok", .handled "ok"] := by rfl
example : (handleInputX false faultyEnv hdrOf faultyTable
    (batchInput [request "ok" [("id", .num "1")], request "ok" [], request "ok" [("id", .num "2")]])).header
    = [("X-Verif-Method", ["ok", "ok"])] := by rfl
example : ∀ n a, (hdrOf n a).WF := by
  intro n a; unfold hdrOf; split <;> simp [Header.WF]
example : (httpPostHeaders false { body := some .null, header := [("Content-Type", ["text/plain"])] }).values "Content-Type"
    = ["text/plain"] := by decide
example : ((handleEntryX faultyEnv hdrOf faultyTable (-32600) (request "p" [("id", .num "2")])).events.filterMap Event.failed?)
    ≠ [] := by decide

/-! ## 15. After the proposed repair of `request-with-null-id-not-answered` (`ModelNullId.lean`, round 6)

`proposed-fixes/C11-null-id-is-a-request.diff` makes the decoder tell `"id": null` from a missing id member. The model
of the repaired server (`NullId.handleInputFixed`, what the driver runs when the harness finds the repair in the code)
answers the witness of `request_with_null_id_not_answered` with id null and stays silent for a notification. -/

theorem null_id_request_answered_after_repair :
    (NullId.handleInputFixed junoCfg echoEnv subTable
      (singleInput (request "subtract" [("params", .arr [.num "42", .num "23"]), ("id", .null)]))).body
      = some (.obj [("jsonrpc", .str "2.0"), ("result", .arr [.num "42", .num "23"]), ("id", .null)]) ∧
    (NullId.handleInputFixed junoCfg echoEnv subTable
      (batchInput [request "nope" [("id", .null)], request "subtract" [("params", .arr [.num "1", .num "2"])]])).body
      = some (.arr [.obj [("jsonrpc", .str "2.0"),
          ("error", .obj [("code", .num "-32601"), ("message", .str "Method Not Found")]), ("id", .null)]]) := by
  constructor <;> rfl

theorem notification_still_silent_after_repair :
    (NullId.handleInputFixed junoCfg echoEnv subTable
      (singleInput (request "subtract" [("params", .arr [.num "42", .num "23"])]))).body = none ∧
    (NullId.handleInputFixed junoCfg echoEnv subTable
      (singleInput (request "subtract" [("params", .arr [.num "42", .num "23"]), ("id", .null), ("ID", .num "7")]))).body
      = some (.obj [("jsonrpc", .str "2.0"), ("result", .arr [.num "42", .num "23"]), ("id", .num "7")]) := by
  constructor <;> rfl

/-! ## 16. `validateParam` below the first level of a nested container (`ModelValidateWalk.lean`, round 6 follow-up) -/

/-- For a handler parameter whose type is ANY chain of slices, arrays and maps around a validated struct — or around
a pointer to it — (`[][]T`, `[][2]T`, `map[string][]T`, `[][][]*T`, … of any depth): the request is accepted iff
every struct at the leaves satisfies its rules; one invalid element at any depth makes it bad parameters. -/
theorem validate_walk_reaches_nested_structs (ks : List VWalk.Kind) (h : ∀ k ∈ ks, k ≠ .ptr) (leaves : List Bool) :
    (VWalk.accepted ks leaves = true ↔ ∀ b ∈ leaves, b = true) ∧
    (VWalk.accepted (ks ++ [.ptr]) leaves = true ↔ ∀ b ∈ leaves, b = true) := by
  simp [VWalk.accepted, VWalk.descends_of_no_ptr ks h, VWalk.descends_append_ptr ks h]

/-- The statement has content: the "optimised" walk that returns early for a slice whose element kind is not struct,
pointer or map stops above `[][]T`, `[][2]T` and `map[string][][]T` (an invalid inner element is accepted), while the
code descends; and the code as it is does NOT follow a pointer to a container (`*[]T`, `[]*[]T`). -/
theorem validate_walk_early_return_skips_inner_containers :
    VWalk.descendsEarlyReturn [.slice, .slice] = false ∧ VWalk.descends [.slice, .slice] = true ∧
    VWalk.descendsEarlyReturn [.slice, .array] = false ∧ VWalk.descends [.slice, .array] = true ∧
    VWalk.descendsEarlyReturn [.map, .slice, .slice] = false ∧ VWalk.descends [.map, .slice, .slice] = true ∧
    VWalk.accepted [.slice, .slice] [true, true, false, true] = false ∧
    VWalk.descends [.ptr, .slice] = false ∧ VWalk.descends [.slice, .ptr, .slice] = false := by decide

/-! ## 17. `Gate.Acquire` when `Release()` and the end of the waiter's context race (`ModelGateRace.lean`, follow-up) -/

/-- In EVERY interleaving of callers reaching the select, owners releasing (the runtime handing the slot to a parked
sender, also one whose context is already done), contexts ending before or after the hand-over, parked callers giving
up and granted callers returning: the tokens in the semaphore are exactly the callers that own a slot or are about to
return with one, never more than the capacity. Hence on a quiescent gate (nobody granted-but-not-returned)
`Running()` = callers that returned nil and have not released — 0 when nothing is in flight. -/
theorem gate_tokens_equal_owners_in_every_interleaving (c : Nat) (ops : List GateRace.Op) :
    let s := GateRace.run false { cap := c } ops
    s.tokens = s.owners + s.grantedLive + s.grantedDone ∧ s.tokens ≤ c := by
  have h := GateRace.run_inv { cap := c } ops ⟨by simp, by simp⟩
  exact ⟨h.1, Nat.le_trans h.2 (Nat.le_of_eq (GateRace.run_cap false { cap := c } ops))⟩

/-- The regression witness of the follow-up: the variant that returns `ctx.Err()` after its token went in (without
taking it out) loses the slot — Gate(1): one owner, one parked caller, `Release` hands over, the context ends, the
caller returns its error: one token in the semaphore, no owner, nobody waiting (`Running() = 1` for ever); the code
on the same schedule ends with one owner for the one token. -/
theorem gate_leaky_acquire_loses_the_slot :
    let ops := [GateRace.Op.acquire, .acquire, .releaseToLive, .cancelGranted, .returnDone]
    (GateRace.run true { cap := 1 } ops).tokens = 1 ∧ (GateRace.run true { cap := 1 } ops).owners = 0 ∧
    (GateRace.run true { cap := 1 } ops).grantedLive + (GateRace.run true { cap := 1 } ops).grantedDone = 0 ∧
    (GateRace.run false { cap := 1 } ops).tokens = 1 ∧ (GateRace.run false { cap := 1 } ops).owners = 1 := by decide

end Juno.C11.Props
