import JunoModel.C11.Proofs
import JunoModel.C11.ProofsPretty
/-!
C11 — property theorems (statements only; the proofs are in `Proofs.lean`, the vocabulary in
`ModelSpec.lean`, the model of `jsonrpc/server.go` in `Model.lean`).

All theorems quantify over every configuration `cfg`, every environment `env` (parameter types,
validator, handlers), every method table `tbl` and every input `inp` (= any byte string, seen
through Go's parse of its first JSON value; batches of any length, JSON of any depth).
The real server answers a batch in the order its worker pool finishes; the model answers in
request order, and the theorems that pair requests with responses are stated for every
permutation of the response list.

`junoCfg` is the server in the current tree. Two defects found at the pinned commit (`pinnedCfg`) have
been repaired in /repo (6b06fc7 nil results, 16a67e4 notifications answered with errors): the
full-strength theorems now hold for `junoCfg`, and the proved counterexamples are kept on
`pinnedCfg` as regression witnesses. One defect remains (a batch after 128 or more blanks): it has the
full theorem for the repaired switch, a `_partial` theorem for `junoCfg` and a proved counterexample.
-/
namespace Juno.C11.Props
open Juno.C11

/-! ## 1. Well-formed output -/

/-- every handler returns `(nil, nil)`; one method `m` without parameters -/
def nilEnv : Env := { decode := fun _ v => some v, zero := fun _ => .null, call := fun _ _ => {} }
def oneMethod : Table := [{ name := "m", params := [] }]
def request (method : String) (rest : List (String × Json)) : Json :=
  .obj ([("jsonrpc", .str "2.0"), ("method", .str method)] ++ rest)
def singleInput (j : Json) : Input := { leadWs := 0, firstIsBracket := false, parsed := some j }
/-- every handler echoes its arguments -/
def echoEnv : Env :=
  { decode := fun _ v => some v, zero := fun _ => .null, call := fun _ args => { result := some (.arr args) } }

/-- FULL, for the server as it is: for every input, table, parameter typing and handler behaviour the
output is nothing, or one JSON-RPC 2.0 response object (`jsonrpc:"2.0"`, exactly one of result /
error, an id) for a single request or a refused input, or a non-empty array of such objects for a
batch. -/
theorem wellformed_response (env : Env) (tbl : Table) (inp : Input) :
    WellFormedBody (inp.batch? junoCfg).isSome (handleInput junoCfg env tbl inp).body :=
  wellformed junoCfg env tbl inp (Or.inl rfl)

/-- The same for every configuration that writes nil results as null, and for every configuration
at all when no handler returns an untyped nil result together with a nil error. -/
theorem wellformed_response_any_config (cfg : Config) (env : Env) (tbl : Table) (inp : Input)
    (h : cfg.nullForNilResult = true ∨ NoNilResult env) :
    WellFormedBody (inp.batch? cfg).isSome (handleInput cfg env tbl inp).body :=
  wellformed cfg env tbl inp h

/-- REGRESSION WITNESS (pinned commit, repaired by 6b06fc7): `{"jsonrpc":"2.0","method":"m","id":1}`
with a handler returning `(nil, nil)` was answered with `{"jsonrpc":"2.0","id":1}` — neither result
nor error; the current server answers `"result":null`. -/
theorem nil_result_defect_before_6b06fc7 :
    (handleInput pinnedCfg nilEnv oneMethod (singleInput (request "m" [("id", .num "1")]))).body
        = some (.obj [("jsonrpc", .str "2.0"), ("id", .num "1")])
    ∧ ¬ WellFormedBody false
        (handleInput pinnedCfg nilEnv oneMethod (singleInput (request "m" [("id", .num "1")]))).body
    ∧ (handleInput junoCfg nilEnv oneMethod (singleInput (request "m" [("id", .num "1")]))).body
        = some (.obj [("jsonrpc", .str "2.0"), ("result", .null), ("id", .num "1")]) := by
  have h : (handleInput pinnedCfg nilEnv oneMethod (singleInput (request "m" [("id", .num "1")]))).body
      = some (.obj [("jsonrpc", .str "2.0"), ("id", .num "1")]) := by rfl
  refine ⟨h, ?_, by rfl⟩
  rw [h]
  rintro ⟨id, hr⟩
  have := isResponse_members hr
  simp at this

/-! ## 2. No output iff every request is a notification -/

/-- FULL, for the server as it is: no output iff the input is not refused as a whole and every
request value in it is a notification (a sane Request without id). In particular never for
unparsable input, an empty batch or disabled batches. -/
theorem silent_iff_all_notifications (env : Env) (tbl : Table) (inp : Input) :
    (handleInput junoCfg env tbl inp).body = none ↔
      ∃ es, inp.entries junoCfg = some es ∧ ∀ e ∈ es, (stageOf env tbl e).isNotification = true := by
  rw [silent_iff junoCfg env tbl inp]
  have : ∀ s : Stage, s.noReply junoCfg = s.isNotification := by
    intro s; cases s <;> simp [Stage.noReply, Stage.isNotification, junoCfg]
  simp only [this]

/-- For every configuration: the server is silent iff the input consists of request values it
passes over in silence (`Stage.noReply`). -/
theorem silent_iff_no_reply_expected (cfg : Config) (env : Env) (tbl : Table) (inp : Input) :
    (handleInput cfg env tbl inp).body = none ↔
      ∃ es, inp.entries cfg = some es ∧ ∀ e ∈ es, (stageOf env tbl e).noReply cfg = true :=
  silent_iff cfg env tbl inp

/-- REGRESSION WITNESS (pinned commit, repaired by 16a67e4): the notification
`{"jsonrpc":"2.0","method":"nope"}` was answered with a -32601 error object; the current server is
silent. -/
theorem notification_defect_before_16a67e4 :
    (stageOf nilEnv oneMethod (request "nope" [])).isNotification = true
    ∧ IsErrorResponse (-32601) .null
        ((handleInput pinnedCfg nilEnv oneMethod (singleInput (request "nope" []))).body.getD .null)
    ∧ (handleInput junoCfg nilEnv oneMethod (singleInput (request "nope" []))).body = none := by
  refine ⟨by rfl, ⟨"Method Not Found", none, by rfl⟩, by rfl⟩

/-! ## 3. One response per request, carrying its id, with the code of the first failing stage -/

/-- For every input that is not refused as a whole: the output is the list of response objects put
on the wire (`assemble`: nothing / the object / the array), and the response objects correspond
one-to-one, in order, to the request values that are not passed over in silence; each carries the
id of its request, the error code of the first failing stage, or the handler's outcome.
Stated for EVERY permutation `rs'` of the response list (the worker pool may finish in any order):
there is a matching permutation of the requests. `ResultsOk` (nil results written as null, or no
handler returning `(nil, nil)`) is needed only for the "exactly one of result/error" part; it holds
for `junoCfg`, see `one_response_per_request`. -/
theorem one_response_per_request_any_config (cfg : Config) (env : Env) (tbl : Table) (inp : Input)
    (es : List Json) (hes : inp.entries cfg = some es) (hok : ResultsOk cfg env) :
    ∃ rs, (handleInput cfg env tbl inp).body = assemble (inp.batch? cfg).isSome rs ∧
      ∀ rs', rs.Perm rs' →
        ∃ es', (es.filter (fun e => !(stageOf env tbl e).noReply cfg)).Perm es' ∧
          Forall₂ (AnswersRequest cfg env tbl (inp.decodeFailCode cfg)) es' rs' := by
  refine ⟨_, output_assemble cfg env tbl inp es hes, ?_⟩
  intro rs' hp
  have hf := forall₂_imp (fun a b h => answersRequest_of_answers (decodeFailCode_cases cfg inp) hok h)
    (responses_forall₂ cfg env tbl inp es hes)
  exact forall₂_perm_right hf hp

/-- FULL, for the server as it is: `one_response_per_request_any_config` without side condition. -/
theorem one_response_per_request (env : Env) (tbl : Table) (inp : Input)
    (es : List Json) (hes : inp.entries junoCfg = some es) :
    ∃ rs, (handleInput junoCfg env tbl inp).body = assemble (inp.batch? junoCfg).isSome rs ∧
      ∀ rs', rs.Perm rs' →
        ∃ es', (es.filter (fun e => !(stageOf env tbl e).isNotification)).Perm es' ∧
          Forall₂ (AnswersRequest junoCfg env tbl (inp.decodeFailCode junoCfg)) es' rs' := by
  have h := one_response_per_request_any_config junoCfg env tbl inp es hes (Or.inl rfl)
  have hn : ∀ s : Stage, s.noReply junoCfg = s.isNotification := by
    intro s; cases s <;> simp [Stage.noReply, Stage.isNotification, junoCfg]
  simpa only [hn] using h

/-- `error_codes`: an input that is refused as a whole (no parsable JSON value; an empty batch;
batches disabled) gets exactly one error object with id null and code -32700 resp. -32600, and no
handler runs. (The codes of individual requests are part of `one_response_per_request`.) -/
theorem error_codes_refused_input (cfg : Config) (env : Env) (tbl : Table) (inp : Input)
    (h : inp.entries cfg = none) :
    ∃ code j, (code = -32700 ∨ code = -32600) ∧
      handleInput cfg env tbl inp = { body := some j, log := [] } ∧ IsErrorResponse code .null j :=
  handleInput_refused cfg env tbl inp h

/-- unparsable input is answered with -32700 whatever the configuration, unless it starts like a
batch while batches are disabled (then -32600 without looking further) -/
theorem error_codes_unparsable (cfg : Config) (env : Env) (tbl : Table) (inp : Input)
    (hp : inp.parsed = none) (hb : isBatch cfg inp = false ∨ cfg.batchDisabled = false) :
    ∃ j, handleInput cfg env tbl inp = { body := some j, log := [] } ∧ IsErrorResponse (-32700) .null j := by
  refine ⟨(errResponse InvalidJSON (some opaqueData)).toJson, ?_, errResponse_isError (-32700) _ (by simp)⟩
  rcases hb with hb | hb
  · simp [handleInput, hb, hp]
  · cases hB : isBatch cfg inp <;> simp [handleInput, hB, hb, hp]

/-! ## 4. Each valid request invokes its handler exactly once with the supplied arguments -/

/-- The invocation log is exactly: one call `(method, args)` per request value that passes every
stage (decode, isSane, lookup, binding), in request order, nothing for any other request value —
notifications included, refused inputs excluded. The real server's log is a permutation of it. -/
theorem invoked_once_same_args (cfg : Config) (env : Env) (tbl : Table) (inp : Input) :
    (handleInput cfg env tbl inp).log =
      match inp.entries cfg with
      | none => []
      | some es => es.filterMap (fun e => (stageOf env tbl e).call?) := by
  cases he : inp.entries cfg with
  | none =>
    obtain ⟨_, _, _, hout, _⟩ := handleInput_refused cfg env tbl inp he
    rw [hout]
  | some es => exact log_eq cfg env tbl inp es he

/-- The arguments of a positional call: the supplied values decoded in order against the parameter
types, followed by the zero values of the omitted (optional) parameters. -/
theorem positional_args_as_supplied (env : Env) (ps : List Param) (vs args : List Json)
    (hlen : vs.length ≤ ps.length) (h : bindPositional env ps vs = .ok args) :
    args.length = ps.length ∧
    Forall₂ (fun (pv : Param × Json) a => env.decode pv.1.ty pv.2 = some a) (ps.zip vs) (args.take vs.length) ∧
    args.drop vs.length = (ps.drop vs.length).map (fun p => env.zero p.ty) :=
  bindPositional_spec env ps vs args hlen h

/-- Positional and named parameters bind identically: for a method with distinct parameter names
whose optional parameters form a tail, `[v1..vk]` and `{"name1":v1, .., "namek":vk}` give the same
argument vector (or the same error). -/
theorem positional_named_same_args (env : Env) (m : Method) (vs : List Json)
    (hnd : (m.params.map (·.name)).Nodup) (htail : OptionalTail m.params)
    (hmin : requiredParamCount m ≤ vs.length) (hmax : vs.length ≤ m.params.length) :
    buildArguments env (some (.arr vs)) m =
      buildArguments env (some (.obj ((m.params.map (·.name)).zip vs))) m :=
  positional_named env m vs hnd htail hmin hmax

/-! ## 4b. What a plainly written Request object decodes to -/

/-- Go's struct decoding (case-folded names, duplicates, `null`, type errors) collapses to the
obvious reading for a Request object written the ordinary way (no member name twice, none that
merely case-folds onto jsonrpc/method/params/id): the four members are looked up by name; an
ill-typed `jsonrpc` or `method` makes the value undecodable; absent members and `null` are zero. -/
theorem decodeRequest_plain_object (kvs : List (String × Json)) (hp : PlainMembers kvs) :
    decodeRequest (.obj kvs) =
      match stringField (member kvs "jsonrpc"), stringField (member kvs "method") with
      | some v, some m =>
        some { version := v, method := m,
               params := (member kvs "params").bind storeAny, id := (member kvs "id").bind storeAny }
      | _, _ => none :=
  decodeRequest_plain kvs hp

/-! ## 5. Batch recognition -/

/-- FULL (repaired `peekLimit = none`): every input whose first non-blank byte is `[` is handled as
a batch. -/
theorem array_input_is_batch (cfg : Config) (inp : Input) (hfix : cfg.peekLimit = none)
    (h : inp.firstIsBracket = true) : isBatch cfg inp = true := by
  rw [isBatch_iff]; exact ⟨h, by simp [hfix]⟩

/-- PARTIAL (unchanged server): … provided fewer than 128 blank bytes precede the `[`. What is
missing: see `batch_after_128_blanks_not_recognised`. -/
theorem array_input_is_batch_partial (inp : Input) (h : inp.firstIsBracket = true)
    (hws : inp.leadWs < 128) : isBatch junoCfg inp = true := by
  rw [isBatch_iff]; refine ⟨h, ?_⟩; intro n hn; simp [junoCfg] at hn; omega

/- Full-strength statement for the unchanged server, FALSE (refuted just below), kept for the record:
     theorem array_input_is_batch_juno (inp : Input) (h : inp.firstIsBracket = true) : isBatch junoCfg inp = true
   It becomes `array_input_is_batch` with proposed-fixes/C11-batch-after-blanks.diff. -/

/-- DEFECT (unchanged server): 128 blanks followed by a valid one-element batch: one -32700 error
object instead of the array of responses, and the handler does not run. -/
theorem batch_after_128_blanks_not_recognised :
    let inp : Input := { leadWs := 128, firstIsBracket := true,
                         parsed := some (.arr [request "m" [("id", .num "1")]]) }
    IsErrorResponse (-32700) .null ((handleInput junoCfg nilEnv oneMethod inp).body.getD .null)
    ∧ (handleInput junoCfg nilEnv oneMethod inp).log = []
    ∧ (handleInput { junoCfg with peekLimit := none } nilEnv oneMethod inp).log = [("m", [])] := by
  refine ⟨⟨"Parse error", some opaqueData, by rfl⟩, by rfl, by rfl⟩

/-- The optional-tail hypothesis of `positional_named_same_args` is necessary: with an optional
parameter BEFORE a required one, the positional call `[7]` zero-fills the required parameter and
runs the handler, while the named call `{"a":7}` is rejected. (No table juno serves has this shape:
checked by the harness on `rpc.Handler.MethodsV0_8/9/10` at every run.) -/
theorem positional_named_differ_without_optional_tail :
    let m : Method := { name := "m", params := [{ name := "a", optional := true }, { name := "b" }] }
    buildArguments echoEnv (some (.arr [.num "7"])) m = .ok [.num "7", .null]
    ∧ (∃ e, buildArguments echoEnv (some (.obj [("a", .num "7")])) m = .error e) := by
  exact ⟨by rfl, ⟨_, by rfl⟩⟩

/-! ## 5b. Transports -/

/-- HTTP: a POST is answered with status 200, `Content-Type: application/json` and exactly what
`HandleReader` produces for the body (so every theorem above applies to it); the handlers invoked
are those of `HandleReader`. -/
theorem http_post_is_handleReader (cfg : Config) (env : Env) (tbl : Table) (path : Bool) (body : Input) :
    serveHTTP cfg env tbl { method := .post, pathIsRoot := path, body := body } =
      { status := 200, json := true, body := (handleInput cfg env tbl body).body,
        log := (handleInput cfg env tbl body).log } := rfl

/-- HTTP: no other method reaches the dispatcher: no body is written and no handler runs, whatever
the request body is; the status is 200 (GET /), 404 (GET elsewhere) or 405. -/
theorem http_non_post_runs_nothing (cfg : Config) (env : Env) (tbl : Table) (r : HttpRequest)
    (h : r.method ≠ .post) :
    (serveHTTP cfg env tbl r).body = none ∧ (serveHTTP cfg env tbl r).log = [] ∧
    ((serveHTTP cfg env tbl r).status = 200 ∨ (serveHTTP cfg env tbl r).status = 404 ∨
      (serveHTTP cfg env tbl r).status = 405) := by
  cases hm : r.method with
  | post => exact absurd hm h
  | get => cases hp : r.pathIsRoot <;> simp [serveHTTP, hm, hp]
  | other => simp [serveHTTP, hm]

/-- WebSocket: on one connection the messages sent by the server are, in order, the responses to
the messages that are not passed over in silence — one each, none lost, none duplicated, none
overtaking — each response being what `HandleReader` produces for that message alone (a frame's
bytes after its first JSON value never leak into the next message). The invocation log of the
connection is the concatenation of the per-message logs. -/
theorem ws_replies_in_message_order (cfg : Config) (env : Env) (tbl : Table) (msgs : List Input) :
    Forall₂ (fun m r => (handleInput cfg env tbl m).body = some r)
      (msgs.filter (fun m => (handleInput cfg env tbl m).body.isSome))
      (wsWire (wsSession cfg env tbl msgs))
    ∧ wsLog (wsSession cfg env tbl msgs) = msgs.flatMap (fun m => (handleInput cfg env tbl m).log) := by
  refine ⟨ws_pairing cfg env tbl msgs, ?_⟩
  simp [wsLog, wsSession, List.flatMap_map]

/-- Cancellation (a request deadline expiring while batch entries are still queued for a pool slot)
costs no response: whichever prefix of the batch was dispatched before the context expired, and
whatever the handlers of the remaining entries answer once they see a cancelled context
(`envLate`, any environment with the same parameter typing), the responses carry exactly the same
ids, in the same order, as without cancellation, and exactly the same handler calls are made. -/
theorem cancellation_drops_no_response (cfg : Config) (env envLate : Env) (tbl : Table)
    (early late : List Json) (h : SameBinding env envLate) :
    (batchResponsesCancelled cfg env envLate tbl early late).map (·.id) =
        (batchResponses cfg env tbl (early ++ late)).map (·.id)
    ∧ batchLogCancelled cfg env envLate tbl early late = batchLog cfg env tbl (early ++ late) := by
  obtain ⟨h1, h2⟩ := batchResponses_ids_congr h cfg tbl late
  obtain ⟨a1, a2⟩ := batchResponses_append cfg env tbl early late
  simp only [batchResponsesCancelled, batchLogCancelled, List.map_append, a1, a2, h1, h2, and_self]

/-- The window behind the `TeeReader` — and with it everything the pretty printer computes — depends
only on the bytes that were read, not on how the reads were segmented. (That the dispatcher's answer
does not depend on the segmentation is built into the model: it is a function of the parsed value.
That `Write` copies instead of keeping its argument, whose storage belongs to the JSON decoder, is
tied by the harness: every request is also fed through segmenting readers.) -/
theorem pretty_window_independent_of_segmentation (a b : List (List UInt8)) (h : a.flatten = b.flatten) :
    Pretty.Win.writes {} a = Pretty.Win.writes {} b :=
  Pretty.writes_segmentation_independent a b h

/-! ## 5c. The parse-error pretty printer never indexes out of range (`pretty_error.go`) -/

/-- After any sequence of reads (the chunks the JSON decoder pulls through the `TeeReader`), the
window buffer holds at most 512 bytes, not more than were consumed, and they are exactly the last
bytes of everything read so far (invariant proved by induction over the reads). -/
theorem pretty_window_invariant (chunks : List (List UInt8)) :
    (Pretty.Win.writes {} chunks).Inv ∧ (Pretty.Win.writes {} chunks).IsSuffixOf chunks.flatten := by
  refine ⟨Pretty.inv_writes _ _ Pretty.inv_init, ?_⟩
  have := Pretty.suffix_writes {} [] chunks (by simp [Pretty.Win.IsSuffixOf])
  simpa using this

/-- For every sequence of reads and every decode error (any offset, also 0 or negative): if a caret
is drawn, its position lies inside the window, and line and column are at least 1 — so none of the
slices `window[markerPos:]`, `window[:markerPos]`, `input[offset:]` in `lineAndColumn`,
`offendingLine`, `describeSyntaxError`, `precedingLines` can panic. -/
theorem pretty_error_indices_in_range (chunks : List (List UInt8)) (err : Pretty.DecodeErr)
    (pos : Pretty.Pos) (h : Pretty.position (Pretty.Win.writes {} chunks) err = some pos) :
    pos.markerPos ≤ (Pretty.Win.writes {} chunks).window.length ∧ 1 ≤ pos.line ∧ 1 ≤ pos.col :=
  Pretty.position_in_range _ err pos (Pretty.inv_writes _ _ Pretty.inv_init) h

/-- `truncateAround` for a line of any length and any column ≥ 1: the rune slice `[start:end]` is
valid and the caret column stays ≥ 1 (`strings.Repeat(" ", markerCol-1)` gets no negative count). -/
theorem pretty_truncate_in_range (len : Nat) (pivot : Int) (hp : 1 ≤ pivot) (s e mc : Int)
    (h : Pretty.truncateAround len pivot = some (s, e, mc)) :
    0 ≤ s ∧ s ≤ e ∧ e ≤ len ∧ 1 ≤ mc :=
  Pretty.truncateAround_in_range len pivot hp s e mc h

/-! ## 6. The validator of rpc/v10 (arithmetic) -/

/-- `felt_max_bits=b` accepts exactly the values below 2^b -/
theorem feltMaxBits_spec (n b : Nat) : feltMaxBits n b = true ↔ n < 2 ^ b := by
  simp [feltMaxBits, bitLen_le_iff]

/-- `version_0x3` accepts exactly the two version felts 3 and 2^128 + 3 (the query bit) -/
theorem version03_spec (n : Nat) : version03 n = true ↔ n = 3 ∨ n = 2 ^ 128 + 3 := by
  simp [version03]

/-- the validator on a resource-bounds-like struct: amount below 2^64, price below 2^128, version 3
with or without the query bit -/
theorem boundsValid_spec (ma mp ver : Nat) :
    boundsValid ma mp ver = true ↔ ma < 2 ^ 64 ∧ mp < 2 ^ 128 ∧ (ver = 3 ∨ ver = 2 ^ 128 + 3) := by
  simp [boundsValid, feltMaxBits, bitLen_le_iff, version03, and_assoc]

/-! ## Non-vacuity: the hypotheses are satisfiable, the model does what the examples of the
specification say -/

def subTable : Table :=
  [{ name := "subtract", params := [{ name := "minuend" }, { name := "subtrahend" }] },
   { name := "opt", params := [{ name := "a" }, { name := "b", optional := true }] }]

example : PlainMembers [("jsonrpc", .str "2.0"), ("method", .str "m"), ("extra", .null), ("id", .num "1")] := by
  refine ⟨by decide, ?_⟩
  intro kv hkv
  simp only [List.mem_cons, List.mem_nil_iff, or_false] at hkv
  rcases hkv with rfl | rfl | rfl | rfl <;> simp <;> decide
example : NoNilResult echoEnv := fun _ _ => Or.inl rfl
example : ResultsOk { junoCfg with nullForNilResult := true } nilEnv := Or.inl rfl
example : OptionalTail [{ name := "a" }, { name := "b", optional := true }] := by simp [OptionalTail]
-- a positional and a named call of the specification, a notification, an unknown method in a batch
example : (handleInput junoCfg echoEnv subTable
    (singleInput (request "subtract" [("params", .arr [.num "42", .num "23"]), ("id", .num "1")]))).body
    = some (.obj [("jsonrpc", .str "2.0"), ("result", .arr [.num "42", .num "23"]), ("id", .num "1")]) := by rfl
example : (handleInput junoCfg echoEnv subTable
    (singleInput (request "subtract" [("params", .obj [("subtrahend", .num "23"), ("minuend", .num "42")]), ("id", .num "3")]))).body
    = some (.obj [("jsonrpc", .str "2.0"), ("result", .arr [.num "42", .num "23"]), ("id", .num "3")]) := by rfl
example : (handleInput junoCfg echoEnv subTable (singleInput (request "opt" [("params", .arr [.num "7"])]))).body = none
    ∧ (handleInput junoCfg echoEnv subTable (singleInput (request "opt" [("params", .arr [.num "7"])]))).log
        = [("opt", [.num "7", .null])] := ⟨by rfl, by rfl⟩
example : ({ leadWs := 0, firstIsBracket := true,
             parsed := some (.arr [request "nope" [("id", .str "a")], .num "1"]) } : Input).entries junoCfg
    = some [request "nope" [("id", .str "a")], .num "1"] := by rfl
example : feltMaxBits (2 ^ 64 - 1) 64 = true ∧ feltMaxBits (2 ^ 64) 64 = false := by
  refine ⟨(feltMaxBits_spec _ _).mpr (by decide), ?_⟩
  rw [Bool.eq_false_iff, Ne, feltMaxBits_spec]
  decide

end Juno.C11.Props
