import JunoModel.C09.ProofsIndex
/-! C09 — helper definitions and lemmas, part 7: admissible histories (what `Props.lean` quantifies
over) and the bridge from the invariant to "no false negatives". Plumbing only. -/
namespace Juno.C09

/-- What a query needs from the index ("no false negatives"): the running filter is initialised;
for every window at or above the retention floor's window that holds a block of the chain, the
structure the iterator will consult (the running filter for its own window, otherwise a cache
entry or the persisted window) exists and has, for every retained block of the window, all items of
the block's header bloom; header blooms cover the events of their blocks. -/
def NoFalseNeg (cfg : Cfg) (n : Node) : Prop :=
  ChainWF n.chain ∧ Servable cfg n (n.chain.length - 1) ∧ CacheGood cfg n n.cache ∧ n.floor ≤ n.chain.length - 1

theorem noFalseNeg_of_inv (cfg : Cfg) (hW : 1 ≤ cfg.W) (n : Node) (hinv : Inv cfg n) (hne : n.chain ≠ []) :
    NoFalseNeg cfg n := by
  have hlen : 1 ≤ n.chain.length := by
    cases hc : n.chain with
    | nil => exact absurd hc hne
    | cons _ _ => simp
  have := inv_servable cfg hW _ hinv (n.chain.length - 1) (by omega)
  exact ⟨hinv.wf, this.1, this.2, by rcases hinv.floor_lt with h | h <;> omega⟩

/-- The code in /repo: all three round-1 repairs in. -/
def Repaired (cfg : Cfg) : Prop :=
  cfg.fixCache = true ∧ cfg.fixSnap = true ∧ cfg.fixPersist = true ∧ cfg.fixInit = true

/-- The only hypotheses on a history: every stored block's header bloom covers the block's events
(what `core.EventsBloom` computes: the superset assumption on bloom filters, checked on the real
blooms by the harness), heights fit `uint64`, and a pruning node is not reorganised below its
retention floor (the pruner keeps the floor below the L1 head). Failed commits, failed
initialisations, crashes inside the initialiser, prunes, snapshots, restarts and queries are free. -/
def StoresOK (cfg : Cfg) : Node → List Op → Prop
  | _, [] => True
  | n, .store blk :: ops =>
      ((∀ it ∈ blk.items, it ∈ blk.bloom) ∧ n.chain.length + 1 < 2 ^ 64) ∧ StoresOK cfg (step cfg n (.store blk)) ops
  | n, .revert :: ops => RevertAboveFloor n ∧ StoresOK cfg (step cfg n .revert) ops
  | n, op :: ops => StoresOK cfg (step cfg n op) ops

/-- Executable form of `StoresOK` (for concrete histories). -/
def storesOKb (cfg : Cfg) : Node → List Op → Bool
  | _, [] => true
  | n, .store blk :: ops =>
      (blk.items.all (fun it => blk.bloom.contains it) && decide (n.chain.length + 1 < 2 ^ 64)) &&
        storesOKb cfg (step cfg n (.store blk)) ops
  | n, .revert :: ops =>
      (decide (n.floor = 0) || decide (n.floor + 1 < n.chain.length)) && storesOKb cfg (step cfg n .revert) ops
  | n, .snap :: ops => storesOKb cfg (step cfg n .snap) ops
  | n, .restart :: ops => storesOKb cfg (step cfg n .restart) ops
  | n, .query f a b t c l :: ops => storesOKb cfg (step cfg n (.query f a b t c l)) ops
  | n, .prune k :: ops => storesOKb cfg (step cfg n (.prune k)) ops
  | n, .storeFail b :: ops => storesOKb cfg (step cfg n (.storeFail b)) ops
  | n, .revertFail :: ops => storesOKb cfg (step cfg n .revertFail) ops
  | n, .restartFault :: ops => storesOKb cfg (step cfg n .restartFault) ops
  | n, .restartCrash k :: ops => storesOKb cfg (step cfg n (.restartCrash k)) ops

theorem storesOK_of_b (cfg : Cfg) (ops : List Op) : ∀ n, storesOKb cfg n ops = true → StoresOK cfg n ops := by
  induction ops with
  | nil => intro n _; trivial
  | cons op ops ih =>
    intro n h
    cases op with
    | store blk =>
      simp only [storesOKb, Bool.and_eq_true, List.all_eq_true, decide_eq_true_eq, List.contains_iff_mem] at h
      exact ⟨⟨h.1.1, h.1.2⟩, ih _ h.2⟩
    | revert =>
      simp only [storesOKb, Bool.and_eq_true, Bool.or_eq_true, decide_eq_true_eq] at h
      exact ⟨h.1, ih _ h.2⟩
    | snap => exact ih _ h
    | restart => exact ih _ h
    | query f a b t c l => exact ih _ h
    | prune k => exact ih _ h
    | storeFail b => exact ih _ h
    | revertFail => exact ih _ h
    | restartFault => exact ih _ h
    | restartCrash k => exact ih _ h

theorem histOK_of_repaired (cfg : Cfg) (hr : Repaired cfg) (ops : List Op) :
    ∀ n, StoresOK cfg n ops → HistOK cfg n ops := by
  induction ops with
  | nil => intro n _; trivial
  | cons op ops ih =>
    intro n h
    cases op with
    | store blk => exact ⟨h.1, ih _ h.2⟩
    | revert => exact ⟨⟨⟨Or.inl hr.1, Or.inl hr.2.1, Or.inl hr.2.2.1⟩, h.1⟩, ih _ h.2⟩
    | snap => exact ⟨trivial, ih _ h⟩
    | restart => exact ⟨trivial, ih _ h⟩
    | query f a b t c l => exact ⟨trivial, ih _ h⟩
    | prune k => exact ⟨trivial, ih _ h⟩
    | storeFail b => exact ⟨trivial, ih _ h⟩
    | revertFail => exact ⟨trivial, ih _ h⟩
    | restartFault => exact ⟨trivial, ih _ h⟩
    | restartCrash k => exact ⟨trivial, ih _ h⟩

/-- Histories without reverts satisfy `HistOK` for every variant of the code. -/
theorem histOK_of_no_revert (cfg : Cfg) (ops : List Op) (hnr : ∀ op ∈ ops, op matches .revert → False) :
    ∀ n, StoresOK cfg n ops → HistOK cfg n ops := by
  induction ops with
  | nil => intro n _; trivial
  | cons op ops ih =>
    intro n h
    have ih' := ih (fun o ho => hnr o (List.mem_cons_of_mem _ ho))
    cases op with
    | store blk => exact ⟨h.1, ih' _ h.2⟩
    | revert => exact (hnr .revert (by simp) rfl).elim
    | snap => exact ⟨trivial, ih' _ h⟩
    | restart => exact ⟨trivial, ih' _ h⟩
    | query f a b t c l => exact ⟨trivial, ih' _ h⟩
    | prune k => exact ⟨trivial, ih' _ h⟩
    | storeFail b => exact ⟨trivial, ih' _ h⟩
    | revertFail => exact ⟨trivial, ih' _ h⟩
    | restartFault => exact ⟨trivial, ih' _ h⟩
    | restartCrash k => exact ⟨trivial, ih' _ h⟩

/-- After every history that satisfies `HistOK` (any variant of the code; faults included): the
database part of the invariant holds, and whenever the running filter is initialised the index
has no false negatives. -/
theorem weak_after_history (cfg : Cfg) (hW : 1 ≤ cfg.W) (ops : List Op) (hok : HistOK cfg Node.init ops) :
    Weak cfg (run cfg Node.init ops) :=
  run_weak cfg hW ops Node.init (weak_of_inv (inv_init cfg hW)) hok

end Juno.C09
