import JunoModel.C09.ModelRpc
import JunoModel.C09.ProofsHist
import JunoModel.C09.ProofsPre
import JunoModel.C09.ProofsSound
import JunoModel.C09.Props
/-!
C09 — lemmas about the RPC layer (`ModelRpc.lean`): token strings, the handler's decision order,
the two forms of the key-count check, `matchingEvents`, the pre-confirmed de-duplication.
-/
namespace Juno.C09

/-! ## Token strings -/

theorem isDig_facts (c : Nat) (h : isDig c = true) : goSpace c = false ∧ (c == 10) = false ∧ c ≠ 45 := by
  simp only [isDig, Bool.and_eq_true, decide_eq_true_eq] at h
  refine ⟨?_, ?_, ?_⟩
  · simp only [goSpace, Bool.or_eq_false_iff, Bool.and_eq_false_iff, decide_eq_false_iff_not, beq_eq_false_iff_ne,
      bne_eq_false_iff_eq]
    omega
  · simp only [beq_eq_false_iff_ne]; omega
  · omega

theorem decDigitsAux_all (fuel : Nat) : ∀ n, ∀ c ∈ decDigitsAux fuel n, isDig c = true := by
  induction fuel with
  | zero => intro n c hc; simp [decDigitsAux] at hc
  | succ fuel ih =>
    intro n c hc
    rw [decDigitsAux] at hc
    split at hc
    · simp only [List.mem_singleton] at hc
      subst hc
      simp only [isDig, Bool.and_eq_true, decide_eq_true_eq]; omega
    · simp only [List.mem_append, List.mem_singleton] at hc
      rcases hc with hc | hc
      · exact ih (n / 10) c hc
      · subst hc
        simp only [isDig, Bool.and_eq_true, decide_eq_true_eq]; omega

theorem decDigits_all (n : Nat) : ∀ c ∈ decDigits n, isDig c = true := decDigitsAux_all (n + 1) n

theorem decDigits_ne_nil (n : Nat) : decDigits n ≠ [] := by
  unfold decDigits
  rw [decDigitsAux]
  split <;> simp

theorem digitsVal_snoc (ds : List Nat) (c : Nat) : digitsVal (ds ++ [c]) = 10 * digitsVal ds + (c - 48) := by
  simp [digitsVal, List.foldl_append]

theorem digitsVal_decDigitsAux (fuel : Nat) : ∀ n, n < fuel → digitsVal (decDigitsAux fuel n) = n := by
  induction fuel with
  | zero => intro n h; omega
  | succ fuel ih =>
    intro n h
    rw [decDigitsAux]
    split
    · simp [digitsVal]
    · rw [digitsVal_snoc, ih (n / 10) (by omega)]; omega

theorem digitsVal_decDigits (n : Nat) : digitsVal (decDigits n) = n := digitsVal_decDigitsAux (n + 1) n (by omega)

theorem skipSp_digit (c : Nat) (cs : List Nat) (h : isDig c = true) : skipSp (c :: cs) = some (c :: cs) := by
  obtain ⟨h1, h2, _⟩ := isDig_facts c h
  simp [skipSp, h1, h2]

/-- Scanning a printed number followed by something that is not a digit gives the number back. -/
theorem scanUint_decDigits (n : Nat) (rest : List Nat) (hn : n < 2 ^ 64)
    (hrest : ∀ c cs, rest = c :: cs → isDig c = false) :
    scanUint (decDigits n ++ rest) = some (n, rest) := by
  have hall := decDigits_all n
  have hne := decDigits_ne_nil n
  have hskip : skipSp (decDigits n ++ rest) = some (decDigits n ++ rest) := by
    cases hd : decDigits n with
    | nil => exact absurd hd hne
    | cons c cs =>
      have : isDig c = true := hall c (by rw [hd]; simp)
      simpa using skipSp_digit c (cs ++ rest) this
  have htw : (decDigits n ++ rest).takeWhile isDig = decDigits n := by
    rw [List.takeWhile_append_of_pos hall]
    cases rest with
    | nil => simp
    | cons c cs => simp [hrest c cs rfl]
  have hdw : (decDigits n ++ rest).dropWhile isDig = rest := by
    rw [List.dropWhile_append_of_pos hall]
    cases rest with
    | nil => simp
    | cons c cs => simp [hrest c cs rfl]
  unfold scanUint
  rw [hskip]
  simp only [htw, hdw, digitsVal_decDigits]
  have : (decDigits n).isEmpty = false := by
    cases hd : decDigits n with
    | nil => exact absurd hd hne
    | cons _ _ => rfl
  simp [this, hn]

theorem parse_print (t : Token) (hb : t.b < 2 ^ 64) (hp : t.p < 2 ^ 64) : parseTok (printTok t) = some t := by
  unfold parseTok printTok
  rw [scanUint_decDigits t.b (45 :: decDigits t.p) hb (by intro c cs h; cases h; rfl)]
  have := scanUint_decDigits t.p [] hp (by intro c cs h; cases h)
  simp only [List.append_nil] at this
  simp [this]

theorem scanUint_lt (s : List Nat) (v : Nat) (r : List Nat) (h : scanUint s = some (v, r)) : v < 2 ^ 64 := by
  unfold scanUint at h
  split at h
  · cases h
  · dsimp only at h
    split at h
    · cases h
    · split at h
      · cases h; assumption
      · cases h

theorem parseTok_lt (s : List Nat) (t : Token) (h : parseTok s = some t) : t.b < 2 ^ 64 ∧ t.p < 2 ^ 64 := by
  unfold parseTok at h
  split at h
  · rename_i b r hb
    split at h
    · rename_i p r' hp
      cases h
      exact ⟨scanUint_lt _ _ _ hb, scanUint_lt _ _ _ hp⟩
    · cases h
  · cases h

theorem printTok_ne_nil (t : Token) : printTok t ≠ [] := by
  unfold printTok
  cases h : decDigits t.b with
  | nil => exact absurd h (decDigits_ne_nil _)
  | cons _ _ => simp

/-! ## The key-count check in its two forms -/

theorem foldl_len_acc (ks : List (List Nat)) (acc : Nat) :
    ks.foldl (fun a k => a + k.length) acc = acc + ks.foldl (fun a k => a + k.length) 0 := by
  induction ks generalizing acc with
  | nil => simp
  | cons k ks ih => simp only [List.foldl_cons]; rw [ih (acc + k.length), ih (0 + k.length)]; omega

theorem keysOverLoop_spec (max : Nat) (ks : List (List Nat)) (acc : Nat) (h : ks = [] → acc ≤ max) :
    keysOverLoop max ks acc = true ↔ max < ks.foldl (fun a k => a + k.length) acc := by
  induction ks generalizing acc with
  | nil => simp only [keysOverLoop, List.foldl_nil]; have := h rfl; simp; omega
  | cons k ks ih =>
    rw [keysOverLoop, List.foldl_cons]
    by_cases hk : acc + k.length > max
    · rw [if_pos hk]
      have := foldl_len_acc ks (acc + k.length)
      simp only [true_iff]
      omega
    · rw [if_neg hk]
      exact ih (acc + k.length) (fun _ => by omega)

theorem keysOverLoop_eq (max : Nat) (keys : List (List Nat)) :
    keysOverLoop max keys keys.length = decide (keysCount keys > max) := by
  have := keysOverLoop_spec max keys keys.length (by intro h; subst h; simp)
  unfold keysCount
  cases hk : keysOverLoop max keys keys.length with
  | true => exact (decide_eq_true (this.mp hk)).symm
  | false =>
    symm
    rw [decide_eq_false_iff_not]
    intro hgt
    rw [this.mpr hgt] at hk
    cases hk

/-! ## `matchingEvents` -/

theorem matchingEvents_eq (f : Filter) (num : Nat) (blk : Block) (hwf : ∀ it ∈ blk.items, it ∈ blk.bloom) :
    matchingEvents f num blk = sel f (blockRaw num blk) := by
  unfold matchingEvents
  by_cases htb : testBloom f blk = true
  · simp only [htb, if_true, sel, «matches»]
  · simp only [htb]
    by_cases hs : sel f (blockRaw num blk) = []
    · simp [hs]
    · exact absurd (testBloom_of_sel f num blk hwf hs) htb

/-! ## De-duplication of pre-confirmed updates -/

theorem markSent_twice (d : Dedup) (num ident : Nat) (key : Nat × Nat × Nat) :
    ((d.markSent num ident key).1.markSent num ident key).2 = false := by
  have key_step : ∀ d' : Dedup, d'.num = num → d'.ident = ident →
      ((if d'.seen.contains key then (d', false) else ({ d' with seen := key :: d'.seen }, true) : Dedup × Bool).1.markSent num ident key).2 = false := by
    intro d' hn hi
    by_cases h2 : d'.seen.contains key = true
    · have h2' : key ∈ d'.seen := by simpa using h2
      simp [Dedup.markSent, h2', hn, hi]
    · have h2' : key ∉ d'.seen := by simpa using h2
      simp [Dedup.markSent, h2', hn, hi]
  unfold Dedup.markSent
  by_cases h1 : (num != d.num || ident != d.ident) = true
  · simp only [h1, if_true]
    exact key_step ⟨num, ident, []⟩ rfl rfl
  · simp only [h1]
    have : num = d.num ∧ ident = d.ident := by
      simpa [Bool.or_eq_true, bne_iff_ne, not_or] using h1
    exact key_step d this.1.symm this.2.symm

/-! ## `Handler.Events` on a valid request -/

/-- A request inside every limit of the handler (what the validator, the decoder and the first two
checks of `Handler.Events` let through). -/
structure ReqOK (api : Api) (r : RpcReq) : Prop where
  chunk1 : 1 ≤ r.chunk
  chunkMax : r.chunk ≤ maxEventChunkSize
  keys : keysCount r.keys ≤ maxEventFilterKeys
  addr : api ≠ .v10 → r.addrs.length ≤ 1
  l1 : api = .v8 → r.from_ ≠ some .l1Accepted ∧ r.to ≠ some .l1Accepted

/-- The filter the handler builds: v10 removes duplicate addresses (`utils.Set`). -/
def rpcFilter (api : Api) (r : RpcReq) : Filter := ⟨if api == .v10 then r.addrs.eraseDups else r.addrs, r.keys⟩

/-- The token string a client sends: none for the first page, else what the previous page printed. -/
def encTok : Option Token → List Nat
  | none => []
  | some t => printTok t

def wrapPage : PageRes → RpcRes
  | .err e => .err (.data e)
  | .ok evs t => .ok evs (if t.isEmpty then [] else printTok t)

def TokFits : Option Token → Prop
  | none => True
  | some t => t.b < 2 ^ 64 ∧ t.p < 2 ^ 64

theorem decodeTok (tok : Option Token) (h : TokFits tok) :
    (if (encTok tok).isEmpty then some none else (parseTok (encTok tok)).map some) = some tok := by
  cases tok with
  | none => simp [encTok]
  | some t =>
    have hne : (printTok t).isEmpty = false := by
      cases hp : printTok t with
      | nil => exact absurd hp (printTok_ne_nil t)
      | cons _ _ => rfl
    simp only [encTok, hne, parse_print t h.1 h.2]
    rfl

theorem rpcEvents_valid (api : Api) (cfg : Cfg) (n : Node) (env : RpcEnv) (r : RpcReq) (hok : ReqOK api r)
    (height : Nat) (hlen : n.chain.length = height + 1) (tok : Option Token) (hfit : TokFits tok)
    (fromB toB : Nat) (hf : resolveBound api n env height false r.from_ = some fromB)
    (ht : resolveBound api n env height true r.to = some toB) :
    rpcEvents api cfg n env { r with tok := encTok tok } =
      ((apiEventsPre cfg n (rpcFilter api r) fromB toB tok r.chunk env.limit env.base (if api == .v8 then [] else env.pre)).1,
       wrapPage (apiEventsPre cfg n (rpcFilter api r) fromB toB tok r.chunk env.limit env.base (if api == .v8 then [] else env.pre)).2) := by
  have h1 : (r.chunk == 0) = false := by simp only [beq_eq_false_iff_ne]; have := hok.chunk1; omega
  have h2 : (api == Api.v8 && (r.from_ == some BlockId.l1Accepted || r.to == some BlockId.l1Accepted)) = false := by
    by_cases ha : api = .v8
    · have := hok.l1 ha
      simp [this.1, this.2]
    · simp [ha]
  have h3 : (api != Api.v10 && decide (r.addrs.length > 1)) = false := by
    by_cases ha : api = .v10
    · simp [ha]
    · have := hok.addr ha
      simp only [Bool.and_eq_false_iff, decide_eq_false_iff_not]
      right; omega
  have h4 : ¬ r.chunk > maxEventChunkSize := by have := hok.chunkMax; omega
  have h5 : ¬ keysCount r.keys > maxEventFilterKeys := by have := hok.keys; omega
  have hchk : rpcCheck api n env { r with tok := encTok tok } =
      .ok ⟨rpcFilter api r, fromB, toB, tok, if api == .v8 then [] else env.pre⟩ := by
    unfold rpcCheck
    simp only [h1, h2, h3, h4, h5, hlen, decodeTok tok hfit, hf, ht, if_false, Bool.false_eq_true, rpcFilter]
  unfold rpcEvents
  rw [hchk]
  simp only
  cases hres : (apiEventsPre cfg n (rpcFilter api r) fromB toB tok r.chunk env.limit env.base
      (if api == .v8 then [] else env.pre)).2 <;> simp [wrapPage]

theorem apiEvents_fields (cfg : Cfg) (n : Node) (f : Filter) (fromB toB : Nat) (tok : Option Token) (chunk limit : Nat) :
    (apiEvents cfg n f fromB toB tok chunk limit).1.chain = n.chain ∧
    (apiEvents cfg n f fromB toB tok chunk limit).1.floor = n.floor := by
  obtain ⟨hc, hf, _⟩ := wake_fields cfg n
  simp only [apiEvents, query]
  exact ⟨hc, hf⟩

theorem hashNumber_congr (n n' : Node) (h1 : n'.chain.length = n.chain.length) (h2 : n'.floor = n.floor) (b : Option Nat) :
    hashNumber n' b = hashNumber n b := by
  cases b <;> simp [hashNumber, h1, h2]

theorem resolveBound_congr (api : Api) (n n' : Node) (env : RpcEnv) (height : Nat) (isTo : Bool) (id : Option BlockId)
    (h1 : n'.chain.length = n.chain.length) (h2 : n'.floor = n.floor) :
    resolveBound api n' env height isTo id = resolveBound api n env height isTo id := by
  cases id with
  | none => rfl
  | some id => cases id <;> simp [resolveBound, resolveId, hashNumber_congr n n' h1 h2]

/-- Every event list of a block of the chain is shorter than 2^64 (event counts fit `uint64`). -/
def EventsFit (chain : List Block) : Prop := ∀ b blk, chain[b]? = some blk → (blockRaw b blk).length < 2 ^ 64

theorem valid_fits (f : Filter) (n : Node) (fromB : Nat) (t : Token) (hi : Nat) (hb : t.b ≤ hi) (hhi : hi < 2 ^ 64)
    (hev : EventsFit n.chain) (hv : Props.Valid f n fromB (some t)) : TokFits (some t) := by
  refine ⟨by omega, ?_⟩
  rcases hv with h | h
  · simp only [skipOf] at h; omega
  · simp only [startOf, skipOf, selFrom] at h
    cases hb' : n.chain[t.b]? with
    | none => simp [hb'] at h
    | some blk =>
      simp only [hb'] at h
      have hlen := hev t.b blk hb'
      have : t.p < (blockRaw t.b blk).length := by
        rcases Nat.lt_or_ge t.p (blockRaw t.b blk).length with g | g
        · exact g
        · exfalso; apply h; simp [List.drop_eq_nil_of_le g, sel]
      omega

/-- Following the token STRINGS through `starknet_getEvents` is following the tokens through the
event filter: what the server prints parses back to the token it stood for. Canonical range end. -/
theorem collectRpc_eq (api : Api) (cfg : Cfg) (hW : 1 ≤ cfg.W) (env : RpcEnv) (r : RpcReq) (hok : ReqOK api r)
    (chain : List Block) (height floor : Nat) (hlen : chain.length = height + 1) (hfit : height < 2 ^ 64) (hev : EventsFit chain)
    (fromB toB : Nat) (hto1 : toB ≠ sentinel) (hto2 : toB ≤ height) :
    ∀ (fuel : Nat) (n : Node) (tok : Option Token), n.chain = chain → n.floor = floor → NoFalseNeg cfg n →
      resolveBound api n env height false r.from_ = some fromB → resolveBound api n env height true r.to = some toB →
      n.floor ≤ startOf fromB tok → Props.Valid (rpcFilter api r) n fromB tok → TokFits tok →
      collectRpc api cfg env r fuel n (encTok tok) = collect cfg (rpcFilter api r) fromB toB r.chunk env.limit fuel n tok := by
  intro fuel
  induction fuel with
  | zero => intros; rfl
  | succ fuel ih =>
    intro n tok hc hfl0 hnf hf ht hfl hv htf
    have hlen' : n.chain.length = height + 1 := by rw [hc]; exact hlen
    have hne : n.chain ≠ [] := by intro h; rw [h] at hlen'; simp at hlen'
    simp only [collectRpc, collect]
    rw [rpcEvents_valid api cfg n env r hok height hlen' tok htf fromB toB hf ht]
    rw [Props.preconfirmed_ignored_below_head cfg n (rpcFilter api r) fromB toB tok r.chunk env.limit env.base _ hto1 (by omega)]
    obtain ⟨evs, t, hres, _, hnf', hcase⟩ := Props.token_progress cfg hW n (rpcFilter api r) fromB toB r.chunk env.limit tok
      hok.chunk1 hne hnf hfl hv
    obtain ⟨hc', hf'⟩ := apiEvents_fields cfg n (rpcFilter api r) fromB toB tok r.chunk env.limit
    generalize hA : apiEvents cfg n (rpcFilter api r) fromB toB tok r.chunk env.limit = A at hres hnf' hc' hf'
    obtain ⟨n', pg⟩ := A
    simp only at hres hnf' hc' hf'
    subst hres
    simp only [wrapPage]
    rcases hcase with ⟨htn, _⟩ | ⟨hemp, _, hv', hb, hlex, _⟩
    · subst htn
      simp [Token.none, Token.isEmpty]
    · have hpne : (printTok t).isEmpty = false := by
        cases hp : printTok t with
        | nil => exact absurd hp (printTok_ne_nil t)
        | cons _ _ => rfl
      simp only [hemp, Bool.false_eq_true, if_false, hpne]
      have hmin : min toB (n.chain.length - 1) = toB := by rw [hlen']; simp; omega
      have hv'' : Props.Valid (rpcFilter api r) n' fromB (some t) := by
        unfold Props.Valid at hv' ⊢; rw [hc']; exact hv'
      have htf' : TokFits (some t) := by
        apply valid_fits (rpcFilter api r) n' fromB t toB (by rw [hmin] at hb; exact hb) (by omega) (by rw [hc', hc]; exact hev) hv''
      have := ih n' (some t) (by rw [hc', hc]) (by rw [hf', hfl0]) hnf'
        (by rw [resolveBound_congr api n n' env height false r.from_ (by rw [hc']) hf']; exact hf)
        (by rw [resolveBound_congr api n n' env height true r.to (by rw [hc']) hf']; exact ht)
        (by rw [hf']; show n.floor ≤ t.b; rcases hlex with h | h <;> omega) hv'' htf'
      simp only [encTok] at this
      rw [this]

theorem rpcCheck_congr (api : Api) (n n' : Node) (env : RpcEnv) (r : RpcReq)
    (h1 : n'.chain.length = n.chain.length) (h2 : n'.floor = n.floor) :
    rpcCheck api n' env r = rpcCheck api n env r := by
  simp only [rpcCheck, h1, fun height isTo id => resolveBound_congr api n n' env height isTo id h1 h2]

theorem rpcCheck_ok_inv (api : Api) (n : Node) (env : RpcEnv) (r : RpcReq) (c : RpcCall) (h : rpcCheck api n env r = .ok c) :
    ∃ height, n.chain.length = height + 1 ∧ resolveBound api n env height false r.from_ = some c.fromB ∧
      resolveBound api n env height true r.to = some c.toB ∧ c.pre = (if api == .v8 then [] else env.pre) := by
  unfold rpcCheck at h
  split at h
  · cases h
  split at h
  · cases h
  split at h
  · cases h
  split at h
  · cases h
  split at h
  · cases h
  split at h
  · cases h
  · rename_i height hl
    split at h
    · cases h
    · split at h
      · rename_i fromB toB hf ht
        cases h
        exact ⟨height, hl, hf, ht, rfl⟩
      · cases h

/-- Paging starts with `ensureInit`: it is the paging on the node after `wake`. -/
theorem collectRpc_wake (api : Api) (cfg : Cfg) (env : RpcEnv) (r : RpcReq) (fuel : Nat) (n : Node) (tok : List Nat)
    (h : (wake cfg n).initErr = none) :
    collectRpc api cfg env r fuel n tok = collectRpc api cfg env r fuel (wake cfg n) tok := by
  cases fuel with
  | zero => rfl
  | succ fuel =>
    obtain ⟨hc, hf, _⟩ := wake_fields cfg n
    have hl : (wake cfg n).chain.length = n.chain.length := by rw [hc]
    simp only [collectRpc, rpcEvents, rpcCheck_congr api n (wake cfg n) env _ hl hf, apiEventsPre, wake_live cfg _ h]
    cases rpcCheck api n env { r with tok := tok } <;> rfl

end Juno.C09
