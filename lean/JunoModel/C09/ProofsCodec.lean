import JunoModel.C09.ModelCodec
/-! C09 — lemmas about the byte-level codec (round 6). -/
namespace Juno.C09.Codec

theorem be_length (k n : Nat) : (be k n).length = k := by
  induction k generalizing n with
  | zero => rfl
  | succ k ih => simp [be, ih]

theorem beVal_be (k n : Nat) : beVal (be k n) = n % 256 ^ k := by
  induction k generalizing n with
  | zero => simp [be, beVal, Nat.mod_one]
  | succ k ih =>
    simp only [be, beVal, be_length, ih]
    rw [Nat.mod_mod, Nat.pow_succ, Nat.mod_mul]
    rw [Nat.mul_comm (256 ^ k)]; omega

theorem beVal_be_lt (k n : Nat) (h : n < 256 ^ k) : beVal (be k n) = n := by
  rw [beVal_be, Nat.mod_eq_of_lt h]

theorem take_be (k n : Nat) (l : List Nat) : (be k n ++ l).take k = be k n := by
  rw [List.take_append_of_le_length (by rw [be_length]; exact Nat.le_refl _), List.take_of_length_le (by rw [be_length]; exact Nat.le_refl _)]

theorem drop_be (k n : Nat) (l : List Nat) : (be k n ++ l).drop k = l := by
  have := List.drop_left (l₁ := be k n) (l₂ := l)
  rw [be_length] at this; exact this

theorem chunkWords_flatMap (r : List Nat) (rest : List Nat) (h : ∀ w ∈ r, w < 2 ^ 64) :
    chunkWords r.length (r.flatMap (be 8) ++ rest) = r := by
  induction r with
  | nil => rfl
  | cons w ws ih =>
    simp only [List.flatMap_cons, List.length_cons, chunkWords, List.append_assoc]
    rw [take_be, drop_be, beVal_be_lt 8 w (by have := h w (by simp); simpa using this), ih (fun x hx => h x (by simp [hx]))]

theorem flatMap_be_length (r : List Nat) : (r.flatMap (be 8)).length = r.length * 8 := by
  induction r with
  | nil => rfl
  | cons w ws ih => simp [List.flatMap_cons, be_length, ih]; omega

theorem encRow_length (d : Dim) (r : List Nat) (h : r.length = d.words) : (encRow d r).length = d.rowSize := by
  simp only [encRow, List.length_append, be_length, flatMap_be_length, h, Dim.rowSize, Dim.blobLen]

def RowsWF (d : Dim) (rows : List (List Nat)) : Prop := ∀ r ∈ rows, r.length = d.words ∧ ∀ w ∈ r, w < 2 ^ 64

theorem flatMap_encRow_length (d : Dim) (rows : List (List Nat)) (h : RowsWF d rows) :
    (rows.flatMap (encRow d)).length = rows.length * d.rowSize := by
  induction rows with
  | nil => simp
  | cons r rs ih =>
    simp only [List.flatMap_cons, List.length_append, List.length_cons]
    rw [encRow_length d r (h r (by simp)).1, ih (fun x hx => h x (by simp [hx])), Nat.add_mul]; omega

theorem decRows_enc (d : Dim) (hd : d.OK) (rows : List (List Nat)) (rest : List Nat) (h : RowsWF d rows) :
    decRows d rows.length (rows.flatMap (encRow d) ++ rest) = .ok (rows, rest) := by
  induction rows with
  | nil => rfl
  | cons r rs ih =>
    have hr := h r (by simp)
    have hl : 8 + r.length * 8 = d.blobLen := by simp [Dim.blobLen, hr.1]
    have e1 : (List.flatMap (encRow d) (r :: rs) ++ rest) =
        be 4 d.blobLen ++ (be 8 d.W ++ (r.flatMap (be 8) ++ (rs.flatMap (encRow d) ++ rest))) := by
      simp [List.flatMap_cons, encRow, hl]
    have e2 : (List.flatMap (encRow d) (r :: rs) ++ rest).drop d.rowSize = rs.flatMap (encRow d) ++ rest := by
      simp only [List.flatMap_cons, List.append_assoc]
      have := List.drop_left (l₁ := encRow d r) (l₂ := rs.flatMap (encRow d) ++ rest)
      rw [encRow_length d r hr.1] at this; exact this
    simp only [List.length_cons, decRows]
    rw [e2, ih (fun x hx => h x (by simp [hx]))]
    rw [e1, take_be, beVal_be_lt 4 _ (by have := hd.2.2; simpa using this)]
    have e3 : (be 4 d.blobLen ++ (be 8 d.W ++ (r.flatMap (be 8) ++ (rs.flatMap (encRow d) ++ rest)))).drop 4 =
        be 8 d.W ++ (r.flatMap (be 8) ++ (rs.flatMap (encRow d) ++ rest)) := drop_be 4 _ _
    have e4 : (be 4 d.blobLen ++ (be 8 d.W ++ (r.flatMap (be 8) ++ (rs.flatMap (encRow d) ++ rest)))).drop 12 =
        r.flatMap (be 8) ++ (rs.flatMap (encRow d) ++ rest) := by
      have : (12 : Nat) = 4 + 8 := rfl
      rw [this, ← List.drop_drop, drop_be, drop_be]
    rw [e3, take_be, beVal_be_lt 8 _ (by have := hd.2.1; simpa using this), e4]
    have := chunkWords_flatMap r (rs.flatMap (encRow d) ++ rest) hr.2
    rw [hr.1] at this
    simp [this]

theorem marshal_length (d : Dim) (m : Mat) (h : RowsWF d m.rows) :
    (marshal d m).length = headerSize + m.rows.length * d.rowSize := by
  simp [marshal, be_length, flatMap_encRow_length d m.rows h, headerSize]; omega

/-- Round trip of the window encoding. -/
theorem unmarshal_marshal (d : Dim) (hd : d.OK) (m : Mat) (h : m.WF d) : unmarshal d (marshal d m) = .ok m := by
  obtain ⟨hf, ht, hR, hrows⟩ := h
  have hlen := marshal_length d m hrows
  have hrs : 0 < d.rowSize := by simp [Dim.rowSize, Dim.blobLen]; omega
  have hto : m.to < 2 ^ 64 := by rw [ht]; exact Nat.mod_lt _ (by decide)
  unfold unmarshal
  have c1 : ¬ (marshal d m).length < headerSize := by rw [hlen]; omega
  have d16 : (marshal d m).drop 16 = be 4 m.rows.length ++ m.rows.flatMap (encRow d) := by
    have : (16 : Nat) = 8 + 8 := rfl
    simp only [marshal]
    rw [this, ← List.drop_drop, drop_be, drop_be]
  have d8 : (marshal d m).drop 8 = be 8 m.to ++ (be 4 m.rows.length ++ m.rows.flatMap (encRow d)) := by
    simp only [marshal]; rw [drop_be]
  have d20 : (marshal d m).drop headerSize = m.rows.flatMap (encRow d) := by
    have : headerSize = 16 + 4 := rfl
    rw [this, ← List.drop_drop, d16, drop_be]
  have t8 : (marshal d m).take 8 = be 8 m.from_ := by simp only [marshal]; rw [take_be]
  have hcount : beVal (((marshal d m).drop 16).take 4) = d.R := by
    rw [d16, take_be, beVal_be_lt 4 _ (by rw [hR]; have := hd.1; simpa using this), hR]
  have c3 : ¬ d.R > ((marshal d m).length - headerSize) / d.rowSize := by
    rw [hlen, hR, Nat.add_sub_cancel_left, Nat.mul_div_cancel _ hrs]; omega
  simp only [c1, if_false, hcount, bne_self_eq_false, Bool.false_eq_true, c3, t8, d8, take_be,
    beVal_be_lt 8 m.from_ (by simpa using hf), beVal_be_lt 8 m.to (by simpa using hto), d20]
  have := decRows_enc d hd m.rows [] hrows
  rw [List.append_nil, hR] at this
  rw [this]
  cases m
  simp_all

/-- What the row loop leaves is the input without `n` rows. -/
theorem decRows_rest (d : Dim) (n : Nat) (rest : List Nat) (rows : List (List Nat)) (rest' : List Nat)
    (h : decRows d n rest = .ok (rows, rest')) : rest' = rest.drop (n * d.rowSize) ∧ rows.length = n := by
  induction n generalizing rest rows rest' with
  | zero => simp [decRows] at h; simp [h.1, h.2]
  | succ n ih =>
    simp only [decRows] at h
    split at h
    · exact absurd h (by simp)
    · split at h
      · exact absurd h (by simp)
      · split at h
        · exact absurd h (by simp)
        · rename_i rows0 rest0 heq
          obtain ⟨h1, h2⟩ := ih _ _ _ heq
          simp only [Except.ok.injEq, Prod.mk.injEq] at h
          refine ⟨?_, by rw [← h.1]; simp [h2]⟩
          rw [← h.2, h1, List.drop_drop, Nat.succ_mul]; congr 1; omega

/-- The decoder accepts byte strings of exactly one length. -/
theorem unmarshal_ok_length (d : Dim) (data : List Nat) (m : Mat) (h : unmarshal d data = .ok m) :
    data.length = headerSize + d.R * d.rowSize ∧ m.rows.length = d.R ∧ m.to = (m.from_ + (d.W - 1)) % 2 ^ 64 := by
  unfold unmarshal at h
  split at h
  · exact absurd h (by simp)
  · rename_i c1
    simp only at h
    split at h
    · exact absurd h (by simp)
    · rename_i c2
      split at h
      · exact absurd h (by simp)
      · rename_i c3
        split at h
        · exact absurd h (by simp)
        · rename_i c4
          split at h
          · exact absurd h (by simp)
          · rename_i rows rest heq
            split at h
            · rename_i hemp
              obtain ⟨h1, h2⟩ := decRows_rest d _ _ _ _ heq
              simp only [bne_iff_ne, ne_eq, Decidable.not_not] at c2 c4
              rw [c2] at h1 h2 c3
              have hrs : 0 < d.rowSize := by simp [Dim.rowSize, Dim.blobLen]; omega
              have hle : d.R * d.rowSize ≤ data.length - headerSize := by
                have := Nat.div_mul_le_self (data.length - headerSize) d.rowSize
                have h' : d.R ≤ (data.length - headerSize) / d.rowSize := by omega
                exact Nat.le_trans (Nat.mul_le_mul_right _ h') this
              have hz : rest.length = 0 := by cases rest <;> simp_all
              rw [h1] at hz
              simp only [List.length_drop] at hz
              simp only [Except.ok.injEq] at h
              subst h
              refine ⟨by omega, h2, c4⟩
            · exact absurd h (by simp)

end Juno.C09.Codec

namespace Juno.C09.Codec

/-! ## The decoder accepts only what the encoder writes -/

def Bytes (l : List Nat) : Prop := ∀ b ∈ l, b < 256

theorem Bytes.take {l : List Nat} (h : Bytes l) (n : Nat) : Bytes (l.take n) :=
  fun b hb => h b (List.mem_of_mem_take hb)
theorem Bytes.drop {l : List Nat} (h : Bytes l) (n : Nat) : Bytes (l.drop n) :=
  fun b hb => h b (List.mem_of_mem_drop hb)

theorem beVal_lt (l : List Nat) (h : Bytes l) : beVal l < 256 ^ l.length := by
  induction l with
  | nil => simp [beVal]
  | cons b bs ih =>
    have hb := h b (by simp)
    have := ih (fun x hx => h x (by simp [hx]))
    simp only [beVal, List.length_cons, Nat.pow_succ]
    generalize 256 ^ bs.length = P at *
    have : b * P + P ≤ 256 * P := by
      have : (b + 1) * P ≤ 256 * P := Nat.mul_le_mul_right P (by omega)
      rw [Nat.add_mul, Nat.one_mul] at this; exact this
    rw [Nat.mul_comm P 256]; omega

theorem be_beVal (l : List Nat) (h : Bytes l) : be l.length (beVal l) = l := by
  induction l with
  | nil => rfl
  | cons b bs ih =>
    have hb := h b (by simp)
    have hv := beVal_lt bs (fun x hx => h x (by simp [hx]))
    have hP : 0 < 256 ^ bs.length := Nat.pow_pos (by decide)
    simp only [List.length_cons, be, beVal]
    rw [Nat.add_comm, Nat.add_mul_div_right _ _ hP, Nat.add_mul_mod_self_right, Nat.div_eq_of_lt hv, Nat.mod_eq_of_lt hv,
      Nat.zero_add, Nat.mod_eq_of_lt hb, ih (fun x hx => h x (by simp [hx]))]

theorem be_of_beVal_take (k v : Nat) (l : List Nat) (hl : k ≤ l.length) (hb : Bytes l) (h : beVal (l.take k) = v) :
    l.take k = be k v := by
  have := be_beVal (l.take k) (hb.take k)
  rw [List.length_take, Nat.min_eq_left hl, h] at this
  exact this.symm

theorem chunkWords_canon (n : Nat) (l : List Nat) (hl : n * 8 ≤ l.length) (hb : Bytes l) :
    (chunkWords n l).flatMap (be 8) = l.take (n * 8) ∧ (chunkWords n l).length = n ∧ ∀ w ∈ chunkWords n l, w < 2 ^ 64 := by
  induction n generalizing l with
  | zero => simp [chunkWords]
  | succ n ih =>
    have h8 : 8 ≤ l.length := by omega
    obtain ⟨i1, i2, i3⟩ := ih (l.drop 8) (by rw [List.length_drop]; omega) (hb.drop 8)
    have hlt : beVal (l.take 8) < 2 ^ 64 := by
      have := beVal_lt (l.take 8) (hb.take 8)
      rw [List.length_take, Nat.min_eq_left h8] at this
      exact this
    refine ⟨?_, by simp [chunkWords, i2], ?_⟩
    · simp only [chunkWords, List.flatMap_cons, i1]
      rw [← be_of_beVal_take 8 _ l h8 hb rfl, Nat.succ_mul, Nat.add_comm (n * 8) 8, List.take_add]
    · intro w hw
      simp only [chunkWords, List.mem_cons] at hw
      rcases hw with rfl | hw
      · exact hlt
      · exact i3 w hw

theorem decRows_canon (d : Dim) (n : Nat) (rest : List Nat) (rows : List (List Nat)) (rest' : List Nat)
    (h : decRows d n rest = .ok (rows, rest')) (hb : Bytes rest) (hl : n * d.rowSize ≤ rest.length) :
    rows.flatMap (encRow d) = rest.take (n * d.rowSize) ∧ RowsWF d rows := by
  induction n generalizing rest rows rest' with
  | zero =>
    simp [decRows] at h
    obtain ⟨rfl, rfl⟩ := h
    simp [RowsWF]
  | succ n ih =>
    have hrs : d.rowSize = 4 + (8 + d.words * 8) := rfl
    have hl' : d.rowSize + n * d.rowSize ≤ rest.length := by rw [Nat.succ_mul] at hl; omega
    simp only [decRows] at h
    split at h
    · exact absurd h (by simp)
    · rename_i c1
      split at h
      · exact absurd h (by simp)
      · rename_i c2
        split at h
        · exact absurd h (by simp)
        · rename_i rows0 rest0 heq
          simp only [bne_iff_ne, ne_eq, Decidable.not_not] at c1 c2
          obtain ⟨j1, j2⟩ := ih _ _ _ heq (hb.drop _) (by rw [List.length_drop]; omega)
          obtain ⟨k1, k2, k3⟩ := chunkWords_canon d.words (rest.drop 12) (by rw [List.length_drop]; omega) (hb.drop 12)
          simp only [Except.ok.injEq, Prod.mk.injEq] at h
          rw [← h.1]
          refine ⟨?_, ?_⟩
          · simp only [List.flatMap_cons, encRow, k1, k2, j1]
            have t4 := be_of_beVal_take 4 _ rest (by omega) hb c1
            have t8 := be_of_beVal_take 8 _ (rest.drop 4) (by rw [List.length_drop]; omega) (hb.drop 4) c2
            have hbl : 8 + d.words * 8 = d.blobLen := rfl
            rw [hbl, ← t4, ← t8, Nat.succ_mul, Nat.add_comm (n * d.rowSize), List.take_add, hrs, List.take_add, List.take_add,
              List.drop_drop]
          · intro r hr
            simp only [List.mem_cons] at hr
            rcases hr with rfl | hr
            · exact ⟨k2, k3⟩
            · exact j2 r hr

/-- The decoder accepts only the encoder's output. -/
theorem unmarshal_canon (d : Dim) (data : List Nat) (m : Mat) (hb : Bytes data) (h : unmarshal d data = .ok m) :
    marshal d m = data ∧ m.WF d := by
  obtain ⟨hlen, hR, hto⟩ := unmarshal_ok_length d data m h
  have h20 : headerSize = 20 := rfl
  unfold unmarshal at h
  split at h
  · exact absurd h (by simp)
  · simp only at h
    split at h
    · exact absurd h (by simp)
    · rename_i c2
      split at h
      · exact absurd h (by simp)
      · split at h
        · exact absurd h (by simp)
        · split at h
          · exact absurd h (by simp)
          · rename_i rows rest heq
            split at h
            · simp only [bne_iff_ne, ne_eq, Decidable.not_not] at c2
              rw [c2] at heq
              obtain ⟨j1, j2⟩ := decRows_canon d _ _ _ _ heq (hb.drop _) (by rw [List.length_drop]; omega)
              obtain ⟨_, hn⟩ := decRows_rest d _ _ _ _ heq
              simp only [Except.ok.injEq] at h
              subst h
              have hfr : beVal (data.take 8) < 2 ^ 64 := by
                have := beVal_lt (data.take 8) (hb.take 8)
                rw [List.length_take, Nat.min_eq_left (by omega)] at this; exact this
              refine ⟨?_, hfr, hto, hn, j2⟩
              have t1 := be_of_beVal_take 8 _ data (by omega) hb rfl
              have t2 := be_of_beVal_take 8 _ (data.drop 8) (by rw [List.length_drop]; omega) (hb.drop 8) rfl
              have t3 := be_of_beVal_take 4 _ (data.drop 16) (by rw [List.length_drop]; omega) (hb.drop 16) c2
              simp only [marshal, hn, j1]
              rw [← t1, ← t2, ← t3, List.take_of_length_le (l := data.drop headerSize) (by rw [List.length_drop]; omega)]
              have e : data = data.take 8 ++ ((data.drop 8).take 8 ++ ((data.drop 16).take 4 ++ data.drop 20)) := by
                conv => lhs; rw [← List.take_append_drop 8 data, ← List.take_append_drop 8 (data.drop 8), List.drop_drop,
                  ← List.take_append_drop 4 (data.drop (8 + 8)), List.drop_drop]
              exact e.symm
            · exact absurd h (by simp)

end Juno.C09.Codec

namespace Juno.C09.Codec

/-! ## The snapshot of the running filter -/

theorem unmarshalRun_marshalRun (d : Dim) (hd : d.OK) (m : Mat) (h : m.WF d) (next : Nat) (hn : next < 2 ^ 64)
    (hL : (marshal d m).length < 2 ^ 32) : unmarshalRun d (marshalRun d m next) = .ok (m, next) := by
  have hlen : (marshalRun d m next).length = 4 + ((marshal d m).length + 8) := by
    simp [marshalRun, be_length]
  have t4 : (marshalRun d m next).take 4 = be 4 (marshal d m).length := by simp only [marshalRun]; rw [take_be]
  have d4 : (marshalRun d m next).drop 4 = marshal d m ++ be 8 next := by simp only [marshalRun]; rw [drop_be]
  have dL : (marshalRun d m next).drop (4 + (marshal d m).length) = be 8 next := by
    rw [← List.drop_drop, d4, List.drop_left]
  unfold unmarshalRun
  simp only [t4, beVal_be_lt 4 _ (by simpa using hL), d4, List.take_left, unmarshal_marshal d hd m h, dL, be_length]
  rw [hlen]
  have : ¬ 4 + ((marshal d m).length + 8) < 4 := by omega
  have h2 : ¬ 4 + ((marshal d m).length + 8) - 4 < (marshal d m).length := by omega
  simp only [this, h2, if_false, Nat.lt_irrefl]
  rw [List.take_of_length_le (by rw [be_length]; exact Nat.le_refl _), beVal_be_lt 8 next (by simpa using hn)]

theorem unmarshalRun_canon (d : Dim) (data : List Nat) (m : Mat) (next : Nat) (hb : Bytes data)
    (h : unmarshalRun d data = .ok (m, next)) :
    ∃ tail, data = marshalRun d m next ++ tail ∧ m.WF d ∧ next < 2 ^ 64 := by
  unfold unmarshalRun at h
  split at h
  · exact absurd h (by simp)
  · rename_i c1
    simp only at h
    split at h
    · exact absurd h (by simp)
    · rename_i c2
      split at h
      · exact absurd h (by simp)
      · rename_i m0 heq
        split at h
        · exact absurd h (by simp)
        · rename_i c3
          simp only [Except.ok.injEq, Prod.mk.injEq] at h
          obtain ⟨rfl, hnext⟩ := h
          obtain ⟨k1, k2⟩ := unmarshal_canon d _ m0 ((hb.drop 4).take _) heq
          have hLl : (marshal d m0).length = beVal (data.take 4) := by
            rw [k1, List.length_take, List.length_drop]; omega
          have t4 := be_of_beVal_take 4 _ data (by omega) hb rfl
          rw [List.length_drop] at c3
          have t8 := be_of_beVal_take 8 _ (data.drop (4 + beVal (data.take 4))) (by rw [List.length_drop]; omega) (hb.drop _) hnext
          have hlt : next < 2 ^ 64 := by
            have := beVal_lt ((data.drop (4 + beVal (data.take 4))).take 8) ((hb.drop _).take 8)
            rw [List.length_take, List.length_drop, Nat.min_eq_left (by omega), hnext] at this; exact this
          refine ⟨data.drop (4 + beVal (data.take 4) + 8), ?_, k2, hlt⟩
          simp only [marshalRun]
          rw [hLl, k1, ← t4, ← t8]
          simp only [List.append_assoc]
          conv => lhs; rw [← List.take_append_drop 4 data, ← List.take_append_drop (beVal (data.take 4)) (data.drop 4), List.drop_drop,
            ← List.take_append_drop 8 (data.drop (4 + beVal (data.take 4))), List.drop_drop]

end Juno.C09.Codec
