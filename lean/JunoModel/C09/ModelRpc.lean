import JunoModel.C09.Model
/-!
C09 — model of the RPC layer on top of the event filter (round 5).

Transcribed code:
* `blockchain/event_filter.go`   — `ContinuationToken.String` / `FromString` (`fmt.Sscanf("%d-%d")`
                                    into two `uint64`: the scanner of Go's `fmt` as far as this format
                                    string reaches it), default bounds of `Blockchain.EventFilter`
* `rpc/v10|v9|v8/events.go`      — `Handler.Events` (validation order, token handling, error mapping,
                                    `AddressList` de-duplication), `setEventFilterRange` (three copies)
* `rpc/v10|v9/subscription_events.go`, `rpc/v8/subscriptions.go` — `SubscribeEvents` (key-count check in
                                    its two forms, `resolveBlockRange`, the L1 head read), the historical
                                    replay, `matchingEvents`, `onPreConfirmed`
* `rpc/rpccore/preconfirmed_deduper.go` — `PreConfirmedDeduper.MarkSent` / `Clear`
* `pruner/accessors.go`          — which block hashes still resolve after `PruneUpto`

Strings are lists of Unicode code points. Core Lean only (linked into `c09drv`).
-/
namespace Juno.C09

/-! ## Continuation tokens as strings -/

/-- `isSpace` of `fmt/scan.go` without `'\n'` (which `SkipSpace` treats separately). -/
def goSpace (c : Nat) : Bool :=
  (0x09 ≤ c && c ≤ 0x0d && c != 0x0a) || c == 0x20 || c == 0x85 || c == 0xa0 || c == 0x1680 ||
  (0x2000 ≤ c && c ≤ 0x200a) || c == 0x2028 || c == 0x2029 || c == 0x202f || c == 0x205f || c == 0x3000

def isDig (c : Nat) : Bool := 48 ≤ c && c ≤ 57

/-- `ss.SkipSpace` of `Sscanf` (newlines are not spaces there): `none` = "unexpected newline". -/
def skipSp : List Nat → Option (List Nat)
  | [] => some []
  | c :: cs => if c == 10 then none else if goSpace c then skipSp cs else some (c :: cs)

def digitsVal (ds : List Nat) : Nat := ds.foldl (fun a c => 10 * a + (c - 48)) 0

/-- `ss.scanUint('d', 64)`: skip spaces, at least one decimal digit, no sign, `strconv.ParseUint`
range check. Returns the value and the rest of the input. -/
def scanUint (s : List Nat) : Option (Nat × List Nat) :=
  match skipSp s with
  | none => none
  | some s' =>
    let ds := s'.takeWhile isDig
    if ds.isEmpty then none
    else if digitsVal ds < 2 ^ 64 then some (digitsVal ds, s'.dropWhile isDig) else none

/-- `ContinuationToken.FromString`: `fmt.Sscanf(str, "%d-%d", &fromBlock, &processedEvents)`.
The `-` must follow the first number directly; spaces are skipped before either number; whatever
follows the second number is ignored. -/
def parseTok (s : List Nat) : Option Token :=
  match scanUint s with
  | some (b, 45 :: r) =>
    match scanUint r with
    | some (p, _) => some ⟨b, p⟩
    | none => none
  | _ => none

/-- `%d` of `fmt.Sprintf`, most significant digit first (`fuel` bounds the number of digits). -/
def decDigitsAux : Nat → Nat → List Nat
  | 0, _ => []
  | fuel + 1, n => if n < 10 then [48 + n] else decDigitsAux fuel (n / 10) ++ [48 + n % 10]

def decDigits (n : Nat) : List Nat := decDigitsAux (n + 1) n

/-- `ContinuationToken.String`. -/
def printTok (t : Token) : List Nat := decDigits t.b ++ 45 :: decDigits t.p

/-! ## Block ids and `setEventFilterRange` -/

inductive Api where
  | v8 | v9 | v10
  deriving DecidableEq, Repr

/-- A `BlockID` of a `starknet_getEvents` request. `hash (some b)`: the hash of canonical block `b`
(as stored when the request is made); `hash none`: a hash no stored block has. `preConfirmed` is
v8's `pending`. v8 has no `l1_accepted` tag (its decoder refuses it). -/
inductive BlockId where
  | number (k : Nat)
  | hash (b : Option Nat)
  | latest
  | preConfirmed
  | l1Accepted
  deriving DecidableEq, Repr

/-- `core.GetBlockHeaderNumberByHash`: the hash index holds the blocks of the chain; `PruneUpto(k)`
deletes the entries of the blocks below `k - 1` (the sweep runs one block late: the entry of
`k - 1` survives for `StateAtBlockHash(oldestKept.parentHash)`). -/
def hashNumber (n : Node) : Option Nat → Option Nat
  | none => none
  | some b => if b < n.chain.length && n.floor ≤ b + 1 then some b else none

/-- What the handler reads besides the chain: the L1 head (`core.GetL1Head`; `none` = never
written), the scan limit (`Handler.filterLimit`), the pre-confirmed chain of the sync reader (first
block `base + 1`; `[]` = none), and — for the subscriptions — whether a missing L1 head is tolerated
(the repair proposed in round 5; `false` = the code as found). -/
structure RpcEnv where
  l1 : Option Nat
  limit : Nat
  base : Nat
  pre : List Block
  l1Tolerant : Bool
  deriving Repr

/-- The closure `set` of `setEventFilterRange` for one bound. -/
def resolveId (api : Api) (n : Node) (env : RpcEnv) (height : Nat) (isTo : Bool) : BlockId → Option Nat
  | .preConfirmed => some (if api = .v8 then height + 1 else sentinel)
  | .latest => some height
  | .hash b => hashNumber n b
  | .number k => some (if isTo then min k height else k)
  | .l1Accepted => env.l1

/-- An omitted bound keeps the default of `Blockchain.EventFilter`: `0` resp. the head. -/
def resolveBound (api : Api) (n : Node) (env : RpcEnv) (height : Nat) (isTo : Bool) : Option BlockId → Option Nat
  | none => some (if isTo then height else 0)
  | some id => resolveId api n env height isTo id

/-! ## `Handler.Events` -/

def maxEventChunkSize : Nat := 10240
def maxEventFilterKeys : Nat := 1024
def maxBlocksBack : Nat := 1024
def subscribeChunk : Nat := 1024

inductive RpcErr where
  | invalidParams     -- jsonrpc.InvalidParams: the validator (`min=1`) or the JSON decoder
  | pageTooBig        -- 31
  | tooManyKeys       -- 34
  | internal          -- ErrInternal without data (`bcReader.Height` failed: empty chain)
  | badToken          -- 33
  | blockNotFound     -- 24
  | tooManyBlocksBack -- 68 (subscriptions)
  | data (e : Err)    -- ErrInternal.CloneWithData(err): the error of `EventFilter.Events`
  deriving DecidableEq, Repr

inductive RpcRes where
  | ok (evs : List Emitted) (tok : List Nat)
  | err (e : RpcErr)
  deriving DecidableEq, Repr

/-- `lenKeys := len(keys); for _, k := range keys { lenKeys += len(k) }`. -/
def keysCount (keys : List (List Nat)) : Nat := keys.foldl (fun acc k => acc + k.length) keys.length

structure RpcReq where
  from_ : Option BlockId
  to : Option BlockId
  addrs : List Nat
  keys : List (List Nat)
  /-- `continuation_token`; `[]` = absent / empty string: first page -/
  tok : List Nat
  chunk : Nat
  deriving Repr

/-- What `Handler.Events` hands to the event filter. -/
structure RpcCall where
  f : Filter
  fromB : Nat
  toB : Nat
  tok : Option Token
  pre : List Block
  deriving Repr

/-- `starknet_getEvents` up to the call of `EventFilter.Events`: the validator and the decoder first
(chunk size 0; a block tag the version does not know; an address LIST where the version takes one
address), then `Handler.Events` in its order: page size, key count, chain height, filter, token, range. -/
def rpcCheck (api : Api) (n : Node) (env : RpcEnv) (r : RpcReq) : Except RpcErr RpcCall :=
  if r.chunk == 0 then .error .invalidParams
  else if api == .v8 && (r.from_ == some .l1Accepted || r.to == some .l1Accepted) then .error .invalidParams
  else if api != .v10 && r.addrs.length > 1 then .error .invalidParams
  else if r.chunk > maxEventChunkSize then .error .pageTooBig
  else if keysCount r.keys > maxEventFilterKeys then .error .tooManyKeys
  else
    match n.chain.length with
    | 0 => .error .internal
    | height + 1 =>
      match (if r.tok.isEmpty then some none else (parseTok r.tok).map some) with
      | none => .error .badToken
      | some tok =>
        match resolveBound api n env height false r.from_, resolveBound api n env height true r.to with
        | some fromB, some toB =>
          .ok ⟨⟨if api == .v10 then r.addrs.eraseDups else r.addrs, r.keys⟩, fromB, toB, tok, if api == .v8 then [] else env.pre⟩
        | _, _ => .error .blockNotFound

/-- `starknet_getEvents`: a refused request leaves the node alone; otherwise the page of the event
filter, its error wrapped, its token printed. -/
def rpcEvents (api : Api) (cfg : Cfg) (n : Node) (env : RpcEnv) (r : RpcReq) : Node × RpcRes :=
  match rpcCheck api n env r with
  | .error e => (n, .err e)
  | .ok c =>
    let res := apiEventsPre cfg n c.f c.fromB c.toB c.tok r.chunk env.limit env.base c.pre
    match res.2 with
    | .err e => (res.1, .err (.data e))
    | .ok evs t => (res.1, .ok evs (if t.isEmpty then [] else printTok t))

/-- A client following the continuation-token STRINGS of `starknet_getEvents` to the end. -/
def collectRpc (api : Api) (cfg : Cfg) (env : RpcEnv) (r : RpcReq) : Nat → Node → List Nat → Option (List Emitted)
  | 0, _, _ => none
  | fuel + 1, n, tok =>
    match rpcEvents api cfg n env { r with tok := tok } with
    | (_, .err _) => none
    | (n', .ok evs t) =>
      if t.isEmpty then some evs
      else (collectRpc api cfg env r fuel n' t).map (evs ++ ·)

/-! ## Event subscriptions -/

inductive SubId where
  | latest
  | number (k : Nat)
  | hash (b : Option Nat)
  deriving DecidableEq, Repr

/-- The key-count check of `newEventSubscriber` (v9 / v10): the comparison sits inside the loop. -/
def keysOverLoop (max : Nat) : List (List Nat) → Nat → Bool
  | [], _ => false
  | k :: ks, acc => if acc + k.length > max then true else keysOverLoop max ks (acc + k.length)

/-- `resolveBlockRange`: `(startBlock, latestBlock)`. -/
def resolveBlockRange (n : Node) (id : Option SubId) : Except RpcErr (Nat × Nat) :=
  match n.chain.length with
  | 0 => .error .internal
  | latest + 1 =>
    match id with
    | none => .ok (latest, latest)
    | some .latest => .ok (latest, latest)
    | some (.hash b) =>
      match hashNumber n b with
      | none => .error .blockNotFound
      | some start =>
        if latest ≥ maxBlocksBack && start ≤ latest - maxBlocksBack then .error .tooManyBlocksBack
        else .ok (start, latest)
    | some (.number k) =>
      if k > latest then .error .blockNotFound
      else if latest ≥ maxBlocksBack && k ≤ latest - maxBlocksBack then .error .tooManyBlocksBack
      else .ok (k, latest)

/-- `SubscribeEvents` up to the point where the subscription exists: the checks and what it
remembers — `(startBlock, latestBlock, l1HeadNumber)`. v9 / v10 read the L1 head with
`bcReader.L1Head()`: a node that has never stored one refuses the subscription (`l1Tolerant = false`,
the code as found); with the repair a missing L1 head means "nothing is accepted on L1"
(`none`). v8 does not read it. -/
def subscribeEvents (api : Api) (n : Node) (env : RpcEnv) (addrs : List Nat) (keys : List (List Nat)) (id : Option SubId) :
    Except RpcErr (Nat × Nat × Option Nat) :=
  if api != .v10 && addrs.length > 1 then .error .invalidParams
  else if (if api == .v8 then decide (keysCount keys > maxEventFilterKeys) else keysOverLoop maxEventFilterKeys keys keys.length) then
    .error .tooManyKeys
  else
    match resolveBlockRange n id with
    | .error e => .error e
    | .ok (start, latest) =>
      if api == .v8 then .ok (start, latest, none)
      else
        match env.l1 with
        | some l1 => .ok (start, latest, some l1)
        | none => if env.l1Tolerant then .ok (start, latest, none) else .error (.data .notfound)

/-- Finality tag of a replayed event: accepted on L1 iff at or below the remembered L1 head. -/
def onL1 (l1 : Option Nat) (b : Nat) : Bool :=
  match l1 with
  | some h => b ≤ h
  | none => false

/-- `processHistoricalEvents` / v8 `processEvents`: the range `[start, latest]` read through the
event filter in pages of 1024 (token structs, not strings; no scan limit: `maxScanned` stays
`math.MaxUint`). -/
def subReplay (cfg : Cfg) (n : Node) (f : Filter) (start latest fuel : Nat) : Option (List Emitted) :=
  collect cfg f start latest subscribeChunk (2 ^ 64 - 1) fuel n none

/-- `matchingEvents`: the header bloom first, then address and keys per event. -/
def matchingEvents (f : Filter) (num : Nat) (blk : Block) : List Emitted :=
  if testBloom f blk then
    (blockRaw num blk).filter (fun e => matchesAddr f.addrs e.ev.sender && matchesKeys f.keys e.ev.keys)
  else []

/-- `rpccore.PreConfirmedDeduper[SentEvent]`; the round identifier is a number (0 = the empty
string), a key is `(transaction hash, transaction index, event index)`. -/
structure Dedup where
  num : Nat
  ident : Nat
  seen : List (Nat × Nat × Nat)
  deriving DecidableEq, Repr

def Dedup.init : Dedup := ⟨0, 0, []⟩

def Dedup.markSent (d : Dedup) (num ident : Nat) (key : Nat × Nat × Nat) : Dedup × Bool :=
  let d' : Dedup := if num != d.num || ident != d.ident then ⟨num, ident, []⟩ else d
  if d'.seen.contains key then (d', false) else ({ d' with seen := key :: d'.seen }, true)

def Dedup.clear (_ : Dedup) : Dedup := Dedup.init

/-- The loop of `onPreConfirmed` over the matching events. -/
def sendNew (num ident : Nat) (hashes : List Nat) : List Emitted → Dedup → List Emitted → Dedup × List Emitted
  | [], d, out => (d, out)
  | e :: es, d, out =>
    let r := d.markSent num ident (hashes.getD e.tx 0, e.tx, e.idx)
    sendNew num ident hashes es r.1 (if r.2 then out ++ [e] else out)

/-- `eventSubscriberState.onPreConfirmed`: the tip `blk` (number `num`, round `ident`, transaction
hashes `hashes`) is published again in full on every update; what was sent in this round is skipped. -/
def onPreConfirmed (f : Filter) (d : Dedup) (num ident : Nat) (hashes : List Nat) (blk : Block) : Dedup × List Emitted :=
  sendNew num ident hashes (matchingEvents f num blk) d []

/-- rpc v8 `SubscribeEvents`: events of new heads are read from the database, over
`[nextBlock, head]`; a reorg notification moves `nextBlock` back to the first orphaned block. -/
structure V8Sub where
  next : Nat
  deriving DecidableEq, Repr

def v8Start (latest : Nat) : V8Sub := ⟨latest + 1⟩

def v8OnReorg (_ : V8Sub) (start : Nat) : V8Sub := ⟨start⟩

/-- `onNewHead`: `none` = `processEvents` failed (the subscription ends). -/
def v8OnNewHead (cfg : Cfg) (n : Node) (f : Filter) (s : V8Sub) (head fuel : Nat) : V8Sub × Option (List Emitted) :=
  match subReplay cfg n f s.next head fuel with
  | some evs => (⟨head + 1⟩, some evs)
  | none => (s, none)

end Juno.C09
