import JunoModel.C09.ProofsCodec
/-!
C09 — property theorems of round 6: the persisted form of the event index.

The index survives a restart and a reorg across a window boundary only through two byte strings: the
persisted window (`AggregatedBloomFilter.MarshalBinary`, read back by the hand-written
`UnmarshalBinary` whenever a query leaves the running window, when `onReorg` re-opens the previous
window and when the initialiser looks for its anchor) and the snapshot of the running filter written
at shutdown. Rounds 1–5 took both as the identity (tied through the database). Here they are
functions over bytes, for every matrix size (`Dim`; the code has 8192 × 8192): what is read back is
what was written, bit for bit, so no bit — hence no candidate block — is lost on the way through the
database; and the decoder accepts nothing but the encoder's output (one length, canonical fields).
-/
namespace Juno.C09.Props
open Juno.C09.Codec

/-- **A persisted window read back is the window that was written**: `UnmarshalBinary ∘
MarshalBinary` is the identity on every filter that can exist in memory (`Mat.WF`: `toBlock =
fromBlock + W - 1` in `uint64` arithmetic — also for a window that wraps —, `R` rows of
`wordsPerFilterRow` words). -/
theorem window_encoding_round_trip (d : Dim) (hd : d.OK) (m : Mat) (h : m.WF d) :
    unmarshal d (marshal d m) = .ok m :=
  unmarshal_marshal d hd m h

/-- **The decoder accepts only the encoder's output**: an accepted byte string is `MarshalBinary`
of the filter it decodes to, and that filter is well-formed (what `Insert` / `clear` /
`BlocksForKeysInto` index without bounds checks). -/
theorem window_decoder_accepts_only_canonical (d : Dim) (data : List Nat) (m : Mat)
    (hb : ∀ b ∈ data, b < 256) (h : unmarshal d data = .ok m) : marshal d m = data ∧ m.WF d :=
  unmarshal_canon d data m hb h

/-- Accepted byte strings have exactly one length, `20 + R · rowSize`: a truncated blob and a blob
with trailing bytes are both refused (never decoded in part). -/
theorem window_decoder_refuses_other_lengths (d : Dim) (data : List Nat) (h : data.length ≠ headerSize + d.R * d.rowSize) :
    ∀ m, unmarshal d data ≠ .ok m :=
  fun m hm => h (unmarshal_ok_length d data m hm).1

/-- Two different byte strings never decode to the same window. -/
theorem window_decoder_injective (d : Dim) (a b : List Nat) (m : Mat) (ha : ∀ x ∈ a, x < 256) (hb : ∀ x ∈ b, x < 256)
    (h1 : unmarshal d a = .ok m) (h2 : unmarshal d b = .ok m) : a = b := by
  rw [← (unmarshal_canon d a m ha h1).1, ← (unmarshal_canon d b m hb h2).1]

/-- **The shutdown snapshot read back is the running filter that was written** (window and `next`). -/
theorem snapshot_encoding_round_trip (d : Dim) (hd : d.OK) (m : Mat) (h : m.WF d) (next : Nat) (hn : next < 2 ^ 64)
    (hL : (marshal d m).length < 2 ^ 32) : unmarshalRun d (marshalRun d m next) = .ok (m, next) :=
  unmarshalRun_marshalRun d hd m h next hn hL

/-- An accepted snapshot starts with `MarshalBinary` of the running filter it decodes to; only bytes
AFTER `next` are not looked at. -/
theorem snapshot_decoder_accepts_only_canonical_prefix (d : Dim) (data : List Nat) (m : Mat) (next : Nat)
    (hb : ∀ b ∈ data, b < 256) (h : unmarshalRun d data = .ok (m, next)) :
    ∃ tail, data = marshalRun d m next ++ tail ∧ m.WF d ∧ next < 2 ^ 64 :=
  unmarshalRun_canon d data m next hb h

/-! ## Non-vacuity (2 rows of 70 bits: two words per row) -/

deriving instance DecidableEq for Except

def dimS : Dim := ⟨2, 70⟩
def matS : Mat := ⟨2 ^ 64 - 3, 66, [[5, 2 ^ 64 - 1], [0, 9]]⟩

example : dimS.OK ∧ matS.WF dimS := by
  refine ⟨⟨by decide, by decide, by decide⟩, by decide, by decide, by decide, ?_⟩
  intro r hr
  simp only [matS, List.mem_cons, List.not_mem_nil, or_false] at hr
  rcases hr with rfl | rfl <;> refine ⟨by decide, ?_⟩ <;> intro w hw <;>
    simp only [List.mem_cons, List.not_mem_nil, or_false] at hw <;> rcases hw with rfl | rfl <;> decide

example : (marshal dimS matS).length = 20 + 2 * 28 ∧ unmarshal dimS (marshal dimS matS) = .ok matS ∧
    unmarshalRun dimS (marshalRun dimS matS 77 ++ [1, 2, 3]) = .ok (matS, 77) := by decide

-- the checks in the order of the code: count before room, room before `toBlock`, rows, trailing bytes
example :
    unmarshal dimS ((marshal dimS matS).take 19) = .error .eof ∧
    unmarshal dimS ((marshal dimS matS).take 75) = .error .eof ∧
    unmarshal dimS (marshal dimS matS ++ [0]) = .error .eof ∧
    unmarshal dimS ((marshal dimS matS).set 19 3 |>.take 30) = .error .size ∧
    unmarshal dimS ((marshal dimS matS).set 15 67 |>.take 75) = .error .eof ∧
    unmarshal dimS ((marshal dimS matS).set 15 67) = .error .size ∧
    unmarshal dimS ((marshal dimS matS).set 23 25 ++ [0]) = .error .size ∧
    unmarshal dimS ((marshal dimS matS).set (48 + 11) 71) = .error .size := by decide

end Juno.C09.Props
