/-
C09 — model of juno's event index and event queries.

Transcribed code (pinned commit, see notes/C09.md for the line-by-line map):
* `blockchain/event_matcher.go`   — `MatchesEventKeys`, address test, `getCandidateBlocksForFilterInto`,
                                     `AppendBlockEventsFromTransactionEvents` (skip / chunk loop), `TestBloom`
* `blockchain/event_filter.go`    — `Events`, `canonicalEvents`, `preConfirmedEvents`, continuation tokens
* `blockchain/aggregated_bloom_filter_cache.go` — `MatchedBlockIterator` (window loading: running window,
                                     LRU cache, fallback to the persisted window), scan limit
* `core/aggregated_bloom_filter.go` — `Insert` / `clear` / `BlocksForKeysInto` (as a per-block column map)
* `core/running_event_filter.go`  — `insert` (rollover), `onReorg`, `Write`, `InitializeRunningEventFilter`,
                                     `fillRunningEventFilter`, `rebuildRunningEventFilter`
  (`pruner/running_event_filter.go` with retention floor 0 is the same function)
* `core/transaction.go`           — `EventsBloom`

Abstractions:
* A bloom filter is the *set of items it tests positive on* (`List Item`): an address, or a key
  tagged with its position. Real blooms have false positives, so a header bloom is any superset of
  the block's items (`Block.WF`); nothing below depends on it being exact.
* An aggregated filter (bit matrix: bloom rows × W block columns) is a list of columns
  `(block number, bits OR-ed in by one Insert)`; testing a key on column `b` is the AND over the
  key's rows, i.e. membership in one of the inserted blooms of `b`.
* The window size `W` (code: `core.NumBlocksPerFilter = 8192`) and the LRU capacity (code: 16) are
  parameters. All theorems are for every `W ≥ 1`.
* Felts are natural numbers.

Core Lean only: this file is linked into the driver executable `c09drv`.
-/
namespace Juno.C09

/-! ## Events, blocks, filters -/

/-- What `core.EventsBloom` adds per event: the emitter, and every key with its position. -/
inductive Item where
  | addr (a : Nat)
  | key (pos : Nat) (k : Nat)
  deriving DecidableEq, Repr

structure Event where
  sender : Nat
  keys : List Nat
  deriving DecidableEq, Repr

/-- The events of one transaction (receipt). -/
abbrev Tx := List Event

/-- What the index and the queries read of a stored block: the events per transaction and the
header's `EventsBloom`. -/
structure Block where
  txs : List Tx
  bloom : List Item
  deriving DecidableEq, Repr

/-- `addrs = []` matches every emitter; `keys[i] = []` leaves position `i` unconstrained. -/
structure Filter where
  addrs : List Nat
  keys : List (List Nat)
  deriving DecidableEq, Repr

def keyItems : Nat → List Nat → List Item
  | _, [] => []
  | i, k :: ks => Item.key i k :: keyItems (i + 1) ks

def Event.items (e : Event) : List Item := Item.addr e.sender :: keyItems 0 e.keys

/-- `core.EventsBloom(receipts)` without false positives. -/
def txsItems (txs : List Tx) : List Item := txs.flatMap (fun tx => tx.flatMap Event.items)

def Block.items (b : Block) : List Item := txsItems b.txs

/-- Loop of `MatchesEventKeys` after the length guard. -/
def matchKeysGo : List (List Nat) → List Nat → Bool
  | [], _ => true
  | _ :: _, [] => true
  | alts :: fs, k :: ks => (alts.isEmpty || alts.contains k) && matchKeysGo fs ks

/-- `EventMatcher.MatchesEventKeys`. -/
def matchesKeys (fk : List (List Nat)) (ek : List Nat) : Bool :=
  if ek.length < fk.length then false else matchKeysGo fk ek

def matchesAddr (fa : List Nat) (a : Nat) : Bool := fa.isEmpty || fa.contains a

def «matches» (f : Filter) (e : Event) : Bool := matchesAddr f.addrs e.sender && matchesKeys f.keys e.keys

/-- An event of a query result with its tags. -/
structure Emitted where
  block : Nat
  tx : Nat
  idx : Nat
  ev : Event
  deriving DecidableEq, Repr

def txRaw (b t : Nat) : Nat → List Event → List Emitted
  | _, [] => []
  | i, e :: es => ⟨b, t, i, e⟩ :: txRaw b t (i + 1) es

def blockRawFrom (b : Nat) : Nat → List Tx → List Emitted
  | _, [] => []
  | t, tx :: txs => txRaw b t 0 tx ++ blockRawFrom b (t + 1) txs

/-- All events of block number `b` in receipt order, tagged (the order in which the two nested
loops of `AppendBlockEventsFromTransactionEvents` visit them). -/
def blockRaw (b : Nat) (blk : Block) : List Emitted := blockRawFrom b 0 blk.txs

def sel (f : Filter) (l : List Emitted) : List Emitted := l.filter (fun e => «matches» f e.ev)

/-- The specification: scan every block of the canonical chain in `[lo, hi]`. -/
def naive (f : Filter) (chain : List Block) (lo hi : Nat) : List Emitted :=
  (List.range' lo (hi + 1 - lo)).flatMap (fun b =>
    match chain[b]? with
    | some blk => sel f (blockRaw b blk)
    | none => [])

/-! ## Candidate test against a bloom -/

def keyGroups : Nat → List (List Nat) → List (List Item)
  | _, [] => []
  | i, alts :: fs => alts.map (Item.key i) :: keyGroups (i + 1) fs

/-- The filter as groups of items: the address alternatives, then the alternatives of every key
position. An empty group is no constraint. -/
def Filter.groups (f : Filter) : List (List Item) := f.addrs.map Item.addr :: keyGroups 0 f.keys

def groupOk (t : Item → Bool) (g : List Item) : Bool := g.isEmpty || g.any t

/-- `getCandidateBlocksForFilterInto` for one block column / `TestBloom` for one header bloom:
every non-empty group has a member that tests positive. -/
def mayMatch (t : Item → Bool) (f : Filter) : Bool := f.groups.all (groupOk t)

/-! ## The per-block loop with skip count and chunk size -/

/-- `AppendBlockEventsFromTransactionEvents` over the flattened event list: `p` is
`processedEvents`, `acc` is `matchedEventsSofar`; the third component is `errChunkSizeReached`. -/
def scanGo (f : Filter) (skip chunk : Nat) : List Emitted → Nat → List Emitted → List Emitted × Nat × Bool
  | [], p, acc => (acc, p, false)
  | e :: es, p, acc =>
    if p < skip then scanGo f skip chunk es (p + 1) acc
    else if !«matches» f e.ev then scanGo f skip chunk es (p + 1) acc
    else if acc.length < chunk then scanGo f skip chunk es (p + 1) (acc ++ [e])
    else (acc, p, true)

/-! ## Aggregated filters -/

structure Agg where
  from_ : Nat
  cols : List (Nat × List Item)
  deriving DecidableEq, Repr

def Agg.fresh (fr : Nat) : Agg := ⟨fr, []⟩

def Agg.inRange (W : Nat) (a : Agg) (b : Nat) : Bool := a.from_ ≤ b && b ≤ a.from_ + (W - 1)

/-- `BlocksForKeysInto` for one key, read at column `b`. -/
def Agg.test (a : Agg) (b : Nat) (it : Item) : Bool := a.cols.any (fun c => c.1 == b && c.2.contains it)

/-- `AggregatedBloomFilter.Insert`: ORs the bloom's bits into column `b` (a bloom without set
bits changes nothing). -/
def Agg.insert (W : Nat) (a : Agg) (bloom : List Item) (b : Nat) : Option Agg :=
  if a.inRange W b then some { a with cols := if bloom.isEmpty then a.cols else (b, bloom) :: a.cols } else none

/-- `AggregatedBloomFilter.clear`. -/
def Agg.clear (W : Nat) (a : Agg) (b : Nat) : Option Agg :=
  if a.inRange W b then some { a with cols := a.cols.filter (fun c => c.1 != b) } else none

abbrev WinMap := List (Nat × Agg)

def WinMap.del (m : WinMap) (k : Nat) : WinMap := m.filter (fun x => x.1 != k)
def WinMap.put (m : WinMap) (k : Nat) (v : Agg) : WinMap := (k, v) :: m.del k

/-! ## Configuration -/

/-- `W`, `cap`: the two constants of the code. Each `fix…` flag is `false` for the code as found at
the pinned commit and `true` once the corresponding repair (proposed-fixes/C09-*.diff) is in the
tree; the harness probes the real code and tells the driver which variant it is looking at. -/
structure Cfg where
  W : Nat
  cap : Nat
  /-- `Blockchain.RevertHead` purges the `AggregatedBloomFilterCache`. -/
  fixCache : Bool
  /-- `onReorg` deletes the persisted running-filter snapshot (same batch). -/
  fixSnap : Bool
  /-- `onReorg`, when it re-opens the previous window, deletes that window's persisted copy. -/
  fixPersist : Bool
  /-- `RunningEventFilter.ensureInit` does not remember a failed initialisation: the next access
  runs the initialiser again (c8ac4a7). -/
  fixInit : Bool
  deriving DecidableEq, Repr

inductive Err where
  | empty      -- no chain height
  | notfound   -- db.ErrKeyNotFound
  | range      -- ErrAggregatedBloomFilterBlockOutOfRange
  | bounds     -- ErrFetchedFilterBoundsMismatch
  | pruned     -- pruner.BlockPrunedError
  | io         -- a (transient) database failure injected by the harness
  deriving DecidableEq, Repr

/-! ## The node -/

structure Node where
  /-- database: the canonical blocks `0 … height` -/
  chain : List Block
  /-- database bucket `AggregatedBloomFilters`, keyed by the window's first block -/
  persisted : WinMap
  /-- database bucket `RunningEventFilter`: `(inner, next)` written by `WriteRunningEventFilter` -/
  snapshot : Option (Agg × Nat)
  /-- memory: `RunningEventFilter.inner` -/
  running : Agg
  /-- memory: `RunningEventFilter.next` -/
  next : Nat
  /-- memory: `AggregatedBloomFilterCache`, most recently used first -/
  cache : WinMap
  /-- database: the oldest retained block (`pruner.OldestRetainedBlock`; 0 on a node that never
  pruned). Below it the block transactions (events) and commitments are gone, headers are gone
  below `floor - BlockHashLag`, persisted windows are gone below the window of `floor`. The model
  keeps the pruned blocks in `chain` and guards every read. -/
  floor : Nat
  /-- database: the lowest block whose header is still there (`PruneBlockDataUpto` keeps the
  headers of the `BlockHashLag` blocks below the floor). -/
  hfloor : Nat
  /-- memory: the filter is not initialised and the last attempt failed with this error
  (`RunningEventFilter` without `initDone`). Before c8ac4a7 the error was sticky (`initErr`): every
  access returned it until `Reset` (after a failed Store / RevertHead) or a restart; since then every
  access runs the initialiser again (`wake`). -/
  initErr : Option Err
  /-- process: started without `--prune-mode`: `blockchain.New` wires
  `core.InitializeRunningEventFilter`, the initialiser that does not know the retention floor. -/
  coreInit : Bool
  deriving DecidableEq, Repr

def Node.init : Node := ⟨[], [], none, Agg.fresh 0, 0, [], 0, 0, none, false⟩

/-- `pruner.OldestRetainedBlock` as the initialiser reads it: the first block that still has its
commitments; not-found (read as 0) when the head is below the floor. -/
def dbFloor (n : Node) : Nat := if n.floor < n.chain.length then n.floor else 0

/-- The floor as the wired initialiser sees it: `pruner.InitializeRunningEventFilter` reads it from
the database, `core.InitializeRunningEventFilter` is the same code with floor 0. -/
def effFloor (n : Node) : Nat := if n.coreInit then 0 else dbFloor n

/-- `RunningEventFilter.insert`: returns the new `(inner, next, persisted windows)`. -/
def insertRun (W : Nat) (r : Agg) (p : WinMap) (bloom : List Item) (b : Nat) : Except Err (Agg × Nat × WinMap) :=
  match r.insert W bloom b with
  | none => .error .range
  | some r' =>
    if b == r'.from_ + (W - 1) then .ok (Agg.fresh (b + 1), b + 1, p.put r'.from_ r')
    else .ok (r', b + 1, p)

/-- `core.BlockHashLag`: headers survive this far below the retention floor. -/
def blockHashLag : Nat := 10

/-- `fillRunningEventFilter`: reads the header bloom of every block (headers below `hfloor` are
pruned). -/
def fill (W : Nat) (chain : List Block) (hfloor : Nat) : List Nat → Agg → Nat → WinMap → Except Err (Agg × Nat × WinMap)
  | [], r, nx, p => .ok (r, nx, p)
  | b :: bs, r, _, p =>
    if b < hfloor then .error .notfound else
    match chain[b]? with
    | none => .error .notfound
    | some blk =>
      match insertRun W r p blk.bloom b with
      | .error e => .error e
      | .ok (r', nx', p') => fill W chain hfloor bs r' nx' p'

/-- The backward walk of `rebuildRunningEventFilter`: the newest persisted window at or below
window index `k`, not looking below window index `kmin` (the window of the retention floor). -/
def findAnchor (W : Nat) (p : WinMap) (kmin : Nat) : Nat → Option Nat
  | 0 => if (p.lookup 0).isSome then some 0 else none
  | k + 1 =>
    if (p.lookup ((k + 1) * W)).isSome then some ((k + 1) * W)
    else if k + 1 ≤ kmin then none
    else findAnchor W p kmin k

/-- `continueFrom`: the block after the anchor window, or the floor without an anchor. -/
def continueFrom (W floor : Nat) : Option Nat → Nat
  | some w => w + W
  | none => floor

/-- `windowStart`: the block after the anchor window, or the window of the floor. -/
def windowStart (W floor : Nat) : Option Nat → Nat
  | some w => w + W
  | none => floor - floor % W

/-- `pruner.rebuildRunningEventFilter` (= `core.rebuildRunningEventFilter` when the floor is 0),
stopped after `k` blocks of the fill (`k` large: the whole of it). -/
def rebuild (cfg : Cfg) (n : Node) (latest k : Nat) : Except Err (Agg × Nat × WinMap) :=
  let anchor := findAnchor cfg.W n.persisted (effFloor n / cfg.W) (latest / cfg.W)
  let cont := continueFrom cfg.W (effFloor n) anchor
  fill cfg.W n.chain n.hfloor ((List.range' cont (latest + 1 - cont)).take k)
    (Agg.fresh (windowStart cfg.W (effFloor n) anchor)) cont n.persisted

/-- `pruner.InitializeRunningEventFilter` (what `cmd/juno` wires; with floor 0 it is
`core.InitializeRunningEventFilter`), stopped after `k` blocks of its fill. The fill writes a
window to the database each time it crosses a window end: `k` marks the crash points inside. -/
def initRunningUpTo (cfg : Cfg) (n : Node) (k : Nat) : Except Err (Agg × Nat × WinMap) :=
  match n.chain.length with
  | 0 => .ok (Agg.fresh 0, 0, n.persisted)
  | latest + 1 =>
    match n.snapshot with
    | some (inner, nx) =>
      if nx == latest + 1 then .ok (inner, nx, n.persisted)
      else if nx ≤ latest && latest ≤ inner.from_ + (cfg.W - 1) then
        fill cfg.W n.chain n.hfloor ((List.range' (max nx (effFloor n)) (latest + 1 - max nx (effFloor n))).take k)
          inner (max nx (effFloor n)) n.persisted
      else rebuild cfg n latest k
    | none => rebuild cfg n latest k

def initRunning (cfg : Cfg) (n : Node) : Except Err (Agg × Nat × WinMap) :=
  initRunningUpTo cfg n (n.chain.length + 1)

/-- A new `Blockchain` on the same database: the cache is empty and the running filter is
initialised from the database (lazily in the code, on the first store / revert / query / snapshot
write; none of these changes the database before the initialiser has read it). A failed
initialisation is remembered (`initErr`). -/
def restart (cfg : Cfg) (n : Node) : Node × Option Err :=
  match initRunning cfg n with
  | .error e => ({ n with cache := [], initErr := some e }, some e)
  | .ok (r, nx, p) => ({ n with running := r, next := nx, persisted := p, cache := [], initErr := none }, none)

/-- Restart WITHOUT `--prune-mode` on a database that may have been pruned before (e.g. an RPC-only
node with `--disable-sync`, which excludes `--prune-mode`): `blockchain.New` then wires
`core.InitializeRunningEventFilter`. Not an `Op`: the histories of the theorems run a node with the
floor-aware initialiser (`DBInv.nocore`); this function is the finding
`query_fails_on_pruned_database_without_prune_mode`. -/
def restartCore (cfg : Cfg) (n : Node) : Node × Option Err := restart cfg { n with coreInit := true }

/-- `RunningEventFilter.Reset` after a failed `Store` / `RevertHead` (statebackend
`resetFilterOnError`, 3373c0b): the in-memory filter and a remembered initialisation error are
dropped and the filter is rebuilt from the database at the next access. The cache stays. -/
def reinit (cfg : Cfg) (n : Node) : Node :=
  match initRunning cfg n with
  | .error e => { n with initErr := some e }
  | .ok (r, nx, p) => { n with running := r, next := nx, persisted := p, initErr := none }

/-- `RunningEventFilter.ensureInit` at the start of every access (insert, onReorg, Write, the
accessors a query uses): a filter that is not initialised runs the initialiser. Before c8ac4a7 a
failed attempt was final (`fixInit = false`: nothing happens here). -/
def wake (cfg : Cfg) (n : Node) : Node :=
  match n.initErr with
  | none => n
  | some _ => if cfg.fixInit then reinit cfg n else n

/-- `Store` (the part that concerns the index): everything is in one batch, so an error leaves
the database unchanged (and resets the in-memory filter). The block's number is the chain length
(`verifyBlockSuccession`). -/
def store (cfg : Cfg) (n : Node) (blk : Block) : Node × Option Err :=
  match n.initErr with
  | some e => (reinit cfg n, some e)
  | none =>
    match insertRun cfg.W n.running n.persisted blk.bloom n.chain.length with
    | .error e => (reinit cfg n, some e)
    | .ok (r, nx, p) => ({ n with chain := n.chain ++ [blk], running := r, next := nx, persisted := p }, none)

/-- `x - 1` on `uint64`. -/
def pred64 (x : Nat) : Nat := if x == 0 then 2 ^ 64 - 1 else x - 1

/-- The database part of a successful revert: the head goes; if it was the last retained block
nothing retained is left below the new head (`floor`, `hfloor` follow the chain down). -/
def revertFinish (cfg : Cfg) (m : Node) : Node × Option Err :=
  ({ m with chain := m.chain.dropLast,
            floor := min m.floor (m.chain.length - 1),
            hfloor := min m.hfloor (m.chain.length - 1),
            snapshot := if cfg.fixSnap then none else m.snapshot,
            cache := if cfg.fixCache then [] else m.cache }, none)

/-- `RevertHead` → `RunningEventFilter.onReorg`. On an error the batch is dropped (database
unchanged) and the in-memory filter is reset. The head's state update must still be retained. -/
def revert (cfg : Cfg) (n : Node) : Node × Option Err :=
  if n.chain.isEmpty then (reinit cfg n, some .empty) else
  if n.chain.length - 1 < n.floor then (reinit cfg n, some .notfound) else
  match n.initErr with
  | some e => (reinit cfg n, some e)
  | none =>
  let cur := pred64 n.next
  if cur == pred64 n.running.from_ then
    let aligned := cur - cur % cfg.W
    match n.persisted.lookup aligned with
    | none => (reinit cfg n, some .notfound)
    | some prev =>
      match prev.clear cfg.W cur with
      | none => (reinit cfg n, some .range)
      | some r =>
        let p1 := n.persisted.del n.running.from_
        let p2 := if cfg.fixPersist then p1.del aligned else p1
        revertFinish cfg { n with running := r, next := cur, persisted := p2 }
  else
    match n.running.clear cfg.W cur with
    | none => (reinit cfg n, some .range)
    | some r => revertFinish cfg { n with running := r, next := cur }

/-- `WriteRunningEventFilter` (graceful shutdown); refused while the filter is not initialised. -/
def snap (n : Node) : Node × Option Err :=
  match n.initErr with
  | some e => (n, some e)
  | none => ({ n with snapshot := some (n.running, n.next) }, none)

/-- `pruner.PruneUpto(endExclusive = k)` as far as events are concerned: the retention floor
moves up to `k` and the persisted windows that lie entirely below the window of `k` are deleted
(`pruneAggregatedBloomFiltersUpto`). A no-op when nothing below `k` is left, and (the pruner never
asks for it) when `k` is above the head. -/
def prune (cfg : Cfg) (n : Node) (k : Nat) : Node :=
  if n.chain.isEmpty || k ≤ n.floor || n.chain.length ≤ k then n
  else { n with floor := k, hfloor := max n.hfloor (k - blockHashLag),
                persisted := n.persisted.filter (fun x => !(x.1 < k - k % cfg.W)) }

/-! ## Queries -/

/-- Continuation token `(fromBlock, processedEvents)`; `(0, 0)` is the empty token. -/
structure Token where
  b : Nat
  p : Nat
  deriving DecidableEq, Repr

def Token.none : Token := ⟨0, 0⟩
def Token.isEmpty (t : Token) : Bool := t.b == 0 && t.p == 0

inductive PageRes where
  | ok (evs : List Emitted) (tok : Token)
  | err (e : Err)
  deriving DecidableEq, Repr

/-- hashicorp LRU: `Add` puts the entry in front and evicts from the back. -/
def lruAdd (cap : Nat) (c : WinMap) (k : Nat) (v : Agg) : WinMap := (c.put k v).take cap

/-- `AggregatedBloomFilterCache.SetMany`: every filter is added under its own bounds. -/
def setMany (cap : Nat) (c : WinMap) : List Agg → WinMap
  | [] => c
  | a :: as => setMany cap (lruAdd cap c a.from_ a) as

/-- `loadNextWindow` for the window starting at `w`: the running filter if it is its window, else
the cache (a hit moves the entry to the front), else the persisted window, which is then cached. -/
def loadWindow (cfg : Cfg) (n : Node) (cache : WinMap) (w : Nat) : Except Err (Agg × WinMap) :=
  if let some e := n.initErr then .error e   -- `runningFilter.FromBlock()` → `ensureInit`
  else if w == n.running.from_ then .ok (n.running, cache)
  else match cache.lookup w with
    | some a => .ok (a, cache.put w a)
    | none =>
      match n.persisted.lookup w with
      | none => .error .notfound
      | some a =>
        if a.from_ != w then .error .bounds
        else .ok (a, lruAdd cfg.cap cache w a)

/-- The set bits of a window's candidate bitset between `lo` and `hi`, ascending. -/
def windowCands (f : Filter) (a : Agg) (lo hi : Nat) : List Nat :=
  (List.range' lo (hi + 1 - lo)).filter (fun b => mayMatch (a.test b) f)

inductive Step where
  | cont (acc : List Emitted) (skip scanned : Nat)
  | stop (acc : List Emitted) (tok : Token)
  | fail (e : Err)

/-- The body of `canonicalEvents`' loop over the candidate blocks of one window.
`MatchedBlockIterator.Next` counts the block (when a limit is set) and gives up with
`ErrMaxScannedBlockLimitExceed` on the first block over the limit: the page ends with the token
`(that block, 0)`. Otherwise the block's events are read and scanned. -/
def scanCands (f : Filter) (chain : List Block) (floor chunk limit : Nat) :
    List Nat → List Emitted → Nat → Nat → Step
  | [], acc, skip, sc => .cont acc skip sc
  | b :: bs, acc, skip, sc =>
    let sc' := if limit > 0 then sc + 1 else sc
    if limit > 0 && sc' > limit then .stop acc ⟨b, 0⟩
    else if b < floor then .fail .notfound   -- the block's transactions are pruned
    else
      match chain[b]? with
      | none => .fail .notfound
      | some blk =>
        match scanGo f skip chunk (blockRaw b blk) 0 acc with
        | (acc', p, true) => .stop acc' ⟨b, p⟩
        | (acc', _, false) => scanCands f chain floor chunk limit bs acc' 0 sc'

def scanWindows (cfg : Cfg) (n : Node) (f : Filter) (chunk limit start to : Nat) :
    List Nat → WinMap → List Emitted → Nat → Nat → PageRes × WinMap
  | [], cache, acc, _, _ => (.ok acc Token.none, cache)
  | w :: ws, cache, acc, skip, sc =>
    match loadWindow cfg n cache w with
    | .error e => (.err e, cache)
    | .ok (a, cache') =>
      match scanCands f n.chain n.floor chunk limit (windowCands f a (max start w) (min to (w + (cfg.W - 1)))) acc skip sc with
      | .cont acc' skip' sc' => scanWindows cfg n f chunk limit start to ws cache' acc' skip' sc'
      | .stop acc' tok => (.ok acc' tok, cache')
      | .fail e => (.err e, cache')

/-- `MatchedBlockIterator` on its own (`NewMatchedBlockIterator` + `Next` until it stops): the
candidate blocks of `[start, to]` in the order they are yielded, and the block on which the scan
limit was exceeded, if it was. Used by the harness to tie the window loading (LRU eviction
included) with a small cache; `scanWindows` is the same loop with the events read in between. -/
def iterCands (cfg : Cfg) (n : Node) (f : Filter) (limit start to : Nat) :
    List Nat → WinMap → List Nat → Nat → Except Err (List Nat × Option Nat) × WinMap
  | [], cache, acc, _ => (.ok (acc, none), cache)
  | w :: ws, cache, acc, sc =>
    match loadWindow cfg n cache w with
    | .error e => (.error e, cache)
    | .ok (a, cache') =>
      let cs := windowCands f a (max start w) (min to (w + (cfg.W - 1)))
      if limit > 0 && sc + cs.length > limit then
        (.ok (acc ++ cs.take (limit - sc), cs[limit - sc]?), cache')
      else iterCands cfg n f limit start to ws cache' (acc ++ cs) (sc + cs.length)

/-- First blocks of the windows that `[start, to]` touches. -/
def windowsOf (W start to : Nat) : List Nat :=
  (List.range (to / W - start / W + 1)).map (fun i => (start / W + i) * W)

/-- `canonicalEvents`. -/
def canonical (cfg : Cfg) (n : Node) (f : Filter) (chunk limit start to skip : Nat) : PageRes × WinMap :=
  if start > to then (.ok [] Token.none, n.cache)
  else scanWindows cfg n f chunk limit start to (windowsOf cfg.W start to) n.cache [] skip 0

/-- `Blockchain.EventFilter` + `SetRangeEndBlockByNumber` ×2 + `WithLimit` + `Events`, with no
pre-confirmed chain: a range end above the head is cut at the head. Returns the page and the
cache afterwards. -/
def events (cfg : Cfg) (n : Node) (f : Filter) (fromB toB : Nat) (tok : Option Token) (chunk limit : Nat) :
    PageRes × WinMap :=
  match n.chain.length with
  | 0 => (.err .empty, n.cache)
  | latest + 1 =>
    let start := match tok with | some t => t.b | none => fromB
    let skip := match tok with | some t => t.p | none => 0
    if start ≤ latest && start < n.floor then (.err .pruned, n.cache)   -- pruner.RequireRetained
    else if toB ≤ latest then canonical cfg n f chunk limit start toB skip
    else if start ≤ latest then canonical cfg n f chunk limit start latest skip
    else (.ok [] Token.none, n.cache)

/-- A query as a node operation (the cache is the only thing it changes). -/
def query (cfg : Cfg) (n : Node) (f : Filter) (fromB toB : Nat) (tok : Option Token) (chunk limit : Nat) :
    Node × PageRes :=
  let r := events cfg n f fromB toB tok chunk limit
  ({ n with cache := r.2 }, r.1)

/-- `EventFilter.Events` as the node's API: the running filter is brought up on demand (`wake`),
then the page is computed (`query`, the page on a node whose initialisation state is settled). -/
def apiEvents (cfg : Cfg) (n : Node) (f : Filter) (fromB toB : Nat) (tok : Option Token) (chunk limit : Nat) :
    Node × PageRes :=
  query cfg (wake cfg n) f fromB toB tok chunk limit

/-- `Blockchain.Store` / `RevertHead` / `WriteRunningEventFilter` as the node's API. -/
def apiStore (cfg : Cfg) (n : Node) (blk : Block) : Node × Option Err := store cfg (wake cfg n) blk
def apiRevert (cfg : Cfg) (n : Node) : Node × Option Err := revert cfg (wake cfg n)
def apiSnap (cfg : Cfg) (n : Node) : Node × Option Err := snap (wake cfg n)

/-- Follow continuation tokens until the empty token; `none` if a page fails or the fuel runs out. -/
def collect (cfg : Cfg) (f : Filter) (fromB toB chunk limit : Nat) : Nat → Node → Option Token → Option (List Emitted)
  | 0, _, _ => none
  | fuel + 1, n, tok =>
    match apiEvents cfg n f fromB toB tok chunk limit with
    | (_, .err _) => none
    | (n', .ok evs t) =>
      if t.isEmpty then some evs
      else (collect cfg f fromB toB chunk limit fuel n' (some t)).map (evs ++ ·)

/-! ## Queries that include pre-confirmed blocks -/

/-- `blockchain.PreConfirmedFilterSentinel` (`math.MaxUint64`): the `pre_confirmed` block tag. -/
def sentinel : Nat := 2 ^ 64 - 1

/-- `EventMatcher.TestBloom` on a header bloom. -/
def testBloom (f : Filter) (blk : Block) : Bool := mayMatch (fun it => blk.bloom.contains it) f

/-- The loop of `preConfirmedEvents` over the pre-confirmed blocks `num, num+1, …` (oldest first). -/
def scanPre (f : Filter) (chunk fromB toB : Nat) : Nat → List Block → List Emitted → Nat → List Emitted × Token
  | _, [], acc, _ => (acc, Token.none)
  | num, blk :: rest, acc, skip =>
    if num < fromB then scanPre f chunk fromB toB (num + 1) rest acc skip
    else if num > toB then (acc, Token.none)
    else if !testBloom f blk then scanPre f chunk fromB toB (num + 1) rest acc 0
    else
      match scanGo f skip chunk (blockRaw num blk) 0 acc with
      | (acc', p, true) => (acc', ⟨num, p⟩)
      | (acc', _, false) => scanPre f chunk fromB toB (num + 1) rest acc' 0

/-- `EventFilter.Events` when the pre-confirmed reader returns the chain `pre` (oldest first,
non-empty) whose first block is `base + 1`: the canonical part ends at `base`
(`headAndPreConfirmed`), then `preConfirmedEvents` continues. With `pre = []` this is `events`. -/
def eventsPre (cfg : Cfg) (n : Node) (f : Filter) (fromB toB : Nat) (tok : Option Token) (chunk limit : Nat)
    (base : Nat) (pre : List Block) : PageRes × WinMap :=
  if pre.isEmpty then events cfg n f fromB toB tok chunk limit
  else
    match n.chain.length with
    | 0 => (.err .empty, n.cache)
    | height + 1 =>
      let start := match tok with | some t => t.b | none => fromB
      let skip := match tok with | some t => t.p | none => 0
      if start ≤ (if toB != sentinel && toB ≤ height then height else base) && start < n.floor then
        (.err .pruned, n.cache)
      else if toB != sentinel && toB ≤ height then canonical cfg n f chunk limit start toB skip
      else if toB ≤ base then canonical cfg n f chunk limit start toB skip
      else
        let fromPre := if start == sentinel then base + pre.length else start
        if start ≤ base then
          match canonical cfg n f chunk limit start base skip with
          | (.err e, c) => (.err e, c)
          | (.ok acc t, c) =>
            if !t.isEmpty then (.ok acc t, c)
            else
              let r := scanPre f chunk fromPre toB (base + 1) pre acc 0
              (.ok r.1 r.2, c)
        else
          let r := scanPre f chunk fromPre toB (base + 1) pre [] skip
          (.ok r.1 r.2, n.cache)

def queryPre (cfg : Cfg) (n : Node) (f : Filter) (fromB toB : Nat) (tok : Option Token) (chunk limit : Nat)
    (base : Nat) (pre : List Block) : Node × PageRes :=
  let r := eventsPre cfg n f fromB toB tok chunk limit base pre
  ({ n with cache := r.2 }, r.1)

def apiEventsPre (cfg : Cfg) (n : Node) (f : Filter) (fromB toB : Nat) (tok : Option Token) (chunk limit : Nat)
    (base : Nat) (pre : List Block) : Node × PageRes :=
  queryPre cfg (wake cfg n) f fromB toB tok chunk limit base pre

def collectPre (cfg : Cfg) (f : Filter) (fromB toB chunk limit base : Nat) (pre : List Block) :
    Nat → Node → Option Token → Option (List Emitted)
  | 0, _, _ => none
  | fuel + 1, n, tok =>
    match apiEventsPre cfg n f fromB toB tok chunk limit base pre with
    | (_, .err _) => none
    | (n', .ok evs t) =>
      if t.isEmpty then some evs
      else (collectPre cfg f fromB toB chunk limit base pre fuel n' (some t)).map (evs ++ ·)

/-! ## Histories -/

inductive Op where
  | store (blk : Block)
  | revert
  | snap
  | restart
  | query (f : Filter) (fromB toB : Nat) (tok : Option Token) (chunk limit : Nat)
  | prune (k : Nat)
  /-- `Store` whose batch commit fails (the in-memory filter was already advanced) -/
  | storeFail (blk : Block)
  /-- `RevertHead` whose batch commit fails -/
  | revertFail
  /-- restart whose lazy initialisation hits a transient database error -/
  | restartFault
  /-- restart that dies after `k` blocks of the initialiser's fill, then a clean restart -/
  | restartCrash (k : Nat)
  deriving Repr

def step (cfg : Cfg) (n : Node) : Op → Node
  | .store blk => (apiStore cfg n blk).1
  | .revert => (apiRevert cfg n).1
  | .snap => (apiSnap cfg n).1
  | .restart => (restart cfg n).1
  | .query f a b t c l => (apiEvents cfg n f a b t c l).1
  | .prune k => prune cfg n k
  | .storeFail _ => reinit cfg n
  | .revertFail => reinit cfg n
  | .restartFault => { n with cache := [], initErr := some .io }
  | .restartCrash k =>
    match initRunningUpTo cfg n k with
    | .ok (_, _, p) => (restart cfg { n with persisted := p }).1
    | .error _ => (restart cfg n).1

def run (cfg : Cfg) (n : Node) (ops : List Op) : Node := ops.foldl (step cfg) n

end Juno.C09
