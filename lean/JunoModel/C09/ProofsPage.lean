import JunoModel.C09.Proofs
/-! C09 — helper lemmas, part 2: no false negatives of a sound index, the loop over windows,
one page, following continuation tokens. -/
namespace Juno.C09

/-! ### A matching event makes its block a candidate of every bloom that covers the block -/

theorem keyGroups_ok (t : Item → Bool) : ∀ (fk : List (List Nat)) (ek : List Nat) (i : Nat),
    fk.length ≤ ek.length → matchKeysGo fk ek = true → (∀ it ∈ keyItems i ek, t it = true) →
    (keyGroups i fk).all (groupOk t) = true := by
  intro fk
  induction fk with
  | nil => intro ek i _ _ _; simp [keyGroups]
  | cons alts fs ih =>
    intro ek i hlen hm ht
    cases ek with
    | nil => simp at hlen
    | cons k ks =>
      simp only [matchKeysGo, Bool.and_eq_true, Bool.or_eq_true] at hm
      simp only [keyGroups, List.all_cons, Bool.and_eq_true]
      refine ⟨?_, ih ks (i + 1) (by simpa using hlen) hm.2 (fun it hit => ht it (by simp [keyItems, hit]))⟩
      simp only [groupOk, Bool.or_eq_true, List.isEmpty_map, List.any_map, List.any_eq_true]
      rcases hm.1 with h | h
      · exact Or.inl h
      · refine Or.inr ⟨k, by simpa using h, ?_⟩
        exact ht (Item.key i k) (by simp [keyItems])

theorem mayMatch_of_matches (t : Item → Bool) (f : Filter) (e : Event) (hm : «matches» f e = true)
    (ht : ∀ it ∈ e.items, t it = true) : mayMatch t f = true := by
  simp only [«matches», Bool.and_eq_true] at hm
  obtain ⟨ha, hk⟩ := hm
  simp only [mayMatch, Filter.groups, List.all_cons, Bool.and_eq_true]
  constructor
  · simp only [groupOk, Bool.or_eq_true, List.isEmpty_map, List.any_map, List.any_eq_true]
    simp only [matchesAddr, Bool.or_eq_true] at ha
    rcases ha with h | h
    · exact Or.inl h
    · exact Or.inr ⟨e.sender, by simpa using h, ht _ (by simp [Event.items])⟩
  · unfold matchesKeys at hk
    by_cases hl : e.keys.length < f.keys.length
    · simp [hl] at hk
    · simp only [hl, if_false] at hk
      exact keyGroups_ok t f.keys e.keys 0 (by omega) hk (fun it hit => ht it (by simp [Event.items, hit]))

theorem txRaw_mem (b t : Nat) (es : List Event) : ∀ (i : Nat) (e : Emitted), e ∈ txRaw b t i es → e.ev ∈ es := by
  induction es with
  | nil => intro i e h; simp [txRaw] at h
  | cons x xs ih =>
    intro i e h
    simp only [txRaw, List.mem_cons] at h
    rcases h with h | h
    · subst h; simp
    · exact List.mem_cons_of_mem _ (ih (i + 1) e h)

theorem blockRawFrom_mem (b : Nat) (txs : List Tx) : ∀ (t : Nat) (e : Emitted),
    e ∈ blockRawFrom b t txs → ∃ tx ∈ txs, e.ev ∈ tx := by
  induction txs with
  | nil => intro t e h; simp [blockRawFrom] at h
  | cons x xs ih =>
    intro t e h
    simp only [blockRawFrom, List.mem_append] at h
    rcases h with h | h
    · exact ⟨x, by simp, txRaw_mem b t x 0 e h⟩
    · obtain ⟨tx, h1, h2⟩ := ih (t + 1) e h
      exact ⟨tx, List.mem_cons_of_mem _ h1, h2⟩

theorem items_of_raw (b : Nat) (blk : Block) (e : Emitted) (he : e ∈ blockRaw b blk) :
    ∀ it ∈ e.ev.items, it ∈ blk.items := by
  intro it hit
  obtain ⟨tx, h1, h2⟩ := blockRawFrom_mem b blk.txs 0 e he
  simp only [Block.items, txsItems, List.mem_flatMap]
  exact ⟨tx, h1, e.ev, h2, hit⟩

/-- `a` covers the window starting at `w`: every block of the chain in the window has all items of
its header bloom set in its column. -/
def Good (chain : List Block) (W floor w : Nat) (a : Agg) : Prop :=
  ∀ b blk, w ≤ b → b < w + W → floor ≤ b → chain[b]? = some blk → ∀ it ∈ blk.bloom, a.test b it = true

/-- Header blooms cover the events of their block (what `core.EventsBloom` guarantees). -/
def ChainWF (chain : List Block) : Prop := ∀ blk ∈ chain, ∀ it ∈ blk.items, it ∈ blk.bloom

theorem no_false_neg_window (f : Filter) (chain : List Block) (W floor w : Nat) (a : Agg)
    (hg : Good chain W floor w a) (hwf : ChainWF chain) (b : Nat) (h1 : w ≤ b) (h2 : b < w + W) (h3 : floor ≤ b)
    (hne : blkSel f chain b ≠ []) : mayMatch (a.test b) f = true := by
  unfold blkSel at hne
  cases hb : chain[b]? with
  | none => simp [hb] at hne
  | some blk =>
    simp only [hb] at hne
    have : ∃ e ∈ blockRaw b blk, «matches» f e.ev = true := by
      cases hs : sel f (blockRaw b blk) with
      | nil => exact absurd hs hne
      | cons x xs =>
        have hx : x ∈ sel f (blockRaw b blk) := by rw [hs]; simp
        simp only [sel, List.mem_filter] at hx
        exact ⟨x, hx.1, hx.2⟩
    obtain ⟨e, he, hm⟩ := this
    have hmem : blk ∈ chain := List.mem_of_getElem? hb
    apply mayMatch_of_matches _ f e.ev hm
    intro it hit
    exact hg b blk h1 h2 h3 hb it (hwf blk hmem it (items_of_raw b blk e he it hit))

/-! ### Loading a window -/

def CacheGood (cfg : Cfg) (n : Node) (cache : WinMap) : Prop :=
  ∀ w a, (w, a) ∈ cache → Good n.chain cfg.W n.floor w a

/-- What a query over blocks `≤ hi` needs from the index. -/
structure Servable (cfg : Cfg) (n : Node) (hi : Nat) : Prop where
  live : n.initErr = none
  running : Good n.chain cfg.W n.floor n.running.from_ n.running
  persisted : ∀ w, w % cfg.W = 0 → al cfg.W n.floor ≤ w → w ≤ hi → w ≠ n.running.from_ →
    ∃ a, n.persisted.lookup w = some a ∧ a.from_ = w ∧ Good n.chain cfg.W n.floor w a

theorem loadWindow_ok (cfg : Cfg) (n : Node) (hi : Nat) (cache : WinMap) (w : Nat)
    (hs : Servable cfg n hi) (hc : CacheGood cfg n cache) (hw : w % cfg.W = 0) (hfw : al cfg.W n.floor ≤ w)
    (hle : w ≤ hi) :
    ∃ a cache', loadWindow cfg n cache w = .ok (a, cache') ∧ Good n.chain cfg.W n.floor w a ∧ CacheGood cfg n cache' := by
  unfold loadWindow
  simp only [hs.live]
  by_cases h1 : w = n.running.from_
  · refine ⟨n.running, cache, by simp [h1], ?_, hc⟩
    rw [h1]; exact hs.running
  · have h1' : (w == n.running.from_) = false := by simpa using h1
    simp only [h1', Bool.false_eq_true, if_false]
    cases hl : cache.lookup w with
    | some a =>
      have hm := lookup_mem cache w a hl
      refine ⟨a, cache.put w a, rfl, hc w a hm, ?_⟩
      intro w' a' h
      rcases mem_put cache w a (w', a') h with h | h
      · cases h; exact hc w a hm
      · exact hc w' a' h
    | none =>
      obtain ⟨a, hp, hf, hg⟩ := hs.persisted w hw hfw hle h1
      simp only [hp]
      have : (a.from_ != w) = false := by simp [hf]
      simp only [this, Bool.false_eq_true, if_false]
      refine ⟨a, lruAdd cfg.cap cache w a, rfl, hg, ?_⟩
      intro w' a' h
      rcases mem_lruAdd cfg.cap cache w a (w', a') h with h | h
      · cases h; exact hg
      · exact hc w' a' h

/-! ### The loop over windows -/

theorem wantN_split (f : Filter) (chain : List Block) (lo n1 m skip : Nat) (h : 1 ≤ n1) :
    wantN f chain lo (n1 + m) skip = wantN f chain lo n1 skip ++ wantN f chain (lo + n1) m 0 := by
  obtain ⟨a, rfl⟩ : ∃ a, n1 = a + 1 := ⟨n1 - 1, by omega⟩
  have e : a + 1 + m = (a + m) + 1 := by omega
  rw [e, wantN_zero]
  simp only [wantN, List.append_assoc]
  congr 1
  rw [← List.flatMap_append]
  congr 1
  have := List.range'_append (s := lo + 1) (m := a) (n := m) (step := 1)
  rw [← this]
  congr 2
  omega

theorem windows_succ' (w k W : Nat) :
    (List.range (k + 1)).map (fun i => w + i * W) = w :: (List.range k).map (fun i => (w + W) + i * W) := by
  rw [List.range_succ_eq_map]
  simp only [List.map_cons, List.map_map, Nat.zero_mul, Nat.add_zero, List.cons.injEq, true_and]
  apply List.map_congr_left
  intro i _
  simp only [Function.comp, Nat.succ_mul]
  omega

def WinPost (f : Filter) (chain : List Block) (chunk limit lo to : Nat) (acc : List Emitted) (skip sc : Nat) :
    PageRes → Prop
  | .ok acc' tok =>
      (tok = Token.none ∧ acc' = acc ++ wantN f chain lo (to + 1 - lo) skip ∧ acc'.length ≤ chunk) ∨
      (lo ≤ tok.b ∧ tok.b ≤ to ∧ ∃ X, acc' = acc ++ X ∧
        X ++ wantN f chain tok.b (to + 1 - tok.b) tok.p = wantN f chain lo (to + 1 - lo) skip ∧
        (tok.p = 0 ∨ selFrom f chain tok.b tok.p ≠ []) ∧ acc'.length ≤ chunk ∧
        ((limit = 0 ∨ sc < limit) → lo < tok.b ∨ (acc.length < chunk → X ≠ [] ∧ skip < tok.p)))
  | .err _ => False

theorem scanWindows_spec (cfg : Cfg) (n : Node) (f : Filter) (chunk limit start to : Nat)
    (hto : to < n.chain.length) (hwf : ChainWF n.chain) (hs : Servable cfg n to) (k : Nat) :
    ∀ (w lo : Nat) (cache : WinMap) (acc : List Emitted) (skip sc : Nat),
      CacheGood cfg n cache →
      lo ≤ to + 1 →
      (k = 0 → lo = to + 1 ∧ skip = 0) →
      (1 ≤ k → lo ≤ to ∧ max start w = lo ∧ w % cfg.W = 0 ∧ w ≤ lo ∧ lo < w + cfg.W ∧
        w + k * cfg.W ≤ to + cfg.W ∧ to < w + k * cfg.W ∧ al cfg.W n.floor ≤ w ∧ n.floor ≤ lo) →
      (skip = 0 ∨ (selFrom f n.chain lo skip ≠ [] ∧ (limit = 0 ∨ sc < limit))) →
      acc.length ≤ chunk →
      WinPost f n.chain chunk limit lo to acc skip sc
        (scanWindows cfg n f chunk limit start to ((List.range k).map (fun i => w + i * cfg.W)) cache acc skip sc).1 ∧
      CacheGood cfg n
        (scanWindows cfg n f chunk limit start to ((List.range k).map (fun i => w + i * cfg.W)) cache acc skip sc).2 := by
  induction k with
  | zero =>
    intro w lo cache acc skip sc hc _ h0 _ _ hacc
    obtain ⟨hlo, hs0⟩ := h0 rfl
    simp only [List.range_zero, List.map_nil, scanWindows, WinPost]
    refine ⟨Or.inl ⟨?_, ?_, hacc⟩, hc⟩
    · first | rfl | trivial
    · have : to + 1 - lo = 0 := by omega
      simp [this, wantN]
  | succ k ih =>
    intro w lo cache acc skip sc hc _ _ h1 hskip hacc
    obtain ⟨hlo, hmax, hal, hwlo, hlow, hk1, hk2, hfw, hfl⟩ := h1 (by omega)
    rw [Nat.succ_mul] at hk1 hk2
    rw [windows_succ']
    unfold scanWindows
    obtain ⟨a, cache', hload, hgood, hc'⟩ := loadWindow_ok cfg n to cache w hs hc hal hfw (by omega)
    simp only [hload, hmax]
    -- the block range of this window
    have hW : 1 ≤ cfg.W := by omega
    have hhi : lo ≤ min to (w + (cfg.W - 1)) := by
      simp only [Nat.le_min]; omega
    have hhito : min to (w + (cfg.W - 1)) ≤ to := Nat.min_le_left _ _
    have hhiw : min to (w + (cfg.W - 1)) ≤ w + (cfg.W - 1) := Nat.min_le_right _ _
    generalize hhidef : min to (w + (cfg.W - 1)) = hi at hhi hhito hhiw
    have hn1 : lo + (hi + 1 - lo) = hi + 1 := by omega
    have hcands := scanCands_spec f n.chain n.floor chunk limit (fun b => mayMatch (a.test b) f) (hi + 1 - lo) lo acc skip sc
      hfl (by omega)
      (fun b hb1 hb2 hne => no_false_neg_window f n.chain cfg.W n.floor w a hgood hwf b (by omega) (by omega) (by omega) hne)
      (by
        rcases hskip with h | ⟨h, h'⟩
        · exact Or.inl h
        · exact Or.inr ⟨by omega, h, h'⟩)
      hacc
    have hsplit : ∀ skip', wantN f n.chain lo (to + 1 - lo) skip' =
        wantN f n.chain lo (hi + 1 - lo) skip' ++ wantN f n.chain (hi + 1) (to - hi) 0 := by
      intro skip'
      have := wantN_split f n.chain lo (hi + 1 - lo) (to - hi) skip' (by omega)
      rw [hn1] at this
      rw [← this]
      congr 1
      omega
    unfold windowCands
    revert hcands
    cases scanCands f n.chain n.floor chunk limit (List.filter (fun b => mayMatch (a.test b) f) (List.range' lo (hi + 1 - lo))) acc skip sc with
    | fail e => simp [CandsPost]
    | stop acc' tok =>
      simp only [CandsPost]
      rintro ⟨h1, h2, X, hX, hXw, hv, hl, hp⟩
      refine ⟨Or.inr ⟨h1, by omega, X, hX, ?_, hv, hl, hp⟩, hc'⟩
      rw [hsplit skip, ← hXw, List.append_assoc]
      congr 1
      have := wantN_split f n.chain tok.b (lo + (hi + 1 - lo) - tok.b) (to - hi) tok.p (by omega)
      have e2 : tok.b + (lo + (hi + 1 - lo) - tok.b) = hi + 1 := by omega
      have e3 : lo + (hi + 1 - lo) - tok.b + (to - hi) = to + 1 - tok.b := by omega
      rw [e2, e3] at this
      exact this
    | cont acc' skip' sc' =>
      simp only [CandsPost]
      rintro ⟨hA, hS, hL⟩
      subst hS
      have hrec := ih (w + cfg.W) (hi + 1) cache' acc' 0 sc' hc' (by omega)
        (by
          intro hk0
          subst hk0
          refine ⟨?_, rfl⟩
          simp only [Nat.zero_mul] at hk1 hk2
          rw [← hhidef]
          have : to ≤ w + (cfg.W - 1) := by omega
          rw [Nat.min_eq_left this])
        (by
          intro hk
          have hkW : cfg.W ≤ k * cfg.W := by
            calc cfg.W = 1 * cfg.W := by simp
              _ ≤ k * cfg.W := Nat.mul_le_mul_right _ hk
          have hhi' : hi = w + (cfg.W - 1) := by
            rw [← hhidef]
            have : w + (cfg.W - 1) ≤ to := by omega
            exact Nat.min_eq_right this
          have hst : start ≤ lo := by rw [← hmax]; exact Nat.le_max_left _ _
          refine ⟨by omega, ?_, ?_, by omega, by omega, by omega, by omega, by omega, by omega⟩
          · rw [Nat.max_eq_right (by omega)]; omega
          · rw [Nat.add_mod, hal]; simp)
        (Or.inl rfl) hL
      obtain ⟨hpost, hcg⟩ := hrec
      refine ⟨?_, hcg⟩
      revert hpost
      cases (scanWindows cfg n f chunk limit start to ((List.range k).map (fun i => w + cfg.W + i * cfg.W)) cache' acc' 0 sc').1 with
      | err e => simp [WinPost]
      | ok acc'' tok =>
        simp only [WinPost]
        have e1 : to + 1 - (hi + 1) = to - hi := by omega
        rintro (⟨ht, hA', hL'⟩ | ⟨h1, h2, Y, hY, hYw, hv, hl, _⟩)
        · refine Or.inl ⟨ht, ?_, hL'⟩
          rw [hA', hA, hsplit skip, e1, List.append_assoc]
        · refine Or.inr ⟨by omega, h2, wantN f n.chain lo (hi + 1 - lo) skip ++ Y, ?_, ?_, hv, hl, fun _ => Or.inl (by omega)⟩
          · rw [hY, hA, List.append_assoc]
          · rw [List.append_assoc, hYw, hsplit skip, e1]

/-! ### One page -/

theorem windowsOf_form (W start to : Nat) :
    windowsOf W start to = (List.range (to / W - start / W + 1)).map (fun i => (start / W) * W + i * W) := by
  unfold windowsOf
  apply List.map_congr_left
  intro i _
  rw [Nat.add_mul]

theorem Servable.mono {cfg : Cfg} {n : Node} {hi hi' : Nat} (hs : Servable cfg n hi) (h : hi' ≤ hi) :
    Servable cfg n hi' :=
  ⟨hs.live, hs.running, fun w h1 h2 h3 h4 => hs.persisted w h1 h2 (by omega) h4⟩

theorem canonical_spec (cfg : Cfg) (n : Node) (f : Filter) (chunk limit start to skip : Nat)
    (hW : 1 ≤ cfg.W) (hto : to < n.chain.length) (hwf : ChainWF n.chain)
    (hs : Servable cfg n to) (hc : CacheGood cfg n n.cache) (hfl : n.floor ≤ start)
    (hskip : skip = 0 ∨ selFrom f n.chain start skip ≠ []) :
    WinPost f n.chain chunk limit start to [] skip 0 (canonical cfg n f chunk limit start to skip).1 ∧
      CacheGood cfg n (canonical cfg n f chunk limit start to skip).2 := by
  unfold canonical
  by_cases hgt : start > to
  · simp only [hgt, if_true]
    refine ⟨Or.inl ⟨rfl, ?_, by simp⟩, hc⟩
    have : to + 1 - start = 0 := by omega
    simp [this, wantN]
  · simp only [hgt, if_false]
    rw [windowsOf_form]
    have hle : start ≤ to := by omega
    have hq : start / cfg.W ≤ to / cfg.W := Nat.div_le_div_right hle
    generalize hk0 : to / cfg.W - start / cfg.W + 1 = k
    have hsum : start / cfg.W + k = to / cfg.W + 1 := by omega
    have hA : start / cfg.W * cfg.W + k * cfg.W = to / cfg.W * cfg.W + cfg.W := by
      rw [← Nat.add_mul, hsum, Nat.add_mul]; simp
    have hs1 := Nat.div_add_mod start cfg.W
    have hs2 := Nat.mod_lt start (show cfg.W > 0 by omega)
    have ht1 := Nat.div_add_mod to cfg.W
    have ht2 := Nat.mod_lt to (show cfg.W > 0 by omega)
    rw [Nat.mul_comm] at hs1 ht1
    have := scanWindows_spec cfg n f chunk limit start to hto hwf hs k (start / cfg.W * cfg.W) start n.cache [] skip 0
      hc (by omega) (by intro h; omega)
      (by
        intro _
        refine ⟨hle, Nat.max_eq_left (by omega), Nat.mul_mod_left _ _, by omega, by omega, by omega, by omega, ?_, hfl⟩
        rw [← al_eq_div_mul]; exact al_mono _ _ _ hfl)
      (by
        rcases hskip with h | h
        · exact Or.inl h
        · exact Or.inr ⟨h, by omega⟩)
      (by simp)
    exact this

def startOf (fromB : Nat) : Option Token → Nat
  | some t => t.b
  | none => fromB

def skipOf : Option Token → Nat
  | some t => t.p
  | none => 0

theorem events_eq (cfg : Cfg) (n : Node) (f : Filter) (fromB toB : Nat) (tok : Option Token) (chunk limit : Nat) :
    events cfg n f fromB toB tok chunk limit =
      match n.chain.length with
      | 0 => (.err .empty, n.cache)
      | latest + 1 =>
        if startOf fromB tok ≤ latest && startOf fromB tok < n.floor then (.err .pruned, n.cache)
        else if toB ≤ latest then canonical cfg n f chunk limit (startOf fromB tok) toB (skipOf tok)
        else if startOf fromB tok ≤ latest then canonical cfg n f chunk limit (startOf fromB tok) latest (skipOf tok)
        else (.ok [] Token.none, n.cache) := by
  cases tok <;> rfl

theorem events_spec (cfg : Cfg) (n : Node) (f : Filter) (fromB toB : Nat) (tok : Option Token) (chunk limit latest : Nat)
    (hW : 1 ≤ cfg.W) (hlen : n.chain.length = latest + 1) (hwf : ChainWF n.chain)
    (hs : Servable cfg n (min toB latest)) (hc : CacheGood cfg n n.cache)
    (hfl : n.floor ≤ startOf fromB tok)
    (hskip : skipOf tok = 0 ∨ selFrom f n.chain (startOf fromB tok) (skipOf tok) ≠ []) :
    WinPost f n.chain chunk limit (startOf fromB tok) (min toB latest) [] (skipOf tok) 0
        (events cfg n f fromB toB tok chunk limit).1 ∧
      CacheGood cfg n (events cfg n f fromB toB tok chunk limit).2 := by
  rw [events_eq]
  split
  · rename_i h0; omega
  · rename_i latest' heq
    have : latest' = latest := by omega
    subst this
    have hnp : (decide (startOf fromB tok ≤ latest') && decide (startOf fromB tok < n.floor)) = false := by
      simp only [Bool.and_eq_false_iff, decide_eq_false_iff_not]; right; omega
    simp only [hnp, Bool.false_eq_true, if_false]
    by_cases h1 : toB ≤ latest'
    · simp only [h1, if_true]
      rw [Nat.min_eq_left h1] at hs ⊢
      exact canonical_spec cfg n f chunk limit _ toB _ hW (by omega) hwf hs hc hfl hskip
    · simp only [h1, if_false]
      have hmin : min toB latest' = latest' := Nat.min_eq_right (by omega)
      rw [hmin] at hs ⊢
      by_cases h2 : startOf fromB tok ≤ latest'
      · simp only [h2, if_true]
        exact canonical_spec cfg n f chunk limit _ latest' _ hW (by omega) hwf hs hc hfl hskip
      · simp only [h2, if_false]
        refine ⟨Or.inl ⟨rfl, ?_, by simp⟩, hc⟩
        have : latest' + 1 - startOf fromB tok = 0 := by omega
        simp [this, wantN]

/-! ### Following the tokens -/

theorem wake_live (cfg : Cfg) (n : Node) (h : n.initErr = none) : wake cfg n = n := by
  unfold wake
  split
  · rfl
  · rename_i e he; rw [h] at he; cases he

theorem collect_spec (cfg : Cfg) (f : Filter) (fromB toB chunk limit latest : Nat) (hW : 1 ≤ cfg.W) (hchunk : 1 ≤ chunk) :
    ∀ (fuel : Nat) (n : Node) (tok : Option Token),
      n.chain.length = latest + 1 → ChainWF n.chain → Servable cfg n (min toB latest) → CacheGood cfg n n.cache →
      n.floor ≤ startOf fromB tok →
      (skipOf tok = 0 ∨ selFrom f n.chain (startOf fromB tok) (skipOf tok) ≠ []) →
      (wantN f n.chain (startOf fromB tok) (min toB latest + 1 - startOf fromB tok) (skipOf tok)).length
        + (min toB latest + 1 - startOf fromB tok) < fuel →
      collect cfg f fromB toB chunk limit fuel n tok =
        some (wantN f n.chain (startOf fromB tok) (min toB latest + 1 - startOf fromB tok) (skipOf tok)) := by
  intro fuel
  induction fuel with
  | zero => intro n tok _ _ _ _ _ _ h; omega
  | succ fuel ih =>
    intro n tok hlen hwf hs hc hfl hskip hfuel
    unfold collect
    simp only [apiEvents, wake_live cfg n hs.live, query]
    obtain ⟨hpost, hcg⟩ := events_spec cfg n f fromB toB tok chunk limit latest hW hlen hwf hs hc hfl hskip
    revert hpost
    cases hr : (events cfg n f fromB toB tok chunk limit).1 with
    | err e => simp [WinPost]
    | ok evs t =>
      simp only [WinPost, List.nil_append, List.length_nil]
      rintro (⟨ht, hA, _⟩ | ⟨h1, h2, X, hX, hXw, hv, _, hp⟩)
      · subst ht
        simp [Token.isEmpty, Token.none, hA]
      · have hprog := hp (by omega)
        have hne : t.isEmpty = false := by
          simp only [Token.isEmpty, Bool.and_eq_false_iff, beq_eq_false_iff_ne]
          rcases hprog with h | h
          · left; omega
          · right; have := (h (by omega)).2; omega
        simp only [hne, Bool.false_eq_true, if_false]
        have hrec := ih { n with cache := (events cfg n f fromB toB tok chunk limit).2 } (some t)
          hlen hwf ⟨hs.live, hs.running, hs.persisted⟩ hcg
          (by show n.floor ≤ t.b; simp only [startOf] at h1 hfl ⊢; omega)
          (by simpa [skipOf, startOf] using hv)
          (by
            simp only [startOf, skipOf]
            have hl := congrArg List.length hXw
            simp only [List.length_append] at hl
            rcases hprog with h | h
            · omega
            · have hx := (h (by omega)).1
              have : X.length ≥ 1 := by
                cases X with
                | nil => exact absurd rfl hx
                | cons _ _ => simp
              omega)
        simp only [startOf, skipOf] at hrec
        rw [hrec, hX, ← hXw]
        simp

end Juno.C09
