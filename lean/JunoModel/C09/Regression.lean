import JunoModel.C09.ProofsHist
/-!
C09 — REGRESSION DOCUMENTATION, not obligations about the tree: theorems about the variants of the
model that describe juno BEFORE the repairs 6609698 / 84d7a3b / 702b167 / c8ac4a7 (`fix… = false`). They are kept so that
the defects stay reproducible at window size 3 (the harness replays the same histories at 8192
against the real code every run and reports the old signature again should a defect return).
This module is built and axiom-free like the others but is not part of `props_modules`.
-/
namespace Juno.C09.Regression
open Juno.C09

/-- For every variant of the code, under the hypotheses the old code needed at each revert
(`RevertGuard`, contained in `HistOK`). -/
theorem index_no_false_neg_guarded (cfg : Cfg) (hW : 1 ≤ cfg.W) (ops : List Op)
    (hok : HistOK cfg Node.init ops) (hne : (run cfg Node.init ops).chain ≠ [])
    (hlive : (run cfg Node.init ops).initErr = none) :
    NoFalseNeg cfg (run cfg Node.init ops) :=
  noFalseNeg_of_inv cfg hW _ ((weak_after_history cfg hW ops hok).2 hlive) hne

/-- What held for the code before 6609698 / 84d7a3b / 702b167: the invariant along every history in
which each revert happens in a state where (a) the cache holds no entry for a window the revert
re-opens, (b) there is no persisted snapshot at or above the reverted block, (c) the revert does not
re-open a completed window; in particular along every reorg-free history (`histOK_of_no_revert`). -/
theorem index_no_false_neg_before_repairs (W cap : Nat) (hW : 1 ≤ W) (ops : List Op)
    (hok : HistOK ⟨W, cap, false, false, false, false⟩ Node.init ops)
    (hne : (run ⟨W, cap, false, false, false, false⟩ Node.init ops).chain ≠ [])
    (hlive : (run ⟨W, cap, false, false, false, false⟩ Node.init ops).initErr = none) :
    NoFalseNeg ⟨W, cap, false, false, false, false⟩ (run ⟨W, cap, false, false, false, false⟩ Node.init ops) :=
  index_no_false_neg_guarded _ hW ops hok hne hlive

def cfgBefore : Cfg := ⟨3, 2, false, false, false, false⟩
def blkE : Block := ⟨[], []⟩
def blkB : Block := ⟨[[⟨11, [7]⟩]], [.addr 11, .key 0 7]⟩
def fB : Filter := ⟨[11], []⟩

/-- DESIGN §7 L2, repaired by 6609698 — the cache was not purged on revert: blocks 0..3; a query
caches window [0,2]; revert 2; block 2' carries an event of address 11, then 3'; the query for
address 11 over [0,3] returned nothing. -/
theorem false_negative_stale_cache_before_6609698 :
    let ops : List Op := [.store blkE, .store blkE, .store blkE, .store blkE, .query fB 0 3 none 5 0,
      .revert, .revert, .store blkB, .store blkE]
    storesOKb cfgBefore Node.init ops = true ∧
    (apiEvents cfgBefore (run cfgBefore Node.init ops) fB 0 3 none 5 0).2 = .ok [] Token.none ∧
    naive fB (run cfgBefore Node.init ops).chain 0 3 = [⟨2, 0, 0, ⟨11, [7]⟩⟩] := by
  decide

/-- DESIGN §7 L3, repaired by 84d7a3b — the snapshot was never invalidated. -/
theorem false_negative_stale_snapshot_before_84d7a3b :
    let ops : List Op := [.store blkE, .store blkE, .snap, .restart, .revert, .store blkB, .restart]
    storesOKb cfgBefore Node.init ops = true ∧
    (apiEvents cfgBefore (run cfgBefore Node.init ops) fB 0 1 none 5 0).2 = .ok [] Token.none ∧
    naive fB (run cfgBefore Node.init ops).chain 0 1 = [⟨1, 0, 0, ⟨11, [7]⟩⟩] := by
  decide

/-- L15, repaired by 702b167 — `onReorg` re-opened window [0,2] but left its persisted copy; after an
ungraceful restart the query missed block 1' and storing block 2 failed. -/
theorem false_negative_stale_persisted_before_702b167 :
    let ops : List Op := [.store blkE, .store blkE, .store blkE, .store blkE, .revert, .revert, .revert,
      .store blkB, .restart]
    storesOKb cfgBefore Node.init ops = true ∧
    (apiEvents cfgBefore (run cfgBefore Node.init ops) fB 0 1 none 5 0).2 = .ok [] Token.none ∧
    naive fB (run cfgBefore Node.init ops).chain 0 1 = [⟨1, 0, 0, ⟨11, [7]⟩⟩] ∧
    (apiStore cfgBefore (run cfgBefore Node.init ops) blkE).2 = some .range := by
  decide

/-- C05's L16 seen from the query side, repaired by c8ac4a7 — `ensureInit` remembered a failed
initialisation (`sync.Once`): two blocks, a restart whose initialisation hits a transient error; the
database is intact and holds a matching event, yet the query failed, and failed again; only a Store
attempt (which itself failed once: `Reset`, 3373c0b) re-armed the initialiser. -/
theorem query_fails_after_transient_init_error_before_c8ac4a7 :
    let cfg : Cfg := ⟨3, 2, true, true, true, false⟩
    let ops : List Op := [.store blkE, .store blkB, .restartFault]
    let n := run cfg Node.init ops
    storesOKb cfg Node.init ops = true ∧
    naive fB n.chain 0 1 = [⟨1, 0, 0, ⟨11, [7]⟩⟩] ∧
    (apiEvents cfg n fB 0 1 none 5 0).2 = .err .io ∧
    (apiEvents cfg (apiEvents cfg n fB 0 1 none 5 0).1 fB 0 1 none 5 0).2 = .err .io ∧
    (apiStore cfg n blkE).2 = some .io ∧
    (apiEvents cfg (apiStore cfg n blkE).1 fB 0 1 none 5 0).2 = .ok [⟨1, 0, 0, ⟨11, [7]⟩⟩] Token.none := by
  decide

end Juno.C09.Regression
