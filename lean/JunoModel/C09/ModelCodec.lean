/-!
C09 — byte-level model of the persisted form of the event index (round 6).

Transcribed code:
* `core/aggregated_bloom_filter.go` — `AggregatedBloomFilter.MarshalBinary` / `UnmarshalBinary` (the
  hand-written decoder: header `fromBlock | toBlock | count`, then per row `len | bitset length |
  words`, every field big-endian; the checks in the order of the code: short header, row count,
  room for `count` rows, `toBlock = fromBlock + 8191` in `uint64` arithmetic, per row blob length and
  bitset length, trailing bytes)
* `core/running_event_filter.go`    — `RunningEventFilter.MarshalBinary` / `UnmarshalBinary` (the
  snapshot written at shutdown: `len(inner) | inner | next`; bytes after `next` are not looked at)

`Dim` holds the two constants of the code (`EventsBloomLength` rows of `NumBlocksPerFilter` bits);
the theorems are for every `Dim`, the driver instantiates 8192 × 8192. Bytes are `Nat`s below 256.
Core Lean only (linked into `c09drv`).
-/
namespace Juno.C09.Codec

structure Dim where
  /-- `EventsBloomLength`: rows of the matrix -/
  R : Nat
  /-- `NumBlocksPerFilter`: bits of a row -/
  W : Nat
  deriving DecidableEq, Repr

/-- `wordsPerFilterRow = (NumBlocksPerFilter + 63) / 64`. -/
def Dim.words (d : Dim) : Nat := (d.W + 63) / 64
/-- `blobLenWant = bitsetLenSize + wordsPerFilterRow*bytesUint64`. -/
def Dim.blobLen (d : Dim) : Nat := 8 + d.words * 8
/-- `rowSize = rowLenSize + blobLenWant`. -/
def Dim.rowSize (d : Dim) : Nat := 4 + d.blobLen
/-- `headerSize = 8 + 8 + 4`. -/
def headerSize : Nat := 20

/-- `binary.BigEndian.UintNN` of a byte string. -/
def beVal : List Nat → Nat
  | [] => 0
  | b :: bs => b * 256 ^ bs.length + beVal bs

/-- `binary.Write(&buf, binary.BigEndian, v)` for a `k`-byte unsigned `v` (the conversion to the
fixed width included: `uint32(len(b))`). -/
def be : Nat → Nat → List Nat
  | 0, _ => []
  | k + 1, n => n / 256 ^ k % 256 :: be k (n % 256 ^ k)

/-- The bit matrix of an `AggregatedBloomFilter`: per row the `uint64` words of its bitset. -/
structure Mat where
  from_ : Nat
  to : Nat
  rows : List (List Nat)
  deriving DecidableEq, Repr

/-- One row of `MarshalBinary`: `uint32(len(b))`, then `b = bs.MarshalBinary()` = the bitset's
length (`NumBlocksPerFilter` for every row: `makeBitset`, `FromWithLength`) and its words. -/
def encRow (d : Dim) (r : List Nat) : List Nat :=
  be 4 (8 + r.length * 8) ++ (be 8 d.W ++ r.flatMap (be 8))

/-- `AggregatedBloomFilter.MarshalBinary`. -/
def marshal (d : Dim) (m : Mat) : List Nat :=
  be 8 m.from_ ++ (be 8 m.to ++ (be 4 m.rows.length ++ m.rows.flatMap (encRow d)))

inductive CErr where
  | eof    -- io.ErrUnexpectedEOF / io.EOF
  | size   -- ErrBloomFilterSizeMismatch
  deriving DecidableEq, Repr

/-- `for w := range wordsPerFilterRow { row[w] = binary.BigEndian.Uint64(data[wordsAt+w*8:]) }`. -/
def chunkWords : Nat → List Nat → List Nat
  | 0, _ => []
  | n + 1, l => beVal (l.take 8) :: chunkWords n (l.drop 8)

/-- The row loop of `UnmarshalBinary` over the bytes from `offset` on: the rows and what is left. -/
def decRows (d : Dim) : Nat → List Nat → Except CErr (List (List Nat) × List Nat)
  | 0, rest => .ok ([], rest)
  | n + 1, rest =>
    if beVal (rest.take 4) != d.blobLen then .error .size
    else if beVal ((rest.drop 4).take 8) != d.W then .error .size
    else
      match decRows d n (rest.drop d.rowSize) with
      | .error e => .error e
      | .ok (rows, rest') => .ok (chunkWords d.words (rest.drop 12) :: rows, rest')

/-- `AggregatedBloomFilter.UnmarshalBinary`. -/
def unmarshal (d : Dim) (data : List Nat) : Except CErr Mat :=
  if data.length < headerSize then .error .eof
  else
    let count := beVal ((data.drop 16).take 4)
    if count != d.R then .error .size
    else if count > (data.length - headerSize) / d.rowSize then .error .eof
    else
      let fr := beVal (data.take 8)
      let to := beVal ((data.drop 8).take 8)
      if to != (fr + (d.W - 1)) % 2 ^ 64 then .error .size
      else
        match decRows d count (data.drop headerSize) with
        | .error e => .error e
        | .ok (rows, rest) => if rest.isEmpty then .ok ⟨fr, to, rows⟩ else .error .eof

/-- `RunningEventFilter.MarshalBinary`. -/
def marshalRun (d : Dim) (m : Mat) (next : Nat) : List Nat :=
  be 4 (marshal d m).length ++ (marshal d m ++ be 8 next)

/-- `RunningEventFilter.UnmarshalBinary`: `binary.Read` of the length, `io.ReadFull` of the inner
bytes, the inner decoder, `binary.Read` of `next`; what follows is ignored. -/
def unmarshalRun (d : Dim) (data : List Nat) : Except CErr (Mat × Nat) :=
  if data.length < 4 then .error .eof
  else
    let innerLen := beVal (data.take 4)
    if data.length - 4 < innerLen then .error .eof
    else
      match unmarshal d ((data.drop 4).take innerLen) with
      | .error e => .error e
      | .ok m =>
        let rest := data.drop (4 + innerLen)
        if rest.length < 8 then .error .eof else .ok (m, beVal (rest.take 8))

/-- What a filter in memory satisfies (`NewAggregatedFilter`, `Insert`, `clear`, a decoded filter):
`toBlock = fromBlock + 8191` in `uint64`, `EventsBloomLength` rows of `wordsPerFilterRow` words. -/
def Mat.WF (d : Dim) (m : Mat) : Prop :=
  m.from_ < 2 ^ 64 ∧ m.to = (m.from_ + (d.W - 1)) % 2 ^ 64 ∧ m.rows.length = d.R ∧
  ∀ r ∈ m.rows, r.length = d.words ∧ ∀ w ∈ r, w < 2 ^ 64

/-- The constants fit their wire fields (they do: 8192 rows, 8192 bits, 1032-byte blobs). -/
def Dim.OK (d : Dim) : Prop := d.R < 2 ^ 32 ∧ d.W < 2 ^ 64 ∧ d.blobLen < 2 ^ 32

/-- Checksum used by the driver to report a decoded matrix / an encoded byte string compactly. -/
def cks (l : List Nat) : Nat := l.foldl (fun a x => (a * 1000003 + x + 1) % 2 ^ 40) 7

end Juno.C09.Codec
