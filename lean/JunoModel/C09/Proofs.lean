import JunoModel.C09.Model
/-! C09 — helper lemmas, part 1: filter semantics, the per-block loop, the loop over candidate blocks. -/
namespace Juno.C09


theorem matchKeysGo_spec (fk : List (List Nat)) (ek : List Nat) (h : fk.length ≤ ek.length) :
    matchKeysGo fk ek = true ↔ ∀ i (hi : i < fk.length), fk[i] = [] ∨ ek[i]'(by omega) ∈ fk[i] := by
  induction fk generalizing ek with
  | nil => simp [matchKeysGo]
  | cons alts fs ih =>
    cases ek with
    | nil => simp at h
    | cons k ks =>
      simp only [List.length_cons, Nat.add_le_add_iff_right] at h
      simp only [matchKeysGo, Bool.and_eq_true, Bool.or_eq_true, List.isEmpty_iff, List.contains_iff_mem, ih ks h]
      constructor
      · rintro ⟨h0, hr⟩ i hi
        cases i with
        | zero => exact h0
        | succ j => exact hr j (by simpa using hi)
      · intro hall
        refine ⟨hall 0 (by simp), fun i hi => ?_⟩
        exact hall (i + 1) (by simpa using hi)



theorem sel_append (f : Filter) (a b : List Emitted) : sel f (a ++ b) = sel f a ++ sel f b := by
  simp [sel]

/-- Generalised description of the per-block loop. -/
theorem scanGo_gen (f : Filter) (skip chunk : Nat) (l : List Emitted) (p : Nat) (acc : List Emitted) :
    ∃ X, (scanGo f skip chunk l p acc).1 = acc ++ X ∧
      p ≤ (scanGo f skip chunk l p acc).2.1 ∧
      X ++ sel f (l.drop ((scanGo f skip chunk l p acc).2.1 - p)) = sel f (l.drop (skip - p)) ∧
      ((scanGo f skip chunk l p acc).2.2 = false → sel f (l.drop ((scanGo f skip chunk l p acc).2.1 - p)) = []) ∧
      ((scanGo f skip chunk l p acc).2.2 = true →
        chunk ≤ acc.length + X.length ∧ sel f (l.drop ((scanGo f skip chunk l p acc).2.1 - p)) ≠ []) ∧
      (acc.length ≤ chunk → acc.length + X.length ≤ chunk) ∧
      (X ≠ [] → skip < (scanGo f skip chunk l p acc).2.1) := by
  induction l generalizing p acc with
  | nil => exact ⟨[], by simp [scanGo, sel]⟩
  | cons e es ih =>
    unfold scanGo
    by_cases h1 : p < skip
    · simp only [h1, if_true]
      obtain ⟨X, hX, hp, hsel, hf, ht, hc, hne⟩ := ih (p + 1) acc
      refine ⟨X, hX, by omega, ?_, ?_, ?_, hc, hne⟩
      · have e1 : (scanGo f skip chunk es (p + 1) acc).2.1 - p = ((scanGo f skip chunk es (p + 1) acc).2.1 - (p + 1)) + 1 := by omega
        have e2 : skip - p = (skip - (p + 1)) + 1 := by omega
        rw [e1, e2]; simpa using hsel
      · intro h
        have e1 : (scanGo f skip chunk es (p + 1) acc).2.1 - p = ((scanGo f skip chunk es (p + 1) acc).2.1 - (p + 1)) + 1 := by omega
        rw [e1]; simpa using hf h
      · intro h
        have e1 : (scanGo f skip chunk es (p + 1) acc).2.1 - p = ((scanGo f skip chunk es (p + 1) acc).2.1 - (p + 1)) + 1 := by omega
        rw [e1]; simpa using ht h
    · simp only [h1, if_false]
      have hs0 : skip - p = 0 := by omega
      have hs1 : skip - (p + 1) = 0 := by omega
      by_cases h2 : «matches» f e.ev = true
      · simp only [h2, Bool.not_true, Bool.false_eq_true, if_false]
        by_cases h3 : acc.length < chunk
        · simp only [h3, if_true]
          obtain ⟨X, hX, hp, hsel, hf, ht, hc, hne⟩ := ih (p + 1) (acc ++ [e])
          have e1 : (scanGo f skip chunk es (p + 1) (acc ++ [e])).2.1 - p = ((scanGo f skip chunk es (p + 1) (acc ++ [e])).2.1 - (p + 1)) + 1 := by omega
          refine ⟨e :: X, by simp [hX], by omega, ?_, ?_, ?_, ?_, ?_⟩
          · rw [e1, hs0]; rw [hs1] at hsel
            simp only [List.drop_succ_cons, List.drop_zero, List.cons_append]
            simp only [List.drop_zero] at hsel
            rw [hsel]; simp [sel, h2]
          · intro h; rw [e1]; simpa using hf h
          · intro h; rw [e1]
            have := ht h
            simp only [List.length_append, List.length_cons, List.length_nil] at this
            exact ⟨by simp; omega, by simpa using this.2⟩
          · intro h
            have := hc (by simp; omega)
            simp only [List.length_append, List.length_cons, List.length_nil] at this
            simp; omega
          · intro _; omega
        · simp only [h3, if_false]
          refine ⟨[], by simp, by omega, ?_, ?_, ?_, ?_, ?_⟩
          · simp [hs0]
          · intro h; simp at h
          · intro _; simp [sel, h2]; omega
          · intro h; simpa using h
          · intro h; simp at h
      · have h2' : «matches» f e.ev = false := by simpa using h2
        simp only [h2', Bool.not_false, if_true]
        obtain ⟨X, hX, hp, hsel, hf, ht, hc, hne⟩ := ih (p + 1) acc
        have e1 : (scanGo f skip chunk es (p + 1) acc).2.1 - p = ((scanGo f skip chunk es (p + 1) acc).2.1 - (p + 1)) + 1 := by omega
        refine ⟨X, hX, by omega, ?_, ?_, ?_, hc, hne⟩
        · rw [e1, hs0]; rw [hs1] at hsel
          simp only [List.drop_succ_cons, List.drop_zero]
          simp only [List.drop_zero] at hsel
          rw [hsel]; simp [sel, h2']
        · intro h; rw [e1]; simpa using hf h
        · intro h; rw [e1]; simpa using ht h


def blkSel (f : Filter) (chain : List Block) (b : Nat) : List Emitted :=
  match chain[b]? with
  | some blk => sel f (blockRaw b blk)
  | none => []

def selFrom (f : Filter) (chain : List Block) (b p : Nat) : List Emitted :=
  match chain[b]? with
  | some blk => sel f ((blockRaw b blk).drop p)
  | none => []

theorem naive_eq (f : Filter) (chain : List Block) (lo hi : Nat) :
    naive f chain lo hi = (List.range' lo (hi + 1 - lo)).flatMap (blkSel f chain) := rfl

theorem selFrom_zero (f : Filter) (chain : List Block) (b : Nat) : selFrom f chain b 0 = blkSel f chain b := by
  simp [selFrom, blkSel]

theorem sel_drop_ne_nil (f : Filter) (l : List Emitted) (p : Nat) (h : sel f (l.drop p) ≠ []) : sel f l ≠ [] := by
  intro h0
  apply h
  have : ∀ e ∈ l.drop p, e ∈ l := fun e he => List.mem_of_mem_drop he
  simp only [sel, List.filter_eq_nil_iff] at h0 ⊢
  intro e he
  exact h0 e (this e he)

theorem blkSel_ne_nil_of_selFrom (f : Filter) (chain : List Block) (b p : Nat) (h : selFrom f chain b p ≠ []) :
    blkSel f chain b ≠ [] := by
  unfold selFrom at h; unfold blkSel
  cases hb : chain[b]? with
  | none => simp [hb] at h
  | some blk => simp only [hb] at h ⊢; exact sel_drop_ne_nil f _ p h

/-- What is still to be returned from position `(lo, skip)` over the `n` blocks `lo … lo+n-1`. -/
def wantN (f : Filter) (chain : List Block) (lo : Nat) : Nat → Nat → List Emitted
  | 0, _ => []
  | m + 1, skip => selFrom f chain lo skip ++ (List.range' (lo + 1) m).flatMap (blkSel f chain)

theorem wantN_zero (f : Filter) (chain : List Block) (lo n : Nat) :
    wantN f chain lo n 0 = (List.range' lo n).flatMap (blkSel f chain) := by
  cases n with
  | zero => simp [wantN]
  | succ m => simp [wantN, selFrom_zero, List.range'_succ]

def CandsPost (f : Filter) (chain : List Block) (chunk limit lo n : Nat) (acc : List Emitted) (skip sc : Nat) : Step → Prop
  | .cont acc' skip' _ => acc' = acc ++ wantN f chain lo n skip ∧ skip' = 0 ∧ acc'.length ≤ chunk
  | .stop acc' tok => lo ≤ tok.b ∧ tok.b < lo + n ∧ ∃ X, acc' = acc ++ X ∧
      X ++ wantN f chain tok.b (lo + n - tok.b) tok.p = wantN f chain lo n skip ∧
      (tok.p = 0 ∨ selFrom f chain tok.b tok.p ≠ []) ∧ acc'.length ≤ chunk ∧
      ((limit = 0 ∨ sc < limit) → lo < tok.b ∨ (acc.length < chunk → X ≠ [] ∧ skip < tok.p))
  | .fail _ => False

theorem scanCands_spec (f : Filter) (chain : List Block) (floor chunk limit : Nat) (c : Nat → Bool)
    (n : Nat) : ∀ (lo : Nat) (acc : List Emitted) (skip sc : Nat),
    floor ≤ lo →
    lo + n ≤ chain.length →
    (∀ b, lo ≤ b → b < lo + n → blkSel f chain b ≠ [] → c b = true) →
    (skip = 0 ∨ (1 ≤ n ∧ selFrom f chain lo skip ≠ [] ∧ (limit = 0 ∨ sc < limit))) →
    acc.length ≤ chunk →
    CandsPost f chain chunk limit lo n acc skip sc
      (scanCands f chain floor chunk limit ((List.range' lo n).filter c) acc skip sc) := by
  induction n with
  | zero =>
    intro lo acc skip sc _ _ _ hskip hacc
    have : skip = 0 := by rcases hskip with h | h; exact h; omega
    simp [scanCands, CandsPost, wantN, this, hacc]
  | succ n ih =>
    intro lo acc skip sc hfl hlen hnfn hskip hacc
    rw [List.range'_succ]
    by_cases hc : c lo = true
    · rw [List.filter_cons_of_pos hc]
      unfold scanCands
      by_cases hlim : (decide (limit > 0) && decide ((if limit > 0 then sc + 1 else sc) > limit)) = true
      · simp only [hlim, if_true]
        simp only [Bool.and_eq_true, decide_eq_true_eq] at hlim
        have hl0 : limit > 0 := hlim.1
        have hsc : sc + 1 > limit := by simpa [hl0] using hlim.2
        have hs0 : skip = 0 := by
          rcases hskip with h | ⟨_, _, h⟩
          · exact h
          · rcases h with h | h <;> omega
        refine ⟨Nat.le_refl _, (by show lo < lo + (n + 1); omega), [], by simp, ?_, Or.inl rfl, by simpa using hacc, ?_⟩
        · simp [hs0]
        · intro h; rcases h with h | h <;> omega
      · simp only [hlim, Bool.false_eq_true, if_false]
        have hnf : ¬ lo < floor := by omega
        simp only [hnf, if_false]
        have hlt : lo < chain.length := by omega
        have hget : chain[lo]? = some chain[lo] := List.getElem?_eq_getElem hlt
        simp only [hget]
        obtain ⟨X, hX, _, hsel, hf, ht, hcz, hne⟩ := scanGo_gen f skip chunk (blockRaw lo chain[lo]) 0 acc
        simp only [Nat.sub_zero] at hsel hf ht
        have hsF : ∀ p, selFrom f chain lo p = sel f ((blockRaw lo chain[lo]).drop p) := by
          intro p; simp [selFrom, hget]
        cases hr : scanGo f skip chunk (blockRaw lo chain[lo]) 0 acc with
        | mk acc' rest =>
          cases rest with
          | mk p' full =>
            rw [hr] at hX hsel hf ht hne
            simp only at hX hsel hf ht hne
            cases full with
            | true =>
              simp only
              have ht' := ht rfl
              refine ⟨Nat.le_refl _, (by show lo < lo + (n + 1); omega), X, hX, ?_, Or.inr (by rw [hsF]; exact ht'.2), ?_, ?_⟩
              · have : lo + (n + 1) - lo = n + 1 := by omega
                rw [this]; simp only [wantN, hsF, ← List.append_assoc, hsel]
              · rw [hX]; simp; exact hcz hacc
              · intro _; right; intro hlt'
                have : X ≠ [] := by
                  intro h0; rw [h0] at ht'; simp at ht'; omega
                exact ⟨this, hne this⟩
            | false =>
              simp only
              have hf' := hf rfl
              have hXe : X = selFrom f chain lo skip := by
                rw [hsF, ← hsel, hf']; simp
              have hacc' : acc'.length ≤ chunk := by rw [hX]; simp; exact hcz hacc
              have := ih (lo + 1) acc' 0 (if limit > 0 then sc + 1 else sc) (by omega) (by omega)
                (fun b h1 h2 => hnfn b (by omega) (by omega)) (Or.inl rfl) hacc'
              revert this
              cases scanCands f chain floor chunk limit (List.filter c (List.range' (lo + 1) n)) acc' 0 (if limit > 0 then sc + 1 else sc) with
              | cont a s c' =>
                simp only [CandsPost]
                rintro ⟨h1, h2, h3⟩
                refine ⟨?_, h2, h3⟩
                rw [h1, hX, hXe, wantN_zero]; simp [wantN]
              | stop a tok =>
                simp only [CandsPost]
                rintro ⟨h1, h2, Y, hY, hYw, hv, hl, _⟩
                refine ⟨by omega, by omega, X ++ Y, by rw [hY, hX]; simp, ?_, hv, hl, fun _ => Or.inl (by omega)⟩
                have e : lo + (n + 1) - tok.b = lo + 1 + n - tok.b := by omega
                rw [e, List.append_assoc, hYw, wantN_zero, hXe]; simp [wantN]
              | fail e => simp [CandsPost]
    · have hc' : c lo = false := by simpa using hc
      rw [List.filter_cons_of_neg (by simp [hc'])]
      have hb0 : blkSel f chain lo = [] := by
        cases hb : blkSel f chain lo with
        | nil => rfl
        | cons x xs => exact absurd (hnfn lo (Nat.le_refl _) (by omega) (by simp [hb])) hc
      have hs0 : skip = 0 := by
        rcases hskip with h | ⟨_, h, _⟩
        · exact h
        · exact absurd hb0 (blkSel_ne_nil_of_selFrom f chain lo skip h)
      subst hs0
      have := ih (lo + 1) acc 0 sc (by omega) (by omega) (fun b h1 h2 => hnfn b (by omega) (by omega)) (Or.inl rfl) hacc
      revert this
      cases scanCands f chain floor chunk limit (List.filter c (List.range' (lo + 1) n)) acc 0 sc with
      | cont a s c' =>
        simp only [CandsPost]
        rintro ⟨h1, h2, h3⟩
        refine ⟨?_, h2, h3⟩
        rw [h1, wantN_zero]; simp [wantN, selFrom_zero, hb0]
      | stop a tok =>
        simp only [CandsPost]
        rintro ⟨h1, h2, Y, hY, hYw, hv, hl, _⟩
        refine ⟨by omega, by omega, Y, hY, ?_, hv, hl, fun _ => Or.inl (by omega)⟩
        have e : lo + (n + 1) - tok.b = lo + 1 + n - tok.b := by omega
        rw [e, hYw, wantN_zero]; simp [wantN, selFrom_zero, hb0]
      | fail e => simp [CandsPost]



theorem windows_succ (q k W : Nat) :
    (List.range (k + 1)).map (fun i => (q + i) * W) = q * W :: (List.range k).map (fun i => (q + 1 + i) * W) := by
  rw [List.range_succ_eq_map]
  simp only [List.map_cons, List.map_map, Nat.add_zero, List.cons.injEq, true_and]
  apply List.map_congr_left
  intro i _
  simp only [Function.comp]
  rw [show q + (i + 1) = q + 1 + i by omega]

theorem lookup_mem (m : WinMap) (w : Nat) (a : Agg) (h : m.lookup w = some a) : (w, a) ∈ m := by
  induction m with
  | nil => simp [List.lookup] at h
  | cons x xs ih =>
    obtain ⟨k, v⟩ := x
    simp only [List.lookup] at h
    by_cases hk : w == k
    · simp only [hk] at h
      have : w = k := by simpa using hk
      simp_all
    · simp only [hk] at h
      exact List.mem_cons_of_mem _ (ih h)

theorem mem_del (m : WinMap) (k : Nat) (x : Nat × Agg) (h : x ∈ m.del k) : x ∈ m := by
  simp only [WinMap.del, List.mem_filter] at h; exact h.1

theorem mem_put (m : WinMap) (k : Nat) (v : Agg) (x : Nat × Agg) (h : x ∈ m.put k v) : x = (k, v) ∨ x ∈ m := by
  simp only [WinMap.put, List.mem_cons] at h
  rcases h with h | h
  · exact Or.inl h
  · exact Or.inr (mem_del m k x h)

theorem mem_lruAdd (cap : Nat) (m : WinMap) (k : Nat) (v : Agg) (x : Nat × Agg) (h : x ∈ lruAdd cap m k v) :
    x = (k, v) ∨ x ∈ m := mem_put m k v x (List.mem_of_mem_take h)


/-! ### Window alignment arithmetic -/

/-- `x - x % W`: first block of the window containing `x`. -/
def al (W x : Nat) : Nat := x - x % W

theorem al_unique (W w x : Nat) (hw : w % W = 0) (h1 : w ≤ x) (h2 : x < w + W) : al W x = w := by
  obtain ⟨r, rfl⟩ : ∃ r, x = w + r := ⟨x - w, by omega⟩
  have hr : r < W := by omega
  have : (w + r) % W = r := by
    rw [Nat.add_mod, hw, Nat.zero_add, Nat.mod_mod, Nat.mod_eq_of_lt hr]
  unfold al; rw [this]; omega

theorem al_le (W x : Nat) : al W x ≤ x := Nat.sub_le _ _

theorem al_add_mod (W x : Nat) : al W x + x % W = x := by
  unfold al; have := Nat.mod_le x W; omega

theorem al_mod (W x : Nat) : al W x % W = 0 := by
  have h := Nat.div_add_mod x W
  have : al W x = W * (x / W) := by unfold al; omega
  rw [this]; exact Nat.mul_mod_right _ _

theorem lt_al_add (W x : Nat) (hW : 1 ≤ W) : x < al W x + W := by
  have := al_add_mod W x
  have := Nat.mod_lt x (show W > 0 by omega)
  omega

theorem al_eq_self (W x : Nat) (h : x % W = 0) : al W x = x := by unfold al; omega

theorem al_succ_same (W x : Nat) (h : x % W + 1 < W) : al W (x + 1) = al W x := by
  apply al_unique W _ _ (al_mod W x)
  · have := al_le W x; omega
  · have := al_add_mod W x; omega

theorem al_succ_roll (W x : Nat) (h : x % W + 1 = W) : al W (x + 1) = x + 1 := by
  have h1 : (x + 1) % W = 0 := by
    have := al_add_mod W x
    have e : x + 1 = al W x + W := by omega
    rw [e, Nat.add_mod_right]; exact al_mod W x
  exact al_eq_self W _ h1

theorem al_pred_same (W x : Nat) (hW : 1 ≤ W) (h : x % W ≠ 0) : al W (x - 1) = al W x := by
  apply al_unique W _ _ (al_mod W x)
  · have := al_add_mod W x; omega
  · have := lt_al_add W x hW; omega

theorem sub_mod_self (W x : Nat) (h : W ≤ x) : (x - W) % W = x % W := by
  have h1 : (x - W + W) % W = (x - W) % W := Nat.add_mod_right _ _
  have h2 : x - W + W = x := by omega
  rw [← h1, h2]

theorem ge_of_mod_zero (W x : Nat) (h0 : x % W = 0) (h1 : 1 ≤ x) : W ≤ x := by
  rcases Nat.lt_or_ge x W with h | h
  · rw [Nat.mod_eq_of_lt h] at h0; omega
  · exact h

theorem al_pred_cross (W x : Nat) (hW : 1 ≤ W) (h0 : x % W = 0) (h1 : 1 ≤ x) : al W (x - 1) = x - W := by
  have hge := ge_of_mod_zero W x h0 h1
  apply al_unique W
  · rw [sub_mod_self W x hge]; exact h0
  · omega
  · omega

/-- two aligned numbers that are less than `W` apart are equal -/
theorem aligned_lt (W a b : Nat) (ha : a % W = 0) (hb : b % W = 0) (h : a < b) : a + W ≤ b := by
  rcases Nat.lt_or_ge b (a + W) with h' | h'
  · have := al_unique W a b ha (by omega) h'
    rw [al_eq_self W b hb] at this; omega
  · exact h'


theorem al_eq_div_mul (W x : Nat) : al W x = x / W * W := by
  have h := Nat.div_add_mod x W
  unfold al; rw [Nat.mul_comm]; omega

theorem al_mono (W a b : Nat) (h : a ≤ b) : al W a ≤ al W b := by
  rw [al_eq_div_mul, al_eq_div_mul]
  exact Nat.mul_le_mul_right _ (Nat.div_le_div_right h)

end Juno.C09
