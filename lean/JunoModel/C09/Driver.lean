import JunoModel.Common.Proto
import JunoModel.C09.Model
import JunoModel.C09.ModelRpc
import JunoModel.C09.ModelCodec
/-!
Line-protocol driver for the C09 model (`lake build c09drv`). Numbers are hexadecimal.

  cfg W CAP fixCache fixSnap fixPersist fixInit   choose the variant, reset to the empty node -> ok
  store BLOOM TXS     BLOOM = items `a<addr>` / `k<pos>.<key>` joined by `,` (or `-`)
                      TXS   = `-` | tx `|` tx …; tx = `~` | ev `;` ev …; ev = `<from>` [`:` k `.` k …]   -> ok | err:<e>
  storen N            N blocks without transactions and with an empty bloom                   -> ok | err:<e>
  revert | snap | restart                                                                     -> ok | err:<e>
  storefail | revertfail   a Store / RevertHead whose commit failed: the in-memory filter is reset   -> ok
  restartfault             restart whose lazy initialisation hits a transient error                  -> ok
  restartcrash K           restart that dies after K fill steps of the initialiser, then a restart   -> ok
  tamper del W | tamper mov A B   corrupt the database behind the node's back: delete persisted window W /
                           store window A's filter under key B (ties the notfound / bounds branches)   -> ok
  prune K             pruner.PruneUpto(K): retention floor K                                  -> ok
  mark                remember the current state for `explain`                                -> ok
  save | load         remember / restore the node (kept across `cfg`; the harness loads the long
                      common prefix of its histories once per driver process)                 -> ok
  q ADDRS KEYS FROM TO TOKB TOKP CHUNK LIMIT
                      ADDRS = `-` | a `,` a …; KEYS = `-` | pos `/` pos …, pos = `_` | k `,` k …;
                      TOKB TOKP = `-` `-` for the first page                                   -> ok <b.t.i,…|-> tok=<b>-<p> | err:<e>
  qp ADDRS KEYS FROM TO TOKB TOKP CHUNK LIMIT BASE PRE
                      the same with the pre-confirmed blocks PRE = `-` | blk `+` blk …, blk = BLOOM `@` TXS,
                      numbered BASE+1 …; FROM / TO = ffffffffffffffff is the `pre_confirmed` tag        -> as `q`
  iter ADDRS KEYS FROM TO LIMIT   the candidate blocks MatchedBlockIterator yields, and where the scan limit hit
                                                                                              -> ok <b,…|-> lim=<b|-> | err:<e>
  match ADDRS KEYS BLOOM TXS   `TestBloom` of the filter on the header bloom and, per event of the block
                      in order, does it match (the subscription path: matchingEvents)     -> tb=<0|1> ev=<bits|->
  naive ADDRS KEYS FROM TO                                                                    -> <b.t.i,…|->
  dump                P=[persisted window starts] S=<snapshot from/next|none> F=<retention floor> R=<running from/next> C=[cache keys, MRU first] H=<chain length>
  explain B           which structure serves block B's window in the marked state, and does it
                      cover B's header bloom                                                  -> running|cache|persisted|none sound|stale

Round 5 (the RPC layer, `ModelRpc.lean`); STR = `-` | code points (hex) joined by `,`:
  tokparse STR        ContinuationToken.FromString                                            -> ok <b>-<p> | err
  tokprint B P        ContinuationToken.String                                                -> <decimal>-<decimal>
  rpc API FROM TO ADDRS KEYS TOK CHUNK LIMIT L1 BASE PRE
                      starknet_getEvents of API = v8|v9|v10; FROM / TO = `-` (omitted) | n<hex> | h<hex> (hash of
                      that block) | hx (unknown hash) | latest | pre | l1; TOK = STR; L1 = `-` | hex    -> as `q`, or err:rpc:<class>
  subscribe API ID ADDRS KEYS L1 TOL   SubscribeEvents up to the creation of the subscription; ID = `-` | latest | n<hex> |
                      h<hex> | hx; TOL = 0|1 (missing L1 head tolerated)                    -> ok <start> <latest> <l1|-> | err:…
  subreplay ADDRS KEYS START LATEST L1   the historical replay with finality tags              -> <b.t.i/L1|L2,…|-> | err
  live ADDRS KEYS NUM BLOOM TXS          matchingEvents of a new head                           -> <b.t.i,…|->
  pcreset | pcclear   new subscription / onReorg (deduper cleared)                            -> ok
  pc ADDRS KEYS NUM IDENT HASHES BLOOM TXS   onPreConfirmed: what is sent                     -> <b.t.i,…|->
  marksent NUM IDENT H T I   PreConfirmedDeduper.MarkSent                                     -> 0|1
  cacheset W,W,…      AggregatedBloomFilterCache.SetMany with the persisted windows starting at W, …        -> ok | err:notfound
  v8sub LATEST | v8reorg START   rpc v8 subscription: created at head LATEST / reorg notification     -> ok
  v8head ADDRS KEYS NUM          rpc v8 onNewHead: the events notified                              -> <b.t.i,…|-> | err

Round 6 (the persisted form, `ModelCodec.lean`); BYTES = seg `,` seg …, seg = `r<count>.<byte>` (a run) | `h<hex bytes>`:
  aggdec R W BYTES    AggregatedBloomFilter.UnmarshalBinary for R rows of W bits
                      -> ok <from> <to> <rows> <cks of all words> | err:eof | err:size
  aggenc R W BYTES    MarshalBinary of the filter BYTES decodes to        -> ok <length> <cks of the bytes> | err:eof | err:size
  rundec R W BYTES    RunningEventFilter.UnmarshalBinary  -> ok <from> <to> <rows> <cks of all words> <next> | err:eof | err:size
-/
open Juno.Proto Juno.C09

structure St where
  cfg : Cfg
  node : Node
  mark : Node
  saved : Node
  dd : Dedup := Dedup.init
  v8 : V8Sub := ⟨0⟩

def cfg0 : Cfg := ⟨8192, 16, false, false, false, false⟩

def hx (n : Nat) : String := natToHex n

def pushRun : Nat → Nat → List Nat → List Nat
  | 0, _, acc => acc
  | c + 1, b, acc => pushRun c b (b :: acc)

/-- One segment put in front of `acc`. -/
def seg? (s : String) (acc : List Nat) : Option (List Nat) :=
  match s.toList with
  | 'r' :: r =>
    match (String.ofList r).splitOn "." with
    | [c, b] =>
      match hexToNat? c, hexToNat? b with
      | some c, some b => if b < 256 then some (pushRun c b acc) else none
      | _, _ => none
    | _ => none
  | 'h' :: r => (hexToBytes? (String.ofList r)).map (fun l => l.foldr (fun x a => x.toNat :: a) acc)
  | _ => none

def bytes? (s : String) : Option (List Nat) :=
  (s.splitOn ",").reverse.foldlM (fun acc sg => seg? sg acc) []

def codecErr : Codec.CErr → String
  | .eof => "err:eof"
  | .size => "err:size"

def splitNonEmpty (s : String) (sep : String) : List String := (s.splitOn sep).filter (fun w => !w.isEmpty)

def natList? (s : String) (sep : String) : Option (List Nat) :=
  if s == "-" then some [] else (splitNonEmpty s sep).mapM hexToNat?

def item? (s : String) : Option Item :=
  match s.toList with
  | 'a' :: r => (hexToNat? (String.ofList r)).map Item.addr
  | 'k' :: r =>
    match (String.ofList r).splitOn "." with
    | [p, k] => do pure (Item.key (← hexToNat? p) (← hexToNat? k))
    | _ => none
  | _ => none

def items? (s : String) : Option (List Item) :=
  if s == "-" then some [] else (splitNonEmpty s ",").mapM item?

def ev? (s : String) : Option Event :=
  match s.splitOn ":" with
  | [a] => do pure ⟨← hexToNat? a, []⟩
  | [a, ks] => do pure ⟨← hexToNat? a, ← (splitNonEmpty ks ".").mapM hexToNat?⟩
  | _ => none

def tx? (s : String) : Option Tx :=
  if s == "~" then some [] else (splitNonEmpty s ";").mapM ev?

def txs? (s : String) : Option (List Tx) :=
  if s == "-" then some [] else (splitNonEmpty s "|").mapM tx?

def preBlock? (s : String) : Option Block :=
  match s.splitOn "@" with
  | [bl, ts] => do pure ⟨← txs? ts, ← items? bl⟩
  | _ => none

def pre? (s : String) : Option (List Block) :=
  if s == "-" then some [] else (s.splitOn "+").mapM preBlock?

def keysF? (s : String) : Option (List (List Nat)) :=
  if s == "-" then some [] else (s.splitOn "/").mapM (fun p => if p == "_" then some [] else natList? p ",")

def showErr : Err → String
  | .empty => "err:empty"
  | .notfound => "err:notfound"
  | .range => "err:range"
  | .bounds => "err:bounds"
  | .pruned => "err:pruned"
  | .io => "err:io"

def showRes : Option Err → String
  | none => "ok"
  | some e => showErr e

def showEms (l : List Emitted) : String :=
  if l.isEmpty then "-" else ",".intercalate (l.map fun e => s!"{e.block}.{e.tx}.{e.idx}")

def showPage : PageRes → String
  | .ok evs t => s!"ok {showEms evs} tok={t.b}-{t.p}"
  | .err e => showErr e

def sortNat (l : List Nat) : List Nat := (l.toArray.qsort (· < ·)).toList

def dump (n : Node) : String :=
  let p := ",".intercalate ((sortNat (n.persisted.map (·.1))).map toString)
  let s := match n.snapshot with
    | some (a, nx) => s!"{a.from_}/{nx}"
    | none => "none"
  let c := ",".intercalate (n.cache.map (fun x => toString x.1))
  s!"P=[{p}] S={s} F={dbFloor n} R={n.running.from_}/{n.next} C=[{c}] H={n.chain.length}"

def explain (cfg : Cfg) (n : Node) (b : Nat) : String :=
  let w := b - b % cfg.W
  let (src, agg?) : String × Option Agg :=
    if w == n.running.from_ then ("running", some n.running)
    else match n.cache.lookup w with
      | some a =>
        -- a cached copy identical to the persisted window has the persisted window's defect
        (if n.persisted.lookup w == some a then "persisted" else "cache", some a)
      | none => match n.persisted.lookup w with
        | some a => ("persisted", some a)
        | none => ("none", none)
  match agg?, n.chain[b]? with
  | some a, some blk => src ++ (if blk.bloom.all (a.test b) then " sound" else " stale")
  | none, some _ => src ++ " missing"
  | _, none => "beyond-chain"

def storeN (cfg : Cfg) : Nat → Node → Node × Option Err
  | 0, n => (n, none)
  | k + 1, n =>
    match apiStore cfg n ⟨[], []⟩ with
    | (n', none) => storeN cfg k n'
    | r => r

def cps? (s : String) : Option (List Nat) :=
  if s == "-" then some [] else (s.splitOn ",").mapM hexToNat?

def cpsStr (l : List Nat) : String := String.ofList (l.map Char.ofNat)

def api? : String → Option Api
  | "v8" => some .v8
  | "v9" => some .v9
  | "v10" => some .v10
  | _ => none

/-- `some none` = omitted. -/
def blockId? (s : String) : Option (Option BlockId) :=
  if s == "-" then some none
  else if s == "latest" then some (some .latest)
  else if s == "pre" then some (some .preConfirmed)
  else if s == "l1" then some (some .l1Accepted)
  else if s == "hx" then some (some (.hash none))
  else match s.toList with
    | 'n' :: r => (hexToNat? (String.ofList r)).map (fun k => some (.number k))
    | 'h' :: r => (hexToNat? (String.ofList r)).map (fun k => some (.hash (some k)))
    | _ => none

def subId? (s : String) : Option (Option SubId) :=
  if s == "-" then some none
  else if s == "latest" then some (some .latest)
  else if s == "hx" then some (some (.hash none))
  else match s.toList with
    | 'n' :: r => (hexToNat? (String.ofList r)).map (fun k => some (.number k))
    | 'h' :: r => (hexToNat? (String.ofList r)).map (fun k => some (.hash (some k)))
    | _ => none

def optNat? (s : String) : Option (Option Nat) :=
  if s == "-" then some none else (hexToNat? s).map some

def showRpcErr : RpcErr → String
  | .invalidParams => "err:rpc:invalidparams"
  | .pageTooBig => "err:rpc:pagetoobig"
  | .tooManyKeys => "err:rpc:toomanykeys"
  | .internal => "err:rpc:internal"
  | .badToken => "err:rpc:badtoken"
  | .blockNotFound => "err:rpc:blocknotfound"
  | .tooManyBlocksBack => "err:rpc:toomanyblocksback"
  | .data e => showErr e

def showRpc : RpcRes → String
  | .ok evs t => s!"ok {showEms evs} tok={if t.isEmpty then "0-0" else cpsStr t}"
  | .err e => showRpcErr e

def bool? (s : String) : Option Bool :=
  if s == "1" then some true else if s == "0" then some false else none

def step (st : St) (line : String) : St × String :=
  match words line with
  | ["cfg", w, c, a, b, d, e] =>
    match hexToNat? w, hexToNat? c, bool? a, bool? b, bool? d, bool? e with
    | some w, some c, some a, some b, some d, some e =>
      if w == 0 || c == 0 then (st, "bad-op") else
      let cfg : Cfg := ⟨w, c, a, b, d, e⟩
      (⟨cfg, Node.init, Node.init, st.saved, Dedup.init, ⟨0⟩⟩, "ok")
    | _, _, _, _, _, _ => (st, "bad-op")
  | ["store", bl, ts] =>
    match items? bl, txs? ts with
    | some bl, some ts =>
      let r := apiStore st.cfg st.node ⟨ts, bl⟩
      ({ st with node := r.1 }, showRes r.2)
    | _, _ => (st, "bad-op")
  | ["storen", k] =>
    match hexToNat? k with
    | some k => let r := storeN st.cfg k st.node; ({ st with node := r.1 }, showRes r.2)
    | none => (st, "bad-op")
  | ["revert"] => let r := apiRevert st.cfg st.node; ({ st with node := r.1 }, showRes r.2)
  | ["snap"] => let r := apiSnap st.cfg st.node; ({ st with node := r.1 }, showRes r.2)
  | ["storefail"] => ({ st with node := reinit st.cfg st.node }, "ok")
  | ["revertfail"] => ({ st with node := reinit st.cfg st.node }, "ok")
  | ["restartcore"] => let r := restartCore st.cfg st.node; ({ st with node := r.1 }, showRes r.2)
  | ["restartfault"] => ({ st with node := Juno.C09.step st.cfg st.node .restartFault }, "ok")
  | ["restartcrash", k] =>
    match hexToNat? k with
    | some k => ({ st with node := Juno.C09.step st.cfg st.node (.restartCrash k) }, "ok")
    | none => (st, "bad-op")
  | ["tamper", "del", w] =>
    match hexToNat? w with
    | some w => ({ st with node := { st.node with persisted := st.node.persisted.del w } }, "ok")
    | none => (st, "bad-op")
  | ["tamper", "mov", a, b] =>
    match hexToNat? a, hexToNat? b with
    | some a, some b =>
      match st.node.persisted.lookup a with
      | some v => ({ st with node := { st.node with persisted := st.node.persisted.put b v } }, "ok")
      | none => (st, "err:notfound")
    | _, _ => (st, "bad-op")
  | ["restart"] => let r := restart st.cfg { st.node with coreInit := false }; ({ st with node := r.1 }, showRes r.2)
  | ["prune", k] =>
    match hexToNat? k with
    | some k => ({ st with node := prune st.cfg st.node k }, "ok")
    | none => (st, "bad-op")
  | ["mark"] => ({ st with mark := st.node }, "ok")
  | ["save"] => ({ st with saved := st.node }, "ok")
  | ["load"] => ({ st with node := st.saved }, "ok")
  | ["q", a, k, fr, to, tb, tp, ch, li] =>
    match natList? a ",", keysF? k, hexToNat? fr, hexToNat? to, hexToNat? ch, hexToNat? li with
    | some a, some k, some fr, some to, some ch, some li =>
      let tok? : Option (Option Token) :=
        if tb == "-" && tp == "-" then some none
        else match hexToNat? tb, hexToNat? tp with
          | some b, some p => some (some ⟨b, p⟩)
          | _, _ => none
      match tok? with
      | some tok =>
        let r := apiEvents st.cfg st.node ⟨a, k⟩ fr to tok ch li
        ({ st with node := r.1 }, showPage r.2)
      | none => (st, "bad-op")
    | _, _, _, _, _, _ => (st, "bad-op")
  | ["qp", a, k, fr, to, tb, tp, ch, li, base, pre] =>
    match natList? a ",", keysF? k, hexToNat? fr, hexToNat? to, hexToNat? ch, hexToNat? li, hexToNat? base, pre? pre with
    | some a, some k, some fr, some to, some ch, some li, some base, some pre =>
      let tok? : Option (Option Token) :=
        if tb == "-" && tp == "-" then some none
        else match hexToNat? tb, hexToNat? tp with
          | some b, some p => some (some ⟨b, p⟩)
          | _, _ => none
      match tok? with
      | some tok =>
        let r := apiEventsPre st.cfg st.node ⟨a, k⟩ fr to tok ch li base pre
        ({ st with node := r.1 }, showPage r.2)
      | none => (st, "bad-op")
    | _, _, _, _, _, _, _, _ => (st, "bad-op")
  | ["iter", a, k, fr, to, li] =>
    match natList? a ",", keysF? k, hexToNat? fr, hexToNat? to, hexToNat? li with
    | some a, some k, some fr, some to, some li =>
      if fr > to then (st, "ok - lim=-") else
      let r := iterCands st.cfg st.node ⟨a, k⟩ li fr to (windowsOf st.cfg.W fr to) st.node.cache [] 0
      let out := match r.1 with
        | .error e => showErr e
        | .ok (bs, lim) =>
          let l := if bs.isEmpty then "-" else ",".intercalate (bs.map toString)
          s!"ok {l} lim={match lim with | some b => toString b | none => "-"}"
      ({ st with node := { st.node with cache := r.2 } }, out)
    | _, _, _, _, _ => (st, "bad-op")
  | ["match", a, k, bl, ts] =>
    match natList? a ",", keysF? k, items? bl, txs? ts with
    | some a, some k, some bl, some ts =>
      let f : Filter := ⟨a, k⟩
      let blk : Block := ⟨ts, bl⟩
      let bits := String.ofList ((blockRaw 0 blk).map fun e => if «matches» f e.ev then '1' else '0')
      (st, s!"tb={if testBloom f blk then 1 else 0} ev={if bits.isEmpty then "-" else bits}")
    | _, _, _, _ => (st, "bad-op")
  | ["naive", a, k, fr, to] =>
    match natList? a ",", keysF? k, hexToNat? fr, hexToNat? to with
    | some a, some k, some fr, some to => (st, showEms (naive ⟨a, k⟩ st.node.chain fr to))
    | _, _, _, _ => (st, "bad-op")
  | ["tokparse", t] =>
    match cps? t with
    | some t => (st, match parseTok t with | some tk => s!"ok {tk.b}-{tk.p}" | none => "err")
    | none => (st, "bad-op")
  | ["tokprint", b, p] =>
    match hexToNat? b, hexToNat? p with
    | some b, some p => (st, cpsStr (printTok ⟨b, p⟩))
    | _, _ => (st, "bad-op")
  | ["rpc", api, fr, to, a, k, tok, ch, li, l1, base, pre] =>
    match api? api, blockId? fr, blockId? to, natList? a ",", keysF? k, cps? tok, hexToNat? ch, hexToNat? li, optNat? l1,
        hexToNat? base, pre? pre with
    | some api, some fr, some to, some a, some k, some tok, some ch, some li, some l1, some base, some pre =>
      let r := rpcEvents api st.cfg st.node ⟨l1, li, base, pre, false⟩ ⟨fr, to, a, k, tok, ch⟩
      ({ st with node := r.1 }, showRpc r.2)
    | _, _, _, _, _, _, _, _, _, _, _ => (st, "bad-op")
  | ["subscribe", api, id, a, k, l1, tol] =>
    match api? api, subId? id, natList? a ",", keysF? k, optNat? l1, bool? tol with
    | some api, some id, some a, some k, some l1, some tol =>
      (st, match subscribeEvents api st.node ⟨l1, 0, 0, [], tol⟩ a k id with
        | .ok (s, l, h) => s!"ok {s} {l} {match h with | some h => toString h | none => "-"}"
        | .error e => showRpcErr e)
    | _, _, _, _, _, _ => (st, "bad-op")
  | ["subreplay", a, k, s, l, l1] =>
    match natList? a ",", keysF? k, hexToNat? s, hexToNat? l, optNat? l1 with
    | some a, some k, s?, some l, some l1 =>
      match s? with
      | none => (st, "bad-op")
      | some s =>
        let f : Filter := ⟨a, k⟩
        let fuel := (naive f st.node.chain s l).length + st.node.chain.length + 2
        (st, match subReplay st.cfg st.node f s l fuel with
          | none => "err"
          | some evs =>
            if evs.isEmpty then "-" else
            ",".intercalate (evs.map fun e => s!"{e.block}.{e.tx}.{e.idx}/{if onL1 l1 e.block then "L1" else "L2"}"))
    | _, _, _, _, _ => (st, "bad-op")
  | ["live", a, k, num, bl, ts] =>
    match natList? a ",", keysF? k, hexToNat? num, items? bl, txs? ts with
    | some a, some k, some num, some bl, some ts => (st, showEms (matchingEvents ⟨a, k⟩ num ⟨ts, bl⟩))
    | _, _, _, _, _ => (st, "bad-op")
  | ["cacheset", ws] =>
    match natList? ws "," with
    | some ws =>
      match ws.mapM (fun w => st.node.persisted.lookup w) with
      | some aggs => ({ st with node := { st.node with cache := setMany st.cfg.cap st.node.cache aggs } }, "ok")
      | none => (st, "err:notfound")
    | none => (st, "bad-op")
  | ["v8sub", l] =>
    match hexToNat? l with
    | some l => ({ st with v8 := v8Start l }, "ok")
    | none => (st, "bad-op")
  | ["v8reorg", s] =>
    match hexToNat? s with
    | some s => ({ st with v8 := v8OnReorg st.v8 s }, "ok")
    | none => (st, "bad-op")
  | ["v8head", a, k, num] =>
    match natList? a ",", keysF? k, hexToNat? num with
    | some a, some k, some num =>
      let f : Filter := ⟨a, k⟩
      let fuel := (naive f st.node.chain st.v8.next num).length + st.node.chain.length + 2
      let r := v8OnNewHead st.cfg st.node f st.v8 num fuel
      ({ st with v8 := r.1 }, match r.2 with | some evs => showEms evs | none => "err")
    | _, _, _ => (st, "bad-op")
  | ["pcreset"] => ({ st with dd := Dedup.init }, "ok")
  | ["pcclear"] => ({ st with dd := st.dd.clear }, "ok")
  | ["pc", a, k, num, ident, hs, bl, ts] =>
    match natList? a ",", keysF? k, hexToNat? num, hexToNat? ident, natList? hs ",", items? bl, txs? ts with
    | some a, some k, some num, some ident, some hs, some bl, some ts =>
      let r := onPreConfirmed ⟨a, k⟩ st.dd num ident hs ⟨ts, bl⟩
      ({ st with dd := r.1 }, showEms r.2)
    | _, _, _, _, _, _, _ => (st, "bad-op")
  | ["marksent", num, ident, h, t, i] =>
    match hexToNat? num, hexToNat? ident, hexToNat? h, hexToNat? t, hexToNat? i with
    | some num, some ident, some h, some t, some i =>
      let r := st.dd.markSent num ident (h, t, i)
      ({ st with dd := r.1 }, if r.2 then "1" else "0")
    | _, _, _, _, _ => (st, "bad-op")
  | [op, r, w, bs] =>
    if op != "aggdec" && op != "aggenc" && op != "rundec" then (st, "bad-op") else
    match hexToNat? r, hexToNat? w, bytes? bs with
    | some r, some w, some bs =>
      if op == "rundec" then
        match Codec.unmarshalRun ⟨r, w⟩ bs with
        | .error e => (st, codecErr e)
        | .ok (m, next) => (st, s!"ok {hx m.from_} {hx m.to} {hx m.rows.length} {hx (Codec.cks m.rows.flatten)} {hx next}")
      else
        match Codec.unmarshal ⟨r, w⟩ bs with
        | .error e => (st, codecErr e)
        | .ok m =>
          if op == "aggdec" then (st, s!"ok {hx m.from_} {hx m.to} {hx m.rows.length} {hx (Codec.cks m.rows.flatten)}")
          else
            let enc := Codec.marshal ⟨r, w⟩ m
            (st, s!"ok {hx enc.length} {hx (Codec.cks enc)}")
    | _, _, _ => (st, "bad-op")
  | ["dump"] => (st, dump st.node)
  | ["explain", b] =>
    match hexToNat? b with
    | some b => (st, explain st.cfg st.mark b)
    | none => (st, "bad-op")
  | _ => (st, "bad-op")

def main : IO Unit := loop step ⟨cfg0, Node.init, Node.init, Node.init, Dedup.init, ⟨0⟩⟩
