import JunoModel.C09.ProofsPage
/-! C09 — helper lemmas, part 5: queries that continue into the pre-confirmed blocks. -/
namespace Juno.C09

theorem blkSel_congr (f : Filter) (c1 c2 : List Block) (b : Nat) (h : c1[b]? = c2[b]?) :
    blkSel f c1 b = blkSel f c2 b := by simp [blkSel, h]

theorem selFrom_congr (f : Filter) (c1 c2 : List Block) (b p : Nat) (h : c1[b]? = c2[b]?) :
    selFrom f c1 b p = selFrom f c2 b p := by simp [selFrom, h]

theorem flatMap_congr' {α β : Type} (l : List α) (f g : α → List β) (h : ∀ a ∈ l, f a = g a) :
    l.flatMap f = l.flatMap g := by
  induction l with
  | nil => rfl
  | cons x xs ih =>
    rw [List.flatMap_cons, List.flatMap_cons, h x (by simp), ih (fun a ha => h a (List.mem_cons_of_mem _ ha))]

theorem wantN_congr (f : Filter) (c1 c2 : List Block) (lo n skip : Nat)
    (h : ∀ b, lo ≤ b → b < lo + n → c1[b]? = c2[b]?) : wantN f c1 lo n skip = wantN f c2 lo n skip := by
  cases n with
  | zero => rfl
  | succ m =>
    simp only [wantN]
    rw [selFrom_congr f c1 c2 lo skip (h lo (Nat.le_refl _) (by omega))]
    congr 1
    apply flatMap_congr'
    intro b hb
    rw [List.mem_range'_1] at hb
    exact blkSel_congr f c1 c2 b (h b (by omega) (by omega))

/-- Post-condition of `scanPre` over the blocks `lo … hi` of the extended chain. -/
def PrePost (f : Filter) (full : List Block) (chunk lo hi : Nat) (acc : List Emitted) (skip : Nat) :
    List Emitted × Token → Prop
  | (acc', tok) =>
      (tok = Token.none ∧ acc' = acc ++ wantN f full lo (hi + 1 - lo) skip ∧ acc'.length ≤ chunk) ∨
      (lo ≤ tok.b ∧ tok.b ≤ hi ∧ ∃ X, acc' = acc ++ X ∧
        X ++ wantN f full tok.b (hi + 1 - tok.b) tok.p = wantN f full lo (hi + 1 - lo) skip ∧
        (tok.p = 0 ∨ selFrom f full tok.b tok.p ≠ []) ∧ acc'.length ≤ chunk ∧
        (lo < tok.b ∨ (acc.length < chunk → X ≠ [] ∧ skip < tok.p)))

theorem wantN_succ_zero (f : Filter) (full : List Block) (lo n : Nat) (h : blkSel f full lo = []) :
    wantN f full lo (n + 1) 0 = wantN f full (lo + 1) n 0 := by
  rw [wantN_zero, wantN_zero, List.range'_succ, List.flatMap_cons, h, List.nil_append]

theorem testBloom_of_sel (f : Filter) (num : Nat) (blk : Block) (hwf : ∀ it ∈ blk.items, it ∈ blk.bloom)
    (h : sel f (blockRaw num blk) ≠ []) : testBloom f blk = true := by
  have : ∃ e ∈ blockRaw num blk, «matches» f e.ev = true := by
    cases hs : sel f (blockRaw num blk) with
    | nil => exact absurd hs h
    | cons x xs =>
      have hx : x ∈ sel f (blockRaw num blk) := by rw [hs]; simp
      simp only [sel, List.mem_filter] at hx
      exact ⟨x, hx.1, hx.2⟩
  obtain ⟨e, he, hm⟩ := this
  apply mayMatch_of_matches _ f e.ev hm
  intro it hit
  simpa using hwf it (items_of_raw num blk e he it hit)

theorem scanPre_spec (f : Filter) (full : List Block) (chunk fromP toB : Nat) (rest : List Block) :
    ∀ (num : Nat) (acc : List Emitted) (skip : Nat),
      num + rest.length = full.length →
      (∀ i, rest[i]? = full[num + i]?) →
      (∀ blk ∈ rest, ∀ it ∈ blk.items, it ∈ blk.bloom) →
      (skip = 0 ∨ (num ≤ fromP ∧ fromP < full.length ∧ fromP ≤ toB ∧ selFrom f full fromP skip ≠ [])) →
      acc.length ≤ chunk →
      PrePost f full chunk (max num fromP) (min toB (full.length - 1)) acc skip
        (scanPre f chunk fromP toB num rest acc skip) := by
  induction rest with
  | nil =>
    intro num acc skip hlen _ _ hskip hacc
    simp only [List.length_nil, Nat.add_zero] at hlen
    have hs0 : skip = 0 := by
      rcases hskip with h | ⟨h1, h2, _⟩
      · exact h
      · omega
    simp only [scanPre, PrePost]
    refine Or.inl ⟨by first | rfl | trivial, ?_, hacc⟩
    have : min toB (full.length - 1) + 1 - max num fromP = 0 ∨ full.length = 0 := by
      have := Nat.min_le_right toB (full.length - 1)
      have := Nat.le_max_left num fromP
      omega
    rcases this with h | h
    · simp [h, wantN]
    · have hn : num = 0 := by omega
      subst hs0
      rw [wantN_zero]
      have : ∀ b, blkSel f full b = [] := by
        intro b
        have : full = [] := List.eq_nil_of_length_eq_zero h
        simp [blkSel, this]
      simp [this]
  | cons blk rest ih =>
    intro num acc skip hlen hidx hwf hskip hacc
    simp only [List.length_cons] at hlen
    have hget : full[num]? = some blk := by
      have := hidx 0; simpa using this.symm
    have hidx' : ∀ i, rest[i]? = full[num + 1 + i]? := by
      intro i
      have := hidx (i + 1)
      simp only [List.getElem?_cons_succ] at this
      rw [this]; congr 1; omega
    have hwf' : ∀ b ∈ rest, ∀ it ∈ b.items, it ∈ b.bloom := fun b hb => hwf b (List.mem_cons_of_mem _ hb)
    have hL1 := Nat.min_le_right toB (full.length - 1)
    have hL2 := Nat.min_le_left toB (full.length - 1)
    unfold scanPre
    by_cases h1 : num < fromP
    · simp only [h1, if_true]
      have := ih (num + 1) acc skip (by omega) hidx' hwf'
        (by
          rcases hskip with h | ⟨_, h2, h3, h4⟩
          · exact Or.inl h
          · exact Or.inr ⟨by omega, h2, h3, h4⟩)
        hacc
      have e : max (num + 1) fromP = max num fromP := by
        rw [Nat.max_eq_right (by omega), Nat.max_eq_right (by omega)]
      rw [e] at this; exact this
    · simp only [h1, if_false]
      have hmax : max num fromP = num := Nat.max_eq_left (by omega)
      rw [hmax]
      by_cases h2 : num > toB
      · simp only [h2, if_true, PrePost]
        have hs0 : skip = 0 := by
          rcases hskip with h | ⟨h3, _, h5, _⟩
          · exact h
          · omega
        refine Or.inl ⟨by first | rfl | trivial, ?_, hacc⟩
        have : min toB (full.length - 1) + 1 - num = 0 := by omega
        simp [this, wantN]
      · simp only [h2, if_false]
        have hhi : num ≤ min toB (full.length - 1) := by
          simp only [Nat.le_min]; omega
        generalize hhidef : min toB (full.length - 1) = hi at hhi hL1 hL2
        have hsF : ∀ p, selFrom f full num p = sel f ((blockRaw num blk).drop p) := by
          intro p; simp [selFrom, hget]
        have hbS : blkSel f full num = sel f (blockRaw num blk) := by simp [blkSel, hget]
        have hrec : ∀ acc', acc'.length ≤ chunk →
            PrePost f full chunk (num + 1) hi acc' 0 (scanPre f chunk fromP toB (num + 1) rest acc' 0) := by
          intro acc' hacc'
          have := ih (num + 1) acc' 0 (by omega) hidx' hwf' (Or.inl rfl) hacc'
          rw [Nat.max_eq_left (by omega), hhidef] at this
          exact this
        have hn1 : hi + 1 - num = (hi - num) + 1 := by omega
        have e1 : hi + 1 - (num + 1) = hi - num := by omega
        by_cases h3 : testBloom f blk = true
        · simp only [h3, Bool.not_true, Bool.false_eq_true, if_false]
          obtain ⟨X, hX, _, hsel, hf, ht, hcz, hne⟩ := scanGo_gen f skip chunk (blockRaw num blk) 0 acc
          simp only [Nat.sub_zero] at hsel hf ht
          cases hr : scanGo f skip chunk (blockRaw num blk) 0 acc with
          | mk acc' r2 =>
            cases r2 with
            | mk p' full' =>
              rw [hr] at hX hsel hf ht hne
              simp only at hX hsel hf ht hne
              cases full' with
              | true =>
                simp only [PrePost]
                have ht' := ht rfl
                refine Or.inr ⟨Nat.le_refl _, hhi, X, hX, ?_, Or.inr (by rw [hsF]; exact ht'.2), ?_, ?_⟩
                · rw [hn1]; simp only [wantN, hsF, ← List.append_assoc, hsel]
                · rw [hX]; simp; exact hcz hacc
                · right; intro hlt
                  have : X ≠ [] := by
                    intro h0; rw [h0] at ht'; simp at ht'; omega
                  exact ⟨this, hne this⟩
              | false =>
                simp only
                have hf' := hf rfl
                have hXe : X = selFrom f full num skip := by rw [hsF, ← hsel, hf']; simp
                have hacc' : acc'.length ≤ chunk := by rw [hX]; simp; exact hcz hacc
                have := hrec acc' hacc'
                revert this
                generalize scanPre f chunk fromP toB (num + 1) rest acc' 0 = res
                obtain ⟨a, tok⟩ := res
                simp only [PrePost]
                rintro (⟨ht0, hA, hL⟩ | ⟨g1, g2, Y, hY, hYw, hv, hl, _⟩)
                · refine Or.inl ⟨ht0, ?_, hL⟩
                  rw [hA, hX, hXe, e1, hn1, wantN_zero]; simp [wantN]
                · refine Or.inr ⟨by omega, g2, X ++ Y, by rw [hY, hX]; simp, ?_, hv, hl, Or.inl (by omega)⟩
                  rw [List.append_assoc, hYw, e1, hn1, wantN_zero, hXe]; simp [wantN]
        · have h3' : testBloom f blk = false := by simpa using h3
          simp only [h3', Bool.not_false, if_true]
          have hb0 : blkSel f full num = [] := by
            rw [hbS]
            cases hs : sel f (blockRaw num blk) with
            | nil => rfl
            | cons x xs =>
              have := testBloom_of_sel f num blk (hwf blk (by simp)) (by simp [hs])
              rw [h3'] at this; cases this
          have hs0 : skip = 0 := by
            rcases hskip with h | ⟨g1, _, _, g4⟩
            · exact h
            · have : fromP = num := by omega
              rw [this] at g4
              exact absurd hb0 (blkSel_ne_nil_of_selFrom f full num skip g4)
          subst hs0
          have := hrec acc hacc
          revert this
          generalize scanPre f chunk fromP toB (num + 1) rest acc 0 = res
          obtain ⟨a, tok⟩ := res
          simp only [PrePost]
          rintro (⟨ht0, hA, hL⟩ | ⟨g1, g2, Y, hY, hYw, hv, hl, _⟩)
          · refine Or.inl ⟨ht0, ?_, hL⟩
            rw [hA, e1, hn1, wantN_succ_zero f full num _ hb0]
          · refine Or.inr ⟨by omega, g2, Y, hY, ?_, hv, hl, Or.inl (by omega)⟩
            rw [hYw, e1, hn1, wantN_succ_zero f full num _ hb0]

/-! ### One page that may continue into the pre-confirmed blocks -/

theorem eventsPre_eq (cfg : Cfg) (n : Node) (f : Filter) (fromB toB : Nat) (tok : Option Token) (chunk limit : Nat)
    (base : Nat) (pre : List Block) :
    eventsPre cfg n f fromB toB tok chunk limit base pre =
      if pre.isEmpty then events cfg n f fromB toB tok chunk limit
      else
        match n.chain.length with
        | 0 => (.err .empty, n.cache)
        | height + 1 =>
          if startOf fromB tok ≤ (if toB != sentinel && toB ≤ height then height else base) && startOf fromB tok < n.floor then
            (.err .pruned, n.cache)
          else if toB != sentinel && toB ≤ height then canonical cfg n f chunk limit (startOf fromB tok) toB (skipOf tok)
          else if toB ≤ base then canonical cfg n f chunk limit (startOf fromB tok) toB (skipOf tok)
          else
            if startOf fromB tok ≤ base then
              match canonical cfg n f chunk limit (startOf fromB tok) base (skipOf tok) with
              | (.err e, c) => (.err e, c)
              | (.ok acc t, c) =>
                if !t.isEmpty then (.ok acc t, c)
                else
                  ((.ok (scanPre f chunk (if startOf fromB tok == sentinel then base + pre.length else startOf fromB tok)
                      toB (base + 1) pre acc 0).1
                    (scanPre f chunk (if startOf fromB tok == sentinel then base + pre.length else startOf fromB tok)
                      toB (base + 1) pre acc 0).2), c)
            else
              ((.ok (scanPre f chunk (if startOf fromB tok == sentinel then base + pre.length else startOf fromB tok)
                  toB (base + 1) pre [] (skipOf tok)).1
                (scanPre f chunk (if startOf fromB tok == sentinel then base + pre.length else startOf fromB tok)
                  toB (base + 1) pre [] (skipOf tok)).2), n.cache) := by
  cases tok <;> rfl

/-- first block a page looks at: the `pre_confirmed` tag as lower bound means the newest block -/
def loOf (fromB : Nat) (tok : Option Token) (top : Nat) : Nat :=
  if startOf fromB tok == sentinel then top else startOf fromB tok

theorem winPost_of_prePost (f : Filter) (full : List Block) (chunk limit lo hi : Nat) (skip : Nat)
    (r : List Emitted × Token) (h : PrePost f full chunk lo hi [] skip r) :
    WinPost f full chunk limit lo hi [] skip 0 (.ok r.1 r.2) := by
  obtain ⟨a, t⟩ := r
  simp only [PrePost, WinPost] at h ⊢
  rcases h with h | ⟨h1, h2, X, hX, hXw, hv, hl, hp⟩
  · exact Or.inl h
  · exact Or.inr ⟨h1, h2, X, hX, hXw, hv, hl, fun _ => hp⟩

theorem eventsPre_spec (cfg : Cfg) (n : Node) (f : Filter) (fromB toB : Nat) (tok : Option Token)
    (chunk limit height H : Nat) (pre : List Block)
    (hW : 1 ≤ cfg.W) (hchunk : 1 ≤ chunk) (hlen : n.chain.length = H + 1) (hbase : height ≤ H)
    (hB0 : (toB != sentinel && decide (toB ≤ H)) = false) (hpre : pre ≠ [])
    (hfit : H + pre.length < sentinel)
    (hwf : ChainWF n.chain) (hpwf : ∀ blk ∈ pre, ∀ it ∈ blk.items, it ∈ blk.bloom)
    (hs : Servable cfg n height) (hc : CacheGood cfg n n.cache)
    (hfl : startOf fromB tok ≤ height → n.floor ≤ startOf fromB tok)
    (hskip : skipOf tok = 0 ∨
      (selFrom f (n.chain.take (height + 1) ++ pre) (loOf fromB tok (height + pre.length)) (skipOf tok) ≠ [] ∧
        startOf fromB tok ≠ sentinel ∧ startOf fromB tok ≤ toB)) :
    WinPost f (n.chain.take (height + 1) ++ pre) chunk limit (loOf fromB tok (height + pre.length))
        (min toB (height + pre.length)) [] (skipOf tok) 0
        (eventsPre cfg n f fromB toB tok chunk limit height pre).1 ∧
      CacheGood cfg n (eventsPre cfg n f fromB toB tok chunk limit height pre).2 := by
  have htl : (n.chain.take (height + 1)).length = height + 1 := by rw [List.length_take, hlen]; omega
  have hfullLen : (n.chain.take (height + 1) ++ pre).length - 1 = height + pre.length := by
    rw [List.length_append, htl]; omega
  have hplen : 1 ≤ pre.length := by
    cases pre with
    | nil => exact absurd rfl hpre
    | cons _ _ => simp
  have hcongr : ∀ b, b ≤ height → n.chain[b]? = (n.chain.take (height + 1) ++ pre)[b]? := by
    intro b hb
    rw [List.getElem?_append_left (by rw [htl]; omega), List.getElem?_take]
    simp [show b < height + 1 by omega]
  -- lifting a canonical page over `[start, to]`, `to ≤ height`, to the extended chain
  have hcanon : ∀ start to, to ≤ height → n.floor ≤ start → (skipOf tok = 0 ∨ selFrom f n.chain start (skipOf tok) ≠ []) →
      WinPost f (n.chain.take (height + 1) ++ pre) chunk limit start to [] (skipOf tok) 0
          (canonical cfg n f chunk limit start to (skipOf tok)).1 ∧
        CacheGood cfg n (canonical cfg n f chunk limit start to (skipOf tok)).2 := by
    intro start to hto hfs hsk
    obtain ⟨hp, hcg⟩ := canonical_spec cfg n f chunk limit start to (skipOf tok) hW (by omega) hwf
      (hs.mono hto) hc hfs hsk
    refine ⟨?_, hcg⟩
    revert hp
    cases (canonical cfg n f chunk limit start to (skipOf tok)).1 with
    | err e => simp [WinPost]
    | ok acc t =>
      simp only [WinPost, List.nil_append, List.length_nil]
      have hw : ∀ lo p, wantN f n.chain lo (to + 1 - lo) p = wantN f (n.chain.take (height + 1) ++ pre) lo (to + 1 - lo) p :=
        fun lo p => wantN_congr f _ _ lo _ p (fun b _ h2 => hcongr b (by omega))
      rintro (⟨h1, h2, h3⟩ | ⟨h1, h2, X, hX, hXw, hv, hl, hp⟩)
      · exact Or.inl ⟨h1, by rw [h2, hw], h3⟩
      · refine Or.inr ⟨h1, h2, X, hX, by rw [← hw, ← hw]; exact hXw, ?_, hl, hp⟩
        rcases hv with hv | hv
        · exact Or.inl hv
        · exact Or.inr (by rw [← selFrom_congr f n.chain _ t.b t.p (hcongr t.b (by omega))]; exact hv)
  -- the canonical part does not see the skip validity of tokens pointing above the head
  have hskipChain : startOf fromB tok ≤ height → (skipOf tok = 0 ∨ selFrom f n.chain (startOf fromB tok) (skipOf tok) ≠ []) := by
    intro hle
    rcases hskip with h | ⟨h, h2, _⟩
    · exact Or.inl h
    · right
      have hl : loOf fromB tok (height + pre.length) = startOf fromB tok := by
        simp only [loOf]; have : (startOf fromB tok == sentinel) = false := by simpa using h2
        simp [this]
      rw [hl, ← selFrom_congr f n.chain _ _ _ (hcongr _ hle)] at h
      exact h
  rw [eventsPre_eq]
  have hemp : pre.isEmpty = false := by cases pre <;> simp_all
  simp only [hemp, Bool.false_eq_true, if_false]
  split
  · rename_i h0; omega
  · rename_i height' heq
    have : height' = H := by omega
    subst this
    have hsent : sentinel = 2 ^ 64 - 1 := rfl
    simp only [hB0, Bool.false_eq_true, if_false]
    have hnp : (decide (startOf fromB tok ≤ height) && decide (startOf fromB tok < n.floor)) = false := by
      simp only [Bool.and_eq_false_iff, decide_eq_false_iff_not]
      by_cases hle : startOf fromB tok ≤ height
      · right; have := hfl hle; omega
      · left; exact hle
    simp only [hnp, Bool.false_eq_true, if_false]
    by_cases hA : (toB != sentinel && decide (toB ≤ height')) = true
    · rw [hB0] at hA; cases hA
    · have hB : ¬ toB ≤ height := by
        intro hle
        simp only [Bool.and_eq_true, bne_iff_ne, ne_eq, decide_eq_true_eq, not_and] at hA
        by_cases hts : toB = sentinel
        · omega
        · exact hA hts (by omega)
      simp only [hB, if_false]
      have hhi : height + 1 ≤ min toB (height + pre.length) := by simp only [Nat.le_min]; omega
      generalize hhidef : min toB (height + pre.length) = hi at hhi
      have hhi2 : hi ≤ height + pre.length := by rw [← hhidef]; exact Nat.min_le_right _ _
      have hhi3 : hi ≤ toB := by rw [← hhidef]; exact Nat.min_le_left _ _
      have hpreSpec : ∀ fromP acc skip, acc.length ≤ chunk →
          (skip = 0 ∨ (height + 1 ≤ fromP ∧ fromP < (n.chain.take (height + 1) ++ pre).length ∧ fromP ≤ toB ∧
            selFrom f (n.chain.take (height + 1) ++ pre) fromP skip ≠ [])) →
          PrePost f (n.chain.take (height + 1) ++ pre) chunk (max (height + 1) fromP) hi acc skip
            (scanPre f chunk fromP toB (height + 1) pre acc skip) := by
        intro fromP acc skip hacc hsk
        have := scanPre_spec f (n.chain.take (height + 1) ++ pre) chunk fromP toB pre (height + 1) acc skip
          (by rw [List.length_append, htl]) (by
            intro i
            rw [List.getElem?_append_right (by rw [htl]; omega), htl]
            congr 1; omega) hpwf hsk hacc
        rw [hfullLen, hhidef] at this
        exact this
      by_cases hle : startOf fromB tok ≤ height
      · simp only [hle, if_true]
        have hst : startOf fromB tok ≠ sentinel := by omega
        have hl : loOf fromB tok (height + pre.length) = startOf fromB tok := by
          have : (startOf fromB tok == sentinel) = false := by simpa using hst
          simp [loOf, this]
        have hst' : (startOf fromB tok == sentinel) = false := by simpa using hst
        simp only [hst', Bool.false_eq_true, if_false]
        rw [hl]
        obtain ⟨hp, hcg⟩ := hcanon (startOf fromB tok) height (Nat.le_refl _) (hfl hle) (hskipChain hle)
        revert hp hcg
        generalize canonical cfg n f chunk limit (startOf fromB tok) height (skipOf tok) = cr
        obtain ⟨res, c⟩ := cr
        cases res with
        | err e => simp [WinPost]
        | ok acc t =>
          simp only [WinPost, List.nil_append, List.length_nil]
          intro hp hcg
          have hsplit : ∀ lo p, lo ≤ height → wantN f (n.chain.take (height + 1) ++ pre) lo (hi + 1 - lo) p =
              wantN f (n.chain.take (height + 1) ++ pre) lo (height + 1 - lo) p ++ wantN f (n.chain.take (height + 1) ++ pre) (height + 1) (hi - height) 0 := by
            intro lo p hlo
            have := wantN_split f (n.chain.take (height + 1) ++ pre) lo (height + 1 - lo) (hi - height) p (by omega)
            have e1 : height + 1 - lo + (hi - height) = hi + 1 - lo := by omega
            have e2 : lo + (height + 1 - lo) = height + 1 := by omega
            rw [e1, e2] at this; exact this
          rcases hp with ⟨h1, h2, h3⟩ | ⟨h1, h2, X, hX, hXw, hv, hl', hp⟩
          · -- the canonical part is exhausted: continue with the pre-confirmed blocks
            subst h1
            simp only [Token.isEmpty, Token.none, beq_self_eq_true, Bool.and_self, Bool.not_true, Bool.false_eq_true,
              if_false]
            refine ⟨?_, hcg⟩
            have := hpreSpec (startOf fromB tok) acc 0 h3 (Or.inl rfl)
            rw [Nat.max_eq_left (by omega)] at this
            revert this
            generalize scanPre f chunk (startOf fromB tok) toB (height + 1) pre acc 0 = r
            obtain ⟨a, t⟩ := r
            simp only [PrePost]
            have e1 : hi + 1 - (height + 1) = hi - height := by omega
            rintro (⟨g1, g2, g3⟩ | ⟨g1, g2, Y, hY, hYw, gv, gl, _⟩)
            · exact Or.inl ⟨g1, by rw [g2, h2, hsplit _ _ hle, e1], g3⟩
            · refine Or.inr ⟨by omega, g2, acc ++ Y, hY, ?_, gv, gl,
                fun _ => Or.inl (by omega)⟩
              rw [List.append_assoc, hYw, h2, hsplit _ _ hle, e1]
          · have hne : t.isEmpty = false := by
              have hprog := hp (by omega)
              simp only [Token.isEmpty, Bool.and_eq_false_iff, beq_eq_false_iff_ne]
              rcases hprog with h | h
              · left; omega
              · right; have := (h (by omega)).2; omega
            simp only [hne, Bool.not_false, if_true]
            refine ⟨Or.inr ⟨h1, by omega, X, hX, ?_, hv, hl', hp⟩, hcg⟩
            rw [hsplit _ _ hle, hsplit _ _ h2, ← List.append_assoc, hXw]
      · simp only [hle, if_false]
        refine ⟨?_, hc⟩
        have hlo : height + 1 ≤ loOf fromB tok (height + pre.length) := by
          simp only [loOf]; split <;> omega
        have := hpreSpec (loOf fromB tok (height + pre.length)) [] (skipOf tok) (by simp)
          (by
            rcases hskip with h | ⟨h, h2, h3⟩
            · exact Or.inl h
            · right
              have hl : loOf fromB tok (height + pre.length) = startOf fromB tok := by
                have : (startOf fromB tok == sentinel) = false := by simpa using h2
                simp [loOf, this]
              refine ⟨hlo, ?_, by rw [hl]; exact h3, h⟩
              -- a non-empty selection means the block exists
              rcases Nat.lt_or_ge (loOf fromB tok (height + pre.length)) (n.chain.take (height + 1) ++ pre).length with g | g
              · exact g
              · exfalso; apply h
                simp [selFrom, List.getElem?_eq_none g])
        rw [Nat.max_eq_right hlo] at this
        exact winPost_of_prePost f _ chunk limit _ hi _ _ this

/-! ### Following the tokens into the pre-confirmed blocks -/

/-- Paging starts with `ensureInit`: it is the paging on the node after `wake`. -/
theorem collect_wake (cfg : Cfg) (f : Filter) (fromB toB chunk limit fuel : Nat) (n : Node) (tok : Option Token)
    (h : (wake cfg n).initErr = none) :
    collect cfg f fromB toB chunk limit fuel n tok = collect cfg f fromB toB chunk limit fuel (wake cfg n) tok := by
  cases fuel with
  | zero => rfl
  | succ fuel => simp only [collect, apiEvents, wake_live cfg _ h]

theorem collectPre_wake (cfg : Cfg) (f : Filter) (fromB toB chunk limit base : Nat) (pre : List Block) (fuel : Nat)
    (n : Node) (tok : Option Token) (h : (wake cfg n).initErr = none) :
    collectPre cfg f fromB toB chunk limit base pre fuel n tok =
      collectPre cfg f fromB toB chunk limit base pre fuel (wake cfg n) tok := by
  cases fuel with
  | zero => rfl
  | succ fuel => simp only [collectPre, apiEventsPre, wake_live cfg _ h]

def ValidPre (f : Filter) (full : List Block) (fromB toB top : Nat) (tok : Option Token) : Prop :=
  skipOf tok = 0 ∨
    (selFrom f full (loOf fromB tok top) (skipOf tok) ≠ [] ∧ startOf fromB tok ≠ sentinel ∧ startOf fromB tok ≤ toB)

theorem collectPre_spec (cfg : Cfg) (f : Filter) (fromB toB chunk limit height H : Nat) (pre : List Block)
    (hW : 1 ≤ cfg.W) (hchunk : 1 ≤ chunk) (hbase : height ≤ H)
    (hB0 : (toB != sentinel && decide (toB ≤ H)) = false) (hpre : pre ≠ []) (hfit : H + pre.length < sentinel)
    (hpwf : ∀ blk ∈ pre, ∀ it ∈ blk.items, it ∈ blk.bloom) :
    ∀ (fuel : Nat) (n : Node) (tok : Option Token),
      n.chain.length = H + 1 → ChainWF n.chain → Servable cfg n height → CacheGood cfg n n.cache →
      (startOf fromB tok ≤ height → n.floor ≤ startOf fromB tok) →
      ValidPre f (n.chain.take (height + 1) ++ pre) fromB toB (height + pre.length) tok →
      (wantN f (n.chain.take (height + 1) ++ pre) (loOf fromB tok (height + pre.length))
          (min toB (height + pre.length) + 1 - loOf fromB tok (height + pre.length)) (skipOf tok)).length
        + (min toB (height + pre.length) + 1 - loOf fromB tok (height + pre.length)) < fuel →
      collectPre cfg f fromB toB chunk limit height pre fuel n tok =
        some (wantN f (n.chain.take (height + 1) ++ pre) (loOf fromB tok (height + pre.length))
          (min toB (height + pre.length) + 1 - loOf fromB tok (height + pre.length)) (skipOf tok)) := by
  intro fuel
  induction fuel with
  | zero => intro n tok _ _ _ _ _ _ h; omega
  | succ fuel ih =>
    intro n tok hlen hwf hs hc hfl hv hfuel
    unfold collectPre
    simp only [apiEventsPre, wake_live cfg n hs.live, queryPre]
    obtain ⟨hpost, hcg⟩ := eventsPre_spec cfg n f fromB toB tok chunk limit height H pre hW hchunk hlen hbase hB0 hpre hfit
      hwf hpwf hs hc hfl hv
    revert hpost
    cases hr : (eventsPre cfg n f fromB toB tok chunk limit height pre).1 with
    | err e => simp [WinPost]
    | ok evs t =>
      simp only [WinPost, List.nil_append, List.length_nil]
      rintro (⟨ht, hA, _⟩ | ⟨h1, h2, X, hX, hXw, hv', _, hp⟩)
      · subst ht
        simp [Token.isEmpty, Token.none, hA]
      · have hprog := hp (by omega)
        have hne : t.isEmpty = false := by
          simp only [Token.isEmpty, Bool.and_eq_false_iff, beq_eq_false_iff_ne]
          rcases hprog with h | h
          · left; omega
          · right; have := (h (by omega)).2; omega
        simp only [hne, Bool.false_eq_true, if_false]
        have htop : t.b ≤ height + pre.length := Nat.le_trans h2 (Nat.min_le_right _ _)
        have htoB : t.b ≤ toB := Nat.le_trans h2 (Nat.min_le_left _ _)
        have hns : t.b ≠ sentinel := by omega
        have hlo' : loOf fromB (some t) (height + pre.length) = t.b := by
          have : (t.b == sentinel) = false := by simpa using hns
          simp [loOf, startOf, this]
        have hplen : 1 ≤ pre.length := by
          cases pre with
          | nil => exact absurd rfl hpre
          | cons _ _ => simp
        have hrec := ih { n with cache := (eventsPre cfg n f fromB toB tok chunk limit height pre).2 } (some t)
          hlen hwf ⟨hs.live, hs.running, hs.persisted⟩ hcg
          (by
            intro hle
            show n.floor ≤ t.b
            have hle' : t.b ≤ height := hle
            have hlo : loOf fromB tok (height + pre.length) ≤ t.b := h1
            simp only [loOf] at hlo
            split at hlo
            · omega
            · have := hfl (by omega); omega)
          (by
            rcases hv' with h | h
            · exact Or.inl h
            · exact Or.inr ⟨by rw [hlo']; exact h, hns, htoB⟩)
          (by
            rw [hlo']
            simp only [skipOf]
            have hl := congrArg List.length hXw
            simp only [List.length_append] at hl
            rcases hprog with h | h
            · omega
            · have hx := (h (by omega)).1
              have : X.length ≥ 1 := by
                cases X with
                | nil => exact absurd rfl hx
                | cons _ _ => simp
              omega)
        rw [hlo'] at hrec
        simp only [skipOf] at hrec
        rw [hrec, hX, ← hXw]
        simp

end Juno.C09
